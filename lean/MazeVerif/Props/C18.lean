import MazeVerif.Lemmas.Cfg
/-! # C18 — configurations round-trip exactly and have stable, discriminating identities

Model: `MZ.Cfg` (`Model/Cfg.lean`): `serializeCfg` / `loadCfg` mirror `MazeDatasetConfig.serialize` / `.load`
(muutils' per-field loop + the custom field functions of maze_dataset.py:82-133 and dataset.py:44-60 +
`__post_init__`), `toJson` = what `json.loads(json.dumps(·))` does to a value (tuples → lists),
`stableHashCfg` = `stable_hash(json.dumps(serialize()))` with `json.dumps` and sha256 as parameters, `toFname`.
The generator table is `MZ.Gen.generatorsMap`, re-emitted from generators.py on every run.
Only property theorems and their non-vacuity examples live here. -/
namespace MZ.Cfg
open MZ.Gen

/-- Full statement of C18 on the model (proved below as `C18_full_holds`); `gens` is the registered table. -/
def C18_full : Prop :=
  -- load ∘ serialize = id, directly and through JSON text
  (∀ info c, wf generatorsMap c → loadCfg generatorsMap (serializeCfg info c) = .ok c) ∧
  (∀ info c, wf generatorsMap c → jsonNative c = true → loadCfg generatorsMap (toJson (serializeCfg info c)) = .ok c) ∧
  -- serialized content separates configurations (any differing field, n_mazes included)
  (∀ info c1 c2, wf generatorsMap c1 → wf generatorsMap c2 → jsonNative c1 = true → jsonNative c2 = true →
      c1 ≠ c2 → toJson (serializeCfg info c1) ≠ toJson (serializeCfg info c2)) ∧
  -- the hash is a function of the serialized JSON content …
  (∀ (τ : Type) (dumps : Py → τ) (sha : τ → Nat) info c1 c2, (∀ x, dumps x = dumps (toJson x)) →
      toJson (serializeCfg info c1) = toJson (serializeCfg info c2) →
      stableHashCfg dumps sha info c1 = stableHashCfg dumps sha info c2) ∧
  -- … and separates configurations up to collisions of sha256 on the two texts
  (∀ (τ : Type) (dumps : Py → τ) (sha : τ → Nat) info c1 c2, wf generatorsMap c1 → wf generatorsMap c2 →
      jsonNative c1 = true → jsonNative c2 = true → (∀ x y, dumps x = dumps y → toJson x = toJson y) →
      (sha (dumps (serializeCfg info c1)) = sha (dumps (serializeCfg info c2)) →
        dumps (serializeCfg info c1) = dumps (serializeCfg info c2)) →
      c1 ≠ c2 → stableHashCfg dumps sha info c1 ≠ stableHashCfg dumps sha info c2) ∧
  -- every registered generator is registered under its own method name (what `wf` asks of `maze_ctor`)
  (∀ kv ∈ generatorsMap, kv.1 = kv.2 ∧ lookupGen generatorsMap kv.1 = some kv.1) ∧
  -- file name: name, grid size, maze count, generator, last five digits of the hash
  (∀ isAlnum shorten hash c, (∀ ch : Char, ch.isAlphanum = true → isAlnum ch = true) →
      toFname isAlnum shorten hash c =
        sanitize isAlnum c.name.toList ++ ['-', 'g'] ++ intStr c.gridN ++ ['-', 'n'] ++ sanitize isAlnum (shorten c.nMazes)
          ++ ['-', 'a', '_'] ++ sanitize isAlnum (removePrefix ['g', 'e', 'n', '_'] c.mazeCtor.toList)
          ++ ['-', 'h'] ++ natDigits (hash % 100000))

/-! ## round trip -/

/-- `MazeDatasetConfig.load(cfg.serialize()) == cfg` with every field restored (generator, kwargs, endpoint options
    with coordinate tuples, seed, recorded filters with tuple args), for all well-formed configurations -/
theorem C18_rt (gens : List (String × String)) (info : String → List (String × Py)) (c : Cfg) (h : wf gens c) :
    loadCfg gens (serializeCfg info c) = .ok c := by
  obtain ⟨name, lo, hi, seed, fs, g, n, ctor, kw, ep⟩ := c
  obtain ⟨h1, h2⟩ := h
  simp only at h1 h2
  simp [serializeCfg, loadCfg, lookup, reqStr, optInt, reqInt, loadSeed, loadFiltersOpt, loadFilters, loadCtorOpt,
    loadMazeCtor, loadKwargs, loadEndpointKwargs, loadFilterList_map, loadEpKV_epKVToPy, h1, h2]

/-- the same through JSON text (`json.loads(json.dumps(cfg.serialize()))`): lists are turned back into tuples
    exactly where the configuration holds tuples -/
theorem C18_rt_json (gens : List (String × String)) (info : String → List (String × Py)) (c : Cfg) (h : wf gens c)
    (hn : jsonNative c = true) : loadCfg gens (toJson (serializeCfg info c)) = .ok c := by
  obtain ⟨name, lo, hi, seed, fs, g, n, ctor, kw, ep⟩ := c
  obtain ⟨h1, h2⟩ := h
  simp only [jsonNative, Bool.and_eq_true] at hn
  simp only at h1 h2
  simp [serializeCfg, toJson, toJsonKV, toJsonL, loadCfg, lookup, reqStr, optInt, reqInt, loadSeed, loadFiltersOpt,
    loadFilters, loadCtorOpt, loadMazeCtor, loadKwargs, loadEndpointKwargs, loadFilterList_json fs hn.1.1,
    loadEpKV_json ep hn.2, toJsonKV_id kw hn.1.2, h1, h2]

/-- a name that is not a key of `GENERATORS_MAP` is refused with KeyError, never silently replaced -/
theorem C18_unknown_generator (gens : List (String × String)) (d : List (String × Py)) (n : String)
    (hn : lookupGen gens n = none) : loadMazeCtor gens (.dict (("__name__", .str n) :: d)) = .error .KeyError := by
  simp [loadMazeCtor, lookup, hn]

/-! ## injectivity -/

/-- configurations that differ in any field (name, sequence lengths, seed, filters, grid size, maze count,
    generator, generator arguments, endpoint options) have different serialized JSON content -/
theorem C18_serialize_injective (gens : List (String × String)) (info : String → List (String × Py)) (c1 c2 : Cfg)
    (w1 : wf gens c1) (w2 : wf gens c2) (n1 : jsonNative c1 = true) (n2 : jsonNative c2 = true)
    (h : toJson (serializeCfg info c1) = toJson (serializeCfg info c2)) : c1 = c2 := by
  have e1 := C18_rt_json gens info c1 w1 n1
  have e2 := C18_rt_json gens info c2 w2 n2
  rw [h, e2] at e1
  injection e1 with e1
  exact e1.symm

/-- … and different in-memory serialized dicts, with no JSON-nativeness needed -/
theorem C18_serialize_injective_py (gens : List (String × String)) (info : String → List (String × Py)) (c1 c2 : Cfg)
    (w1 : wf gens c1) (w2 : wf gens c2) (h : serializeCfg info c1 = serializeCfg info c2) : c1 = c2 := by
  have e1 := C18_rt gens info c1 w1
  have e2 := C18_rt gens info c2 w2
  rw [h, e2] at e1
  injection e1 with e1
  exact e1.symm

/-! ## hash -/

/-- the hash depends only on the serialized JSON content (nothing else enters: no object identity, no
    interpreter hash seed), for every `json.dumps` that writes tuples as lists and every digest function -/
theorem C18_hash_fun_of_content {τ} (dumps : Py → τ) (sha : τ → Nat) (info : String → List (String × Py)) (c1 c2 : Cfg)
    (hd : ∀ x, dumps x = dumps (toJson x))
    (h : toJson (serializeCfg info c1) = toJson (serializeCfg info c2)) :
    stableHashCfg dumps sha info c1 = stableHashCfg dumps sha info c2 := by
  unfold stableHashCfg
  rw [hd (serializeCfg info c1), hd (serializeCfg info c2), h]

/-- different configurations have different hashes unless sha256 collides on their two JSON texts -/
theorem C18_hash_discriminates {τ} (gens : List (String × String)) (dumps : Py → τ) (sha : τ → Nat)
    (info : String → List (String × Py)) (c1 c2 : Cfg)
    (w1 : wf gens c1) (w2 : wf gens c2) (n1 : jsonNative c1 = true) (n2 : jsonNative c2 = true)
    (hd : ∀ x y, dumps x = dumps y → toJson x = toJson y)
    (hsha : sha (dumps (serializeCfg info c1)) = sha (dumps (serializeCfg info c2)) →
      dumps (serializeCfg info c1) = dumps (serializeCfg info c2))
    (hne : c1 ≠ c2) : stableHashCfg dumps sha info c1 ≠ stableHashCfg dumps sha info c2 := by
  intro h
  exact hne (C18_serialize_injective gens info c1 c2 w1 w2 n1 n2 (hd _ _ (hsha h)))

/-- the table generated from generators.py registers every generator under its own method name, so the
    name written by `serialize` finds the same function again -/
theorem C18_generators_registered_by_name :
    ∀ kv ∈ generatorsMap, kv.1 = kv.2 ∧ lookupGen generatorsMap kv.1 = some kv.1 := by
  decide

/-! ## file name -/

/-- `to_fname` = sanitized name, `-g` grid size, `-n` shortened maze count, `-a_` generator name without `gen_`,
    `-h` the hash modulo 10^5 in decimal (at most five digits) -/
theorem C18_fname_shape (isAlnum : Char → Bool) (shorten : Int → List Char) (hash : Nat) (c : Cfg)
    (hl : ∀ ch : Char, ch.isAlphanum = true → isAlnum ch = true) :
    toFname isAlnum shorten hash c =
      sanitize isAlnum c.name.toList ++ ['-', 'g'] ++ intStr c.gridN ++ ['-', 'n'] ++ sanitize isAlnum (shorten c.nMazes)
        ++ ['-', 'a', '_'] ++ sanitize isAlnum (removePrefix ['g', 'e', 'n', '_'] c.mazeCtor.toList)
        ++ ['-', 'h'] ++ natDigits (hash % 100000) ∧ hash % 100000 < 100000 := by
  have hd : ∀ d, d < 10 → isAlnum (digitChar d) = true := by
    intro d hd
    apply hl
    have : d = 0 ∨ d = 1 ∨ d = 2 ∨ d = 3 ∨ d = 4 ∨ d = 5 ∨ d = 6 ∨ d = 7 ∨ d = 8 ∨ d = 9 := by omega
    rcases this with h | h | h | h | h | h | h | h | h | h <;> subst h <;> decide
  have g : isAlnum 'g' = true := hl _ (by decide)
  have n : isAlnum 'n' = true := hl _ (by decide)
  have a : isAlnum 'a' = true := hl _ (by decide)
  have hh : isAlnum 'h' = true := hl _ (by decide)
  refine ⟨?_, Nat.mod_lt _ (by decide)⟩
  unfold toFname
  simp only [sanitize_append, sanitize_intStr isAlnum hd, sanitize_natDigits isAlnum hd]
  have l1 : sanitize isAlnum ['-', 'g'] = ['-', 'g'] := by simp [sanitize, g]
  have l2 : sanitize isAlnum ['-', 'n'] = ['-', 'n'] := by simp [sanitize, n]
  have l3 : sanitize isAlnum ['-', 'a', '_'] = ['-', 'a', '_'] := by simp [sanitize, a]
  have l4 : sanitize isAlnum ['-', 'h'] = ['-', 'h'] := by simp [sanitize, hh]
  rw [l1, l2, l3, l4]

/-- the collection's file name: `collected-`, sanitized name, `-n` count, `-h` hash modulo 10^5 -/
theorem C18_fname_collection_shape (isAlnum : Char → Bool) (shorten : Int → List Char) (hash : Nat) (name : String) (n : Int)
    (hl : ∀ ch : Char, ch.isAlphanum = true → isAlnum ch = true) :
    toFnameCollection isAlnum shorten hash name n =
      "collected-".toList ++ sanitize isAlnum name.toList ++ ['-', 'n'] ++ sanitize isAlnum (shorten n)
        ++ ['-', 'h'] ++ natDigits (hash % 100000) := by
  have hd : ∀ d, d < 10 → isAlnum (digitChar d) = true := by
    intro d hd
    apply hl
    have : d = 0 ∨ d = 1 ∨ d = 2 ∨ d = 3 ∨ d = 4 ∨ d = 5 ∨ d = 6 ∨ d = 7 ∨ d = 8 ∨ d = 9 := by omega
    rcases this with h | h | h | h | h | h | h | h | h | h <;> subst h <;> decide
  have hn : isAlnum 'n' = true := hl _ (by decide)
  have hh : isAlnum 'h' = true := hl _ (by decide)
  unfold toFnameCollection
  simp only [sanitize_append, sanitize_natDigits isAlnum hd]
  have l0 : sanitize isAlnum "collected-".toList = "collected-".toList := by
    have e : "collected-".toList = ['c', 'o', 'l', 'l', 'e', 'c', 't', 'e', 'd', '-'] := by decide
    rw [e]
    simp [sanitize, hl 'c' (by decide), hl 'o' (by decide), hl 'l' (by decide), hl 'e' (by decide),
      hl 't' (by decide), hl 'd' (by decide)]
  have l2 : sanitize isAlnum ['-', 'n'] = ['-', 'n'] := by simp [sanitize, hn]
  have l4 : sanitize isAlnum ['-', 'h'] = ['-', 'h'] := by simp [sanitize, hh]
  rw [l0, l2, l4]

theorem C18_full_holds : C18_full := by
  refine ⟨fun info c h => C18_rt _ info c h, fun info c h hn => C18_rt_json _ info c h hn,
    fun info c1 c2 w1 w2 n1 n2 hne h => hne (C18_serialize_injective _ info c1 c2 w1 w2 n1 n2 h),
    fun τ dumps sha info c1 c2 hd h => C18_hash_fun_of_content dumps sha info c1 c2 hd h,
    fun τ dumps sha info c1 c2 w1 w2 n1 n2 hd hsha hne => C18_hash_discriminates _ dumps sha info c1 c2 w1 w2 n1 n2 hd hsha hne,
    C18_generators_registered_by_name,
    fun isAlnum shorten hash c hl => (C18_fname_shape isAlnum shorten hash c hl).1⟩

/-! ## non-vacuity -/
section examples
private def exCfg : Cfg :=
  { name := "te st", seqLenMin := 1, seqLenMax := 512, seed := 5,
    appliedFilters := [⟨.str "path_length", [.int 3], []⟩, ⟨.str "collect_generation_meta", [], [("clear_in_mazes", .bool true)]⟩],
    gridN := 3, nMazes := 1234, mazeCtor := "gen_dfs_percolation", mazeCtorKwargs := [("p", .float "0.1")],
    endpointKwargs := [("allowed_start", .coords [[.int 0, .int 0], [.int 1, .int 1]]), ("deadend_end", .bool true),
                       ("allowed_end", .none)] }
private def exInfo : String → List (String × Py) := fun n =>
  [("__module__", .str "maze_dataset.generation.generators"), ("__doc__", .list [.str n]), ("source_code", .list [])]

example : wf generatorsMap exCfg ∧ jsonNative exCfg = true := by
  refine ⟨⟨by decide, by decide⟩, by decide⟩
-- the serialized form really contains tuples that JSON turns into lists (so C18_rt_json is not C18_rt)
example : tupleFree (serializeCfg exInfo exCfg) = false := by decide
example : (loadCfg generatorsMap (toJson (serializeCfg exInfo exCfg))).toOption.map (·.endpointKwargs.length) = some 3 := by
  rw [C18_rt_json generatorsMap exInfo exCfg ⟨by decide, by decide⟩ (by decide)]; rfl
-- loading fails where the code fails
example : loadCfg generatorsMap (serializeCfg exInfo { exCfg with mazeCtor := "gen_nope" }) = .error .KeyError := by
  simp [serializeCfg, loadCfg, lookup, reqStr, optInt, reqInt, loadSeed, loadFiltersOpt, loadFilters, loadCtorOpt,
    loadMazeCtor, lookupGen, generatorsMap, loadKwargs, loadEndpointKwargs, loadFilterList, loadFilter, epKVToPy, epToPy,
    loadEpKV, loadEpVal, coordsOf, filterToPy, exCfg]
example : loadCfg generatorsMap (serializeCfg exInfo { exCfg with seqLenMin := 600 }) = .error .AssertionError := by
  simp [serializeCfg, loadCfg, lookup, reqStr, optInt, reqInt, loadSeed, loadFiltersOpt, loadFilters, loadCtorOpt,
    loadMazeCtor, lookupGen, generatorsMap, loadKwargs, loadEndpointKwargs, loadFilterList, loadFilter, epKVToPy, epToPy,
    loadEpKV, loadEpVal, coordsOf, filterToPy, exCfg]
-- file name of the example with hash ≡ 67440: "test-g3-n1.2K-a_dfs_percolation-h67440"
example : toFname Char.isAlphanum (fun _ => "1.2K".toList) 1234567440 exCfg = "test-g3-n1.2K-a_dfs_percolation-h67440".toList := by
  decide
example : natDigits 0 = ['0'] ∧ natDigits 90817 = ['9', '0', '8', '1', '7'] ∧ intStr (-12) = ['-', '1', '2'] := by decide
end examples

end MZ.Cfg
