import MazeVerif.DriverOps.Util
namespace MZ.Drv.C03
open Lean MZ.Drv

/-- driver ops of property C03 (`"op": "C03.<name>"`) -/
def handle (op : String) (_j : Json) : R Json := do
  match op with
  | _ => throw s!"unknown op {op}"

end MZ.Drv.C03
