import MazeVerif.Model.TokPath
/-! Prompt sequencers `AOTP` / `AOP`, `_get_prompt_regions`, `_trim_if_unsolved_maze`, `tokens_between`
    (maze_tokenizer.py:1693-1900, token_utils.py:34-68), target tokenizer `Unlabeled(post)` (maze_tokenizer.py:1277-1320);
    the whole-sequence model `toTokens`, the independent whole-sequence decoder `decode`, and the specification record `info`.
    Core Lean only.  Valid space: 9 coord × 216 adjacency × (AOTP: 2 target × 1008 path | AOP: 1008 path) = 5 878 656. -/
namespace MZ.Tok

inductive Prompt
  | aotp (targetPost : Bool)     -- AOTP(target_tokenizer = Unlabeled(post))
  | aop
deriving DecidableEq, Repr

structure TokCfg where
  ct : CoordTok
  adj : AdjCfg
  prompt : Prompt
  path : PathCfg
deriving DecidableEq, Repr

/-- the three maze kinds as the prompt sequencer distinguishes them (`hasattr(maze, "start_pos")`, `hasattr(maze, "solution")`) -/
inductive MazeIn
  | plain (m : Maze)
  | targeted (m : Maze) (s e : C)
  | solved (m : Maze) (s e : C) (sol : List C)

def MazeIn.maze : MazeIn → Maze
  | .plain m => m | .targeted m _ _ => m | .solved m _ _ _ => m

/-- `TargetTokenizers.Unlabeled.to_tokens([end_pos], coord_tokenizer)`; AOP has no target tokenizer -/
def targetToks (p : Prompt) (ct : CoordTok) (e : C) : List Tok :=
  match p with
  | .aotp post => coordToks ct e ++ opt post .targetPost
  | .aop => []

/-- the part of its `target` argument that `_sequence_tokens` emits: AOTP all of it, AOP nothing -/
def targetPart (p : Prompt) (t : List Tok) : List Tok := match p with | .aotp _ => t | .aop => []

/-- the target coordinates a reader finds in the target region: AOTP `[end_pos]`, AOP none -/
def targetList (p : Prompt) (e : C) : List C := match p with | .aotp _ => [e] | .aop => []

/-- `AOTP._sequence_tokens` / `AOP._sequence_tokens` (AOP ignores its `target` argument) -/
def sequenceToks (p : Prompt) (adj origin target path : List Tok) : List Tok :=
  [Tok.adjStart] ++ adj ++ [Tok.adjEnd, Tok.originStart] ++ origin ++ [Tok.originEnd, Tok.targetStart] ++
    targetPart p target ++ [Tok.targetEnd, Tok.pathStart] ++ path ++ [Tok.pathEnd]

/-- `token_utils.tokens_between` (ValueError / AssertionError = `none`) -/
def tokensBetween (ts : List Tok) (s e : Tok) (inclS inclE : Bool) : Option (List Tok) :=
  if s = e then none
  else if !(ts.contains s) || !(ts.contains e) then none
  else
    let si := ts.idxOf s + (if inclS then 0 else 1)
    let ei := ts.idxOf e + (if inclE then 1 else 0)
    if si < ei then some ((ts.take ei).drop si) else none

/-- `_trim_if_unsolved_maze(untrimmed, is_untargeted, is_unsolved)` -/
def trimIfUnsolved (untrimmed : List Tok) (isUntargeted isUnsolved : Bool) : Option (List Tok) :=
  if isUntargeted then tokensBetween untrimmed .adjStart .adjEnd true true
  else if isUnsolved then
    if untrimmed.contains .targetEnd then tokensBetween untrimmed .adjStart .targetEnd true true
    else tokensBetween untrimmed .adjStart .originEnd true true
  else some untrimmed

/-- `MazeTokenizerModular.to_tokens(maze)` given the emission order of the adjacency region -/
def toTokens (cfg : TokCfg) (mz : MazeIn) (order : List OE) : Option (List Tok) :=
  match adjToks cfg.adj cfg.ct mz.maze order with
  | none => none
  | some adj =>
    match mz with
    | .plain _ => trimIfUnsolved (sequenceToks cfg.prompt adj [] [] []) true true
    | .targeted _ s e =>
      trimIfUnsolved (sequenceToks cfg.prompt adj (coordToks cfg.ct s) (targetToks cfg.prompt cfg.ct e) []) false true
    | .solved m s e sol =>
      match pathToks cfg.path cfg.ct m sol with
      | none => none
      | some path =>
        trimIfUnsolved (sequenceToks cfg.prompt adj (coordToks cfg.ct s) (targetToks cfg.prompt cfg.ct e) path) false false

/-! ## specification record and decoder -/

/-- everything an independent reader must be able to recover -/
structure Info where
  edges : List EdgeInfo
  origin : Option C            -- `none`: no origin region (untargeted maze)
  target : Option (List C)     -- `none`: no target region; `some []`: AOP's empty target region; `some [e]`: AOTP
  path : Option PathInfo       -- `none`: no path region (unsolved maze)
deriving DecidableEq, Repr

instance (E : List Edge) (a b : Cell) : Decidable (MZ.Adj E a b) := by unfold MZ.Adj; exact inferInstance

/-- semantic adjacency of two coords in the maze (shared definition `MZ.Adj` on the stored edge list) -/
def adjB (m : Maze) (a b : C) : Bool := decide (MZ.Adj m.edges (cellOf a) (cellOf b))

/-- the oriented edge list labelled connection/wall *from `Adj`* -/
def edgeInfos (m : Maze) (order : List OE) : List EdgeInfo := order.map fun e => ⟨e.1, e.2, adjB m e.1 e.2⟩

/-- the specification record (what the tokens must encode), independent of token layout -/
def info (cfg : TokCfg) (mz : MazeIn) (order : List OE) : Option Info :=
  match mz with
  | .plain m => some ⟨edgeInfos m order, none, none, none⟩
  | .targeted m s e => some ⟨edgeInfos m order, some s, some (targetList cfg.prompt e), none⟩
  | .solved m s e sol =>
    (pathInfo cfg.path m sol).map fun p =>
      ⟨edgeInfos m order, some s, some (targetList cfg.prompt e), some p⟩

def parseTarget (p : Prompt) (ct : CoordTok) (ts : List Tok) : Option (List C × List Tok) :=
  match p with
  | .aop => some ([], ts)
  | .aotp post =>
    match parseCoord ct ts with
    | none => none
    | some (c, ts) =>
      match eat post .targetPost ts with
      | none => none
      | some ts => some ([c], ts)

/-- independent decoder configured only from the tokenizer parameters; accepts exactly the region layouts
    `A`, `A O T`, `A O T P`, each region delimited once, in that order, nothing before, between or after -/
def decode (cfg : TokCfg) (ts : List Tok) : Option Info :=
  match ts with
  | .adjStart :: ts =>
    match parseMany .adjEnd (parseEdge cfg.adj cfg.ct) (ts.length + 1) ts with
    | none => none
    | some (es, ts) =>
      match ts with
      | [.adjEnd] => some ⟨es, none, none, none⟩
      | .adjEnd :: .originStart :: ts =>
        match parseCoord cfg.ct ts with
        | none => none
        | some (o, ts) =>
          match ts with
          | .originEnd :: .targetStart :: ts =>
            match parseTarget cfg.prompt cfg.ct ts with
            | none => none
            | some (tg, ts) =>
              match ts with
              | [.targetEnd] => some ⟨es, some o, some tg, none⟩
              | .targetEnd :: .pathStart :: ts =>
                match parsePath cfg.path cfg.ct .pathEnd ts with
                | none => none
                | some (p, ts) =>
                  match ts with
                  | [.pathEnd] => some ⟨es, some o, some tg, some p⟩
                  | _ => none
              | _ => none
          | _ => none
      | _ => none
  | _ => none

end MZ.Tok
