import MazeVerif.Model.Grid
import MazeVerif.Generated.Constants
/-! Model of `maze_dataset/plotting/plot_maze.py` (core Lean only).

* `latticeMazeToImg`  — `MazePlot._lattice_maze_to_img` (plot_maze.py:397-476), pixel values symbolic;
* `rowcolToCoord2`, `plotPath`, `plotArtists` — `_rowcol_to_coord` (294-297), `_plot_path` (478-538), the path part of
  `plot` (284-292), coordinates in *doubled* integers (`2·ul·(x+½) = ul·(2x+1)`), so no floats occur;
* `MazeObj`, `mkSolved`, `newPlot`, `solvedMaze`, `toAscii` — constructor (154-158), `solved_maze` (160-169), `to_ascii` (540-550);
* `asPixels`, `asAscii` — the part of `lattice_maze.py` (`_as_pixels_bw` 755-778, `as_pixels` 780-836, `_as_ascii_grid`,
  `as_ascii` 1018-1039) that `to_ascii` delegates to, for in-grid solutions (anything else is the explicit `outOfModel` value).

matplotlib's `imshow` / `plot` / `quiver` are external: the model stops at the array handed to `imshow` and at the vertex
data handed to `plot` / `quiver`. -/
namespace MZ.Plot

/-! ## image -/

/-- symbolic pixel value of the float image.
    `wall` = the background `-1.0`; `one` = default node value `1.0` (`np.ones`); `conn` = `1.0 * connection_val_scale`;
    `val v` = a supplied node value; `nan` = `np.nan` (drawn black through `cmap.set_bad`). -/
inductive Px (α : Type) where
  | wall | one | conn | val (v : α) | nan
  deriving DecidableEq, Repr

/-- image as a function `img y x` (`y` = first numpy index = row of pixels, `x` = second index) -/
abbrev Img (α : Type) := Nat → Nat → Px α

/-- numpy slice assignment `img[r0:r1, c0:c1] = v` (half-open ranges) -/
def setRect {α} (img : Img α) (r0 r1 c0 c1 : Nat) (v : Px α) : Img α :=
  fun y x => if r0 ≤ y ∧ y < r1 ∧ c0 ≤ x ∧ x < c1 then v else img y x

/-- `connection_list[d, r, c]` of a maze given by its `True` entries -/
def connB (E : List Edge) (d r c : Nat) : Bool := E.contains (d, (r : Int), (c : Int))

/-- what lines 425-438 compute before drawing -/
structure Setup (α : Type) where
  nodeVal : Nat → Nat → Px α        -- `scaled_node_values[row, col]`
  connVal : Nat → Nat → Px α        -- `connection_values[row, col]`
  hack : Nat                        -- `node_bdry_hack`
  processed : Nat → Nat → Nat → Bool -- `connection_list_processed[d, row, col]`

/-- plot_maze.py:425-438: without node values the connection list is *inverted* and connections get `0.93·1`;
    with node values the list is used as is, connection values are NaN and the node block grows by one pixel. -/
def setup {α} (E : List Edge) (nv : Option (Nat → Nat → α)) : Setup α :=
  match nv with
  | none => { nodeVal := fun _ _ => .one, connVal := fun _ _ => .conn, hack := 0,
              processed := fun d r c => !(connB E d r c) }
  | some f => { nodeVal := fun r c => .val (f r c), connVal := fun _ _ => .nan, hack := 1,
                processed := fun d r c => connB E d r c }

/-- body of the double loop, plot_maze.py:452-474 -/
def drawCell {α} (ul : Nat) (s : Setup α) (img : Img α) (rc : Nat × Nat) : Img α :=
  let row := rc.1
  let col := rc.2
  -- Draw node
  let img1 := setRect img (row * ul + 1) ((row + 1) * ul + s.hack) (col * ul + 1) ((col + 1) * ul + s.hack) (s.nodeVal row col)
  -- Down connection
  let img2 := if !(s.processed 0 row col)
    then setRect img1 ((row + 1) * ul) ((row + 1) * ul + 1) (col * ul + 1) ((col + 1) * ul) (s.connVal row col) else img1
  -- Right connection
  let img3 := if !(s.processed 1 row col)
    then setRect img2 (row * ul + 1) ((row + 1) * ul) ((col + 1) * ul) ((col + 1) * ul + 1) (s.connVal row col) else img2
  img3

/-- `for row in range(rows): for col in range(cols)` -/
def cellsN (rows cols : Nat) : List (Nat × Nat) :=
  (List.range rows).flatMap fun r => (List.range cols).map fun c => (r, c)

/-- `_lattice_maze_to_img`: (height, width, pixels). Background all `-1`. -/
def latticeMazeToImg {α} (rows cols : Nat) (E : List Edge) (ul : Nat) (nv : Option (Nat → Nat → α)) : Nat × Nat × Img α :=
  (rows * ul + 1, cols * ul + 1, (cellsN rows cols).foldl (drawCell ul (setup E nv)) (fun _ _ => .wall))

/-- the pixel array of the image -/
def pixels {α} (rows cols : Nat) (E : List Edge) (ul : Nat) (nv : Option (Nat → Nat → α)) : Img α :=
  (latticeMazeToImg rows cols E ul nv).2.2

/-- value a cell block must carry -/
def nodePx {α} (nv : Option (Nat → Nat → α)) (r c : Nat) : Px α :=
  match nv with | none => .one | some f => .val (f r c)
/-- value of a strip drawn as passage (with node values: the colour of the cell above / to the left) -/
def passagePx {α} (nv : Option (Nat → Nat → α)) (r c : Nat) : Px α :=
  match nv with | none => .conn | some f => .val (f r c)
/-- value of a strip drawn as wall -/
def wallPx {α} (nv : Option (Nat → Nat → α)) : Px α :=
  match nv with | none => .wall | some _ => .nan

/-! ## paths -/

/-- `_rowcol_to_coord` in doubled integers: `(x, y) = ul·((col, row) + ½)` ↦ `(ul·(2·col+1), ul·(2·row+1))` -/
def rowcolToCoord2 (ul : Nat) (p : Cell) : Int × Int :=
  ((ul : Int) * (2 * p.2 + 1), (ul : Int) * (2 * p.1 + 1))

/-- what is handed to matplotlib for one path -/
inductive Artist where
  | line (pts : List (Int × Int))                 -- `ax.plot(x, y, …)`
  | quiver (X Y U V : List Int)                   -- `ax.quiver(x[:-1], y[:-1], x[1:]-x[:-1], y[1:]-y[:-1], …)`
  deriving DecidableEq, Repr

/-- `x[1:] - x[:-1]` -/
def diffs (l : List Int) : List Int := List.zipWith (· - ·) l.tail l.dropLast

/-- `_plot_path` (plot_maze.py:478-538): `[]` for an empty path (warning, nothing drawn); otherwise the main artist
    (a line, or a quiver when `quiver_kwargs is not None`), the start marker `"o"` and the end marker `"x"`. -/
def plotPath (ul : Nat) (quiver : Bool) (path : List Cell) : List Artist :=
  match path with
  | [] => []
  | a :: rest =>
    let p := (a :: rest).map (rowcolToCoord2 ul)
    let x := p.map Prod.fst
    let y := p.map Prod.snd
    let main := if quiver then Artist.quiver x.dropLast y.dropLast (diffs x) (diffs y) else Artist.line p
    [main, .line [rowcolToCoord2 ul a], .line [rowcolToCoord2 ul ((a :: rest).getLast (List.cons_ne_nil _ _))]]

/-- path part of `plot` (284-288): the true path first, then the predicted paths in insertion order.
    Each predicted path carries its `quiver_kwargs is not None` flag (default format: `True`; the true path's default: `False`). -/
def plotArtists (ul : Nat) (truePath : Option (Bool × List Cell)) (predicted : List (Bool × List Cell)) : List Artist :=
  (match truePath with | none => [] | some (q, p) => plotPath ul q p) ++ predicted.flatMap fun qp => plotPath ul qp.1 qp.2

/-- `ax.lines` as the harness reads it -/
def linesOf : List Artist → List (List (Int × Int))
  | [] => []
  | .line p :: r => p :: linesOf r
  | .quiver .. :: r => linesOf r
/-- `ax.collections` (quivers) as the harness reads it -/
def quiversOf : List Artist → List (List Int × List Int × List Int × List Int)
  | [] => []
  | .line _ :: r => quiversOf r
  | .quiver X Y U V :: r => (X, Y, U, V) :: quiversOf r

/-! ## maze objects, constructor, ASCII export -/

inductive Err where
  | ValueError | AssertionError | outOfModel
  deriving DecidableEq, Repr

/-- the three maze kinds. A `solved` maze stores only its solution: `SolvedMaze.__init__` derives
    `start_pos = solution[0]`, `end_pos = solution[-1]` (lattice_maze.py:1139-1181). -/
inductive MazeObj where
  | plain (rows cols : Nat) (E : List Edge)
  | targeted (rows cols : Nat) (E : List Edge) (s e : Cell)
  | solved (rows cols : Nat) (E : List Edge) (sol : List Cell)
  deriving DecidableEq, Repr

def MazeObj.rows : MazeObj → Nat | .plain r _ _ => r | .targeted r _ _ _ _ => r | .solved r _ _ _ => r
def MazeObj.cols : MazeObj → Nat | .plain _ c _ => c | .targeted _ c _ _ _ => c | .solved _ c _ _ => c
def MazeObj.edges : MazeObj → List Edge | .plain _ _ E => E | .targeted _ _ E _ _ => E | .solved _ _ E _ => E

/-- `SolvedMaze(connection_list, solution)`: `ValueError` for an empty solution (1150-1160) and for a first / last
    coordinate outside the grid (`TargetedLatticeMaze.__post_init__`, 1064-1090). -/
def mkSolved (rows cols : Nat) (E : List Edge) (sol : List Cell) : Except Err MazeObj :=
  match sol with
  | [] => .error .ValueError
  | a :: rest =>
    if inGrid rows cols a ∧ inGrid rows cols ((a :: rest).getLast (List.cons_ne_nil _ _))
    then .ok (.solved rows cols E (a :: rest)) else .error .ValueError

/-- state of a `MazePlot` relevant to `to_ascii`: the maze and `true_path` -/
structure PlotState where
  maze : MazeObj
  truePath : Option (List Cell)
  deriving DecidableEq, Repr

/-- `MazePlot.__init__` (154-158). `sp` is `find_shortest_path(start, end)` of the targeted maze (external, C02). -/
def newPlot (m : MazeObj) (sp : List Cell) : PlotState :=
  match m with
  | .plain .. => ⟨m, none⟩
  | .targeted .. => ⟨m, some sp⟩
  | .solved _ _ _ sol => ⟨m, some sol⟩

/-- `add_true_path` -/
def addTruePath (p : PlotState) (path : List Cell) : PlotState := { p with truePath := some path }

/-- `solved_maze` property (160-169) -/
def solvedMaze (p : PlotState) : Except Err MazeObj :=
  match p.truePath with
  | none => .error .ValueError
  | some path => mkSolved p.maze.rows p.maze.cols p.maze.edges path

/-- the five pixel classes of `PixelColors` / characters of `AsciiChars` -/
inductive Col where
  | wall | open_ | start | end_ | path
  deriving DecidableEq, Repr

/-- name of the class in `PixelColors` / `AsciiChars` -/
def Col.name : Col → String
  | .wall => "WALL" | .open_ => "OPEN" | .start => "START" | .end_ => "END" | .path => "PATH"

/-- `_as_pixels_bw` (755-778) followed by the WALL/OPEN recolouring (787-791): pixel `(y, x)` of the `(2r+1)×(2c+1)` grid -/
def bwPixel (rows cols : Nat) (E : List Edge) (y x : Nat) : Col :=
  if y % 2 = 1 ∧ x % 2 = 1 then .open_                                   -- `[1::2, 1::2] = True`
  else if y % 2 = 0 ∧ x % 2 = 1 ∧ 2 ≤ y ∧ connB E 0 (y / 2 - 1) (x / 2) ∧ y / 2 - 1 < rows ∧ x / 2 < cols then .open_   -- `[i*2+2, j*2+1]`
  else if y % 2 = 1 ∧ x % 2 = 0 ∧ 2 ≤ x ∧ connB E 1 (y / 2) (x / 2 - 1) ∧ y / 2 < rows ∧ x / 2 - 1 < cols then .open_   -- `[i*2+1, j*2+2]`
  else .wall

abbrev CGrid := Nat → Nat → Col

/-- `pixel_grid[c[0]*2+1, c[1]*2+1] = v` for an in-grid cell -/
def setCellPx (g : CGrid) (c : Cell) (v : Col) : CGrid :=
  fun y x => if (y : Int) = c.1 * 2 + 1 ∧ (x : Int) = c.2 * 2 + 1 then v else g y x

/-- the pixel between `a` and `b`: `[a0*2+1 + b0-a0, a1*2+1 + b1-a1]` -/
def setBetweenPx (g : CGrid) (a b : Cell) (v : Col) : CGrid :=
  fun y x => if (y : Int) = a.1 * 2 + 1 + b.1 - a.1 ∧ (x : Int) = a.2 * 2 + 1 + b.2 - a.2 then v else g y x

/-- `np.linalg.norm(a - b) == 1` for integer coordinates -/
def adjacent (a b : Cell) : Bool := (b.1 - a.1).natAbs + (b.2 - a.2).natAbs == 1

/-- `for coord in solution: pixel[...] = PATH` -/
def paintCells (g : CGrid) : List Cell → CGrid
  | [] => g
  | c :: r => paintCells (setCellPx g c .path) r

/-- the "pixels between coords" loop (805-816) with its adjacency assertion -/
def paintBetween (g : CGrid) : List Cell → Except Err CGrid
  | [] => .ok g
  | [_] => .ok g
  | a :: b :: r => if adjacent a b then paintBetween (setBetweenPx g a b .path) (b :: r) else .error .AssertionError

/-- `as_pixels(show_endpoints, show_solution)` (780-836) as a function on pixel positions.
    Solutions with a coordinate outside the grid are outside this model (`outOfModel`): numpy would wrap negative
    indices or raise IndexError there, which C10 covers, not C20. -/
def asPixels (m : MazeObj) (se ss : Bool) : Except Err CGrid :=
  if ss ∧ !se then .error .ValueError else
  match m with
  | .plain rows cols E => .ok (bwPixel rows cols E)
  | .targeted rows cols E s e =>
    let g := bwPixel rows cols E
    .ok (if se then setCellPx (setCellPx g s .start) e .end_ else g)
  | .solved rows cols E sol =>
    match sol with
    | [] => .error .outOfModel
    | a :: rest =>
      if (a :: rest).all (fun c => decide (inGrid rows cols c)) then do
        let g := bwPixel rows cols E
        let g1 ← if ss then paintBetween (paintCells g (a :: rest)) (a :: rest) else pure g
        pure (if se then setCellPx (setCellPx g1 a .start) ((a :: rest).getLast (List.cons_ne_nil _ _)) .end_ else g1)
      else .error .outOfModel

/-- character of a class, from the generated `AsciiChars` table (first character of the entry) -/
def colChar (c : Col) : Char :=
  match MZ.Gen.asciiChars.lookup c.name with
  | some s => s.toList.headD '?'
  | none => '?'

/-- `as_ascii` (1018-1039): the WALL/OPEN character grid, then for every pairing whose character is in `chars_replace`
    the positions whose pixel has the paired colour get that character. As `as_pixels` only paints START/END when
    `show_endpoints` and PATH when `show_solution`, this is the character of the pixel class. Rows joined by "\n". -/
def asAsciiFn (m : MazeObj) (se ss : Bool) : Except Err CGrid := do
  let g ← asPixels m se ss
  let base := bwPixel m.rows m.cols m.edges
  pure fun y x =>
    let p := g y x
    if (p = .start ∨ p = .end_) ∧ se then p else if p = .path ∧ ss then p else base y x

/-- the `(2·rows+1) × (2·cols+1)` table of a character-class function -/
def tabulate (rows cols : Nat) (f : CGrid) : List (List Col) :=
  (List.range (2 * rows + 1)).map fun y => (List.range (2 * cols + 1)).map fun x => f y x

def renderAscii (g : List (List Col)) : String :=
  "\n".intercalate (g.map fun row => String.ofList (row.map colChar))

def asAscii (m : MazeObj) (se ss : Bool) : Except Err String := do
  pure (renderAscii (tabulate m.rows m.cols (← asAsciiFn m se ss)))

/-- `to_ascii` (540-550). Note the path-less branch calls `self.maze.as_ascii(show_endpoints=show_endpoints)`, i.e.
    `show_solution` is NOT forwarded and takes its default `True`. -/
def toAsciiFn (p : PlotState) (se ss : Bool) : Except Err CGrid :=
  match p.truePath with
  | some _ => do asAsciiFn (← solvedMaze p) se ss
  | none => asAsciiFn p.maze se true

def toAscii (p : PlotState) (se ss : Bool) : Except Err String := do
  pure (renderAscii (tabulate p.maze.rows p.maze.cols (← toAsciiFn p se ss)))

end MZ.Plot
