import MazeVerif.Lemmas.Serial
/-! Round-trip lemmas for the three storage formats (C05). Core Lean only. -/
namespace MZ.Serial
open MZ.Gen.Serial

/-! ## facts about the generated tables (re-checked against the source on every run) -/

theorem fmtOf_full : fmtOf "_serialize_full" = .ok "MazeDataset" := by rfl
theorem fmtOf_minimal : fmtOf "_serialize_minimal" = .ok "MazeDataset:minimal" := by rfl
theorem fmtOf_cat : fmtOf "_serialize_minimal_soln_cat" = .ok "MazeDataset:minimal_soln_cat" := by rfl

theorem loaderName_full (thr : Option Int) :
    loaderName thr "MazeDataset" = some (if thr = some (-1) then "_load_legacy" else "_load_full") := by
  have h : loadTable.lookup "MazeDataset" = some "_load_full" := by decide
  unfold loaderName
  rw [h]
  simp only [legacyBranch, true_and]
  split <;> rfl

theorem loaderName_minimal (thr : Option Int) : loaderName thr "MazeDataset:minimal" = some "_load_minimal" := by
  have h : loadTable.lookup "MazeDataset:minimal" = some "_load_minimal" := by decide
  have h2 : ¬ ("MazeDataset:minimal" = "MazeDataset") := by decide
  unfold loaderName
  rw [h]
  simp only [legacyBranch, h2, false_and, if_false]

theorem loaderName_cat (thr : Option Int) :
    loaderName thr "MazeDataset:minimal_soln_cat" = some "_load_minimal_soln_cat" := by
  have h : loadTable.lookup "MazeDataset:minimal_soln_cat" = some "_load_minimal_soln_cat" := by decide
  have h2 : ¬ ("MazeDataset:minimal_soln_cat" = "MazeDataset") := by decide
  unfold loaderName
  rw [h]
  simp only [legacyBranch, h2, false_and, if_false]

theorem handler_full : selectHandler "MazeDataset" = some "MazeDataset" := by decide
theorem handler_minimal : selectHandler "MazeDataset:minimal" = some "MazeDataset" := by decide
theorem handler_cat : selectHandler "MazeDataset:minimal_soln_cat" = some "MazeDataset" := by decide
theorem handler_collection : selectHandler collectionFormat = some "MazeDatasetCollection" := by decide

theorem dt_min_len : dtypeOf "_serialize_minimal" "maze_solution_lengths" = some "int32" := by decide
theorem dt_min_sol : dtypeOf "_serialize_minimal" "maze_solutions" = some "int8" := by decide
theorem dt_cat_len : dtypeOf "_serialize_minimal_soln_cat" "maze_solution_lengths" = some "int32" := by decide
theorem dt_cat_sol : dtypeOf "_serialize_minimal_soln_cat" "maze_solutions_concat" = some "int8" := by decide
theorem dt_cat_end : dtypeOf "_serialize_minimal_soln_cat" "maze_endpoints" = some "int8" := by decide

/-! ## full format -/

def fullStored {κ μ M} (E : Env κ μ M) (ds : DS κ μ M) : Stored κ μ M :=
  { fmt := "MazeDataset", cfg := ds.cfg, collected := ds.collected.map E.metaJson, payload := .full (ds.mazes.map (storeMaze E)) }

theorem serializeFull_eq {κ μ M} (E : Env κ μ M) (ds : DS κ μ M) : serializeFull E ds = .ok (ds, fullStored E ds) := by
  simp only [serializeFull, fmtOf_full, bind, Except.bind, pure, Except.pure, fullStored]

theorem loadMazes_full {κ μ M} (E : Env κ μ M) (ds : DS κ μ M) (hc : ∀ m ∈ ds.mazes, Constructed m) :
    (ds.mazes.map (storeMaze E)).mapM loadMaze = .ok (fullLoaded E ds).mazes := by
  rw [List.mapM_map]
  exact mapM_ok _ _ _ (fun m hm => mkSolved_constructed m (hc m hm) _)

theorem load_fullStored {κ μ M} (E : Env κ μ M) (thr : Option Int) (ds : DS κ μ M)
    (hcfg : E.cfgJson ds.cfg = ds.cfg) (hc : ∀ m ∈ ds.mazes, Constructed m) :
    load E thr (fullStored E ds) = .ok (fullLoaded E ds) := by
  have hmaz := loadMazes_full E ds hc
  unfold load
  have hf : (fullStored E ds).fmt = "MazeDataset" := rfl
  rw [hf, loaderName_full]
  by_cases ht : thr = some (-1)
  · have a1 : ¬ ("_load_legacy" = "_load_full") := by decide
    have a2 : ¬ ("_load_legacy" = "_load_minimal") := by decide
    have a3 : ¬ ("_load_legacy" = "_load_minimal_soln_cat") := by decide
    have a4 : assertFmt "_load_legacy" (fullStored E ds) = .ok () := by rfl
    simp only [ht, if_true, runLoader, a1, a2, a3, if_false, loadLegacy, a4, bind, Except.bind]
    simp only [fullStored] at hmaz ⊢
    simp only [hmaz, pure, Except.pure, hcfg, fullLoaded]
  · have a4 : assertFmt "_load_full" (fullStored E ds) = .ok () := by rfl
    simp only [ht, if_false, runLoader, if_true, loadFull, a4, bind, Except.bind]
    simp only [fullStored] at hmaz ⊢
    simp only [hmaz, pure, Except.pure, hcfg, fullLoaded]

/-! ## minimal format -/

theorem max?_bound (l : List Nat) (h : l ≠ []) : ∃ mx, l.max? = some mx ∧ ∀ x ∈ l, x ≤ mx := by
  cases hm : l.max? with
  | none => exact absurd (List.max?_eq_none_iff.mp hm) h
  | some a => exact ⟨a, rfl, (List.max?_eq_some_iff.mp hm).2⟩

theorem storeClist_ok {μ} (g : Nat) (m : Maze μ) (h : m.gridN = g) : storeClist g m = .ok m.clist := by
  simp only [storeClist, h, if_true]

theorem collectedForm_gridN {κ μ M} (E : Env κ μ M) (ds : DS κ μ M)
    (hg : E.gridN (E.addCollectFilter ds.cfg) = E.gridN ds.cfg) : E.gridN (collectedForm E ds).cfg = E.gridN ds.cfg := by
  unfold collectedForm
  cases ds.collected with
  | some _ => rfl
  | none => exact hg

theorem collectedForm_cfgJson {κ μ M} (E : Env κ μ M) (ds : DS κ μ M)
    (h1 : E.cfgJson ds.cfg = ds.cfg) (h2 : E.cfgJson (E.addCollectFilter ds.cfg) = E.addCollectFilter ds.cfg) :
    E.cfgJson (collectedForm E ds).cfg = (collectedForm E ds).cfg := by
  unfold collectedForm
  cases ds.collected with
  | some _ => exact h1
  | none => exact h2

def minimalStored {κ μ M} (E : Env κ μ M) (pad : Nat → Nat → Coord) (mx : Nat) (ds : DS κ μ M) : Stored κ μ M :=
  { fmt := "MazeDataset:minimal", cfg := (collectedForm E ds).cfg, collected := (collectedForm E ds).collected.map E.metaJson,
    payload := .minimal (E.gridN (collectedForm E ds).cfg) ((collectedForm E ds).mazes.map (·.clist))
      ((collectedForm E ds).mazes.map fun m => (m.sol.length : Int)) (mkRowsFrom "int8" pad mx 0 (collectedForm E ds).mazes) }

theorem lens_wrap32 {μ} (ms : List (Maze μ)) (h : ∀ m ∈ ms, (m.sol.length : Int) < 2 ^ 31) :
    (ms.map fun m => wrapDtype "int32" (m.sol.length : Int)) = ms.map fun m => (m.sol.length : Int) := by
  apply List.map_congr_left
  intro m hm
  rw [wrapDtype_int32]
  exact wrapBits32_id (Int.natCast_nonneg _) (h m hm)

theorem serializeMinimal_eq {κ μ M} (E : Env κ μ M) (pad : Nat → Nat → Coord) (ds : DS κ μ M)
    (hmeta : HasMeta ds) (hne : ds.mazes ≠ [])
    (hst : ∀ m ∈ (collectedForm E ds).mazes, Storable (E.gridN (collectedForm E ds).cfg) m) :
    ∃ mx, (∀ m ∈ (collectedForm E ds).mazes, m.sol.length ≤ mx) ∧
      serializeMinimal E pad ds = .ok (collectedForm E ds, minimalStored E pad mx ds) := by
  have hne' : (collectedForm E ds).mazes.map (·.sol.length) ≠ [] := by
    intro h
    have := congrArg List.length h
    simp only [List.length_map, collectedForm_length, List.length_nil] at this
    exact hne (List.length_eq_zero_iff.mp this)
  obtain ⟨mx, hmx, hb⟩ := max?_bound _ hne'
  refine ⟨mx, fun m hm => hb _ (List.mem_map_of_mem hm), ?_⟩
  have hcl : (collectedForm E ds).mazes.mapM (storeClist (E.gridN (collectedForm E ds).cfg)) =
      .ok ((collectedForm E ds).mazes.map (·.clist)) :=
    mapM_ok _ _ _ (fun m hm => storeClist_ok _ m (hst m hm).1)
  have hl := lens_wrap32 (collectedForm E ds).mazes (fun m hm => (hst m hm).2.2)
  unfold serializeMinimal
  rw [filteredMeta_ok E ds hmeta]
  simp only [bind, Except.bind]
  rw [hmx]
  simp only [pure, Except.pure, dt_min_len, dt_min_sol]
  rw [hcl, hl]
  simp only [fmtOf_minimal, minimalStored]


theorem mkRow_slice (pad : Nat → Nat → Coord) (mx i : Nat) (sol : List Coord) (h8 : ∀ c ∈ sol, I8 c.1 ∧ I8 c.2) :
    pySliceTo (mkRow "int8" pad mx i sol) (sol.length : Int) = sol := by
  unfold mkRow
  rw [map_wrapCoord8_id h8]
  exact pySliceTo_append_left _ _

theorem loadRows_minimal {μ} (g : Nat) (pad : Nat → Nat → Coord) (mx : Nat) :
    ∀ (ms : List (Maze μ)) (i : Nat), (∀ m ∈ ms, Constructed m ∧ Storable g m) →
      (zip3 (ms.map (·.clist)) (ms.map fun m => (m.sol.length : Int)) (mkRowsFrom "int8" pad mx i ms)).mapM
        (fun (x : List Bool × Int × List Coord) =>
          match x with
          | (cl, sl, so) => mkSolved (μ := μ) g cl (pySliceTo so sl) none none none) = .ok (ms.map clearMeta)
  | [], _, _ => rfl
  | m :: ms, i, h => by
    have hm := h m (List.mem_cons_self ..)
    have ih := loadRows_minimal g pad mx ms (i + 1) (fun x hx => h x (List.mem_cons_of_mem _ hx))
    simp only [List.map_cons, mkRowsFrom, zip3, List.mapM_cons]
    rw [ih, mkRow_slice pad mx i m.sol hm.2.2.1]
    have hb := mkSolved_bare m hm.1
    rw [hm.2.1] at hb
    rw [hb]
    rfl


theorem load_minimalStored {κ μ M} (E : Env κ μ M) (pad : Nat → Nat → Coord) (mx : Nat) (thr : Option Int) (ds : DS κ μ M)
    (hcfg : E.cfgJson (collectedForm E ds).cfg = (collectedForm E ds).cfg)
    (hc : ∀ m ∈ (collectedForm E ds).mazes, Constructed m ∧ Storable (E.gridN (collectedForm E ds).cfg) m) :
    load E thr (minimalStored E pad mx ds) = .ok (minimalLoaded E ds) := by
  have hrows := loadRows_minimal (E.gridN (collectedForm E ds).cfg) pad mx (collectedForm E ds).mazes 0 hc
  rw [collectedForm_mazes_clear] at hrows
  unfold load
  have hf : (minimalStored E pad mx ds).fmt = "MazeDataset:minimal" := rfl
  rw [hf, loaderName_minimal]
  have a1 : ¬ ("_load_minimal" = "_load_full") := by decide
  have a4 : assertFmt "_load_minimal" (minimalStored E pad mx ds) = .ok () := by rfl
  simp only [runLoader, a1, if_false, if_true, loadMinimal, a4, bind, Except.bind]
  simp only [minimalStored] at hrows ⊢
  rw [hrows]
  simp only [pure, Except.pure, hcfg, minimalLoaded]


/-! ## minimal format with concatenated solutions -/

def catStored {κ μ M} (E : Env κ μ M) (ds : DS κ μ M) : Stored κ μ M :=
  { fmt := "MazeDataset:minimal_soln_cat", cfg := (collectedForm E ds).cfg,
    collected := (collectedForm E ds).collected.map E.metaJson,
    payload := .cat (E.gridN (collectedForm E ds).cfg) ((collectedForm E ds).mazes.map (·.clist))
      ((collectedForm E ds).mazes.map fun m => (m.startPos, m.endPos))
      ((collectedForm E ds).mazes.map fun m => (m.sol.length : Int)) ((collectedForm E ds).mazes.map (·.sol)).flatten }

theorem sum_lens {μ} : ∀ (ms : List (Maze μ)),
    (ms.map fun m => (m.sol.length : Int)).sum = (((ms.map (·.sol)).flatten.length : Nat) : Int)
  | [] => rfl
  | m :: ms => by
    simp only [List.map_cons, List.sum_cons, List.flatten_cons, List.length_append, Int.natCast_add, sum_lens ms]

theorem endpoints_i8 {μ} (m : Maze μ) (hc : Constructed m) (h8 : ∀ c ∈ m.sol, I8 c.1 ∧ I8 c.2) :
    (I8 m.startPos.1 ∧ I8 m.startPos.2) ∧ (I8 m.endPos.1 ∧ I8 m.endPos.2) := by
  refine ⟨h8 _ (List.mem_of_mem_head? ?_), h8 _ (List.mem_of_mem_getLast? ?_)⟩
  · rw [hc.1]; rfl
  · rw [hc.2.1]; rfl

theorem serializeCat_eq {κ μ M} (E : Env κ μ M) (ds : DS κ μ M) (hmeta : HasMeta ds)
    (hst : ∀ m ∈ (collectedForm E ds).mazes, Constructed m ∧ Storable (E.gridN (collectedForm E ds).cfg) m) :
    serializeCat E ds = .ok (collectedForm E ds, catStored E ds) := by
  have hcl : (collectedForm E ds).mazes.mapM (storeClist (E.gridN (collectedForm E ds).cfg)) =
      .ok ((collectedForm E ds).mazes.map (·.clist)) :=
    mapM_ok _ _ _ (fun m hm => storeClist_ok _ m (hst m hm).2.1)
  have hl := lens_wrap32 (collectedForm E ds).mazes (fun m hm => (hst m hm).2.2.2)
  have hends : ((collectedForm E ds).mazes.map fun m => (wrapCoord "int8" m.startPos, wrapCoord "int8" m.endPos)) =
      (collectedForm E ds).mazes.map fun m => (m.startPos, m.endPos) := by
    apply List.map_congr_left
    intro m hm
    have := endpoints_i8 m (hst m hm).1 (hst m hm).2.2.1
    rw [wrapCoord8_id this.1, wrapCoord8_id this.2]
  have hcat : ((collectedForm E ds).mazes.map fun m => m.sol.map (wrapCoord "int8")) =
      (collectedForm E ds).mazes.map (·.sol) := by
    apply List.map_congr_left
    intro m hm
    exact map_wrapCoord8_id (hst m hm).2.2.1
  unfold serializeCat
  rw [filteredMeta_ok E ds hmeta]
  simp only [bind, Except.bind]
  rw [dt_cat_len, dt_cat_sol, dt_cat_end]
  simp only [pure, Except.pure]
  rw [hcl, hl, hends, hcat]
  simp only []
  rw [sum_lens]
  rw [if_neg (fun h => h rfl), fmtOf_cat]
  rfl


theorem loadRows_cat {μ} (g : Nat) : ∀ (ms : List (Maze μ)), (∀ m ∈ ms, Constructed m ∧ m.gridN = g) →
      ((ms.map (·.clist)).zip (ms.map (·.sol))).mapM
        (fun (x : List Bool × List Coord) =>
          match x with
          | (cl, so) => mkSolved (μ := μ) g cl so none none none) = .ok (ms.map clearMeta)
  | [], _ => rfl
  | m :: ms, h => by
    have hm := h m (List.mem_cons_self ..)
    have ih := loadRows_cat g ms (fun x hx => h x (List.mem_cons_of_mem _ hx))
    simp only [List.map_cons, List.zip_cons_cons, List.mapM_cons]
    rw [ih]
    have hb := mkSolved_bare m hm.1
    rw [hm.2] at hb
    rw [hb]
    rfl

theorem load_catStored {κ μ M} (E : Env κ μ M) (thr : Option Int) (ds : DS κ μ M)
    (hcfg : E.cfgJson (collectedForm E ds).cfg = (collectedForm E ds).cfg)
    (hc : ∀ m ∈ (collectedForm E ds).mazes, Constructed m ∧ Storable (E.gridN (collectedForm E ds).cfg) m) :
    load E thr (catStored E ds) = .ok (minimalLoaded E ds) := by
  have hrows := loadRows_cat (E.gridN (collectedForm E ds).cfg) (collectedForm E ds).mazes
    (fun m hm => ⟨(hc m hm).1, (hc m hm).2.1⟩)
  rw [collectedForm_mazes_clear] at hrows
  unfold load
  have hf : (catStored E ds).fmt = "MazeDataset:minimal_soln_cat" := rfl
  rw [hf, loaderName_cat]
  have a1 : ¬ ("_load_minimal_soln_cat" = "_load_full") := by decide
  have a2 : ¬ ("_load_minimal_soln_cat" = "_load_minimal") := by decide
  have a4 : assertFmt "_load_minimal_soln_cat" (catStored E ds) = .ok () := by rfl
  simp only [runLoader, a1, a2, if_false, if_true, loadCat, a4, bind, Except.bind]
  simp only [catStored] at hrows ⊢
  by_cases hnil : (collectedForm E ds).mazes = []
  · rw [hnil] at hrows ⊢
    simp only [List.map_nil, List.zip_nil_left, List.mapM_nil, pure, Except.pure, hcfg, minimalLoaded] at hrows ⊢
    have : ds.mazes.map clearMeta = [] := by
      injection hrows with h; exact h.symm
    rw [this]
  · have hsplit := npSplit_flatten ((collectedForm E ds).mazes.map (·.sol)) (by simpa using hnil)
    rw [List.map_map] at hsplit
    simp only [Function.comp_def] at hsplit
    rw [hsplit, hrows]
    simp only [pure, Except.pure, hcfg, minimalLoaded]


/-! ## threshold dispatch, save / read -/

/-- assumptions on the external calls: the config survives its own json round trip (property C18) and appending a filter record
    does not change `grid_n` -/
structure EnvOK {κ μ M} (E : Env κ μ M) : Prop where
  cfgJson_id : ∀ c, E.cfgJson c = c
  gridN_add : ∀ c, E.gridN (E.addCollectFilter c) = E.gridN c

/-- the documented rule: minimal format from `len ≥ threshold` on, never when the threshold is `None` -/
def minimalSelected (thr : Option Int) (len : Nat) : Bool :=
  match thr with
  | none => false
  | some t => decide (t ≤ (len : Int))

/-- state of the source dataset after `serialize()` -/
def postForm {κ μ M} (E : Env κ μ M) (thr : Option Int) (ds : DS κ μ M) : DS κ μ M :=
  if minimalSelected thr ds.mazes.length then collectedForm E ds else ds

/-- what `load` / `read` returns for what `serialize()` / `save` wrote -/
def loadedForm {κ μ M} (E : Env κ μ M) (thr : Option Int) (ds : DS κ μ M) : DS κ μ M :=
  if minimalSelected thr ds.mazes.length then minimalLoaded E ds else fullLoaded E ds

/-- precondition of `serialize()` under threshold `thr` -/
def SerializableUnder {κ μ M} (E : Env κ μ M) (thr : Option Int) (ds : DS κ μ M) : Prop :=
  (∀ m ∈ ds.mazes, Constructed m) ∧
  (minimalSelected thr ds.mazes.length = true →
    ds.mazes ≠ [] ∧ HasMeta ds ∧ ∀ m ∈ ds.mazes, Storable (E.gridN ds.cfg) m)

theorem serializerName_spec (thr : Option Int) (len : Nat) :
    serializerName thr len = if minimalSelected thr len then "_serialize_minimal" else "_serialize_full" := by
  cases thr with
  | none => rfl
  | some t =>
    simp only [serializerName, thresholdCmp, minimalSelected, serializeThen, serializeElse, ge_iff_le]
    rfl

theorem constructed_clear {μ} (m : Maze μ) (h : Constructed m) : Constructed (clearMeta m) := h
theorem storable_clear {μ} (g : Nat) (m : Maze μ) (h : Storable g m) : Storable g (clearMeta m) := h

theorem minimal_rt {κ μ M} (E : Env κ μ M) (hE : EnvOK E) (pad : Nat → Nat → Coord) (lthr : Option Int) (ds : DS κ μ M)
    (hne : ds.mazes ≠ []) (hmeta : HasMeta ds) (hc : ∀ m ∈ ds.mazes, Constructed m)
    (hs : ∀ m ∈ ds.mazes, Storable (E.gridN ds.cfg) m) :
    ∃ st, serializeMinimal E pad ds = .ok (collectedForm E ds, st) ∧ st.fmt = "MazeDataset:minimal" ∧
      load E lthr st = .ok (minimalLoaded E ds) := by
  have hg := collectedForm_gridN E ds (hE.gridN_add _)
  have hcs : ∀ m ∈ (collectedForm E ds).mazes, Constructed m ∧ Storable (E.gridN (collectedForm E ds).cfg) m := by
    rw [hg]
    exact collectedForm_mem E ds (fun m => Constructed m ∧ Storable (E.gridN ds.cfg) m)
      (fun m h => ⟨constructed_clear m h.1, storable_clear _ m h.2⟩) (fun m hm => ⟨hc m hm, hs m hm⟩)
  obtain ⟨mx, _, hser⟩ := serializeMinimal_eq E pad ds hmeta hne (fun m hm => (hcs m hm).2)
  exact ⟨_, hser, rfl, load_minimalStored E pad mx lthr ds (hE.cfgJson_id _) hcs⟩

theorem cat_rt {κ μ M} (E : Env κ μ M) (hE : EnvOK E) (lthr : Option Int) (ds : DS κ μ M)
    (hmeta : HasMeta ds) (hc : ∀ m ∈ ds.mazes, Constructed m)
    (hs : ∀ m ∈ ds.mazes, Storable (E.gridN ds.cfg) m) :
    ∃ st, serializeCat E ds = .ok (collectedForm E ds, st) ∧ st.fmt = "MazeDataset:minimal_soln_cat" ∧
      load E lthr st = .ok (minimalLoaded E ds) := by
  have hg := collectedForm_gridN E ds (hE.gridN_add _)
  have hcs : ∀ m ∈ (collectedForm E ds).mazes, Constructed m ∧ Storable (E.gridN (collectedForm E ds).cfg) m := by
    rw [hg]
    exact collectedForm_mem E ds (fun m => Constructed m ∧ Storable (E.gridN ds.cfg) m)
      (fun m h => ⟨constructed_clear m h.1, storable_clear _ m h.2⟩) (fun m hm => ⟨hc m hm, hs m hm⟩)
  exact ⟨_, serializeCat_eq E ds hmeta hcs, rfl, load_catStored E lthr ds (hE.cfgJson_id _) hcs⟩

theorem serialize_rt {κ μ M} (E : Env κ μ M) (hE : EnvOK E) (thr lthr : Option Int) (pad : Nat → Nat → Coord)
    (ds : DS κ μ M) (h : SerializableUnder E thr ds) :
    ∃ st, serialize E thr pad ds = .ok (postForm E thr ds, st) ∧ selectHandler st.fmt = some "MazeDataset" ∧
      load E lthr st = .ok (loadedForm E thr ds) := by
  unfold serialize
  rw [serializerName_spec]
  cases hsel : minimalSelected thr ds.mazes.length with
  | true =>
    obtain ⟨hne, hmeta, hs⟩ := h.2 hsel
    obtain ⟨st, h1, h2, h3⟩ := minimal_rt E hE pad lthr ds hne hmeta h.1 hs
    have a1 : ¬ ("_serialize_minimal" = "_serialize_full") := by decide
    refine ⟨st, ?_, ?_, ?_⟩
    · simp only [if_true, runSerializer, a1, if_false, postForm, hsel, h1]
    · rw [h2]; exact handler_minimal
    · simp only [loadedForm, hsel, if_true, h3]
  | false =>
    refine ⟨fullStored E ds, ?_, handler_full, ?_⟩
    · simp only [Bool.false_eq_true, if_false, runSerializer, if_true, postForm, hsel, serializeFull_eq]
    · simp only [loadedForm, hsel, Bool.false_eq_true, if_false]
      exact load_fullStored E lthr ds (hE.cfgJson_id _) h.1

theorem read_eq_load {κ μ M} (E : Env κ μ M) (lthr : Option Int) (st : Stored κ μ M)
    (h : selectHandler st.fmt = some "MazeDataset") : read E lthr st = load E lthr st := by
  simp only [read, h, if_true]

theorem postForm_cfg_eq_loadedForm_cfg {κ μ M} (E : Env κ μ M) (thr : Option Int) (ds : DS κ μ M) :
    (postForm E thr ds).cfg = (loadedForm E thr ds).cfg := by
  unfold postForm loadedForm
  cases minimalSelected thr ds.mazes.length <;> rfl

/-! ## collections -/

theorem serializeMembers_rt {κ μ M} (E : Env κ μ M) (hE : EnvOK E) (thr lthr : Option Int)
    (pads : Nat → Nat → Nat → Coord) :
    ∀ (members : List (DS κ μ M)) (k : Nat), (∀ d ∈ members, SerializableUnder E thr d) →
      ∃ rs, serializeMembersFrom E thr pads k members = .ok rs ∧ rs.map (·.1) = members.map (postForm E thr) ∧
        (rs.map (·.2)).mapM (read E lthr) = .ok (members.map (loadedForm E thr))
  | [], _, _ => ⟨[], rfl, rfl, rfl⟩
  | d :: ds, k, h => by
    obtain ⟨st, h1, h2, h3⟩ := serialize_rt E hE thr lthr (pads k) d (h d (List.mem_cons_self ..))
    obtain ⟨rs, i1, i2, i3⟩ := serializeMembers_rt E hE thr lthr pads ds (k + 1) (fun x hx => h x (List.mem_cons_of_mem _ hx))
    refine ⟨(postForm E thr d, st) :: rs, ?_, ?_, ?_⟩
    · simp only [serializeMembersFrom, h1, i1, bind, Except.bind, pure, Except.pure]
    · simp only [List.map_cons, i2]
    · simp only [List.map_cons, List.mapM_cons, read_eq_load E lthr st h2, h3, i3, bind, Except.bind, pure, Except.pure]

theorem all_zip_cfg {κ μ M} [DecidableEq κ] (f g : DS κ μ M → DS κ μ M) (hfg : ∀ d, (f d).cfg = (g d).cfg) :
    ∀ (l : List (DS κ μ M)),
      (((l.map f).map (·.cfg)).zip (l.map g)).all (fun p => decide (p.1 = p.2.cfg)) = true
  | [] => rfl
  | d :: l => by
    simp only [List.map_cons, List.zip_cons_cons, List.all_cons, hfg d, decide_true, Bool.true_and]
    exact all_zip_cfg f g hfg l

theorem collection_rt {κ μ M} [DecidableEq κ] (E : Env κ μ M) (hE : EnvOK E) (thr lthr : Option Int)
    (pads : Nat → Nat → Nat → Coord) (members : List (DS κ μ M)) (collected : Option M)
    (h : ∀ d ∈ members, SerializableUnder E thr d) :
    ∃ st, serializeColl E thr pads members collected = .ok (members.map (postForm E thr), st) ∧
      selectHandler st.fmt = some "MazeDatasetCollection" ∧
      loadColl E lthr st = .ok ((members.map (postForm E thr)).map (·.cfg), members.map (loadedForm E thr),
        collected.map E.metaJson) := by
  obtain ⟨rs, h1, h2, h3⟩ := serializeMembers_rt E hE thr lthr pads members 0 h
  refine ⟨{ fmt := collectionFormat, memberCfgs := (members.map (postForm E thr)).map (·.cfg), members := rs.map (·.2),
            collected := collected.map E.metaJson }, ?_, handler_collection, ?_⟩
  · simp only [serializeColl, h1, bind, Except.bind, pure, Except.pure, h2]
  · have hfmt : ¬ (collectionFormat ≠ collectionLoadAsserts) := by decide
    have hcfgs : ((members.map (postForm E thr)).map (·.cfg)).map E.cfgJson = (members.map (postForm E thr)).map (·.cfg) := by
      rw [List.map_congr_left (fun c _ => hE.cfgJson_id c)]; simp
    have hall := all_zip_cfg (postForm E thr) (loadedForm E thr) (postForm_cfg_eq_loadedForm_cfg E thr) members
    simp only [loadColl, hfmt, if_false, hcfgs, h3, bind, Except.bind, hall, if_true, pure, Except.pure]

/-! ## the collected dict through json -/

theorem dictInsert_fresh {β} (d : List (String × β)) (k : String) (v : β) (h : k ∉ d.map (·.1)) :
    dictInsert d k v = d ++ [(k, v)] := by
  induction d with
  | nil => rfl
  | cons a t ih =>
    obtain ⟨k', v'⟩ := a
    simp only [List.map_cons, List.mem_cons, not_or] at h
    have hne : ¬ (k' = k) := fun e => h.1 e.symm
    simp only [dictInsert, hne, if_false, ih h.2, List.cons_append]

theorem foldl_dictInsert {β} : ∀ (ps acc : List (String × β)), ((acc ++ ps).map (·.1)).Nodup →
    ps.foldl (fun d p => dictInsert d p.1 p.2) acc = acc ++ ps
  | [], acc, _ => by simp
  | p :: ps, acc, h => by
    have hfresh : p.1 ∉ acc.map (·.1) := by
      intro hmem
      simp only [List.map_append, List.map_cons] at h
      have := (List.nodup_append.mp h).2.2 _ hmem p.1 (List.mem_cons_self ..)
      exact this rfl
    simp only [List.foldl_cons, dictInsert_fresh acc p.1 p.2 hfresh]
    have h' : (((acc ++ [(p.1, p.2)]) ++ ps).map (·.1)).Nodup := by
      simpa [List.append_assoc] using h
    rw [foldl_dictInsert ps _ h']
    simp [List.append_assoc]

theorem dictOfPairs_nodup {β} (ps : List (String × β)) (h : (ps.map (·.1)).Nodup) : dictOfPairs ps = ps := by
  unfold dictOfPairs
  rw [foldl_dictInsert ps [] (by simpa using h)]
  rfl

end MZ.Serial
