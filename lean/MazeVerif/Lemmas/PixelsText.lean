import MazeVerif.Lemmas.PixelsAscii
/-! The text layer of the ASCII round trip (property C10): `"\n".join`, `str.strip`, `str.split("\n")`, the per-line
    `strip`, and `np.array(list of rows)` undo each other on the drawing `as_ascii` produces, because every row of
    that drawing begins and ends with the wall character `#` and contains no newline.
    Also: `from_pixels` reads only the in-range pixels of its argument (`fromPixels_congr`). -/
namespace MZ.Pix

/-! ## `"\n".join` / `split("\n")` -/

theorem joinLines_single (r : List Char) : joinLines [r] = r := by
  simp [joinLines, List.intercalate]

theorem joinLines_cons_cons (r r' : List Char) (rs : List (List Char)) :
    joinLines (r :: r' :: rs) = r ++ '\n' :: joinLines (r' :: rs) := by
  simp [joinLines, List.intercalate]

theorem splitLines_ne_nil : ∀ s : List Char, splitLines s ≠ []
  | [] => by simp [splitLines]
  | c :: cs => by
    have ih := splitLines_ne_nil cs
    unfold splitLines
    cases h : splitLines cs with
    | nil => exact absurd h ih
    | cons l ls => by_cases hc : c = '\n' <;> simp [hc]

theorem splitLines_cons_newline (t : List Char) : splitLines ('\n' :: t) = [] :: splitLines t := by
  have ih := splitLines_ne_nil t
  rw [splitLines]
  cases h : splitLines t with
  | nil => exact absurd h ih
  | cons l ls => simp

theorem splitLines_cons_other {c : Char} (hc : c ≠ '\n') (t : List Char) (l : List Char) (ls : List (List Char))
    (h : splitLines t = l :: ls) : splitLines (c :: t) = (c :: l) :: ls := by
  rw [splitLines, h]
  simp [hc]

/-- a line without newline is one piece -/
theorem splitLines_noNewline : ∀ r : List Char, '\n' ∉ r → splitLines r = [r]
  | [], _ => by simp [splitLines]
  | c :: cs, h => by
    have hc : c ≠ '\n' := fun e => h (by simp [e])
    have hcs : '\n' ∉ cs := fun e => h (by simp [e])
    exact splitLines_cons_other hc cs cs [] (splitLines_noNewline cs hcs)

/-- the first piece ends at the first newline -/
theorem splitLines_append_newline : ∀ (r t : List Char), '\n' ∉ r → splitLines (r ++ '\n' :: t) = r :: splitLines t
  | [], t, _ => by simpa using splitLines_cons_newline t
  | c :: cs, t, h => by
    have hc : c ≠ '\n' := fun e => h (by simp [e])
    have hcs : '\n' ∉ cs := fun e => h (by simp [e])
    exact splitLines_cons_other hc _ cs _ (splitLines_append_newline cs t hcs)

/-- `"\n".join(rows).split("\n") == rows` for a non-empty list of newline-free rows (for `rows = []` the left side
    is `[""]`) -/
theorem splitLines_joinLines : ∀ (rows : List (List Char)), rows ≠ [] → (∀ r ∈ rows, '\n' ∉ r) →
    splitLines (joinLines rows) = rows
  | [], h, _ => absurd rfl h
  | [r], _, hn => by rw [joinLines_single]; exact splitLines_noNewline r (hn r (by simp))
  | r :: r' :: rs, _, hn => by
    rw [joinLines_cons_cons, splitLines_append_newline r _ (hn r (by simp)),
      splitLines_joinLines (r' :: rs) (by simp) (fun x hx => hn x (by simp [hx]))]

/-! ## `strip` -/

/-- first and last character are the wall character (so the string is non-empty) -/
def Hashed (r : List Char) : Prop := r.head? = some chWall ∧ r.getLast? = some chWall

theorem isWs_chWall : isWs chWall = false := by decide

theorem dropWhile_of_head {p : Char → Bool} {s : List Char} {c : Char} (h : s.head? = some c) (hc : p c = false) :
    s.dropWhile p = s := by
  cases s with
  | nil => rfl
  | cons a t =>
    simp only [List.head?_cons, Option.some.injEq] at h
    subst h
    simp [hc]

/-- `strip` does nothing to a string that starts and ends with a non-blank character -/
theorem strip_of_ends {s : List Char} {c d : Char} (h1 : s.head? = some c) (h2 : s.getLast? = some d)
    (hc : isWs c = false) (hd : isWs d = false) : strip s = s := by
  unfold strip
  rw [dropWhile_of_head h1 hc, dropWhile_of_head (by rw [List.head?_reverse]; exact h2) hd, List.reverse_reverse]

theorem strip_hashed {s : List Char} (h : Hashed s) : strip s = s :=
  strip_of_ends h.1 h.2 isWs_chWall isWs_chWall

theorem Hashed.ne_nil {s : List Char} (h : Hashed s) : s ≠ [] := by
  rintro rfl
  simp [Hashed] at h

theorem hashed_joinLines : ∀ (rows : List (List Char)), rows ≠ [] → (∀ r ∈ rows, Hashed r) → Hashed (joinLines rows)
  | [], h, _ => absurd rfl h
  | [r], _, hh => by rw [joinLines_single]; exact hh r (by simp)
  | r :: r' :: rs, _, hh => by
    have ih := hashed_joinLines (r' :: rs) (by simp) (fun x hx => hh x (by simp [hx]))
    have hr := hh r (by simp)
    rw [joinLines_cons_cons]
    constructor
    · rw [List.head?_append, hr.1]; rfl
    · rw [List.getLast?_append, List.getLast?_cons, ih.2]; rfl

/-! ## rows of an image, and `np.array(rows)` -/

theorem toLists_length {α} (a : Img α) : a.toLists.length = a.h := by simp [Img.toLists]

theorem toLists_ne_nil {α} (a : Img α) (h : 0 < a.h) : a.toLists ≠ [] := by
  intro e
  have := toLists_length a
  rw [e] at this
  simp at this
  omega

theorem mem_toLists {α} (a : Img α) (r : List α) :
    r ∈ a.toLists ↔ ∃ x, x < a.h ∧ r = (List.range a.w).map fun y => a.px x y := by
  simp only [Img.toLists, List.mem_map, List.mem_range]
  constructor
  · rintro ⟨x, hx, rfl⟩; exact ⟨x, hx, rfl⟩
  · rintro ⟨x, hx, rfl⟩; exact ⟨x, hx, rfl⟩

theorem toLists_getElem? {α} (a : Img α) {x : Nat} (hx : x < a.h) :
    a.toLists[x]? = some ((List.range a.w).map fun y => a.px x y) := by
  simp [Img.toLists, List.getElem?_map, List.getElem?_range hx]

/-- `np.array` of a non-empty list of rows of one length `w` -/
theorem ofLists_rect {α} (d : α) (l : List (List α)) (w : Nat) (hne : l ≠ []) (hw : ∀ r ∈ l, r.length = w) :
    ∃ a', Img.ofLists d l = some a' ∧ a'.h = l.length ∧ a'.w = w ∧
      ∀ x y, a'.px x y = (match l[x]? with
        | some row => (match row[y]? with | some c => c | none => d)
        | none => d) := by
  cases l with
  | nil => exact absurd rfl hne
  | cons r t =>
    have hr : r.length = w := hw r (by simp)
    have hall : (r :: t).all (fun r' => r'.length == r.length) = true := by
      rw [List.all_eq_true]
      intro x hx
      rw [hw x hx, hr]
      simp
    have key : Img.ofLists d (r :: t) = some ⟨(r :: t).length, r.length, fun x y => match (r :: t)[x]? with
        | some row => (match row[y]? with | some c => c | none => d)
        | none => d⟩ := by
      simp only [Img.ofLists, hall, if_true]
      rfl
    exact ⟨_, key, rfl, hr, fun x y => rfl⟩

/-- `np.array(rows of a)` is `a` again (on the pixels that exist) -/
theorem ofLists_toLists {α} (d : α) (a : Img α) (h : 0 < a.h) :
    ∃ a', Img.ofLists d a.toLists = some a' ∧ a'.h = a.h ∧ a'.w = a.w ∧
      ∀ x y, x < a.h → y < a.w → a'.px x y = a.px x y := by
  obtain ⟨a', h1, h2, h3, h4⟩ := ofLists_rect d a.toLists a.w (toLists_ne_nil a h) (by
    intro r hr
    obtain ⟨x, _, rfl⟩ := (mem_toLists a r).1 hr
    simp)
  refine ⟨a', h1, h2.trans (toLists_length a), h3, ?_⟩
  intro x y hx hy
  rw [h4, toLists_getElem? a hx]
  simp [List.getElem?_map, List.getElem?_range hy]

/-! ## `from_pixels` looks at in-range pixels only -/

/-- same shape, same pixels inside the shape -/
def SameOn {α} (g g' : Img α) : Prop := g.h = g'.h ∧ g.w = g'.w ∧ ∀ x y, x < g.h → y < g.w → g.px x y = g'.px x y

theorem colorIn_congr {g g' : Img RGB} (h : SameOn g g') (col : RGB) : colorIn g col = colorIn g' col := by
  obtain ⟨hh, hw, hp⟩ := h
  unfold colorIn
  rw [← hh, ← hw, Bool.eq_iff_iff]
  simp only [List.any_eq_true, mem_natCells, decide_eq_true_eq]
  constructor
  · rintro ⟨p, ⟨h1, h2⟩, h3⟩; exact ⟨p, ⟨h1, h2⟩, by rw [← hp _ _ h1 h2]; exact h3⟩
  · rintro ⟨p, ⟨h1, h2⟩, h3⟩; exact ⟨p, ⟨h1, h2⟩, by rw [hp _ _ h1 h2]; exact h3⟩

theorem detectType_congr {g g' : Img RGB} (h : SameOn g g') : detectType g = detectType g' := by
  unfold detectType
  rw [colorIn_congr h, colorIn_congr h, colorIn_congr h]

theorem positions_congr {g g' : Img RGB} (h : SameOn g g') (col : RGB) : positions g col = positions g' col := by
  obtain ⟨hh, hw, hp⟩ := h
  unfold positions
  rw [← hh, ← hw]
  congr 2
  apply List.filter_congr
  intro p hp'
  rw [mem_natCells] at hp'
  rw [hp _ _ hp'.1 hp'.2]

theorem readEdges_congr_on {g g' : Img Bool} (rows cols : Nat)
    (h : ∀ x y, x < 2 * rows + 1 → y < 2 * cols + 1 → g.px x y = g'.px x y) :
    readEdges g rows cols = readEdges g' rows cols := by
  unfold readEdges
  congr 2
  · apply List.filter_congr
    intro p hp'
    rw [mem_natCells] at hp'
    rw [h _ _ (by omega) (by omega)]
  · apply List.filter_congr
    intro p hp'
    rw [mem_natCells] at hp'
    rw [h _ _ (by omega) (by omega)]

/-- `from_pixels` depends on the shape and the in-range pixels only -/
theorem fromPixels_congr (cls : Kind) {g g' : Img RGB} (h : SameOn g g') : fromPixels cls g = fromPixels cls g' := by
  have hd := detectType_congr h
  have hs := positions_congr h cStart
  have he := positions_congr h cEnd
  have hpa := positions_congr h cPath
  obtain ⟨hh, hw, hp⟩ := h
  unfold fromPixels
  rw [hd, ← hh, ← hw, hs, he, hpa]
  by_cases h1 : ¬ (cls.rank ≤ (detectType g').rank)
  · rw [if_pos h1, if_pos h1]
  · by_cases h2 : ¬ (g.h % 2 = 1 ∧ g.w % 2 = 1)
    · rw [if_neg h1, if_neg h1, if_pos h2, if_pos h2]
    · have hE : readEdges (g.map fun c => !decide (c = cWall)) (g.h / 2) (g.w / 2) =
          readEdges (g'.map fun c => !decide (c = cWall)) (g.h / 2) (g.w / 2) := by
        apply readEdges_congr_on
        intro x y hx hy
        simp only [Img.map]
        rw [hp x y (by omega) (by omega)]
      rw [if_neg h1, if_neg h1, if_neg h2, if_neg h2, hE]

theorem asciiToPixels_px (a : Img Char) (x y : Nat) :
    (asciiToPixels a).px x y =
      if a.px x y = chPath then cPath else if a.px x y = chEnd then cEnd else if a.px x y = chStart then cStart
      else if a.px x y = chOpen then cOpen else if a.px x y = chWall then cWall else ((0, 0, 0) : RGB) := by
  simp [asciiToPixels, pairings, Img.full]

theorem asciiToPixels_sameOn {a a' : Img Char} (h : SameOn a a') : SameOn (asciiToPixels a) (asciiToPixels a') := by
  obtain ⟨hh, hw, hp⟩ := h
  refine ⟨by rw [(asciiToPixels_dims a).1, (asciiToPixels_dims a').1, hh],
    by rw [(asciiToPixels_dims a).2, (asciiToPixels_dims a').2, hw], ?_⟩
  intro x y hx hy
  rw [(asciiToPixels_dims a).1] at hx
  rw [(asciiToPixels_dims a).2] at hy
  rw [asciiToPixels_px, asciiToPixels_px, hp x y hx hy]

theorem fromAsciiGrid_congr (cls : Kind) {a a' : Img Char} (h : SameOn a a') : fromAsciiGrid cls a = fromAsciiGrid cls a' :=
  fromPixels_congr cls (asciiToPixels_sameOn h)

/-! ## the text of a framed character grid reads back as the grid -/

/-- a character grid with at least one row and one column, whose first and last columns are wall and which holds
    no newline -/
structure Framed (a : Img Char) : Prop where
  h : 0 < a.h
  w : 0 < a.w
  left : ∀ x, x < a.h → a.px x 0 = chWall
  right : ∀ x, x < a.h → a.px x (a.w - 1) = chWall
  noNewline : ∀ x y, x < a.h → y < a.w → a.px x y ≠ '\n'

theorem Framed.rows_hashed {a : Img Char} (hf : Framed a) : ∀ r ∈ a.toLists, Hashed r := by
  intro r hr
  obtain ⟨x, hx, rfl⟩ := (mem_toLists a r).1 hr
  have hw : a.w ≠ 0 := Nat.pos_iff_ne_zero.1 hf.w
  constructor
  · rw [List.head?_map, List.head?_range]
    simp [hw, hf.left x hx]
  · rw [List.getLast?_map, List.getLast?_range]
    simp [hw, hf.right x hx]

theorem Framed.rows_noNewline {a : Img Char} (hf : Framed a) : ∀ r ∈ a.toLists, '\n' ∉ r := by
  intro r hr
  obtain ⟨x, hx, rfl⟩ := (mem_toLists a r).1 hr
  simp only [List.mem_map, List.mem_range, not_exists, not_and]
  intro y hy
  exact hf.noNewline x y hx hy

/-- **text layer**: `from_ascii` of the joined text of a framed grid is `from_ascii`'s grid stage on that grid:
    `strip`, `split("\n")`, per-line `strip` and `np.array` give the grid back -/
theorem fromAscii_joinLines (cls : Kind) {a : Img Char} (hf : Framed a) :
    fromAscii cls (joinLines a.toLists) = fromAsciiGrid cls a := by
  have hne := toLists_ne_nil a hf.h
  have e1 : strip (joinLines a.toLists) = joinLines a.toLists := strip_hashed (hashed_joinLines _ hne hf.rows_hashed)
  have e2 : splitLines (joinLines a.toLists) = a.toLists := splitLines_joinLines _ hne hf.rows_noNewline
  have e3 : a.toLists.map strip = a.toLists := by
    have : a.toLists.map strip = a.toLists.map id :=
      List.map_congr_left (fun r hr => strip_hashed (hf.rows_hashed r hr))
    rw [this, List.map_id]
  obtain ⟨a', h1, h2, h3, h4⟩ := ofLists_toLists ' ' a hf.h
  unfold fromAscii
  simp only [e1, e2, e3, h1]
  exact fromAsciiGrid_congr cls ⟨h2, h3, fun x y hx hy => h4 x y (h2 ▸ hx) (h3 ▸ hy)⟩

/-! ## the drawing of `as_ascii` is framed -/

theorem charOf?_ne_newline {col : RGB} {ch : Char} (h : charOf? col = some ch) : ch ≠ '\n' := by
  simp only [charOf?, pairings, List.find?_cons, List.find?_nil] at h
  repeat' split at h
  all_goals simp at h
  all_goals subst h
  all_goals decide

theorem charOf?_wall {ch : Char} (h : charOf? cWall = some ch) : ch = chWall := by
  have : charOf? cWall = some chWall := by decide
  rw [this] at h
  exact (Option.some.inj h).symm

/-- the left and right border columns of the picture are wall, in every row -/
theorem specPx_side (m : Maze) (se ss : Bool) (hE : WF m.rows m.cols m.edges) (hv : Valid m) (hp : SolPath m)
    (x y : Nat) (hy : y = 0 ∨ y = 2 * m.cols) : specPx m se ss x y = cWall := by
  have := spec_ne_wall_iff m se ss hv hp hE.inArr x y
  rw [bw_border hE (x := x) (y := y) (by rcases hy with h | h <;> simp [h])] at this
  by_cases hc : specPx m se ss x y = cWall
  · exact hc
  · exact absurd (this.1 hc) (by simp)

theorem framed_of_spec (m : Maze) (se ss : Bool) (hE : WF m.rows m.cols m.edges) (hv : Valid m) (hp : SolPath m)
    (a : Img Char) (hh : a.h = 2 * m.rows + 1) (hw : a.w = 2 * m.cols + 1)
    (ha : ∀ x y, charOf? (specPx m se ss x y) = some (a.px x y)) : Framed a := by
  refine ⟨by omega, by omega, ?_, ?_, ?_⟩
  · intro x _
    have := ha x 0
    rw [specPx_side m se ss hE hv hp x 0 (Or.inl rfl)] at this
    exact charOf?_wall this
  · intro x _
    have := ha x (a.w - 1)
    rw [specPx_side m se ss hE hv hp x (a.w - 1) (Or.inr (by omega))] at this
    exact charOf?_wall this
  · intro x y _ _
    exact charOf?_ne_newline (ha x y)

end MZ.Pix
