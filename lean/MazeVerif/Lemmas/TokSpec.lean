import MazeVerif.Lemmas.TokSel
import MazeVerif.Lemmas.TokPrompt
/-! Stand-alone characterisations of the step-size and direction functions used by the path region (fork indices, degree = number
    of `Adj` neighbours, relative direction as a turn relative to the current heading) and totality of the tokenizer model. -/
namespace MZ.Tok

theorem contains_edgeOf_iff_adj (E : List Edge) (a nb : Cell) (h : nb ∈ nbrs a) :
    E.contains (edgeOf a nb) = true ↔ MZ.Adj E a nb := by
  obtain ⟨a1, a2⟩ := a
  simp only [nbrs, List.mem_cons, List.not_mem_nil, or_false] at h
  rw [List.contains_iff_mem]
  rcases h with rfl | rfl | rfl | rfl
  · rw [edgeOf_right]; unfold MZ.Adj; simp only [Prod.mk.injEq]
    constructor
    · intro hm; exact Or.inr (Or.inr (Or.inl (by simpa using hm)))
    · rintro (⟨⟨h1, h2⟩, _⟩ | ⟨⟨h1, h2⟩, _⟩ | ⟨_, hm⟩ | ⟨⟨h1, h2⟩, _⟩)
      · omega
      · omega
      · exact hm
      · omega
  · rw [edgeOf_left]; unfold MZ.Adj; simp only [Prod.mk.injEq]
    constructor
    · intro hm; exact Or.inr (Or.inr (Or.inr ⟨⟨trivial, by omega⟩, hm⟩))
    · rintro (⟨⟨h1, h2⟩, _⟩ | ⟨⟨h1, h2⟩, _⟩ | ⟨⟨h1, h2⟩, _⟩ | ⟨_, hm⟩)
      · omega
      · omega
      · omega
      · exact hm
  · rw [edgeOf_down]; unfold MZ.Adj; simp only [Prod.mk.injEq]
    constructor
    · intro hm; exact Or.inl (by simpa using hm)
    · rintro (⟨_, hm⟩ | ⟨⟨h1, h2⟩, _⟩ | ⟨⟨h1, h2⟩, _⟩ | ⟨⟨h1, h2⟩, _⟩)
      · exact hm
      · omega
      · omega
      · omega
  · rw [edgeOf_up]; unfold MZ.Adj; simp only [Prod.mk.injEq]
    constructor
    · intro hm; exact Or.inr (Or.inl ⟨⟨by omega, trivial⟩, hm⟩)
    · rintro (⟨⟨h1, h2⟩, _⟩ | ⟨_, hm⟩ | ⟨⟨h1, h2⟩, _⟩ | ⟨⟨h1, h2⟩, _⟩)
      · omega
      · exact hm
      · omega
      · omega

theorem degree_adj (m : Maze) (c : C) :
    degree m c = ((nbrs (cellOf c)).filter fun nb => decide (inGrid m.rows m.cols nb ∧ MZ.Adj m.edges (cellOf c) nb)).length := by
  unfold degree
  congr 1
  apply List.filter_congr
  intro nb hnb
  have := contains_edgeOf_iff_adj m.edges (cellOf c) nb hnb
  rw [Bool.eq_iff_iff]
  simp only [Bool.and_eq_true, decide_eq_true_eq, this]

theorem mem_forkIdxs (m : Maze) (sol : List C) (idx : Nat) :
    idx ∈ forkIdxs m sol ↔ ∃ c, sol[idx]? = some c ∧ (idx = 0 ∨ idx + 1 = sol.length ∨ 2 < degree m c) := by
  unfold forkIdxs
  rw [List.mem_filter, List.mem_range]
  constructor
  · rintro ⟨hlt, hc⟩
    cases hs : sol[idx]? with
    | none => simp [hs] at hc
    | some c =>
      refine ⟨c, rfl, ?_⟩
      simp only [hs] at hc
      by_cases h0 : idx = 0
      · exact Or.inl h0
      · by_cases h1 : idx + 1 = sol.length
        · exact Or.inr (Or.inl h1)
        · right; right
          simpa [h0, h1] using hc
  · rintro ⟨c, hs, hc⟩
    have hlt : idx < sol.length := by
      rcases List.getElem?_eq_some_iff.1 hs with ⟨h, _⟩; exact h
    refine ⟨hlt, ?_⟩
    simp only [hs]
    rcases hc with h | h | h
    · simp [h]
    · simp [h]
    · by_cases h0 : idx = 0
      · simp [h0]
      · by_cases h1 : idx + 1 = sol.length
        · simp [h1]
        · simp [h0, h1]; exact h

/-- relative direction computed from the two displacement vectors only -/
def relOfDeltas (d0 d1 : Int × Int) : Option Rel :=
  if ¬ (d0.1 * d0.1 + d0.2 * d0.2 ≤ 1 ∧ d1.1 * d1.1 + d1.2 * d1.2 ≤ 1) then none
  else if d1 = (0, 0) then some .stay
  else if (d0.1 + d1.1, d0.2 + d1.2) = (0, 0) then some .backward
  else if d0 = (0, 0) then none
  else if d0 = d1 then some .forward
  else
    let z := d0.1 * d1.2 - d0.2 * d1.1
    if z = 1 then some .left else if z = -1 then some .right else none

theorem relDir_eq_relOfDeltas (prev cur nxt : C) :
    relDir prev cur nxt = relOfDeltas ((cur.1 : Int) - prev.1, (cur.2 : Int) - prev.2) ((nxt.1 : Int) - cur.1, (nxt.2 : Int) - cur.2) := by
  obtain ⟨p1, p2⟩ := prev; obtain ⟨c1, c2⟩ := cur; obtain ⟨n1, n2⟩ := nxt
  have e1 : ((c1, c2) = (n1, n2)) ↔ (((n1 : Int) - c1, (n2 : Int) - c2) = ((0 : Int), (0 : Int))) := by
    simp only [Prod.mk.injEq]; omega
  have e2 : ((p1, p2) = (n1, n2)) ↔ ((((c1 : Int) - p1) + ((n1 : Int) - c1), ((c2 : Int) - p2) + ((n2 : Int) - c2)) = ((0 : Int), (0 : Int))) := by
    simp only [Prod.mk.injEq]; omega
  have e3 : ((p1, p2) = (c1, c2)) ↔ (((c1 : Int) - p1, (c2 : Int) - p2) = ((0 : Int), (0 : Int))) := by
    simp only [Prod.mk.injEq]; omega
  simp only [relDir, relOfDeltas, e1, e2, e3]

def Dir.delta : Dir → Int × Int
  | .north => (-1, 0) | .south => (1, 0) | .east => (0, 1) | .west => (0, -1)
def Dir.back : Dir → Dir | .north => .south | .south => .north | .east => .west | .west => .east
def Dir.left : Dir → Dir | .north => .west | .west => .south | .south => .east | .east => .north
def Dir.right : Dir → Dir | .north => .east | .east => .south | .south => .west | .west => .north

theorem delta_of_dirOf {a b : C} {d : Dir} (h : dirOf a b = some d) : ((b.1 : Int) - a.1, (b.2 : Int) - a.2) = d.delta := by
  obtain ⟨a1, a2⟩ := a; obtain ⟨b1, b2⟩ := b
  unfold dirOf at h
  split at h
  · next hc => cases h; simp only [Dir.delta, Prod.mk.injEq]; omega
  · split at h
    · next hc => cases h; simp only [Dir.delta, Prod.mk.injEq]; omega
    · split at h
      · next hc => cases h; simp only [Dir.delta, Prod.mk.injEq]; omega
      · split at h
        · next hc => cases h; simp only [Dir.delta, Prod.mk.injEq]; omega
        · cases h

theorem relative_dir (prev cur nxt : C) (h d : Dir) (hh : dirOf prev cur = some h) (hd : dirOf cur nxt = some d) :
    relDir prev cur nxt =
      some (if d = h then .forward else if d = h.back then .backward else if d = h.left then .left else .right) := by
  rw [relDir_eq_relOfDeltas, delta_of_dirOf hh, delta_of_dirOf hd]
  cases h <;> cases d <;> decide



theorem dirOf_isSome_of_latAdj {e : OE} (h : LatAdj e) : ∃ d, dirOf e.1 e.2 = some d := by
  obtain ⟨⟨a1, a2⟩, ⟨b1, b2⟩⟩ := e
  unfold LatAdj at h; simp only [Prod.mk.injEq] at h
  simp only [dirOf]
  rcases h with ⟨h1, h2⟩ | ⟨h1, h2⟩ | ⟨h1, h2⟩ | ⟨h1, h2⟩
  · have c1 : ¬ (b1 + 1 = a1 ∧ b2 = a2) := by omega
    have c2 : (b1 = a1 + 1 ∧ b2 = a2) := by omega
    exact ⟨.south, by rw [if_neg c1, if_pos c2]⟩
  · have c1 : (b1 + 1 = a1 ∧ b2 = a2) := by omega
    exact ⟨.north, by rw [if_pos c1]⟩
  · have c1 : ¬ (b1 + 1 = a1 ∧ b2 = a2) := by omega
    have c2 : ¬ (b1 = a1 + 1 ∧ b2 = a2) := by omega
    have c3 : (b1 = a1 ∧ b2 = a2 + 1) := by omega
    exact ⟨.east, by rw [if_neg c1, if_neg c2, if_pos c3]⟩
  · have c1 : ¬ (b1 + 1 = a1 ∧ b2 = a2) := by omega
    have c2 : ¬ (b1 = a1 + 1 ∧ b2 = a2) := by omega
    have c3 : ¬ (b1 = a1 ∧ b2 = a2 + 1) := by omega
    have c4 : (b1 = a1 ∧ b2 + 1 = a2) := by omega
    exact ⟨.west, by rw [if_neg c1, if_neg c2, if_neg c3, if_pos c4]⟩

theorem edgeToks_isSome (cfg : AdjCfg) (ct : CoordTok) (m : Maze) {e : OE} (h : LatAdj e) : ∃ t, edgeToks cfg ct m e = some t := by
  unfold edgeToks trailToks
  by_cases hc : cfg.cardinal = true
  · obtain ⟨d, hd⟩ := dirOf_isSome_of_latAdj h
    simp only [hc, if_true, hd, Option.map_some]
    exact ⟨_, rfl⟩
  · simp only [hc, Bool.false_eq_true, if_false]
    exact ⟨_, rfl⟩

theorem adjToks_isSome (cfg : AdjCfg) (ct : CoordTok) (m : Maze) :
    ∀ (order : List OE), (∀ e ∈ order, LatAdj e) → ∃ toks, adjToks cfg ct m order = some toks
  | [], _ => ⟨[], rfl⟩
  | e :: es, h => by
    obtain ⟨t, ht⟩ := edgeToks_isSome cfg ct m (h e (by simp))
    obtain ⟨r, hr⟩ := adjToks_isSome cfg ct m es (fun x hx => h x (by simp [hx]))
    exact ⟨t ++ r, by simp [adjToks, ht, hr]⟩

/-- for untargeted and targeted mazes the tokenizer never fails on a legal order -/
theorem total_unsolved (cfg : TokCfg) (m : Maze) (es order : List OE)
    (hsel : selEdges cfg.adj.subset m = some es) (hord : ValidOrder cfg.adj.permuter cfg.adj.shuffle es order) :
    (∃ toks, toTokens cfg (.plain m) order = some toks) ∧ ∀ s e, ∃ toks, toTokens cfg (.targeted m s e) order = some toks := by
  have hlat := latAdj_of_validOrder (fwd_of_mem_selEdges hsel) hord
  obtain ⟨adj, hadj⟩ := adjToks_isSome cfg.adj cfg.ct m order hlat
  exact ⟨⟨_, toTokens_plain hadj⟩, fun s e => ⟨_, toTokens_targeted hadj⟩⟩


/-- consecutive solution cells are lattice neighbours -/
def ValidSol (sol : List C) : Prop := ∀ k a b, sol[k]? = some a → sol[k + 1]? = some b → LatAdj (a, b)

theorem zip_tail_lt : ∀ (l : List Nat), l.Pairwise (· < ·) → ∀ p ∈ l.zip l.tail, p.1 < p.2 ∧ p.1 ∈ l ∧ p.2 ∈ l
  | [], _, p, hp => by simp at hp
  | [a], _, p, hp => by simp at hp
  | a :: b :: t, hpw, p, hp => by
    simp only [List.tail_cons, List.zip_cons_cons, List.mem_cons] at hp
    rcases hp with rfl | hp
    · exact ⟨(List.pairwise_cons.1 hpw).1 b (by simp), by simp, by simp⟩
    · have ih := zip_tail_lt (b :: t) (List.pairwise_cons.1 hpw).2 p (by simpa using hp)
      exact ⟨ih.1, List.mem_cons_of_mem _ ih.2.1, List.mem_cons_of_mem _ ih.2.2⟩

theorem stepIdxs_pairs (forks : Bool) (m : Maze) (sol : List C) :
    ∀ p ∈ idxPairs (stepIdxs forks m sol), p.1 < p.2 ∧ p.2 < sol.length := by
  intro p hp
  have hpw : (stepIdxs forks m sol).Pairwise (· < ·) := by
    unfold stepIdxs; split
    · exact List.Pairwise.filter _ List.pairwise_lt_range
    · exact List.pairwise_lt_range
  have hlt : ∀ i ∈ stepIdxs forks m sol, i < sol.length := by
    intro i hi; unfold stepIdxs at hi; split at hi
    · exact List.mem_range.1 (List.mem_filter.1 hi).1
    · exact List.mem_range.1 hi
  obtain ⟨h1, _, h3⟩ := zip_tail_lt _ hpw p hp
  exact ⟨h1, hlt _ h3⟩

theorem dirOf_north_start (a : C) : dirOf (a.1 + 1, a.2) a = some .north := by
  obtain ⟨a1, a2⟩ := a
  simp [dirOf]

theorem getElem?_some_of_lt {α} (l : List α) {i : Nat} (h : i < l.length) : ∃ a, l[i]? = some a :=
  ⟨l[i], List.getElem?_eq_getElem h⟩

theorem stepVal_isSome (sol : List C) (hs : ValidSol sol) (i j : Nat) (hij : i < j) (hj : j < sol.length)
    (s : StepTk) (hd : s = .distance → j - i < Gen.distHi) : (stepVal sol i j s).isSome = true := by
  obtain ⟨a, ha⟩ := getElem?_some_of_lt sol (show i < sol.length by omega)
  obtain ⟨b, hb⟩ := getElem?_some_of_lt sol (show i + 1 < sol.length by omega)
  obtain ⟨c, hc⟩ := getElem?_some_of_lt sol hj
  obtain ⟨d, hdir⟩ := dirOf_isSome_of_latAdj (hs i a b ha hb)
  have hdir' : dirOf a b = some d := hdir
  cases s with
  | coord => simp [stepVal, hc]
  | cardinal => simp [stepVal, ha, hb, hdir']
  | relative =>
    by_cases h0 : i = 0
    · have := relative_dir (a.1 + 1, a.2) a b .north d (dirOf_north_start a) hdir'
      subst h0
      simp only [Nat.zero_add] at hb
      simp [stepVal, ha, hb, this]
    · obtain ⟨p, hp⟩ := getElem?_some_of_lt sol (show i - 1 < sol.length by omega)
      have hp' : sol[i - 1 + 1]? = some a := by rw [show i - 1 + 1 = i by omega]; exact ha
      obtain ⟨h, hh⟩ := dirOf_isSome_of_latAdj (hs (i - 1) p a hp hp')
      have hh' : dirOf p a = some h := hh
      have := relative_dir p a b h d hh' hdir'
      simp [stepVal, ha, hb, h0, hp, this]
  | distance =>
    have : Gen.distLo ≤ j - i ∧ j - i < Gen.distHi := ⟨Nat.zero_le _, hd rfl⟩
    simp [stepVal, this]

theorem stepVals_isSome (sol : List C) (hs : ValidSol sol) (i j : Nat) (hij : i < j) (hj : j < sol.length) :
    ∀ ss : List StepTk, (StepTk.distance ∈ ss → j - i < Gen.distHi) → ∃ vs, stepVals sol i j ss = some vs
  | [], _ => ⟨[], rfl⟩
  | s :: ss, hd => by
    have h1 := stepVal_isSome sol hs i j hij hj s (fun hc => hd (by simp [hc]))
    obtain ⟨v, hv⟩ := Option.isSome_iff_exists.1 h1
    obtain ⟨r, hr⟩ := stepVals_isSome sol hs i j hij hj ss (fun hc => hd (by simp [hc]))
    exact ⟨v :: r, by simp [stepVals, hv, hr]⟩

theorem allSteps_isSome (pc : PathCfg) (sol : List C) (hs : ValidSol sol) :
    ∀ prs : List (Nat × Nat),
      (∀ p ∈ prs, p.1 < p.2 ∧ p.2 < sol.length ∧ (StepTk.distance ∈ pc.steps → p.2 - p.1 < Gen.distHi)) →
      ∃ ss, allSteps pc sol prs = some ss
  | [], _ => ⟨[], rfl⟩
  | p :: rest, h => by
    obtain ⟨h1, h2, h3⟩ := h p (by simp)
    obtain ⟨v, hv⟩ := stepVals_isSome sol hs p.1 p.2 h1 h2 pc.steps h3
    obtain ⟨r, hr⟩ := allSteps_isSome pc sol hs rest (fun x hx => h x (by simp [hx]))
    exact ⟨v :: r, by simp [allSteps, hv, hr]⟩

/-- the path tokenizer never fails on a non-empty walk whose steps (by the chosen step size) are shorter than `distHi = 256` when
    `Distance` is used -/
theorem pathToks_isSome (pc : PathCfg) (ct : CoordTok) (m : Maze) (sol : List C) (hs : ValidSol sol) (hne : sol ≠ [])
    (hd : StepTk.distance ∈ pc.steps → ∀ p ∈ idxPairs (stepIdxs pc.forks m sol), p.2 - p.1 < Gen.distHi) :
    ∃ toks, pathToks pc ct m sol = some toks := by
  obtain ⟨ss, hss⟩ := allSteps_isSome pc sol hs (idxPairs (stepIdxs pc.forks m sol))
    (fun p hp => ⟨(stepIdxs_pairs pc.forks m sol p hp).1, (stepIdxs_pairs pc.forks m sol p hp).2, fun hc => hd hc p hp⟩)
  obtain ⟨c, hc⟩ := getElem?_some_of_lt sol (show 0 < sol.length by cases sol with | nil => exact absurd rfl hne | cons _ _ => simp)
  unfold pathToks pathInfo
  by_cases hco : StepTk.coord ∈ pc.steps
  · simp only [hco, if_true, hc, hss]; exact ⟨_, rfl⟩
  · simp only [hco, if_false, hss]; exact ⟨_, rfl⟩

/-- **totality**: on every legal order the tokenizer yields tokens for untargeted and targeted mazes unconditionally, and for solved
    mazes whenever the solution is a non-empty lattice walk and (if `Distance` is used) no step exceeds 255 moves -/
theorem total (cfg : TokCfg) (mz : MazeIn) (es order : List OE)
    (hsel : selEdges cfg.adj.subset mz.maze = some es) (hord : ValidOrder cfg.adj.permuter cfg.adj.shuffle es order)
    (hsol : ∀ m s e sol, mz = .solved m s e sol → ValidSol sol ∧ sol ≠ [] ∧
      (StepTk.distance ∈ cfg.path.steps → ∀ p ∈ idxPairs (stepIdxs cfg.path.forks m sol), p.2 - p.1 ≤ 255)) :
    ∃ toks, toTokens cfg mz order = some toks := by
  have hlat := latAdj_of_validOrder (fwd_of_mem_selEdges hsel) hord
  obtain ⟨adj, hadj⟩ := adjToks_isSome cfg.adj cfg.ct mz.maze order hlat
  cases mz with
  | plain m => exact ⟨_, toTokens_plain hadj⟩
  | targeted m s e => exact ⟨_, toTokens_targeted hadj⟩
  | solved m s e sol =>
    obtain ⟨h1, h2, h3⟩ := hsol m s e sol rfl
    obtain ⟨path, hp⟩ := pathToks_isSome cfg.path cfg.ct m sol h1 h2
      (fun hc p hp => by have := h3 hc p hp; simp only [Gen.distHi]; omega)
    exact ⟨_, toTokens_solved hadj hp⟩

end MZ.Tok
