import MazeVerif.Lemmas.Vocab
/-! The modular vocabulary block by block (property C14): the flat table `Gen.vocabFieldsHead` equals the block structure
    `Gen.vocabBlocks` re-emitted from the source; closed forms of the numeric blocks; the blocks are duplicate-free and
    pairwise disjoint, hence `vocab.Nodup`; `vocab.length = 4096` by length lemmas. -/
namespace MZ.Vocab
open List

def blkLits : Gen.VBlk → List String
  | .lits ts => ts
  | _ => []

/-- first literal run of `_VOCAB_FIELDS` (`COORD_PRE` … `PATH_STAY`) -/
def litsA : List String := blkLits (Gen.vocabBlocks.getD 0 (.other ""))
/-- second literal run (`PATH_PRE` … `ADJLIST_WALL`) -/
def litsB : List String := blkLits (Gen.vocabBlocks.getD 4 (.other ""))

/-- `+0 … +255` (`I_000 … I_255`) -/
def segPlus : List String := (List.range 256).map fun i => "+" ++ Nat.repr i
/-- `0 … 127` (`CTT_0 … CTT_127`) -/
def segCTT : List String := (List.range 128).map Nat.repr
/-- `-256 … -1` (`I_N256 … I_N001`) -/
def segNeg : List String := (List.range 256).map fun j => "-" ++ Nat.repr (256 - j)
/-- `<RESERVE_708> … <RESERVE_1595>` -/
def segRes : List String := (List.range 888).map fun j => "<RESERVE_" ++ Nat.repr (708 + j) ++ ">"

/-- the block structure the structural proofs below are written for; any change of `_VOCAB_FIELDS`' block list breaks this -/
theorem blocks_shape : Gen.vocabBlocks =
    [.lits litsA, .intRange "+" 0 256 "", .intRange "" 0 128 "", .intRange "" (-256) 256 "", .lits litsB,
     .intRange "<RESERVE_" 708 888 ">", .cornerFirst 50 "(" "," ")"] := by decide

theorem utSize_eq : Gen.vocabUTSize = 50 := rfl
/-- the translator's symbolic format of the coordinate block (both coordinates, `(`, `,`, `)`) -/
theorem utFormat_eq : Gen.vocabUTFormat = "({cornerFirst.elem},{cornerFirst.elem})" := by decide

theorem blk_plus : blkTokens (.intRange "+" 0 256 "") = segPlus := by
  simp only [blkTokens, intRange, segPlus, List.map_map]
  apply List.map_congr_left
  intro j _
  simp only [Function.comp, Int.zero_add, String.append_empty]
  rfl

theorem blk_ctt : blkTokens (.intRange "" 0 128 "") = segCTT := by
  simp only [blkTokens, intRange, segCTT, List.map_map]
  apply List.map_congr_left
  intro j _
  simp only [Function.comp, Int.zero_add, String.append_empty, String.empty_append]
  rfl

theorem blk_neg : blkTokens (.intRange "" (-256) 256 "") = segNeg := by
  simp only [blkTokens, intRange, segNeg, List.map_map]
  apply List.map_congr_left
  intro j hj
  have hj' : j < 256 := List.mem_range.mp hj
  simp only [Function.comp, String.append_empty, String.empty_append]
  rw [Int.repr_of_neg' (by omega)]
  congr 2; omega

theorem blk_res : blkTokens (.intRange "<RESERVE_" 708 888 ">") = segRes := by
  simp only [blkTokens, intRange, segRes, List.map_map]
  apply List.map_congr_left
  intro j _
  simp only [Function.comp]
  rw [Int.repr_of_nonneg' (by omega)]
  congr 3

theorem blk_ut : blkTokens (.cornerFirst 50 "(" "," ")") = utTokens := rfl

/-- the flat table emitted by `translate.py` is the block structure emitted by `translate_vocab.py` (1585 tokens, checked by evaluation) -/
theorem headTokens_eq : headTokens = litsA ++ segPlus ++ segCTT ++ segNeg ++ litsB ++ segRes := by decide +kernel

theorem vocab_eq_segments : vocab = specials ++ litsA ++ segPlus ++ segCTT ++ segNeg ++ litsB ++ segRes ++ utTokens := by
  simp only [vocab, headTokens_eq, List.append_assoc]

theorem vocab_eq_vocabFromBlocks : vocab = vocabFromBlocks := by
  rw [vocab_eq_segments, vocabFromBlocks, blocks_shape]
  simp only [List.map_cons, List.map_nil, List.flatten_cons, List.flatten_nil, List.append_nil]
  rw [blk_plus, blk_ctt, blk_neg, blk_res, blk_ut]
  simp only [blkTokens, List.append_assoc]

/-! ### lengths -/

theorem length_specials : specials.length = 11 := by decide
theorem length_litsA : litsA.length = 53 := by decide
theorem length_litsB : litsB.length = 4 := by decide
theorem length_segPlus : segPlus.length = 256 := by simp [segPlus]
theorem length_segCTT : segCTT.length = 128 := by simp [segCTT]
theorem length_segNeg : segNeg.length = 256 := by simp [segNeg]
theorem length_segRes : segRes.length = 888 := by simp [segRes]
theorem length_utTokens : utTokens.length = 2500 := by
  simp [utTokens, length_cornerFirst, utSize_eq]

theorem length_headTokens : headTokens.length = 1585 := by
  simp [headTokens_eq, length_litsA, length_litsB, length_segPlus, length_segCTT, length_segNeg, length_segRes]

theorem length_vocab : vocab.length = 4096 := by
  simp [vocab, length_specials, length_headTokens, length_utTokens]

/-! ### duplicate-freeness -/

theorem lits_nodup : (specials ++ litsA ++ litsB).Nodup := by decide +kernel
theorem lits_cls : ∀ t ∈ specials ++ litsA ++ litsB, scls t = 0 := by decide +kernel

theorem segPlus_nodup : segPlus.Nodup :=
  nodup_map_of_injective (fun _ _ h => Nat.repr_injective ((String.append_right_inj _).mp h)) List.nodup_range
theorem segCTT_nodup : segCTT.Nodup :=
  nodup_map_of_injective (fun _ _ h => Nat.repr_injective h) List.nodup_range
theorem segNeg_nodup : segNeg.Nodup := by
  refine nodup_map_of_inj_on (fun a ha b hb h => ?_) List.nodup_range
  have := Nat.repr_injective ((String.append_right_inj _).mp h)
  have ha' := List.mem_range.mp ha
  have hb' := List.mem_range.mp hb
  omega
theorem segRes_nodup : segRes.Nodup := by
  refine nodup_map_of_injective (fun a b h => ?_) List.nodup_range
  have := Nat.repr_injective ((String.append_right_inj _).mp ((String.append_left_inj _).mp h))
  omega

theorem coordTokens_nodup {l : List P} (h : l.Nodup) : (l.map coordToken).Nodup :=
  nodup_map_of_injective (fun _ _ h => coordToken_injective h) h

theorem utTokens_nodup : utTokens.Nodup := coordTokens_nodup (nodup_cornerFirst _)

theorem segPlus_cls : ∀ t ∈ segPlus, scls t = 1 := by
  intro t ht
  obtain ⟨i, _, rfl⟩ := List.mem_map.mp ht
  simpa using scls_plus i ""
theorem segCTT_cls : ∀ t ∈ segCTT, scls t = 4 := by
  intro t ht
  obtain ⟨i, _, rfl⟩ := List.mem_map.mp ht
  exact scls_natRepr i
theorem segNeg_cls : ∀ t ∈ segNeg, scls t = 2 := by
  intro t ht
  obtain ⟨i, _, rfl⟩ := List.mem_map.mp ht
  simpa using scls_minus (256 - i) ""
theorem segRes_cls : ∀ t ∈ segRes, scls t = 5 := by
  intro t ht
  obtain ⟨i, _, rfl⟩ := List.mem_map.mp ht
  exact scls_reserve _ _
theorem coordTokens_cls {l : List P} : ∀ t ∈ l.map coordToken, scls t = 3 := by
  intro t ht
  obtain ⟨i, _, rfl⟩ := List.mem_map.mp ht
  exact scls_coordToken i

/-- the vocabulary with the two literal runs moved to the front -/
theorem vocab_perm :
    vocab ~ (specials ++ litsA ++ litsB) ++ (segPlus ++ (segCTT ++ (segNeg ++ (segRes ++ utTokens)))) := by
  rw [vocab_eq_segments]
  simp only [List.append_assoc]
  refine List.Perm.append_left _ (List.Perm.append_left _ ?_)
  -- X ++ (litsB ++ Y) ~ litsB ++ (X ++ Y) with X = segPlus ++ segCTT ++ segNeg
  have h : ∀ (X Y : List String), X ++ (litsB ++ Y) ~ litsB ++ (X ++ Y) := by
    intro X Y
    rw [← List.append_assoc, ← List.append_assoc]
    exact List.Perm.append_right _ List.perm_append_comm
  have := h (segPlus ++ (segCTT ++ segNeg)) (segRes ++ utTokens)
  simpa only [List.append_assoc] using this

theorem vocab_nodup : vocab.Nodup := by
  rw [vocab_perm.nodup_iff]
  have hut := utTokens_nodup
  have hutc : ∀ t ∈ utTokens, scls t = 3 := coordTokens_cls
  have h5 : (segRes ++ utTokens).Nodup :=
    nodup_append_of_cls scls 5 segRes_nodup hut segRes_cls (fun t ht => by rw [hutc t ht]; decide)
  have h5c : ∀ t ∈ segRes ++ utTokens, scls t = 5 ∨ scls t = 3 := by
    intro t ht
    rcases List.mem_append.mp ht with h | h
    · exact Or.inl (segRes_cls t h)
    · exact Or.inr (hutc t h)
  have h4 : (segNeg ++ (segRes ++ utTokens)).Nodup :=
    nodup_append_of_cls scls 2 segNeg_nodup h5 segNeg_cls (fun t ht => by rcases h5c t ht with h | h <;> rw [h] <;> decide)
  have h4c : ∀ t ∈ segNeg ++ (segRes ++ utTokens), scls t = 2 ∨ scls t = 5 ∨ scls t = 3 := by
    intro t ht
    rcases List.mem_append.mp ht with h | h
    · exact Or.inl (segNeg_cls t h)
    · exact Or.inr (h5c t h)
  have h3 : (segCTT ++ (segNeg ++ (segRes ++ utTokens))).Nodup :=
    nodup_append_of_cls scls 4 segCTT_nodup h4 segCTT_cls (fun t ht => by rcases h4c t ht with h | h | h <;> rw [h] <;> decide)
  have h3c : ∀ t ∈ segCTT ++ (segNeg ++ (segRes ++ utTokens)), scls t = 4 ∨ scls t = 2 ∨ scls t = 5 ∨ scls t = 3 := by
    intro t ht
    rcases List.mem_append.mp ht with h | h
    · exact Or.inl (segCTT_cls t h)
    · exact Or.inr (h4c t h)
  have h2 : (segPlus ++ (segCTT ++ (segNeg ++ (segRes ++ utTokens)))).Nodup :=
    nodup_append_of_cls scls 1 segPlus_nodup h3 segPlus_cls (fun t ht => by rcases h3c t ht with h | h | h | h <;> rw [h] <;> decide)
  have h2c : ∀ t ∈ segPlus ++ (segCTT ++ (segNeg ++ (segRes ++ utTokens))), scls t ≠ 0 := by
    intro t ht
    rcases List.mem_append.mp ht with h | h
    · rw [segPlus_cls t h]; decide
    · rcases h3c t h with h | h | h | h <;> rw [h] <;> decide
  exact nodup_append_of_cls scls 0 lits_nodup h2 lits_cls h2c

end MZ.Vocab
