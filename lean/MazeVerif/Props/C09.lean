import MazeVerif.Lemmas.MazeValue
/-! # C09 — maze objects are values: total structural equality, consistent hash, valid ends

Model: `MZ.MV` (`Model/MazeValue.lean`): `pyEq`/`pyNe` = the expressions `a == b` / `a != b` evaluated through
`LatticeMaze.__eq__` (NotImplemented protocol included) with the field comparator as a parameter,
`hashKey` = the bytes object(s) given to the builtin `hash`, `mkTargeted`/`mkSolved` = the constructors with
`__post_init__`, `dsEq` = `MazeDataset.__eq__`, `dedupe` = insertion into a hash container.
`SameValue` (Lemmas) is the property's own reading of "same kind and identical connection structure, start, end
and solution": it mentions neither `generation_meta` nor dtypes.
Only property theorems and their non-vacuity examples live here. -/
namespace MZ.MV

/-- Full statement of C09 on the model (proved below as `C09_full_holds`). -/
def C09_full : Prop :=
  -- == and != never raise, are complementary, and == is true exactly for same kind + identical structure
  (∀ a b : Maze, ∃ v : Bool, pyEq cmpArrayEqual a b = .ok v ∧ pyNe cmpArrayEqual a b = .ok (!v) ∧
      (v = true ↔ SameValue a b)) ∧
  -- equal mazes have equal hashes, whatever the builtin hash of bytes/tuples is
  (∀ (η : Type) (H : HashKey → η) (a b : Maze), pyEq cmpArrayEqual a b = .ok true → hashOf H a = hashOf H b) ∧
  -- datasets: equal exactly when configurations are equal and the maze lists are equal item by item
  (∀ (κ : Type) (cfgEq : κ → κ → Bool) (a b : DS κ), ∃ v : Bool, dsEq cmpArrayEqual cfgEq a b = .ok v ∧
      (v = true ↔ cfgEq a.cfg b.cfg = true ∧ a.mazes.length = b.mazes.length ∧
        ∀ i (h1 : i < a.mazes.length) (h2 : i < b.mazes.length), SameValue a.mazes[i] b.mazes[i])) ∧
  -- a constructed targeted / solved maze holds a start and an end inside its grid
  (∀ conn start end_ gm m, mkTargeted conn start end_ gm = .ok m →
      ∃ rows cols r c r' c', (gridShape conn)[0]? = some rows ∧ (gridShape conn)[1]? = some cols ∧
        start[0]? = some r ∧ start[1]? = some c ∧ end_[0]? = some r' ∧ end_[1]? = some c' ∧
        inGrid rows cols (r, c) ∧ inGrid rows cols (r', c') ∧ m = .targeted conn (arr1 start) (arr1 end_) gm) ∧
  -- and every out-of-grid coordinate (negative or too large, either axis, start or end) is a ValueError
  (∀ dt d rows cols bits r c r' c' gm, ¬ (inGrid rows cols (r, c) ∧ inGrid rows cols (r', c')) →
      mkTargeted ⟨dt, [d, rows, cols], bits⟩ [r, c] [r', c'] gm = .error .ValueError) ∧
  (∀ conn sol gm sa ea ai m, mkSolved conn sol gm sa ea ai = .ok m →
      ∃ rows cols r c r' c', (gridShape conn)[0]? = some rows ∧ (gridShape conn)[1]? = some cols ∧
        (firstRow sol)[0]? = some r ∧ (firstRow sol)[1]? = some c ∧
        (lastRow sol)[0]? = some r' ∧ (lastRow sol)[1]? = some c' ∧
        inGrid rows cols (r, c) ∧ inGrid rows cols (r', c') ∧
        ∃ s e, m = .solved conn s e sol gm ∧ s.data = firstRow sol ∧ e.data = lastRow sol)

/-! ## equality -/

/-- `a == b` and `a != b` never raise, for all pairs (any kinds, shapes, dtypes, solution lengths) -/
theorem C09_eq_total (a b : Maze) :
    ∃ v : Bool, pyEq cmpArrayEqual a b = .ok v ∧ pyNe cmpArrayEqual a b = .ok (!v) :=
  ⟨_, pyEq_arrayEqual a b, pyNe_arrayEqual a b⟩

/-- `a == b` is true exactly for same kind and identical structure -/
theorem C09_eq_iff (a b : Maze) : pyEq cmpArrayEqual a b = .ok true ↔ SameValue a b := by
  rw [pyEq_arrayEqual, ← sameValue_iff]
  constructor
  · intro h; injection h
  · intro h; rw [h]

/-- `a != b` is true exactly when they are not the same value -/
theorem C09_ne_iff (a b : Maze) : pyNe cmpArrayEqual a b = .ok true ↔ ¬ SameValue a b := by
  rw [pyNe_arrayEqual]
  have hs := sameValue_iff a b
  cases hv : (decide (a.kind = b.kind) && fieldsEqual a b)
  · rw [hv] at hs
    constructor
    · intro _ h; exact absurd (hs.2 h) (by simp)
    · intro _; rfl
  · rw [hv] at hs
    constructor
    · intro h; injection h with h; simp at h
    · intro h; exact absurd (hs.1 rfl) h

/-- `==` is an equivalence relation on mazes (what set/dict semantics need) -/
theorem C09_eq_equivalence :
    (∀ a, pyEq cmpArrayEqual a a = .ok true) ∧
    (∀ a b, pyEq cmpArrayEqual a b = pyEq cmpArrayEqual b a) ∧
    (∀ a b c, pyEq cmpArrayEqual a b = .ok true → pyEq cmpArrayEqual b c = .ok true →
      pyEq cmpArrayEqual a c = .ok true) := by
  refine ⟨fun a => (C09_eq_iff a a).2 (SameValue.refl a), fun a b => ?_, fun a b c h1 h2 => ?_⟩
  · obtain ⟨v, hv, _⟩ := C09_eq_total a b
    obtain ⟨w, hw, _⟩ := C09_eq_total b a
    rw [hv, hw]; congr 1
    have h1 := C09_eq_iff a b; have h2 := C09_eq_iff b a
    rw [hv] at h1; rw [hw] at h2
    cases v <;> cases w <;> simp_all
    · exact absurd (h2.symm) (by simpa using h1)
    · exact absurd (h1.symm) (by simpa using h2)
  · exact (C09_eq_iff a c).2 (((C09_eq_iff a b).1 h1).trans ((C09_eq_iff b c).1 h2))

/-- generation metadata and array dtypes never influence `==` -/
theorem C09_eq_ignores_meta_and_dtype (c s e p c' s' e' p' : Arr) (g g' : String)
    (hc : Same c c') (hs : Same s s') (he : Same e e') (hp : Same p p') :
    pyEq cmpArrayEqual (.lattice c g) (.lattice c' g') = .ok true ∧
    pyEq cmpArrayEqual (.targeted c s e g) (.targeted c' s' e' g') = .ok true ∧
    pyEq cmpArrayEqual (.solved c s e p g) (.solved c' s' e' p' g') = .ok true :=
  ⟨(C09_eq_iff _ _).2 hc, (C09_eq_iff _ _).2 ⟨hc, hs, he⟩, (C09_eq_iff _ _).2 ⟨hc, hs, he, hp⟩⟩

/-- mazes of different kinds are never equal, in either order, and `!=` is true -/
theorem C09_kinds_differ (a b : Maze) (h : a.kind ≠ b.kind) :
    pyEq cmpArrayEqual a b = .ok false ∧ pyEq cmpArrayEqual b a = .ok false ∧ pyNe cmpArrayEqual a b = .ok true := by
  have h' : b.kind ≠ a.kind := fun x => h x.symm
  simp [pyEq_arrayEqual, pyNe_arrayEqual, h, h']

/-! ## hash -/

/-- equal mazes have equal hashes, for every builtin hash function `H` of the hashed bytes -/
theorem C09_hash_compat {η} (H : HashKey → η) (a b : Maze) (h : pyEq cmpArrayEqual a b = .ok true) :
    hashOf H a = hashOf H b := by
  unfold hashOf; rw [((C09_eq_iff a b).1 h).hashKey]

/-- de-duplication through a hash container keeps exactly one representative per value:
    every input has an equal representative, no two kept mazes are equal, nothing is invented -/
theorem C09_dedupe {η} [DecidableEq η] (H : HashKey → η) (ms : List Maze) :
    (∀ m ∈ ms, ∃ x ∈ dedupe H ms, SameValue x m) ∧
    (dedupe H ms).Pairwise (fun x y => ¬ SameValue x y) ∧
    (∀ x ∈ dedupe H ms, x ∈ ms) := by
  have key : ∀ (ms s : List Maze), s.Pairwise (fun x y => ¬ SameValue x y) →
      (∀ m, (m ∈ ms ∨ m ∈ s) → ∃ x ∈ ms.foldl (setAdd H) s, SameValue x m) ∧
      (ms.foldl (setAdd H) s).Pairwise (fun x y => ¬ SameValue x y) ∧
      (∀ x ∈ ms.foldl (setAdd H) s, x ∈ ms ∨ x ∈ s) := by
    intro ms
    induction ms with
    | nil =>
      intro s hs
      refine ⟨fun m hm => ?_, hs, fun x hx => Or.inr hx⟩
      rcases hm with hm | hm
      · simp at hm
      · exact ⟨m, hm, SameValue.refl m⟩
    | cons m rest ih =>
      intro s hs
      have hany : (s.any fun x => decide (hashOf H x = hashOf H m) && decide (pyEq cmpArrayEqual x m = .ok true)) = true
          ↔ ∃ x ∈ s, SameValue x m := by
        simp only [List.any_eq_true, Bool.and_eq_true, decide_eq_true_eq]
        constructor
        · rintro ⟨x, hx, _, he⟩; exact ⟨x, hx, (C09_eq_iff x m).1 he⟩
        · rintro ⟨x, hx, he⟩
          exact ⟨x, hx, C09_hash_compat H x m ((C09_eq_iff x m).2 he), (C09_eq_iff x m).2 he⟩
      simp only [List.foldl_cons]
      by_cases hc : ∃ x ∈ s, SameValue x m
      · have hs' : setAdd H s m = s := by unfold setAdd; rw [if_pos (hany.2 hc)]
        rw [hs']
        obtain ⟨i1, i2, i3⟩ := ih s hs
        refine ⟨fun y hy => ?_, i2, fun x hx => ?_⟩
        · rcases hy with hy | hy
          · rcases List.mem_cons.1 hy with rfl | hy
            · obtain ⟨x, hx, hxm⟩ := hc
              obtain ⟨z, hz, hzx⟩ := i1 x (Or.inr hx)
              exact ⟨z, hz, hzx.trans hxm⟩
            · exact i1 y (Or.inl hy)
          · exact i1 y (Or.inr hy)
        · rcases i3 x hx with h | h
          · exact Or.inl (List.mem_cons_of_mem _ h)
          · exact Or.inr h
      · have hs' : setAdd H s m = s ++ [m] := by
          unfold setAdd; rw [if_neg (fun h => hc (hany.1 h))]
        rw [hs']
        have hp : (s ++ [m]).Pairwise (fun x y => ¬ SameValue x y) := by
          rw [List.pairwise_append]
          refine ⟨hs, List.pairwise_singleton _ _, fun x hx y hy => ?_⟩
          rcases List.mem_singleton.1 hy with rfl
          exact fun h => hc ⟨x, hx, h⟩
        obtain ⟨i1, i2, i3⟩ := ih (s ++ [m]) hp
        refine ⟨fun y hy => ?_, i2, fun x hx => ?_⟩
        · rcases hy with hy | hy
          · rcases List.mem_cons.1 hy with rfl | hy
            · exact i1 y (Or.inr (by simp))
            · exact i1 y (Or.inl hy)
          · exact i1 y (Or.inr (by simp [hy]))
        · rcases i3 x hx with h | h
          · exact Or.inl (List.mem_cons_of_mem _ h)
          · rcases List.mem_append.1 h with h | h
            · exact Or.inr h
            · rcases List.mem_singleton.1 h with rfl
              exact Or.inl (by simp)
  obtain ⟨k1, k2, k3⟩ := key ms [] List.Pairwise.nil
  refine ⟨fun m hm => k1 m (Or.inl hm), k2, fun x hx => ?_⟩
  rcases k3 x hx with h | h
  · exact h
  · simp at h

/-! ## datasets -/

private theorem listEq_spec (l1 l2 : List Maze) :
    ∃ v : Bool, listEq cmpArrayEqual l1 l2 = .ok v ∧
      (v = true ↔ l1.length = l2.length ∧
        ∀ i (h1 : i < l1.length) (h2 : i < l2.length), SameValue l1[i] l2[i]) := by
  induction l1 generalizing l2 with
  | nil =>
    cases l2 with
    | nil => exact ⟨true, by simp [listEq, pyAll], by simp⟩
    | cons y ys => exact ⟨false, by simp [listEq], by simp⟩
  | cons x xs ih =>
    cases l2 with
    | nil => exact ⟨false, by simp [listEq], by simp⟩
    | cons y ys =>
      obtain ⟨v, hv, hiff⟩ := ih ys
      by_cases hl : xs.length = ys.length
      · have hv' : pyAll ((List.zip xs ys).map fun xy => pyEq cmpArrayEqual xy.1 xy.2) = .ok v := by
          simpa [listEq, hl] using hv
        by_cases hxy : SameValue x y
        · refine ⟨v, ?_, ?_⟩
          · simp only [listEq, List.length_cons, hl, ne_eq, not_true_eq_false, if_false, List.zip_cons_cons,
              List.map_cons, (C09_eq_iff x y).2 hxy, pyAll, hv']
          · rw [hiff]
            constructor
            · rintro ⟨_, h⟩
              refine ⟨by simp [hl], fun i h1 h2 => ?_⟩
              cases i with
              | zero => exact hxy
              | succ j => exact h j (by simpa using h1) (by simpa using h2)
            · rintro ⟨_, h⟩
              exact ⟨hl, fun i h1 h2 => h (i + 1) (by simpa using h1) (by simpa using h2)⟩
        · have hne : pyEq cmpArrayEqual x y = .ok false := by
            obtain ⟨w, hw, _⟩ := C09_eq_total x y
            cases w
            · exact hw
            · exact absurd ((C09_eq_iff x y).1 hw) hxy
          refine ⟨false, ?_, ?_⟩
          · simp only [listEq, List.length_cons, hl, ne_eq, not_true_eq_false, if_false, List.zip_cons_cons,
              List.map_cons, hne, pyAll]
          · constructor
            · intro h; cases h
            · rintro ⟨_, h⟩; exact absurd (h 0 (by simp) (by simp)) hxy
      · refine ⟨false, by simp [listEq, hl], ?_⟩
        constructor
        · intro h; cases h
        · rintro ⟨h, _⟩; exact absurd (by simpa using h) hl

/-- `ds1 == ds2` never raises and is true exactly when the configurations compare equal and the maze lists
    have the same length and are equal item by item -/
theorem C09_dataset_eq {κ} (cfgEq : κ → κ → Bool) (a b : DS κ) :
    ∃ v : Bool, dsEq cmpArrayEqual cfgEq a b = .ok v ∧
      (v = true ↔ cfgEq a.cfg b.cfg = true ∧ a.mazes.length = b.mazes.length ∧
        ∀ i (h1 : i < a.mazes.length) (h2 : i < b.mazes.length), SameValue a.mazes[i] b.mazes[i]) := by
  unfold dsEq
  by_cases hc : cfgEq a.cfg b.cfg = true
  · obtain ⟨v, hv, hiff⟩ := listEq_spec a.mazes b.mazes
    exact ⟨v, by rw [if_pos hc]; exact hv, by rw [hiff]; simp [hc]⟩
  · exact ⟨false, by rw [if_neg hc], by simp [hc]⟩

/-! ## endpoints -/

/-- whatever was passed: a targeted maze that got constructed holds start and end inside its grid, and they
    are the ones that were passed -/
theorem C09_ends_valid_targeted (conn : Arr) (start end_ : List Int) (gm : String) (m : Maze)
    (h : mkTargeted conn start end_ gm = .ok m) :
    ∃ rows cols r c r' c', (gridShape conn)[0]? = some rows ∧ (gridShape conn)[1]? = some cols ∧
      start[0]? = some r ∧ start[1]? = some c ∧ end_[0]? = some r' ∧ end_[1]? = some c' ∧
      inGrid rows cols (r, c) ∧ inGrid rows cols (r', c') ∧ m = .targeted conn (arr1 start) (arr1 end_) gm := by
  unfold mkTargeted at h
  split at h
  · simp at h
  · simp at h
  · next h1 =>
    split at h
    · simp at h
    · simp at h
    · next h2 =>
      obtain ⟨r, c, rows, cols, a1, a2, a3, a4, a5⟩ := outOfBounds_false h1
      obtain ⟨r', c', rows', cols', b1, b2, b3, b4, b5⟩ := outOfBounds_false h2
      rw [a3] at b3; rw [a4] at b4
      injection b3 with b3; injection b4 with b4; subst b3; subst b4
      injection h with h
      exact ⟨rows, cols, r, c, r', c', a3, a4, a1, a2, b1, b2, a5, b5, h.symm⟩

/-- on a `[d, rows, cols]` connection list and 2-coordinate endpoints the constructor decides exactly the
    in-grid test: accepted iff both are inside; otherwise ValueError (negative or too large, either axis) -/
theorem C09_targeted_decides (dt : String) (d rows cols : Nat) (bits : List Int) (r c r' c' : Int) (gm : String) :
    mkTargeted ⟨dt, [d, rows, cols], bits⟩ [r, c] [r', c'] gm =
      if inGrid rows cols (r, c) ∧ inGrid rows cols (r', c')
      then .ok (.targeted ⟨dt, [d, rows, cols], bits⟩ (arr1 [r, c]) (arr1 [r', c']) gm)
      else .error .ValueError := by
  unfold mkTargeted gridShape
  simp only [List.drop_succ_cons, List.drop_zero, outOfBounds_pair]
  by_cases h1 : inGrid rows cols (r, c) <;> by_cases h2 : inGrid rows cols (r', c') <;> simp [h1, h2]

/-- a solved maze that got constructed: first and last solution cell are inside the grid and are its
    start and end (any solution length ≥ 1, any caller-supplied start/end, `allow_invalid` or not) -/
theorem C09_ends_valid_solved (conn sol : Arr) (gm : String) (sa ea : Option (List Int)) (ai : Bool) (m : Maze)
    (h : mkSolved conn sol gm sa ea ai = .ok m) :
    ∃ rows cols r c r' c', (gridShape conn)[0]? = some rows ∧ (gridShape conn)[1]? = some cols ∧
      (firstRow sol)[0]? = some r ∧ (firstRow sol)[1]? = some c ∧
      (lastRow sol)[0]? = some r' ∧ (lastRow sol)[1]? = some c' ∧
      inGrid rows cols (r, c) ∧ inGrid rows cols (r', c') ∧
      ∃ s e, m = .solved conn s e sol gm ∧ s.data = firstRow sol ∧ e.data = lastRow sol := by
  unfold mkSolved at h
  split at h
  · simp at h
  · split at h <;> simp at h
  · split at h
    · simp at h
    · next t ht =>
      obtain ⟨rows, cols, r, c, r', c', g1, g2, g3, g4, g5, g6, g7, g8, _⟩ :=
        C09_ends_valid_targeted conn (firstRow sol) (lastRow sol) gm t ht
      have hm : ∀ m', m = m' → m' = Maze.solved conn { (arr1 (firstRow sol)) with dtype := sol.dtype }
          { (arr1 (lastRow sol)) with dtype := sol.dtype } sol gm →
          ∃ s e, m = .solved conn s e sol gm ∧ s.data = firstRow sol ∧ e.data = lastRow sol := by
        intro m' e1 e2; subst e1; exact ⟨_, _, e2, rfl, rfl⟩
      refine ⟨rows, cols, r, c, r', c', g1, g2, g3, g4, g5, g6, g7, g8, ?_⟩
      simp only at h
      split at h
      · injection h with h; exact hm _ h.symm rfl
      · split at h
        · simp at h
        · split at h
          · simp at h
          · injection h with h; exact hm _ h.symm rfl

/-- a solution whose first or last cell is outside the grid (negative or too large) is rejected with ValueError -/
theorem C09_solved_rejects (dt : String) (d rows cols : Nat) (bits : List Int) (sol : Arr) (r c r' c' : Int)
    (gm : String) (sa ea : Option (List Int)) (ai : Bool)
    (hv : solutionValid sol = .ok true) (hf : firstRow sol = [r, c]) (hl : lastRow sol = [r', c'])
    (hout : ¬ (inGrid rows cols (r, c) ∧ inGrid rows cols (r', c'))) :
    mkSolved ⟨dt, [d, rows, cols], bits⟩ sol gm sa ea ai = .error .ValueError := by
  unfold mkSolved
  simp only [hv, hf, hl, C09_targeted_decides, if_neg hout]

/-- … and an in-grid solution is accepted (no spurious rejection) -/
theorem C09_solved_accepts (dt : String) (d rows cols : Nat) (bits : List Int) (sol : Arr) (r c r' c' : Int)
    (gm : String)
    (hv : solutionValid sol = .ok true) (hf : firstRow sol = [r, c]) (hl : lastRow sol = [r', c'])
    (hin : inGrid rows cols (r, c) ∧ inGrid rows cols (r', c')) :
    ∃ m, mkSolved ⟨dt, [d, rows, cols], bits⟩ sol gm none none false = .ok m := by
  unfold mkSolved
  simp only [hv, hf, hl, C09_targeted_decides, if_pos hin, assertMatches]
  exact ⟨_, rfl⟩

theorem C09_full_holds : C09_full := by
  refine ⟨fun a b => ?_, fun η H a b h => C09_hash_compat H a b h, fun κ cfgEq a b => C09_dataset_eq cfgEq a b,
    fun conn s e gm m h => C09_ends_valid_targeted conn s e gm m h, ?_,
    fun conn sol gm sa ea ai m h => C09_ends_valid_solved conn sol gm sa ea ai m h⟩
  · obtain ⟨v, h1, h2⟩ := C09_eq_total a b
    refine ⟨v, h1, h2, ?_⟩
    rw [← C09_eq_iff, h1]
    constructor
    · intro h; rw [h]
    · intro h; injection h
  · intro dt d rows cols bits r c r' c' gm hout
    rw [C09_targeted_decides, if_neg hout]

/-! ## non-vacuity -/
section examples
private def cl : Arr := ⟨"bool", [2, 2, 3], [1, 0, 0, 0, 0, 0, 1, 1, 0, 0, 1, 0]⟩
private def cl64 : Arr := ⟨"int64", [2, 2, 3], [1, 0, 0, 0, 0, 0, 1, 1, 0, 0, 1, 0]⟩
private def clT : Arr := ⟨"bool", [2, 3, 2], [1, 0, 0, 0, 0, 0, 1, 1, 0, 0, 1, 0]⟩
private def sol : Arr := ⟨"int64", [3, 2], [0, 0, 0, 1, 0, 2]⟩
private def sol8 : Arr := ⟨"int8", [3, 2], [0, 0, 0, 1, 0, 2]⟩
private def solShort : Arr := ⟨"int64", [2, 2], [0, 0, 0, 1]⟩

-- C09_eq_total is not vacuous: with the elementwise comparator of the dataclass-generated __eq__ (F1) the model raises
example : pyEq cmpElementwise (.lattice cl "") (.lattice cl "") = .error .ValueError := by decide
example : pyEq cmpArrayEqual (.lattice cl "a") (.lattice cl64 "b") = .ok true := by decide
-- same bytes, different shape: not equal
example : pyEq cmpArrayEqual (.lattice cl "") (.lattice clT "") = .ok false := by decide
-- different kinds, same fields
example : pyEq cmpArrayEqual (.lattice cl "") (.targeted cl (arr1 [0, 0]) (arr1 [0, 2]) "") = .ok false ∧
    pyNe cmpArrayEqual (.targeted cl (arr1 [0, 0]) (arr1 [0, 2]) "") (.lattice cl "") = .ok true := by decide
-- solutions of different length
example : pyEq cmpArrayEqual (.solved cl (arr1 [0, 0]) (arr1 [0, 2]) sol "") (.solved cl (arr1 [0, 0]) (arr1 [0, 1]) solShort "")
    = .ok false := by decide
-- hash: dtype variants hash the same key, a changed solution does not
example : hashKey (.solved cl (arr1 [0, 0]) (arr1 [0, 2]) sol "") = hashKey (.solved cl64 (arr1 [0, 0]) (arr1 [0, 2]) sol8 "x") := by decide
example : hashKey (.solved cl (arr1 [0, 0]) (arr1 [0, 2]) sol "") ≠ hashKey (.solved cl (arr1 [0, 0]) (arr1 [0, 1]) solShort "") := by decide
example : (dedupe (fun k => k) [.lattice cl "a", .lattice clT "", .lattice cl64 "b", .lattice clT "z"]).length = 2 := by decide
-- datasets
example : dsEq cmpArrayEqual (fun (x y : Nat) => x == y) ⟨1, [.lattice cl "a"]⟩ ⟨1, [.lattice cl64 "b"]⟩ = .ok true ∧
    dsEq cmpArrayEqual (fun (x y : Nat) => x == y) ⟨1, [.lattice cl "a"]⟩ ⟨1, [.lattice cl "a", .lattice cl "a"]⟩ = .ok false ∧
    dsEq cmpArrayEqual (fun (x y : Nat) => x == y) ⟨1, [.lattice cl "a"]⟩ ⟨2, [.lattice cl "a"]⟩ = .ok false := by decide
-- endpoints on a non-square 2x3 grid
example : (mkTargeted cl [1, 2] [0, 0] "").isOk = true ∧ mkTargeted cl [2, 1] [0, 0] "" = .error .ValueError ∧
    mkTargeted cl [0, 0] [0, -1] "" = .error .ValueError ∧ mkTargeted cl [-1, 0] [0, 0] "" = .error .ValueError ∧
    mkTargeted cl [0, 3] [0, 0] "" = .error .ValueError := by decide
example : (mkSolved cl sol "" none none false).isOk = true ∧
    mkSolved cl ⟨"int64", [2, 2], [0, 0, 2, 0]⟩ "" none none false = .error .ValueError ∧
    mkSolved cl ⟨"int64", [2, 2], [0, -1, 0, 0]⟩ "" none none false = .error .ValueError ∧
    mkSolved cl sol "" (some [0, 1]) none false = .error .AssertionError ∧
    mkSolved cl ⟨"float64", [0], []⟩ "" none none false = .error .ValueError := by decide
example : solutionValid sol = .ok true ∧ firstRow sol = [0, 0] ∧ lastRow sol = [0, 2] := by decide
end examples

end MZ.MV
