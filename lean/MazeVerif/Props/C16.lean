import MazeVerif.Lemmas.Coll
import MazeVerif.Lemmas.CollectionState
/-! # C16 — a dataset collection is exactly the concatenation of its member datasets

Model: `MZ.Coll.locate` (collected_dataset.py:108-119). A member dataset is a list of mazes of an
arbitrary type `α` (the theorems are parametric in `α`, so "the very maze" is position-identity: the
correspondence harness checks Python `is`). Only property theorems and their non-vacuity examples live here. -/
namespace MZ.Coll

/-- Full statement of C16 (kept visible; proved below as `C16_full_holds`). -/
def C16_full : Prop :=
  ∀ (α : Type) (members : List (List α)),
    len members = (mazes members).length ∧
    (∀ i (h : i < (mazes members).length), getItem members i = some ((mazes members)[i])) ∧
    (∀ i, (mazes members).length ≤ i → getItem members i = none) ∧
    (∀ cnts : List Nat, cnts = members.map List.length → cfgNMazes cnts = len members)

theorem C16_len {α} (members : List (List α)) : len members = (mazes members).length := by
  simp [len, mazes, List.length_flatten]

/-- every valid index: the located member exists, the local index is in range, and the item is the
    i-th maze of the concatenation — zeros (empty members) anywhere. -/
theorem C16_getitem {α} (members : List (List α)) (i : Nat) (h : i < (mazes members).length) :
    getItem members i = some ((mazes members)[i]) := by
  obtain ⟨hk, hj, heq⟩ := locateFrom_spec members 0 i h
  unfold getItem locate
  simp only [List.getElem?_eq_getElem hk, List.getElem?_eq_getElem hj, heq, mazes]
  rfl

theorem C16_getitem_located {α} (members : List (List α)) (i : Nat) (h : i < (mazes members).length) :
    ∃ (hk : (locate (members.map List.length) i).1 < members.length)
      (hj : (locate (members.map List.length) i).2 < members[(locate (members.map List.length) i).1].length),
      members[(locate (members.map List.length) i).1][(locate (members.map List.length) i).2] = (mazes members)[i] :=
  locateFrom_spec members 0 i h

theorem C16_mazes {α} (members : List (List α)) :
    mazes members = members.flatten ∧ (mazes members).length = (members.map List.length).sum := by
  simp [mazes, List.length_flatten]

/-- reported count, `len`, per-member lengths and the flattened list agree whenever every member config's
    `n_mazes` equals its dataset's length (the invariant `generate`, the filter wrappers and
    `update_self_config` maintain; the constructor asserts `c == ds.cfg`, but `n_mazes` is `compare=False`). -/
theorem C16_counts_agree {α} (members : List (List α)) (cnts : List Nat)
    (h : cnts = members.map List.length) :
    cfgNMazes cnts = len members ∧ len members = (mazes members).length ∧
    (members.map List.length).sum = (mazes members).length := by
  subst h; simp [cfgNMazes, len, mazes, List.length_flatten]

private theorem ss_all_lt : ∀ (lens : List Nat) (acc v : Nat), acc + lens.sum < v →
    searchsortedLeft (cum lens acc) v = lens.length
  | [], _, _, _ => rfl
  | l :: ls, acc, v, h => by
    simp only [List.sum_cons] at h
    have h1 : acc + l < v := by omega
    simp only [cum, searchsortedLeft, h1, if_true, List.length_cons]
    rw [ss_all_lt ls (acc + l) v (by omega)]; omega

/-- an index at or past the total length is rejected (IndexError on the member list), never answered -/
theorem C16_getitem_out_of_range {α} (members : List (List α)) (i : Nat) (h : (mazes members).length ≤ i) :
    getItem members i = none := by
  have hs : (members.map List.length).sum = (mazes members).length := by simp [mazes, List.length_flatten]
  have hk : (locate (members.map List.length) i).1 = members.length := by
    simp only [locate, locateFrom]
    rw [ss_all_lt _ 0 (0 + i + 1) (by omega)]; simp
  unfold getItem
  generalize hkj : locate (members.map List.length) i = kj at hk
  obtain ⟨k, j⟩ := kj
  simp only at hk ⊢
  subst hk
  simp

theorem C16_full_holds : C16_full := by
  intro α members
  exact ⟨C16_len members, fun i h => C16_getitem members i h, fun i h => C16_getitem_out_of_range members i h,
    fun cnts hc => (C16_counts_agree members cnts hc).1⟩

/-! ## non-vacuity: concrete collections with zeros at the start, middle and end -/
example : getItem [[], [10, 11], [], [], [12], []] 2 = some 12 := by decide
example : (mazes [[], [10, 11], [], [], [12], []]).length = 3 ∧ len [[], [10, 11], [], [], [12], ([] : List Nat)] = 3 := by decide
example : getItem [[], [10, 11], [], [], [12], []] 3 = none := by decide
example : locate [1, 0, 3, 2, 1] 4 = (3, 0) := by decide


/-! ## the collection as a state machine: members are edited over time

Model: `Model/CollectionState.lean` (`CState`, `Op`, `step`, `init`, `run`, `obs`). `obs s pre o` is the answer the
collection gives to statement `o` after the statement list `pre`, started in state `s`. `curMembers`, `dirty`,
`disciplined` are functions of the statement list alone (the specification side); the theorems say what the machine
answers in terms of them, for EVERY statement list (induction over the list) and, unless `init` is written, from EVERY
start state. `C16_counts_agree`'s hypothesis ("every member config's `n_mazes` is the member's length") is no longer
assumed: `C16_state_counts_after_update` / `C16_state_counts_invariant` say when it holds, the examples when not. -/

/-- the driver's output list, entry by entry: output `k` of a run is `obs` after the first `k` statements -/
theorem C16_state_run_obs {α} (s : CState α) (ops : List (Op α)) (k : Nat) (hk : k < ops.length) :
    (run s ops).2.length = ops.length ∧ (run s ops).1 = runState s ops ∧
    (run s ops).2[k]? = some (obs s (ops.take k) ops[k]) := by
  refine ⟨run_length s ops, run_fst s ops, ?_⟩
  rw [List.getElem?_eq_getElem (by rw [run_length]; exact hk), run_getElem s ops k hk]

/-- after ANY statement list from ANY state: `len` is the sum of the CURRENT member lengths, `dataset_lengths` the current
    lengths, `coll[i]` the i-th maze of the CURRENT concatenation (whatever is cached, whatever the configs say), and
    an index at or past the current total is an IndexError. The current members are the initial ones with the
    `setMember` statements applied — nothing else moves them. -/
theorem C16_state_len_getitem {α} (s : CState α) (pre : List (Op α)) :
    (runState s pre).members = curMembers s.members pre ∧
    obs s pre .len = .nat ((curMembers s.members pre).map List.length).sum ∧
    obs s pre .len = .nat (curMembers s.members pre).flatten.length ∧
    obs s pre .lengths = .nats ((curMembers s.members pre).map List.length) ∧
    (∀ i (h : i < (curMembers s.members pre).flatten.length),
        obs s pre (.getitem i) = .item ((curMembers s.members pre).flatten[i])) ∧
    (∀ i, (curMembers s.members pre).flatten.length ≤ i → obs s pre (.getitem i) = .error) := by
  have hm := runState_members s pre
  refine ⟨hm, ?_, ?_, ?_, ?_, ?_⟩
  · simp only [obs, step, hm, len]
  · simp only [obs, step, hm, C16_len, mazes]
  · simp only [obs, step, hm]
  · intro i h
    have := C16_getitem (curMembers s.members pre) i h
    simp only [obs, step, hm, this, mazes]
  · intro i h
    have := C16_getitem_out_of_range (curMembers s.members pre) i h
    simp only [obs, step, hm, this]

private theorem read_of_cache {α} (t : CState α) (l : List α) (h : t.cache = some l) :
    (step t .readMazes).2 = .list l := by
  simp only [step, h]

/-- `coll.mazes` is frozen at its first read. Started with an empty cache slot, with `p1` free of reads:
    the first read answers the concatenation as it is then, and EVERY later read — whatever happened in `p2` —
    answers that same list. -/
theorem C16_state_cache {α} (s : CState α) (hc : s.cache = none) (p1 p2 : List (Op α))
    (h1 : ∀ o ∈ p1, o.isRead = false) :
    obs s p1 .readMazes = .list (curMembers s.members p1).flatten ∧
    obs s (p1 ++ .readMazes :: p2) .readMazes = .list (curMembers s.members p1).flatten := by
  have hn := runState_cache_none s p1 hc h1
  have hm := runState_members s p1
  constructor
  · simp only [obs, step, hn, hm, mazes]
  · have hs : (step (runState s p1) .readMazes).1.cache = some (curMembers s.members p1).flatten := by
      simp only [step, hn, hm, mazes]
    have := runState_cache_some _ p2 _ hs
    rw [obs, runState_append]
    show (step (runState (step (runState s p1) .readMazes).1 p2) .readMazes).2 = _
    exact read_of_cache _ _ this

/-- exact characterisation of staleness: a later read equals the CURRENT concatenation iff the concatenation at the first
    read equals the current one. -/
theorem C16_state_cache_fresh_iff {α} (s : CState α) (hc : s.cache = none) (p1 p2 : List (Op α))
    (h1 : ∀ o ∈ p1, o.isRead = false) :
    obs s (p1 ++ .readMazes :: p2) .readMazes = .list (curMembers s.members (p1 ++ .readMazes :: p2)).flatten ↔
    (curMembers s.members p1).flatten = (curMembers s.members (p1 ++ .readMazes :: p2)).flatten := by
  rw [(C16_state_cache s hc p1 p2 h1).2]
  constructor
  · intro h; injection h
  · intro h; rw [h]

/-- sufficient for a fresh answer: no `setMember` since the first read -/
theorem C16_state_cache_fresh {α} (s : CState α) (hc : s.cache = none) (p1 p2 : List (Op α))
    (h1 : ∀ o ∈ p1, o.isRead = false) (h2 : ∀ o ∈ p2, o.isSet = false) :
    obs s (p1 ++ .readMazes :: p2) .readMazes = .list (curMembers s.members (p1 ++ .readMazes :: p2)).flatten := by
  rw [C16_state_cache_fresh_iff s hc p1 p2 h1, curMembers_append]
  simp only [curMembers]
  rw [curMembers_noSet _ p2 h2]

/-- a filled cache slot never changes: every read, after anything, answers the cached list -/
theorem C16_state_cache_frozen {α} (s : CState α) (l : List α) (hc : s.cache = some l) (pre : List (Op α)) :
    obs s pre .readMazes = .list l := by
  simp only [obs, step, runState_cache_some s pre l hc]

/-- immediately after `coll.update_self_config()` and until the next `setMember` (any start state — nothing assumed about
    the members or their configs; any statements `pre` before, any non-`setMember` statements `p2` after):
    every member config's `n_mazes` is the member's length, `len` = sum of the member configs' `n_mazes` = sum of
    the lengths = length of the concatenation, and `cfg.n_mazes` is that number PLUS the surplus configs' total. -/
theorem C16_state_counts_after_update_any {α} (s : CState α) (pre p2 : List (Op α))
    (h2 : ∀ o ∈ p2, o.isSet = false) :
    let hist := pre ++ .collUpdateCfg :: p2
    let cur := curMembers s.members hist
    cur = curMembers s.members pre ∧
    (runState s hist).memberCfgN = cur.map List.length ∧
    obs s hist .len = .nat (runState s hist).memberCfgN.sum ∧
    obs s hist .len = .nat (cur.map List.length).sum ∧
    obs s hist .len = .nat cur.flatten.length ∧
    obs s hist .cfgCount = .nat (cur.flatten.length + s.extraCfgN) := by
  intro hist cur
  have hcur : cur = curMembers s.members pre := by
    simp only [cur, hist, curMembers_append, curMembers]
    exact curMembers_noSet _ p2 h2
  have hinv : CountsInv (runState s hist) [] := by
    have := countsInv_run (step (runState s pre) .collUpdateCfg).1 [] p2 (countsInv_collUpdate _)
    rw [dirty_noSet p2 h2] at this
    simpa only [hist, runState_append, runState] using this
  have hcfg := countsInv_nil _ hinv
  have hm : (runState s hist).members = cur := runState_members s hist
  have hsum : (cur.map List.length).sum = cur.flatten.length := by simp [List.length_flatten]
  refine ⟨hcur, by rw [hcfg, hm], ?_, ?_, ?_, ?_⟩
  · simp only [obs, step, len, hcfg]
  · simp only [obs, step, len, hm]
  · simp only [obs, step, len, hm, hsum]
  · simp only [obs, step, CState.collCfgN, cfgNMazes, hcfg, hm, hsum, runState_extra]

/-- the same from a freshly generated collection (`init`, no surplus configs): after `update_self_config` and until the
    next `setMember`, `cfg.n_mazes` = `len` = sum of member configs' `n_mazes` = sum of lengths = length of the concatenation -/
theorem C16_state_counts_after_update {α} (ms : List (List α)) (pre p2 : List (Op α))
    (h2 : ∀ o ∈ p2, o.isSet = false) :
    let hist := pre ++ .collUpdateCfg :: p2
    let cur := curMembers ms hist
    obs (init ms) hist .cfgCount = .nat cur.flatten.length ∧
    obs (init ms) hist .len = .nat cur.flatten.length ∧
    (runState (init ms) hist).memberCfgN.sum = cur.flatten.length ∧
    (cur.map List.length).sum = cur.flatten.length ∧
    obs (init ms) hist .lengths = .nats (cur.map List.length) := by
  intro hist cur
  obtain ⟨_, h1, _, _, h4, h5⟩ := C16_state_counts_after_update_any (init ms) pre p2 h2
  have hsum : (cur.map List.length).sum = cur.flatten.length := by simp [List.length_flatten]
  refine ⟨by simpa [init] using h5, h4, ?_, hsum, (C16_state_len_getitem (init ms) hist).2.2.2.1⟩
  rw [h1]; exact hsum

/-- The statement "after `update_self_config` the reported count equals `len`, from ANY collection the constructor
    accepts" is FALSE: the constructor keeps surplus entries of `cfg.maze_dataset_configs` (more configs than datasets;
    the `zip` in its assertion loop truncates), the property sums them, and `update_self_config` cannot reach them. -/
def C16_state_counts_after_update_full : Prop :=
  ∀ (α : Type) (s : CState α), obs s [.collUpdateCfg] .cfgCount = obs s [.collUpdateCfg] .len

theorem C16_state_counts_after_update_full_false : ¬ C16_state_counts_after_update_full := by
  intro h
  have := h Nat { members := [[1], [2]], memberCfgN := [1, 1], extraCfgN := 5, dictN := none, cache := none }
  revert this; decide

/-- whenever no member slot is dirty (every `setMember j` so far was followed by `memberUpdateCfg j` or
    `collUpdateCfg`), a freshly generated collection reports agreeing counts: `cfg.n_mazes` = `len` =
    sum of `dataset_lengths` = sum of the member configs' `n_mazes` = length of the current concatenation. -/
theorem C16_state_counts_invariant {α} (ms : List (List α)) (pre : List (Op α)) (hclean : dirty [] pre = []) :
    let cur := curMembers ms pre
    (runState (init ms) pre).memberCfgN = cur.map List.length ∧
    obs (init ms) pre .cfgCount = .nat cur.flatten.length ∧
    obs (init ms) pre .len = .nat cur.flatten.length ∧
    obs (init ms) pre .lengths = .nats (cur.map List.length) ∧
    (cur.map List.length).sum = cur.flatten.length := by
  intro cur
  have hinv := countsInv_run (init ms) [] pre (countsInv_init ms)
  rw [hclean] at hinv
  have hcfg := countsInv_nil _ hinv
  have hm : (runState (init ms) pre).members = cur := runState_members (init ms) pre
  have hsum : (cur.map List.length).sum = cur.flatten.length := by simp [List.length_flatten]
  have hx : (runState (init ms) pre).extraCfgN = 0 := runState_extra (init ms) pre
  refine ⟨by rw [hcfg, hm], ?_, ?_, ?_, hsum⟩
  · simp only [obs, step, CState.collCfgN, cfgNMazes, hcfg, hm, hsum, hx, Nat.add_zero]
  · simp only [obs, step, len, hm, hsum]
  · simp only [obs, step, hm]

/-- run form: in a DISCIPLINED statement list (every count is read with no dirty slot), every count the run outputs
    is the right one for the members as they are at that moment -/
theorem C16_state_counts_invariant_run {α} (ms : List (List α)) (ops : List (Op α))
    (hd : disciplined [] ops = true) (k : Nat) (hk : k < ops.length) :
    let cur := curMembers ms (ops.take k)
    (ops[k] = .cfgCount → (run (init ms) ops).2[k]? = some (.nat cur.flatten.length)) ∧
    (ops[k] = .len → (run (init ms) ops).2[k]? = some (.nat cur.flatten.length)) ∧
    (ops[k] = .lengths → (run (init ms) ops).2[k]? = some (.nats (cur.map List.length)) ∧
        (cur.map List.length).sum = cur.flatten.length) := by
  intro cur
  have hrun := (C16_state_run_obs (init ms) ops k hk).2.2
  have hclean : ops[k].isCountObs = true → dirty [] (ops.take k) = [] := disciplined_clean [] ops hd k hk
  refine ⟨fun he => ?_, fun he => ?_, fun he => ?_⟩
  · obtain ⟨_, h, _⟩ := C16_state_counts_invariant ms (ops.take k) (hclean (by rw [he]; rfl))
    rw [hrun, he, h]
  · obtain ⟨_, _, h, _⟩ := C16_state_counts_invariant ms (ops.take k) (hclean (by rw [he]; rfl))
    rw [hrun, he, h]
  · obtain ⟨_, _, _, h, hs⟩ := C16_state_counts_invariant ms (ops.take k) (hclean (by rw [he]; rfl))
    exact ⟨by rw [hrun, he, h], hs⟩

/-! ### non-vacuity and counterexamples (concrete statement lists, evaluated) -/

/-- a run exercising every statement kind and both error branches -/
example : (run (init [[10, 11], [], [12]])
    [.len, .getitem 2, .setMember 1 [20, 21], .getitem 2, .len, .lengths, .cfgCount, .memberUpdateCfg 1, .cfgCount,
     .readMazes, .getitem 5, .setMember 7 [], .memberUpdateCfg 3]).2
  = [.nat 3, .item 12, .unit, .item 20, .nat 5, .nats [2, 2, 1], .nat 3, .unit, .nat 5,
     .list [10, 11, 20, 21, 12], .error, .error, .error] := by decide

/-- C16_state_len_getitem / C16_state_run_obs: hypotheses-free, instance with edits before the lookup -/
example : obs (init [[10, 11], [], [12]]) [.readMazes, .setMember 0 [], .setMember 1 [7, 8]] (.getitem 1) = .item 8 ∧
    curMembers [[10, 11], [], [12]] [.readMazes, .setMember 0 [], .setMember 1 [7, 8]] = [[], [7, 8], [12]] := by decide

/-- THE STALE COUNTEREXAMPLE (C16_state_cache): `.mazes` read, a member replaced, `.mazes` read again:
    the second read still answers the old list while `len` and `coll[2]` follow the edit -/
example : (run (init [[1], [2]]) [.readMazes, .setMember 0 [1, 3], .readMazes, .len, .getitem 2, .getitem 1]).2
  = [.list [1, 2], .unit, .list [1, 2], .nat 3, .item 2, .item 3] := by decide

/-- the hypotheses of C16_state_cache / _fresh_iff are satisfiable with a stale outcome: p1 = [set], p2 = [set] -/
example : (∀ o ∈ [Op.setMember 0 [5]], o.isRead = false) ∧ (init [[1], [2]]).cache = none ∧
    obs (init [[1], [2]]) ([.setMember 0 [5]] ++ .readMazes :: [.setMember 1 []]) .readMazes = .list [5, 2] ∧
    (curMembers [[1], [2]] ([.setMember 0 [5]] ++ .readMazes :: [.setMember 1 []])).flatten = [5] := by decide

/-- "fresh iff no member changed" would be WRONG in one direction: members may change while the concatenation does not
    (mazes moved between members) — the cache is then still equal to the current concatenation. Hence the `iff` above
    is on the concatenations, and `C16_state_cache_fresh` is only a sufficient condition. -/
example : obs (init [[1], [2]]) ([] ++ .readMazes :: [.setMember 0 [1, 2], .setMember 1 []]) .readMazes = .list [1, 2] ∧
    curMembers [[1], [2]] ([] ++ .readMazes :: [.setMember 0 [1, 2], .setMember 1 []]) = [[1, 2], []] := by decide

/-- C16_state_cache_fresh: p2 without `setMember` (config updates, lookups) -/
example : (∀ o ∈ [Op.collUpdateCfg, Op.getitem 0, Op.len (α := Nat)], o.isSet = false) ∧
    obs (init [[1], [2]]) ([.setMember 1 [2, 3]] ++ .readMazes :: [.collUpdateCfg, .getitem 0, .len]) .readMazes
      = .list [1, 2, 3] := by decide

/-- C16_state_counts_after_update: counts disagree before the update, agree after it and stay so under
    non-`setMember` statements; the next `setMember` breaks them again -/
example : (run (init [[1], [2]]) [.setMember 0 [1, 3, 4], .cfgCount, .len, .collUpdateCfg, .memberUpdateCfg 1, .readMazes,
      .cfgCount, .len, .lengths, .setMember 1 [], .cfgCount, .len]).2
  = [.unit, .nat 2, .nat 4, .unit, .unit, .list [1, 3, 4, 2], .nat 4, .nat 4, .nats [3, 1], .unit, .nat 4, .nat 3] := by
  decide

/-- C16_state_counts_after_update_any from a state that violates every hypothesis of `C16_counts_agree`
    (wrong member counts, too few member configs, surplus configs): repaired up to the surplus total -/
example : (run ({ members := [[1], [2, 3], []], memberCfgN := [7], extraCfgN := 5, dictN := none, cache := none } : CState Nat)
      [.cfgCount, .len, .collUpdateCfg, .cfgCount, .len]).2 = [.nat 12, .nat 3, .unit, .nat 8, .nat 3] := by decide

/-- C16_state_counts_invariant: a disciplined list (set; member update; observe) and an undisciplined one -/
example : disciplined [] [Op.setMember 0 [1, 3], .memberUpdateCfg 0, .cfgCount, .setMember 1 [], .readMazes, .getitem 0,
      .collUpdateCfg, .len, .lengths] = true ∧
    disciplined [] [Op.setMember 0 [1, 3], .memberUpdateCfg 1, .cfgCount] = false ∧
    dirty [] [Op.setMember 0 [1, 3], .memberUpdateCfg 0, .setMember 1 ([] : List Nat)] = [1] ∧
    (run (init [[1], [2]]) [.setMember 0 [1, 3], .memberUpdateCfg 0, .cfgCount, .setMember 1 [], .readMazes, .getitem 0,
      .collUpdateCfg, .len, .lengths]).2
      = [.unit, .unit, .nat 3, .unit, .list [1, 3], .item 1, .unit, .nat 2, .nats [2, 0]] := by decide

/-- without the discipline the counts do disagree (updating the WRONG member does not help) -/
example : (run (init [[1], [2]]) [.setMember 0 [1, 3], .memberUpdateCfg 1, .cfgCount, .len]).2
  = [.unit, .unit, .nat 2, .nat 3] := by decide

/-- `update_self_config` writes `cfg.__dict__["n_mazes"]`, which the property shadows: recorded, never reported -/
example : (run (init [[1], [2]]) [.setMember 0 [], .collUpdateCfg, .setMember 1 [2, 3, 4], .cfgCount]).1.dictN = some 1 ∧
    (run (init [[1], [2]]) [.setMember 0 [], .collUpdateCfg, .setMember 1 [2, 3, 4], .cfgCount]).2
      = [.unit, .unit, .unit, .nat 1] := by decide

end MZ.Coll
