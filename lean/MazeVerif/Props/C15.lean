import MazeVerif.Lemmas.AllInst
import MazeVerif.Lemmas.TokName
import MazeVerif.Lemmas.TokNameInj
import MazeVerif.Generated.TokenizerTypes
/-! # C15 — tokenizer configuration space is enumerated exactly and identified uniquely

Model: `MZ.AI.allInstances` (`utils.all_instances` + `_apply_validation_func`), `nameToks`/`elName`/`mtmName`
(`_stringify`, `name`), `hashInt` (digest of the name), `ser`/`load` (`serialize`, `_load_tokenizer_element`),
`isLegacyEquivalent`. The concrete type tree `MZ.Gen.Tok.ty_MazeTokenizerModular`, the `is_valid` tables and the
`from_legacy` images are regenerated from the source on every run (harness/translate_tokenizer_types.py), so the
concrete theorems below are re-checked against what the code says now.

Generic theorems quantify over EVERY type tree `T : Ty` (any nesting, any validation predicates) and every value. -/
namespace MZ.AI
open MZ.Gen.Tok

/-! ## full statement -/

/-- Full statement of C15 on the model. Every conjunct except the digest clause is a theorem below (string-level
    injectivity of names on the whole space: `C15_name_injective`). The digest clause is conditional on the external
    digest being injective on the names that occur (`C15_hash_distinct_of_injective_digest`); under that proviso the
    whole statement holds: `C15_full_of_injective_digest`. The thorough tier decides the digest fact for the concrete
    5,878,656 tokenizers by exhaustive enumeration of the real objects (a test). -/
def C15_full (blake : String → Nat) : Prop :=
  -- enumeration: exact, duplicate-free, for every well-formed type tree
  (∀ (T : Ty) (v : Val), v ∈ allInstances T ↔ HasTy v T) ∧
  (∀ (T : Ty), WF T → (allInstances T).Nodup) ∧
  -- the concrete tree is well formed and has the predicted size
  WF ty_MazeTokenizerModular ∧ (allInstances ty_MazeTokenizerModular).length = 5878656 ∧
  -- names and hashes identify tokenizers
  (∀ v ∈ allInstances ty_MazeTokenizerModular, ∀ w ∈ allInstances ty_MazeTokenizerModular,
      mtmName fieldNames v = mtmName fieldNames w → v = w) ∧
  (∀ v ∈ allInstances ty_MazeTokenizerModular, ∀ w ∈ allInstances ty_MazeTokenizerModular,
      (hashInt blake fieldNames v).map pyHash = (hashInt blake fieldNames w).map pyHash → v = w) ∧
  -- save / load
  (∀ v ∈ allInstances ty_MazeTokenizerModular,
      load resolveShort fieldNames (ser fieldNames v) = some v) ∧
  -- legacy
  (∀ v, isLegacyEquivalent fromLegacy v = true ↔ ∃ m, (m, v) ∈ fromLegacy)

/-! ## enumeration (generic, unbounded) -/

/-- for EVERY type tree and value: the enumeration contains exactly the values of the type all of whose
    sub-values pass the validation registered at their level — nothing else, nothing missing -/
theorem C15_enum_exact (T : Ty) (v : Val) : v ∈ allInstances T ↔ HasTy v T := mem_all T v

/-- for every type tree whose Union alternatives / abstract subclasses are pairwise disjoint and whose
    Literal arguments are distinct: no value is enumerated twice -/
theorem C15_enum_nodup (T : Ty) (h : WF T) : (allInstances T).Nodup := nodup_all T h

/-- "exactly once": multiplicity 1 for members of the type, 0 for everything else -/
theorem C15_enum_once (T : Ty) (h : WF T) (v : Val) :
    (HasTy v T → (allInstances T).count v = 1) ∧ (¬ HasTy v T → (allInstances T).count v = 0) := by
  constructor
  · intro hv
    exact List.count_eq_one_of_mem (nodup_all T h) ((mem_all T v).mpr hv)
  · intro hv
    exact List.count_eq_zero_of_not_mem (fun hm => hv ((mem_all T v).mp hm))

/-- the decidable side-condition check used for the concrete tree is sound for every tree -/
theorem C15_wfCheck_sound (T : Ty) (h : wfCheck T = true) : WF T := wfCheck_sound T h

/-! ## size (generic product / sum formula) -/

/-- concrete dataclass whose validation accepts every candidate: size = product of the field sizes -/
theorem C15_count_product {name p fields} (h : ∀ fs, p (.obj name fs) = true) :
    (allInstances (.data name p fields)).length = lenProd (allList fields) := by
  simp only [allInstances]
  rw [length_filter_all, List.length_map, length_product]
  intro x hx
  simp only [List.mem_map] at hx
  obtain ⟨fs, _, rfl⟩ := hx
  exact h fs

/-- fixed-length tuple: product of the member sizes -/
theorem C15_count_tuple (ts : List Ty) : (allInstances (.tuple ts)).length = lenProd (allList ts) := by
  simp only [allInstances, List.length_map, length_product]

/-- abstract class / Union whose own validation rejects nothing that its alternatives produced:
    size = sum of the alternatives' sizes -/
theorem C15_count_sum {p subs} (h : ∀ v ∈ concatList subs, p v = true) :
    (allInstances (.abstr p subs)).length = lenSum subs ∧ (allInstances (.union p subs)).length = lenSum subs := by
  simp only [allInstances]
  rw [length_filter_all h, length_concat]
  exact ⟨rfl, rfl⟩

/-- in general validation can only remove candidates -/
theorem C15_count_le {name p fields} :
    (allInstances (.data name p fields)).length ≤ lenProd (allList fields) := by
  simp only [allInstances]
  refine Nat.le_trans (List.length_filter_le _ _) ?_
  rw [List.length_map, length_product]
  exact Nat.le_refl _

/-! ## the concrete tokenizer tree (regenerated from the source) -/

set_option maxRecDepth 4000 in
/-- the generated tree satisfies the disjointness side conditions -/
theorem C15_tokenizers_wf : WF ty_MazeTokenizerModular := wfCheck_sound _ (by decide)

theorem C15_tokenizers_nodup : (allInstances ty_MazeTokenizerModular).Nodup :=
  nodup_all _ C15_tokenizers_wf

private theorem c_coord : (allInstances ty_CoordTokenizers__CoordTokenizer).length = 9 := by decide +kernel
private theorem c_target : (allInstances ty_TargetTokenizers__TargetTokenizer).length = 2 := by decide +kernel
set_option maxRecDepth 4000 in
private theorem c_adj : (allInstances ty_AdjListTokenizers__AdjListTokenizer).length = 216 := by decide +kernel
set_option maxRecDepth 4000 in
private theorem c_perm : (allInstances ty_StepTokenizers_StepTokenizerPermutation).length = 63 := by decide +kernel
set_option maxRecDepth 4000 in
private theorem c_path : (allInstances ty_PathTokenizers__PathTokenizer).length = 1008 := by decide +kernel

private theorem pred_of_hasTy_data {v n p f} (h : HasTy v (.data n p f)) : p v = true := by
  cases h with | data _ h2 => exact h2

private theorem len_abstr2 {p a b} (ha : ∀ v, HasTy v a → p v = true) (hb : ∀ v, HasTy v b → p v = true) :
    (allInstances (.abstr p [a, b])).length = (allInstances a).length + (allInstances b).length := by
  rw [(C15_count_sum ?_).1]
  · simp only [lenSum, Nat.add_zero]
  · intro v hv
    simp only [concatList, List.mem_append, List.not_mem_nil, or_false] at hv
    rcases hv with h | h
    · exact ha v ((mem_all _ v).mp h)
    · exact hb v ((mem_all _ v).mp h)

private theorem len5 {n p a b c d e} (h : ∀ fs, p (.obj n fs) = true) :
    (allInstances (.data n p [a, b, c, d, e])).length = (allInstances a).length * ((allInstances b).length *
      ((allInstances c).length * ((allInstances d).length * (allInstances e).length))) := by
  rw [C15_count_product h]; simp only [allList, lenProd, Nat.mul_one]

private theorem len4 {n p a b c d} (h : ∀ fs, p (.obj n fs) = true) :
    (allInstances (.data n p [a, b, c, d])).length = (allInstances a).length * ((allInstances b).length *
      ((allInstances c).length * (allInstances d).length)) := by
  rw [C15_count_product h]; simp only [allList, lenProd, Nat.mul_one]

private theorem len1 {n p a} (h : ∀ fs, p (.obj n fs) = true) :
    (allInstances (.data n p [a])).length = (allInstances a).length := by
  rw [C15_count_product h]; simp only [allList, lenProd, Nat.mul_one]

private theorem len_lit1 (a : Atom) : (allInstances (.lit [a])).length = 1 := by simp [allInstances]

private theorem c_aotp : (allInstances ty_PromptSequencers_AOTP).length = 3919104 := by
  unfold ty_PromptSequencers_AOTP
  have h := len5 (n := "PromptSequencers.AOTP") (p := isValid) (a := ty_CoordTokenizers__CoordTokenizer)
    (b := ty_AdjListTokenizers__AdjListTokenizer)
    (c := .lit [.str "<class 'maze_dataset.tokenization.maze_tokenizer.PromptSequencers.AOTP'>"])
    (d := ty_TargetTokenizers__TargetTokenizer) (e := ty_PathTokenizers__PathTokenizer) (fun fs => rfl)
  rw [c_coord, c_adj, c_target, c_path, len_lit1] at h
  exact h.trans (by decide)

private theorem c_aop : (allInstances ty_PromptSequencers_AOP).length = 1959552 := by
  unfold ty_PromptSequencers_AOP
  have h := len4 (n := "PromptSequencers.AOP") (p := isValid) (a := ty_CoordTokenizers__CoordTokenizer)
    (b := ty_AdjListTokenizers__AdjListTokenizer)
    (c := .lit [.str "<class 'maze_dataset.tokenization.maze_tokenizer.PromptSequencers.AOP'>"])
    (d := ty_PathTokenizers__PathTokenizer) (fun fs => rfl)
  rw [c_coord, c_adj, c_path, len_lit1] at h
  exact h.trans (by decide)

private theorem c_ps : (allInstances ty_PromptSequencers__PromptSequencer).length = 5878656 := by
  have h := len_abstr2 (p := isValid) (a := ty_PromptSequencers_AOTP) (b := ty_PromptSequencers_AOP)
    (fun v hv => pred_of_hasTy_data hv) (fun v hv => pred_of_hasTy_data hv)
  rw [c_aotp, c_aop] at h
  unfold ty_PromptSequencers__PromptSequencer
  exact h.trans (by decide)

/-- the size of the enumerated space is the product predicted from the parameter space:
    9 coord × 216 adjacency × (2 target × 1008 path [AOTP] + 1008 path [AOP]) = 5,878,656 -/
theorem C15_count_tokenizers : (allInstances ty_MazeTokenizerModular).length = 5878656 := by
  unfold ty_MazeTokenizerModular
  have h := len1 (n := "MazeTokenizerModular") (p := fun _ => true) (a := ty_PromptSequencers__PromptSequencer) (fun fs => rfl)
  rw [c_ps] at h
  exact h

/-- the factors, as they appear in DESIGN.md / the property statement -/
theorem C15_count_factors :
    (allInstances ty_CoordTokenizers__CoordTokenizer).length = 9 ∧
    (allInstances ty_AdjListTokenizers__AdjListTokenizer).length = 216 ∧
    (allInstances ty_TargetTokenizers__TargetTokenizer).length = 2 ∧
    (allInstances ty_StepTokenizers_StepTokenizerPermutation).length = 63 ∧
    (allInstances ty_PathTokenizers__PathTokenizer).length = 1008 ∧
    (allInstances ty_PromptSequencers_AOTP).length = 9 * 216 * 2 * 1008 ∧
    (allInstances ty_PromptSequencers_AOP).length = 9 * 216 * 1008 :=
  ⟨c_coord, c_adj, c_target, c_perm, c_path, c_aotp, c_aop⟩

/-! ## names and hashes -/

/-- equal tokenizers have equal names and equal hashes, whatever the digest and in every process:
    the hash is a function of the name only (no `id`, no `PYTHONHASHSEED`-dependent input in the model) -/
theorem C15_hash_fun_of_name (blake : String → Nat) (fn : String → List String) (v w : Val)
    (h : mtmName fn v = mtmName fn w) : hashInt blake fn v = hashInt blake fn w ∧
      (hashInt blake fn v).map pyHash = (hashInt blake fn w).map pyHash := by
  simp only [hashInt, h, and_self]

/-- distinct names give distinct hashes PROVIDED the digest (blake2b, then CPython's reduction mod 2^61-1) is
    injective on the names that occur — that proviso is an empirical fact decided only by the thorough tier -/
theorem C15_hash_distinct_of_injective_digest (blake : String → Nat) (fn : String → List String) (S : List Val)
    (hinj : ∀ v ∈ S, ∀ w ∈ S, ∀ a b, mtmName fn v = some a → mtmName fn w = some b →
      pyHash (blake a) = pyHash (blake b) → a = b)
    (v w : Val) (hv : v ∈ S) (hw : w ∈ S) (a b : String) (ha : mtmName fn v = some a) (hb : mtmName fn w = some b)
    (hh : (hashInt blake fn v).map pyHash = (hashInt blake fn w).map pyHash) : a = b := by
  simp only [hashInt, ha, hb, Option.map_some, Option.some.injEq] at hh
  exact hinj v hv w hw a b ha hb hh

/-- string-level injectivity of names on the whole concrete space (full statement; proved: `C15_name_injective`) -/
def C15_name_injective_full : Prop :=
  ∀ v ∈ allInstances ty_MazeTokenizerModular, ∀ w ∈ allInstances ty_MazeTokenizerModular,
    mtmName fieldNames v = mtmName fieldNames w → v = w

set_option maxRecDepth 8000 in
/-- component level, token lists (kept from the earlier round; now subsumed by `C15_name_tokens_injective` and
    `C15_name_injective`): within the coord (9), adjacency-list (216), target (2) families and for the 63
    step-tokenizer permutations the token lists that `_stringify`/`name` emit are pairwise distinct
    (direct comparison of the enumerated values). -/
theorem C15_name_injective_partial :
    ((allInstances ty_CoordTokenizers__CoordTokenizer).map (nameToks fieldNames)).Nodup ∧
    ((allInstances ty_AdjListTokenizers__AdjListTokenizer).map (nameToks fieldNames)).Nodup ∧
    ((allInstances ty_TargetTokenizers__TargetTokenizer).map (nameToks fieldNames)).Nodup ∧
    ((allInstances ty_StepTokenizers_StepTokenizerPermutation).map (nameToks fieldNames)).Nodup := by
  refine ⟨by decide +kernel, by decide +kernel, by decide +kernel, by decide +kernel⟩

/-! ### unique readability of the bracketed rendering (generic, structural) -/

/-- GENERIC: for EVERY field-name table `fn` and EVERY type tree `T` that passes the decidable side condition
    `injCheck` (Literal renderings pairwise prefix-incomparable; skipped `_type_` fields one-valued; as many keys as
    fields; alternatives of an abstract class / Union are dataclasses with distinct bracket-free `__name__`s — or, as a
    fallback for small nodes, the node's enumerated renderings are pairwise prefix-incomparable), the name is a
    PREFIX CODE on the enumerated values: a name followed by anything determines the value and the remainder.
    No enumeration of `allInstances T` is involved for nodes that pass the structural test. -/
theorem C15_name_prefix_code (fn : String → List String) (T : Ty) (h : injCheck fn none T = true)
    (v : Val) (hv : v ∈ allInstances T) (w : Val) (hw : w ∈ allInstances T) (r1 r2 : String)
    (e : elName fn v ++ r1 = elName fn w ++ r2) : v = w ∧ r1 = r2 :=
  elName_code fn T (code_of_check fn T none h) v w ((mem_all T v).mp hv) ((mem_all T w).mp hw) r1 r2 e

/-- GENERIC: hence `_TokenizerElement.name` is injective on the enumerated values of every checked tree, as a string
    and a fortiori as a token list -/
theorem C15_elName_injective_generic (fn : String → List String) (T : Ty) (h : injCheck fn none T = true)
    (v : Val) (hv : v ∈ allInstances T) (w : Val) (hw : w ∈ allInstances T) :
    (elName fn v = elName fn w → v = w) ∧ (nameToks fn v = nameToks fn w → v = w) :=
  ⟨elName_inj fn T (code_of_check fn T none h) v w ((mem_all T v).mp hv) ((mem_all T w).mp hw),
   nameToks_inj fn T (code_of_check fn T none h) v w ((mem_all T v).mp hv) ((mem_all T w).mp hw)⟩

/-- GENERIC: `MazeTokenizerModular.name` (`"<Class>-" + prompt_sequencer.name`) is injective on the enumerated values of
    every one-field dataclass over a checked tree -/
theorem C15_mtmName_injective_generic (fn : String → List String) (name : String) (p : Val → Bool) (T : Ty)
    (h : injCheck fn none T = true)
    (v : Val) (hv : v ∈ allInstances (.data name p [T])) (w : Val) (hw : w ∈ allInstances (.data name p [T]))
    (e : mtmName fn v = mtmName fn w) : v = w :=
  mtmName_inj fn name p T (code_of_check fn T none h) v w ((mem_all _ v).mp hv) ((mem_all _ w).mp hw) e

set_option maxRecDepth 8000 in
/-- the regenerated tokenizer tree passes the side condition. Structural for every dataclass / abstract-class node
    (about 60 atoms: class names, keys, `Literal[0,1,2]`); the fallback comparison is used only for the Union of
    1..4-tuples of step tokenizers (63 values). -/
theorem C15_tokenizers_name_check : injCheck fieldNames none ty_MazeTokenizerModular = true := by decide +kernel

private theorem code_mtm : Code fieldNames none ty_MazeTokenizerModular :=
  code_of_check fieldNames _ none C15_tokenizers_name_check

private theorem code_ps : Code fieldNames none ty_PromptSequencers__PromptSequencer :=
  code_ctx (by decide)
    (code_of_check fieldNames _ (some "prompt_sequencer")
      (injCheck_data_single (name := "MazeTokenizerModular") (p := fun _ => true) (by decide) (by decide) none
        C15_tokenizers_name_check)) none

/-- the names of the prompt sequencers (everything after `MazeTokenizerModular-`) are uniquely readable:
    a prefix code on all 5,878,656 values -/
theorem C15_tokenizers_name_prefix_code
    (v : Val) (hv : v ∈ allInstances ty_PromptSequencers__PromptSequencer)
    (w : Val) (hw : w ∈ allInstances ty_PromptSequencers__PromptSequencer) (r1 r2 : String)
    (e : elName fieldNames v ++ r1 = elName fieldNames w ++ r2) : v = w ∧ r1 = r2 :=
  elName_code fieldNames _ code_ps v w ((mem_all _ v).mp hv) ((mem_all _ w).mp hw) r1 r2 e

/-- names as TOKEN LISTS are injective on the WHOLE space (not only inside the families of
    `C15_name_injective_partial`) -/
theorem C15_name_tokens_injective :
    ∀ v ∈ allInstances ty_MazeTokenizerModular, ∀ w ∈ allInstances ty_MazeTokenizerModular,
      nameToks fieldNames v = nameToks fieldNames w → v = w :=
  fun v hv w hw e => nameToks_inj fieldNames _ code_mtm v w ((mem_all _ v).mp hv) ((mem_all _ w).mp hw) e

/-- FULL, string level: two enumerated tokenizers with the same `name` string are equal -/
theorem C15_name_injective : C15_name_injective_full :=
  fun v hv w hw e =>
    mtmName_inj fieldNames "MazeTokenizerModular" (fun _ => true) ty_PromptSequencers__PromptSequencer code_ps v w
      ((mem_all _ v).mp hv) ((mem_all _ w).mp hw) e

/-! ## save / load -/

/-- for EVERY value whose classes are resolvable from their `__format__` string and whose field-name lists match
    (`Canon`), loading the serialized form returns the same value -/
theorem C15_saveload (resolve : String → Option String) (fn : String → List String) (v : Val)
    (h : Canon resolve fn v) : load resolve fn (ser fn v) = some v := load_ser resolve fn v h

set_option maxRecDepth 4000 in
/-- every enumerated tokenizer of the concrete tree is `Canon` for the generated class tables, hence survives
    save → load unchanged (and therefore keeps its name and hash) -/
theorem C15_saveload_tokenizers (v : Val) (hv : v ∈ allInstances ty_MazeTokenizerModular) :
    load resolveShort fieldNames (ser fieldNames v) = some v ∧
    ∀ w, load resolveShort fieldNames (ser fieldNames v) = some w → mtmName fieldNames w = mtmName fieldNames v := by
  have hc : Canon resolveShort fieldNames v :=
    canon_of_hasTy resolveShort fieldNames _ (by decide +kernel) v ((mem_all _ _).mp hv)
  have h1 := load_ser resolveShort fieldNames v hc
  refine ⟨h1, ?_⟩
  intro w hw
  rw [h1] at hw
  injection hw with hw
  rw [hw]

/-! ## legacy modes -/

/-- a tokenizer reports itself legacy-equivalent iff it IS the image of some legacy mode — for every value -/
theorem C15_legacy_equiv (fl : List (String × Val)) (v : Val) :
    isLegacyEquivalent fl v = true ↔ ∃ m, (m, v) ∈ fl := by
  simp only [isLegacyEquivalent, List.any_eq_true, decide_eq_true_eq]
  constructor
  · rintro ⟨⟨m, x⟩, hm, rfl⟩; exact ⟨m, hm⟩
  · rintro ⟨m, hm⟩; exact ⟨(m, v), hm, rfl⟩

set_option maxRecDepth 4000 in
/-- on the regenerated `from_legacy` table: every mode's image reports itself legacy-equivalent, is an enumerated
    (valid) tokenizer, and there are exactly two distinct images -/
theorem C15_legacy_concrete :
    (∀ mv ∈ fromLegacy, isLegacyEquivalent fromLegacy mv.2 = true) ∧
    (∀ mv ∈ fromLegacy, mv.2 ∈ allInstances ty_MazeTokenizerModular) ∧
    (fromLegacy.map (·.2)).eraseDups.length = 2 := by
  refine ⟨by decide +kernel, ?_, by decide +kernel⟩
  intro mv hmv
  rw [mem_all]
  exact checkTy_sound _ _ ((show ∀ mv ∈ fromLegacy, checkTy ty_MazeTokenizerModular mv.2 = true by decide +kernel) mv hmv)

/-! ## the whole statement, modulo the external digest -/

/-- everything in `C15_full` holds as soon as the external digest (blake2b, then CPython's reduction mod 2^61-1)
    is injective on the names that occur -/
theorem C15_full_of_injective_digest (blake : String → Nat)
    (hinj : ∀ v ∈ allInstances ty_MazeTokenizerModular, ∀ w ∈ allInstances ty_MazeTokenizerModular,
      ∀ a b, mtmName fieldNames v = some a → mtmName fieldNames w = some b →
      pyHash (blake a) = pyHash (blake b) → a = b) : C15_full blake := by
  refine ⟨C15_enum_exact, C15_enum_nodup, C15_tokenizers_wf, C15_count_tokenizers, C15_name_injective, ?_,
    fun v hv => (C15_saveload_tokenizers v hv).1, fun v => C15_legacy_equiv fromLegacy v⟩
  intro v hv w hw hh
  obtain ⟨ps, _, _, e1⟩ := mtmName_isSome (fn := fieldNames) ((mem_all _ v).mp hv)
  obtain ⟨qs, _, _, e2⟩ := mtmName_isSome (fn := fieldNames) ((mem_all _ w).mp hw)
  have hab := C15_hash_distinct_of_injective_digest blake fieldNames _ hinj v w hv hw _ _ e1 e2 hh
  exact C15_name_injective v hv w hw (by rw [e1, e2, hab])

/-! ## non-vacuity -/

-- the enumeration theorems talk about a non-trivial tree: nested dataclass, abstract class, Union of tuples, filters
example : (allInstances ty_StepTokenizers_StepTokenizerPermutation).length = 63 ∧
    (allInstances (.union (fun _ => true) [.tuple [ty_StepTokenizers__StepTokenizer],
      .tuple [ty_StepTokenizers__StepTokenizer, ty_StepTokenizers__StepTokenizer]])).length = 20 := by
  constructor <;> decide +kernel
-- a rejected configuration is not enumerated and an accepted one is, exactly once
example : (allInstances ty_StepTokenizers_StepTokenizerPermutation).count (.tup [v_StepTokenizers_Distance]) = 0 ∧
    (allInstances ty_StepTokenizers_StepTokenizerPermutation).count (.tup [v_StepTokenizers_Coord, v_StepTokenizers_Distance]) = 1 := by
  constructor <;> decide +kernel
-- WF is not vacuous: a Union with overlapping alternatives fails the check, and indeed enumerates duplicates
example : wfCheck (.union (fun _ => true) [.bool, .bool]) = false ∧
    ¬ (allInstances (.union (fun _ => true) [.bool, .bool])).Nodup := by
  constructor <;> decide
-- the default tokenizer's model name is the real one's
example : mtmName fieldNames defaultTokenizer = some ("MazeTokenizerModular-AOTP(UT(), AdjListCoord(pre=F, post=T, shuffle_d0=T, " ++
    "Ungrouped(connection_token_ordinal=1), ConnectionEdges(walls=F), RandomCoords()), Unlabeled(post=F), " ++
    "StepSequence(Singles(), step_tokenizers=(Coord(), ), pre=F, intra=F, post=F))") := by decide +kernel
-- save/load on a concrete tokenizer
example : load resolveShort fieldNames (ser fieldNames defaultTokenizer) = some defaultTokenizer := by decide +kernel
-- legacy: the default tokenizer is legacy-equivalent, a non-default one is not
example : isLegacyEquivalent fromLegacy defaultTokenizer = true ∧
    isLegacyEquivalent fromLegacy (.obj "MazeTokenizerModular" [.b true]) = false := by
  constructor <;> decide +kernel
-- hash: a function of the name
example : hashInt String.length fieldNames defaultTokenizer = some 252 := by decide +kernel

-- generic theorem, positive instance: a tree with an abstract class, nested dataclasses, bools, a Literal and a
-- skipped `_type_` field passes the check, has 9 values, and two of them have different names
example : injCheck fieldNames none ty_CoordTokenizers__CoordTokenizer = true ∧
    (allInstances ty_CoordTokenizers__CoordTokenizer).length = 9 ∧
    elName fieldNames v_CoordTokenizers_UT = "UT()" := by
  refine ⟨by decide +kernel, by decide +kernel, by decide +kernel⟩
-- the side condition is not vacuous: two classes with the same `__name__` under one abstract class fail the check,
-- and indeed their names collide
example : let T : Ty := .abstr (fun _ => true) [.data "A.X" (fun _ => true) [], .data "B.X" (fun _ => true) []]
    injCheck (fun _ => []) none T = false ∧ Val.obj "A.X" [] ∈ allInstances T ∧ Val.obj "B.X" [] ∈ allInstances T ∧
    elName (fun _ => []) (.obj "A.X" []) = elName (fun _ => []) (.obj "B.X" []) := by
  refine ⟨by decide +kernel, by decide +kernel, by decide +kernel, by decide +kernel⟩
-- ... and so do Literal arguments with the same rendering (`"1"` and `1`) or one a prefix of the other (`1`, `10`)
example : let T : Ty := .data "K" (fun _ => true) [.lit [.str "1", .int 1]]
    injCheck (fun _ => ["k"]) none T = false ∧
    elName (fun _ => ["k"]) (.obj "K" [.lit (.str "1")]) = elName (fun _ => ["k"]) (.obj "K" [.lit (.int 1)]) := by
  refine ⟨by decide +kernel, by decide +kernel⟩
example : injCheck (fun _ => ["k"]) none (.data "K" (fun _ => true) [.lit [.int 1, .int 10]]) = false := by
  decide +kernel
-- `C15_name_injective` / `C15_name_tokens_injective` talk about a space with distinct members whose names differ
example : defaultTokenizer ∈ allInstances ty_MazeTokenizerModular ∧
    (∃ w ∈ allInstances ty_MazeTokenizerModular, w ≠ defaultTokenizer ∧
      mtmName fieldNames w ≠ mtmName fieldNames defaultTokenizer) := by
  refine ⟨(mem_all _ _).mpr (checkTy_sound _ _ (by decide +kernel)),
    (fromLegacy.map (·.2)).getLastD defaultTokenizer,
    (mem_all _ _).mpr (checkTy_sound _ _ (by decide +kernel)), by decide +kernel, by decide +kernel⟩

end MZ.AI
