import MazeVerif.Lemmas.DfsFinal
/-! scratch prototype: gen_wilson model + spanning-tree proof -/
namespace MZ
open List

/-- tree on the visited set (stack-free version of InvT) -/
structure TreeOn (rows cols : Nat) (start : Cell) (vis : List Cell) (E : List Edge) : Prop where
  nodup : vis.Nodup
  grid : ∀ c ∈ vis, inGrid rows cols c
  len : E.length + 1 = vis.length
  enodup : E.Nodup
  edim : ∀ e ∈ E, e.1 = 0 ∨ e.1 = 1
  eends : ∀ e ∈ E, (ends e).1 ∈ vis ∧ (ends e).2 ∈ vis
  reach : ∀ c ∈ vis, Reach E start c
  hstart : start ∈ vis

theorem TreeOn.perm {rows cols start vis vis' E E'} (h : TreeOn rows cols start vis E)
    (pv : vis ~ vis') (pe : E ~ E') : TreeOn rows cols start vis' E' where
  nodup := pv.nodup_iff.mp h.nodup
  grid := fun c hc => h.grid c (pv.mem_iff.mpr hc)
  len := by rw [← pe.length_eq, ← pv.length_eq]; exact h.len
  enodup := pe.nodup_iff.mp h.enodup
  edim := fun e he => h.edim e (pe.mem_iff.mpr he)
  eends := fun e he => by
    have := h.eends e (pe.mem_iff.mpr he)
    exact ⟨pv.mem_iff.mp this.1, pv.mem_iff.mp this.2⟩
  reach := fun c hc => (h.reach c (pv.mem_iff.mpr hc)).mono (fun e he => pe.mem_iff.mp he)
  hstart := pv.mem_iff.mp h.hstart

theorem edgeOf_comm {a b : Cell} (h : b ∈ nbrs a) : edgeOf a b = edgeOf b a := by
  obtain ⟨a1, a2⟩ := a
  simp only [nbrs, List.mem_cons, List.not_mem_nil, or_false] at h
  rcases h with rfl | rfl | rfl | rfl
  · rw [edgeOf_right]; have := edgeOf_left a1 (a2+1); simp at this; rw [this]
  · rw [edgeOf_left]; have := edgeOf_right a1 (a2-1); simp at this; rw [this]
  · rw [edgeOf_down]; have := edgeOf_up (a1+1) a2; simp at this; rw [this]
  · rw [edgeOf_up]; have := edgeOf_down (a1-1) a2; simp at this; rw [this]

theorem nbrs_symm {a b : Cell} (h : b ∈ nbrs a) : a ∈ nbrs b := by
  obtain ⟨a1, a2⟩ := a
  simp only [nbrs, List.mem_cons, List.not_mem_nil, or_false] at h
  rcases h with rfl | rfl | rfl | rfl <;> simp [nbrs]

/-- attach one new leaf `nb` to a visited cell `cur` -/
theorem TreeOn.leaf {rows cols start vis E} (h : TreeOn rows cols start vis E) {cur nb : Cell}
    (hcur : cur ∈ vis) (hn : nb ∈ nbrs cur) (hnv : nb ∉ vis) (hg : inGrid rows cols nb) :
    TreeOn rows cols start (vis ++ [nb]) (E ++ [edgeOf cur nb]) := by
  have hends := ends_edgeOf hn
  have enew : edgeOf cur nb ∉ E := by
    intro hmem
    have := h.eends _ hmem
    rcases hends with he | he
    · rw [he] at this; exact hnv this.2
    · rw [he] at this; exact hnv this.1
  refine ⟨?_, ?_, ?_, ?_, ?_, ?_, ?_, List.mem_append_left _ h.hstart⟩
  · simp only [List.nodup_append, List.nodup_cons, List.not_mem_nil, not_false_eq_true, List.nodup_nil, and_self, List.mem_cons, or_false, true_and]
    exact ⟨h.nodup, fun x hx y hy => by subst hy; intro hxy; subst hxy; exact hnv hx⟩
  · intro c hc
    simp only [List.mem_append, List.mem_cons, List.not_mem_nil, or_false] at hc
    rcases hc with hc | rfl
    · exact h.grid _ hc
    · exact hg
  · simp only [List.length_append, List.length_cons, List.length_nil]; have := h.len; omega
  · simp only [List.nodup_append, List.nodup_cons, List.not_mem_nil, not_false_eq_true, List.nodup_nil, and_self, List.mem_cons, or_false, true_and]
    exact ⟨h.enodup, fun x hx y hy => by subst hy; intro hxy; subst hxy; exact enew hx⟩
  · intro e he
    simp only [List.mem_append, List.mem_cons, List.not_mem_nil, or_false] at he
    rcases he with he | rfl
    · exact h.edim _ he
    · exact edgeOf_dim hn
  · intro e he
    simp only [List.mem_append, List.mem_cons, List.not_mem_nil, or_false] at he ⊢
    rcases he with he | rfl
    · have := h.eends _ he; exact ⟨Or.inl this.1, Or.inl this.2⟩
    · rcases hends with h1 | h1
      · rw [h1]; exact ⟨Or.inl hcur, Or.inr rfl⟩
      · rw [h1]; exact ⟨Or.inr rfl, Or.inl hcur⟩
  · intro c hc
    simp only [List.mem_append, List.mem_cons, List.not_mem_nil, or_false] at hc
    have mono : ∀ e ∈ E, e ∈ E ++ [edgeOf cur nb] := fun e he => List.mem_append_left _ he
    rcases hc with hc | rfl
    · exact (h.reach _ hc).mono mono
    · exact .step ((h.reach _ hcur).mono mono) (adj_edgeOf hn (by simp))

/-- attach a whole walk `p0 … pk` whose last cell is visited and whose other cells are fresh and distinct -/
theorem TreeOn.attach {rows cols start} : ∀ (path : List Cell) {vis E},
    TreeOn rows cols start vis E → path ≠ [] → Chain path → path.Nodup →
    (∀ c ∈ path, inGrid rows cols c) → (∀ c ∈ path.dropLast, c ∉ vis) → path.getLast! ∈ vis →
    TreeOn rows cols start (vis ++ path.dropLast) (E ++ pathEdges path)
  | [], _, _, _, hne, _, _, _, _, _ => absurd rfl hne
  | [p], vis, E, h, _, _, _, _, _, _ => by simpa [pathEdges] using h
  | a :: b :: rest, vis, E, h, _, hch, hnd, hg, hfresh, hlast => by
    have hnd' := List.nodup_cons.mp hnd
    have ih := TreeOn.attach (b :: rest) h (by simp) hch.2 hnd'.2
      (fun c hc => hg c (List.mem_cons_of_mem _ hc))
      (fun c hc => hfresh c (by
        simp only [List.dropLast_cons_cons, List.mem_cons]; exact Or.inr hc))
      (by simpa [List.getLast!] using hlast)
    -- b is now in the tree: either freshly added or the old visited last cell
    have hb : b ∈ vis ++ (b :: rest).dropLast := by
      rcases rest with _ | ⟨c, rest'⟩
      · simp [List.getLast!] at hlast; simp [hlast]
      · simp
    have ha_notin : a ∉ vis ++ (b :: rest).dropLast := by
      simp only [List.mem_append, not_or]
      refine ⟨hfresh a (by simp), ?_⟩
      intro hmem
      exact hnd'.1 (List.dropLast_subset _ hmem)
    have hleaf := ih.leaf hb (nbrs_symm hch.1) ha_notin (hg a (by simp))
    rw [← edgeOf_comm hch.1] at hleaf
    refine hleaf.perm ?_ ?_
    · rw [List.dropLast_cons_cons, List.append_assoc]
      exact List.Perm.append_left _ (List.perm_append_singleton _ _)
    · simp only [pathEdges]
      rw [List.append_assoc]
      exact List.Perm.append_left _ (List.perm_append_singleton _ _)

end MZ
