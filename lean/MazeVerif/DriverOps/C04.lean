import MazeVerif.DriverOps.Util
import MazeVerif.Model.RngTrace
namespace MZ.Drv.C04
open Lean MZ.Drv MZ.Rng

def asRng (s : String) : R RngId :=
  match s with
  | "py" => pure .py
  | "np" => pure .np
  | "torch" => pure .torch
  | "np_gen" => pure .npGen
  | k => throw s!"unknown rng {k}"

def asEvent (j : Json) : R Event := do
  match (← j.getArr?).toList with
  | [k, r, s] =>
    if (← k.getStr?) = "seed" then pure (.seed (← asRng (← r.getStr?)) (← s.getNat?)) else throw "event: seed expected"
  | [k, r] =>
    if (← k.getStr?) = "draw" then pure (.draw (← asRng (← r.getStr?))) else throw "event: draw expected"
  | _ => throw "event: expected [kind, rng(, seed)]"

def asCell (j : Json) : R CfgCell := do
  pure ⟨← getNat j "seed", ← (← getArr j "filters").mapM (·.getStr?), ← getNat j "n_mazes"⟩
def jCfgCell (c : CfgCell) : Json := obj [("seed", jNat c.seed), ("filters", jStrs c.filters), ("n_mazes", jNat c.nMazes)]

/-- ops:
    `C04.trace` {events:[["seed",rng,s]|["draw",rng]…], seed} → {well_seeded, first_unseeded, seeds_ok, seeds, draws}
        (the executable `wsTrace` / `firstUnseeded` / `seedsAre` of the model on a RECORDED trace of the real code);
    `C04.heap` {heap:[{seed,filters,n_mazes}…], req, n_after} → {heap, addr} (`fromConfigHeap`). -/
def handle (op : String) (j : Json) : R Json := do
  match op with
  | "C04.trace" =>
    let evs ← (← getArr j "events").mapM asEvent
    let s ← getNat j "seed"
    let none0 : RngId → Bool := fun _ => false
    let fu := firstUnseeded none0 evs 0
    pure <| obj [("well_seeded", wsTrace none0 evs), ("first_unseeded", match fu with | some i => jNat i | none => Json.null),
                 ("seeds_ok", seedsAre s evs),
                 ("seeds", jNat (evs.filter (fun e => match e with | .seed _ _ => true | _ => false)).length),
                 ("draws", jNat (evs.filter (fun e => match e with | .draw _ => true | _ => false)).length)]
  | "C04.heap" =>
    let heap ← (← getArr j "heap").mapM asCell
    match fromConfigHeap heap (← getNat j "req") (← getNat j "n_after") with
    | none => pure <| obj [("heap", Json.null)]
    | some (h, a) => pure <| obj [("heap", jList jCfgCell h), ("addr", jNat a)]
  | _ => throw s!"unknown op {op}"

end MZ.Drv.C04
