import MazeVerif.DriverOps.Util
namespace MZ.Drv.C12
open Lean MZ.Drv

/-- driver ops of property C12 (`"op": "C12.<name>"`) -/
def handle (op : String) (_j : Json) : R Json := do
  match op with
  | _ => throw s!"unknown op {op}"

end MZ.Drv.C12
