import MazeVerif.Lemmas.TokSel
/-! The canonical selected edge lists (`lattice_connection_array(n)`, `connection_list_to_adj_list(...)` without shuffles) list
    every edge exactly once: `Nodup` of `latticeEdges n`, `ndindex3 rows cols`, `connEdges m walls`, `selEdges sub m`.
    Core Lean only (`List.pairwise_flatMap`, `List.pairwise_map`, `List.Pairwise.filter`, `List.nodup_range`). -/
namespace MZ.Tok

/-- `map` of a function that is injective on the members of a duplicate-free list is duplicate-free -/
theorem nodup_map_of_injOn {α β} {f : α → β} {l : List α} (hl : l.Nodup)
    (hf : ∀ a ∈ l, ∀ b ∈ l, f a = f b → a = b) : (l.map f).Nodup := by
  unfold List.Nodup at hl ⊢
  rw [List.pairwise_map]
  rw [List.pairwise_iff_forall_sublist] at hl ⊢
  intro a b hab hfab
  exact hl hab (hf a (hab.subset (by simp)) b (hab.subset (by simp)) hfab)

/-- `flatMap` over a duplicate-free list, every piece duplicate-free, pieces of distinct indices disjoint -/
theorem nodup_flatMap_of {α β} {f : α → List β} {l : List α} (hl : l.Nodup)
    (h1 : ∀ a ∈ l, (f a).Nodup)
    (h2 : ∀ a ∈ l, ∀ b ∈ l, ∀ x, x ∈ f a → x ∈ f b → a = b) : (l.flatMap f).Nodup := by
  unfold List.Nodup at hl ⊢
  rw [List.pairwise_flatMap]
  refine ⟨h1, ?_⟩
  rw [List.pairwise_iff_forall_sublist] at hl ⊢
  intro a b hab x hx y hy hxy
  subst hxy
  exact hl hab (h2 a (hab.subset (by simp)) b (hab.subset (by simp)) x hx hy)

/-- a row `(range k).map (fun j => g j)` with `g` injective -/
theorem nodup_map_range {β} {g : Nat → β} (k : Nat) (hg : ∀ a b, g a = g b → a = b) : ((List.range k).map g).Nodup :=
  nodup_map_of_injOn List.nodup_range (fun a _ b _ h => hg a b h)

/-- horizontal block of `lattice_connection_array` -/
theorem nodup_latticeH (n k : Nat) :
    ((List.range n).flatMap fun i => (List.range k).map fun j => (((i, j), (i, j + 1)) : OE)).Nodup := by
  apply nodup_flatMap_of List.nodup_range
  · intro i _
    apply nodup_map_range
    intro a b h
    simp only [Prod.mk.injEq] at h
    exact h.1.2
  · intro a _ b _ x hx hy
    simp only [List.mem_map, List.mem_range] at hx hy
    obtain ⟨j, _, rfl⟩ := hx
    obtain ⟨j', _, h⟩ := hy
    simp only [Prod.mk.injEq] at h
    exact h.1.1.symm

/-- vertical block of `lattice_connection_array` -/
theorem nodup_latticeV (n k : Nat) :
    ((List.range k).flatMap fun i => (List.range n).map fun j => (((i, j), (i + 1, j)) : OE)).Nodup := by
  apply nodup_flatMap_of List.nodup_range
  · intro i _
    apply nodup_map_range
    intro a b h
    simp only [Prod.mk.injEq] at h
    exact h.1.2
  · intro a _ b _ x hx hy
    simp only [List.mem_map, List.mem_range] at hx hy
    obtain ⟨j, _, rfl⟩ := hx
    obtain ⟨j', _, h⟩ := hy
    simp only [Prod.mk.injEq] at h
    exact h.1.1.symm

/-- `lattice_connection_array(n)` has no repeated row, for every `n` (including `n = 0` and `n = 1`, where it is empty) -/
theorem nodup_latticeEdges (n : Nat) : (latticeEdges n).Nodup := by
  unfold latticeEdges
  rw [List.nodup_append]
  refine ⟨nodup_latticeH n (n - 1), nodup_latticeV n (n - 1), ?_⟩
  intro a ha b hb hab
  subst hab
  simp only [List.mem_flatMap, List.mem_map, List.mem_range] at ha hb
  obtain ⟨i, _, j, _, rfl⟩ := ha
  obtain ⟨i', _, j', _, h⟩ := hb
  simp only [Prod.mk.injEq] at h
  omega

/-- `np.ndindex((2, rows, cols))` visits every index once -/
theorem nodup_ndindex3 (rows cols : Nat) : (ndindex3 rows cols).Nodup := by
  unfold ndindex3
  apply nodup_flatMap_of List.nodup_range
  · intro d _
    apply nodup_flatMap_of List.nodup_range
    · intro x _
      apply nodup_map_range
      intro a b h
      simp only [Prod.mk.injEq] at h
      exact h.2.2
    · intro a _ b _ t hx hy
      simp only [List.mem_map, List.mem_range] at hx hy
      obtain ⟨y, _, rfl⟩ := hx
      obtain ⟨y', _, h⟩ := hy
      simp only [Prod.mk.injEq] at h
      exact h.2.1.symm
  · intro a _ b _ t hx hy
    simp only [List.mem_flatMap, List.mem_map, List.mem_range] at hx hy
    obtain ⟨x, _, y, _, rfl⟩ := hx
    obtain ⟨x', _, y', _, h⟩ := hy
    simp only [Prod.mk.injEq] at h
    exact h.1.symm

/-- `endsOf` is injective on `d < 2` (it is NOT injective on all of `Nat³`: `endsOf (2,x,y) = endsOf (3,x,y)`) -/
theorem endsOf_injOn {s t : Nat × Nat × Nat} (hs : s.1 < 2) (ht : t.1 < 2) (h : endsOf s = endsOf t) : s = t := by
  obtain ⟨d, x, y⟩ := s
  obtain ⟨d', x', y'⟩ := t
  simp only at hs ht
  simp only [endsOf, Prod.mk.injEq] at h
  obtain ⟨⟨rfl, rfl⟩, h1, _⟩ := h
  have hd : d = d' := by
    have h0 : d = 0 ∨ d = 1 := by omega
    have h0' : d' = 0 ∨ d' = 1 := by omega
    rcases h0 with rfl | rfl <;> rcases h0' with rfl | rfl <;> simp at h1 <;> rfl
  subst hd
  rfl

/-- `connection_list_to_adj_list(conn_list, shuffle_d0=False, shuffle_d1=False)` lists every `True` entry once; no hypothesis on
    the maze (any shape including `rows = 0`/`cols = 0`, any `edges` list even with repeated or out-of-grid entries) -/
theorem nodup_connEdges (m : Maze) (w : Bool) : (connEdges m w).Nodup := by
  unfold connEdges
  apply nodup_map_of_injOn
  · exact (nodup_ndindex3 m.rows m.cols).filter _
  · intro a ha b hb h
    exact endsOf_injOn (mem_ndindex3.1 (List.mem_filter.1 ha).1).1 (mem_ndindex3.1 (List.mem_filter.1 hb).1).1 h

/-- every selected canonical edge list is duplicate-free -/
theorem nodup_selEdges {sub : Subset} {m : Maze} {es : List OE} (h : selEdges sub m = some es) : es.Nodup := by
  cases sub with
  | all =>
    simp only [selEdges] at h
    split at h
    · cases h; exact nodup_latticeEdges _
    · cases h
  | conn w =>
    simp only [selEdges, Option.some.injEq] at h; subst h
    exact nodup_connEdges m w

/-! consequences for the emitted order -/

/-- a forward edge is never the flip of a forward edge -/
theorem Fwd.ne_flip {e e' : OE} (h : Fwd e) (h' : Fwd e') : e ≠ flipE e' := by
  obtain ⟨⟨a1, a2⟩, ⟨b1, b2⟩⟩ := e
  obtain ⟨⟨c1, c2⟩, ⟨d1, d2⟩⟩ := e'
  unfold Fwd at h h'
  simp only [Prod.mk.injEq] at h h'
  intro hc
  simp only [flipE, Prod.mk.injEq] at hc
  omega

theorem flipE_injective {a b : OE} (h : flipE a = flipE b) : a = b := by
  obtain ⟨a1, a2⟩ := a; obtain ⟨b1, b2⟩ := b
  simp only [flipE, Prod.mk.injEq] at h
  rw [h.1, h.2]

/-- `BothCoords`: `es ++ flipped es` is duplicate-free when `es` is a duplicate-free list of forward edges -/
theorem nodup_both {es : List OE} (hn : es.Nodup) (hf : ∀ e ∈ es, Fwd e) : (es ++ es.map flipE).Nodup := by
  rw [List.nodup_append]
  refine ⟨hn, nodup_map_of_injOn hn (fun a _ b _ h => flipE_injective h), ?_⟩
  intro a ha b hb hab
  obtain ⟨e', he', rfl⟩ := List.mem_map.1 hb
  exact (hf a ha).ne_flip (hf e' he') hab

end MZ.Tok
