"""C18 — configurations round-trip exactly and have stable, discriminating identities.

Correspondence: real MazeDatasetConfig.serialize / .load / stable_hash_cfg / to_fname (and the collection config's to_fname)
vs. the MZ.Cfg model (driver ops C18.*): the serialized dict entry by entry (tuples/lists distinguished), its JSON image,
the loaded configuration field by field (types included), load errors on malformed data, the file name.
Oracle (independent of the model): type-sensitive deep equality of every field after load (directly and through JSON text),
`maze_ctor is` the same function, hash == sha256 of the JSON text computed with hashlib, hashes identical in 4 fresh
interpreter processes with different PYTHONHASHSEED, pairwise different for different configurations, file name
re-assembled from its documented parts."""
from __future__ import annotations
import hashlib, itertools, json, os, subprocess, sys, warnings
from pathlib import Path

RULE = ("cross product of every registered generator (keys of GENERATORS_MAP read from the running code) x 6 generator-kwargs "
        "dicts (empty, float, bool, ints, nested lists/dicts/None/strings, list-valued coordinate) x 6 endpoint-option dicts "
        "(empty, one flag, coordinate lists incl. empty list, None, all five keys) x 4 recorded-filter lists (empty, positional "
        "arg, kwargs, two filters with float arg) x 3 seeds, with names/grid sizes/maze counts rotating through awkward values "
        "(spaces, dots, unicode, 0, 999, 1000, 12345, 10**6); every pair differing in exactly one field from 3 base configs; "
        "malformed serialized data (unknown generator, legacy string generator, missing optional fields, kwargs None, inverted "
        "seq_len bounds, non-dict). non-trivial = configuration with at least one non-default custom field; distinct = distinct "
        "serialized content. Thorough: 10x more random field combinations, larger name alphabet.; later additions: endpoints_not_equal among the endpoint options, list-valued filter arguments, identity after in-place edits, edits of a loaded config must not leak into later loads")
ASSUMPTIONS = ["configuration values are JSON-native below the places where the loading functions restore tuples (generator kwargs, filter args/kwargs "
               "contain no tuples); a tuple inside maze_ctor_kwargs comes back as a list (modelled, shown in the correspondence, outside the theorem's hypothesis)",
               "seed is an int (seed=None draws a random seed in __post_init__ and is outside the round-trip claim)",
               "json.loads(json.dumps(x)) = x with tuples turned into lists and float repr round trip (trusted json semantics; validated on every case)"]
TRUSTED = ["sha256 (hashlib) collision resistance: 'different content -> different hash' is proved up to a collision hypothesis and tested on all pairs",
           "muutils stable_hash / sanitize_fname / shorten_numerical_to_str (parameters of the model; sanitize_fname is modelled as the character filter it is and compared on every case)",
           "function identity is the method name: GENERATORS_MAP values are LatticeMazeGenerators.<name> with __name__ == <name> (checked on the running code)"]


# ---------------------------------------------------------------- wire format for Python values
def py_enc(x):
    if x is None or isinstance(x, bool) or isinstance(x, str):
        return x
    if isinstance(x, int):
        return x
    if isinstance(x, float):
        return {"f": repr(x)}
    if isinstance(x, list):
        return {"l": [py_enc(v) for v in x]}
    if isinstance(x, tuple):
        return {"t": [py_enc(v) for v in x]}
    if isinstance(x, dict):
        return {"d": [[k if isinstance(k, str) else "<nonstr>" + repr(k), py_enc(v)] for k, v in x.items()]}
    return {"d": [["<unmodelled>", repr(type(x))]]}


def deep_same(a, b) -> bool:
    """ORACLE equality: same type and same content, recursively (so list vs tuple, int vs bool vs float are told apart)"""
    if type(a) is not type(b):
        return False
    if isinstance(a, (list, tuple)):
        return len(a) == len(b) and all(deep_same(x, y) for x, y in zip(a, b))
    if isinstance(a, dict):
        return list(a.keys()) == list(b.keys()) and all(deep_same(a[k], b[k]) for k in a)
    return a == b


# ---------------------------------------------------------------- configurations from specs
FIELDS = ("name", "seq_len_min", "seq_len_max", "seed", "applied_filters", "grid_n", "n_mazes", "maze_ctor", "maze_ctor_kwargs", "endpoint_kwargs")

KWARGS = [dict(), dict(p=0.5), dict(do_forks=False), dict(accessible_cells=5, max_tree_depth=3),
          dict(p=0.1, extra=dict(a=[1, 2, dict(b=None)], s="x\"y"), q=[]), dict(lattice_dim=2, accessible_cells=0.25, start_coord=[1, 1])]
ENDPOINTS = [dict(), dict(deadend_start=True), dict(allowed_start=[(0, 0), (1, 1)], allowed_end=[(2, 2)]),
             dict(except_when_invalid=False, deadend_end=True, allowed_end=None), dict(allowed_start=[]),
             dict(allowed_start=[(0, 1)], deadend_start=False, deadend_end=True, except_when_invalid=True, allowed_end=[(1, 0), (0, 0)]),
             dict(endpoints_not_equal=True), dict(deadend_start=True, deadend_end=True, endpoints_not_equal=False)]
FILTERS = [[], [dict(name="path_length", args=(3,), kwargs=dict())],
           [dict(name="start_end_distance", args=(), kwargs=dict(min_distance=2))],
           [dict(name="collect_generation_meta", args=(), kwargs=dict(clear_in_mazes=True, inplace=False)),
            dict(name="cut_percentile_shortest", args=(10.5,), kwargs=dict())],
           # arguments that really are lists (custom / user-registered filters): only the top-level args container is a tuple
           [dict(name="__custom__:keep_cells", args=(), kwargs=dict(cells=[[0, 0], [0, 1]], opts=dict(depth=[1, 2]))),
            dict(name="drop_indices", args=([0, 2],), kwargs=dict())]]
SEEDS = [42, 0, 123456789]
NAMES = ["test", "te st", "a.b_c-d", "x/y:z", "Ünï-cødé1", "0lead", "UPPER lower 99"]
GRIDS = [1, 2, 3, 5, 10, 49]
COUNTS = [0, 1, 5, 999, 1000, 1234, 12345, 99999, 10 ** 6, 2_500_000]


def spec_to_cfg(spec):
    """build the real configuration; JSON specs hold lists where the configuration holds tuples (endpoint coordinates, filter args)"""
    from maze_dataset import MazeDatasetConfig
    from maze_dataset.generation import GENERATORS_MAP
    kw = dict(spec)
    kw["maze_ctor"] = GENERATORS_MAP[spec["maze_ctor"]]
    kw["endpoint_kwargs"] = {k: (v if (isinstance(v, bool) or v is None) else [tuple(x) for x in v]) for k, v in spec["endpoint_kwargs"].items()}
    kw["applied_filters"] = [dict(name=f["name"], args=tuple(f["args"]), kwargs=dict(f["kwargs"])) for f in spec["applied_filters"]]
    return MazeDatasetConfig(**kw)


def mk_spec(name="test", grid_n=3, n_mazes=5, maze_ctor="gen_dfs", maze_ctor_kwargs=None, endpoint_kwargs=None, seed=42, applied_filters=None,
            seq_len_min=1, seq_len_max=512):
    return json.loads(json.dumps(dict(name=name, seq_len_min=seq_len_min, seq_len_max=seq_len_max, seed=seed,
                                      applied_filters=applied_filters or [], grid_n=grid_n, n_mazes=n_mazes, maze_ctor=maze_ctor,
                                      maze_ctor_kwargs=maze_ctor_kwargs or {}, endpoint_kwargs=endpoint_kwargs or {})))


def cfg_wire(c) -> dict:
    """a real configuration in the driver's cfg format (generator = its __name__)"""
    def ep(v):
        if v is None: return None
        if isinstance(v, bool): return {"b": v}
        return {"c": [[py_enc(x) for x in t] for t in v]}
    return dict(name=c.name, seq_len_min=c.seq_len_min, seq_len_max=c.seq_len_max, seed=c.seed,
                applied_filters=[dict(name=py_enc(f["name"]), args=[py_enc(a) for a in f["args"]], kwargs=[[k, py_enc(v)] for k, v in f["kwargs"].items()])
                                 for f in c.applied_filters],
                grid_n=c.grid_n, n_mazes=c.n_mazes, maze_ctor=c.maze_ctor.__name__,
                maze_ctor_kwargs=[[k, py_enc(v)] for k, v in c.maze_ctor_kwargs.items()],
                endpoint_kwargs=[[k, ep(v)] for k, v in c.endpoint_kwargs.items()])


def cfg_struct_ok(c) -> str | None:
    """ORACLE side conditions on a loaded configuration: the documented container types are restored"""
    for k, v in c.endpoint_kwargs.items():
        if not (isinstance(v, bool) or v is None):
            if type(v) is not list or not all(type(t) is tuple for t in v):
                return f"endpoint_kwargs[{k!r}] = {v!r}: coordinate list not restored as a list of tuples"
    for f in c.applied_filters:
        if type(f["args"]) is not tuple or type(f["kwargs"]) is not dict:
            return f"applied filter {f!r}: args not restored as a tuple / kwargs not a dict"
    return None


def same_cfg(a, b) -> str | None:
    """ORACLE: every field equal, type-sensitively; the generator is the very same function; None if all equal"""
    for f in FIELDS:
        x, y = getattr(a, f), getattr(b, f)
        if f == "maze_ctor":
            if x is not y:
                return f"maze_ctor: {getattr(x, '__name__', x)} vs {getattr(y, '__name__', y)}"
        elif not deep_same(x, y):
            return f"{f}: {x!r} vs {y!r}"
    return None


def shrink_ser(ser: dict) -> dict:
    """the model treats the generator's doc/source as opaque: replace them by short digests on the wire"""
    s = dict(ser)
    if isinstance(s.get("maze_ctor"), dict):
        mc = dict(s["maze_ctor"])
        for k in ("__doc__", "source_code"):
            if k in mc:
                mc[k] = "sha1:" + hashlib.sha1(json.dumps(mc[k]).encode()).hexdigest()
        s["maze_ctor"] = mc
    return s


def _exc(e) -> str:
    for t in (KeyError, AssertionError, ValueError, TypeError, IndexError):
        if isinstance(e, t):
            return t.__name__
    return "other:" + type(e).__name__


def oracle_fname(c, h: int) -> str:
    """ORACLE from the statement: name, grid size, maze count, generator, last five digits of the hash; only [alnum._-] survive"""
    from muutils.misc import shorten_numerical_to_str
    gen = c.maze_ctor.__name__
    gen = gen[4:] if gen.startswith("gen_") else gen
    raw = f"{c.name}-g{c.grid_n}-n{shorten_numerical_to_str(c.n_mazes)}-a_{gen}-h{h % 100000}"
    return "".join(ch for ch in raw if ch.isalnum() or ch in "._-")


def fname_parts_missing(c, h: int, fn: str) -> str | None:
    """ORACLE (loose, from the statement): the parts occur in order and the name ends with the hash's last five digits"""
    from muutils.misc import shorten_numerical_to_str
    keep = lambda t: "".join(ch for ch in t if ch.isalnum() or ch in "._-")
    gen = c.maze_ctor.__name__
    gen = gen[4:] if gen.startswith("gen_") else gen
    parts = [("name", keep(c.name)), ("grid size", f"g{c.grid_n}"), ("maze count", "n" + keep(shorten_numerical_to_str(c.n_mazes))),
             ("generator", keep(gen)), ("hash digits", f"h{h % 100000}")]
    pos = 0
    for what, p in parts:
        i = fn.find(p, pos)
        if i < 0:
            return f"{what} ({p!r}) does not occur (in order) in the file name"
        pos = i + len(p)
    if not fn.endswith(str(h % 100000)):
        return f"the file name does not end with the last five digits of the hash ({h % 100000})"
    if any(not (ch.isalnum() or ch in "._-") for ch in fn):
        return "the file name contains characters outside [alphanumeric . _ -]"
    return None


# ---------------------------------------------------------------- one configuration: observe, judge, build model request
def observe(ctx, spec, reqs, keep):
    from maze_dataset import MazeDatasetConfig
    from muutils.misc import shorten_numerical_to_str
    c = spec_to_cfg(spec)
    case = dict(family="cfg", spec=spec)
    custom = bool(spec["maze_ctor_kwargs"] or spec["endpoint_kwargs"] or spec["applied_filters"] or spec["maze_ctor"] != "gen_dfs")
    ser = c.serialize()
    text = json.dumps(ser)
    ctx.case(text, nontrivial=custom)
    ctx.count("gen=" + spec["maze_ctor"]); ctx.count(f"filters={len(spec['applied_filters'])}"); ctx.count(f"endpoint_keys={len(spec['endpoint_kwargs'])}")
    # ---- oracle: round trips
    for route, data in (("serialize", ser), ("json-text", json.loads(text))):
        try:
            back = MazeDatasetConfig.load(data)
        except Exception as e:
            ctx.violate(f"load({route}) raises {_exc(e)}: {str(e)[:120]} for {spec}", dict(case, route=route), key="rt-raises"); return None
        why = same_cfg(c, back) or cfg_struct_ok(back)
        if why is None and not (back == c and c == back):
            why = "loaded configuration does not compare == to the original"
        if why is None and c.diff(back) != {}:
            why = f"cfg.diff(loaded) = {c.diff(back)}"
        if why:
            ctx.violate(f"load({route}) of the serialized configuration differs from the original: {why}", dict(case, route=route), key="rt-differs"); return None
    # ---- oracle: hash is sha256 of the JSON text of the serialized content
    h = c.stable_hash_cfg()
    want = int.from_bytes(hashlib.sha256(text.encode("utf-8")).digest(), "big")
    if h != want:   # another function of the content would not break the property by itself: correspondence, not violation
        ctx.disagree(f"stable_hash_cfg() is not the sha256 of json.dumps(serialize()) for {spec}", case)
    if c.stable_hash_cfg() != h or MazeDatasetConfig.load(json.loads(text)).stable_hash_cfg() != h or spec_to_cfg(spec).stable_hash_cfg() != h:
        ctx.violate(f"stable_hash_cfg() changes between calls / between equal configurations / after a round trip for {spec}", case, key="hash-unstable"); return None
    # ---- oracle: file name is built from name, grid size, maze count, generator and the last five digits of the hash (in that order)
    fn = c.to_fname()
    why = fname_parts_missing(c, h, fn)
    if why:
        ctx.violate(f"to_fname() = {fn!r}: {why}", case, key="fname-shape"); return None
    if fn != oracle_fname(c, h):
        ctx.disagree(f"to_fname() = {fn!r} but the documented format gives {oracle_fname(c, h)!r}", case)
    # ---- a RELOADED configuration belongs to whoever loaded it: editing it in place must not leak into configurations loaded later
    if ctx.evaluations % 3 == 0:
        try:
            first = MazeDatasetConfig.load(json.loads(text))
            first.maze_ctor_kwargs["verif_probe_flag"] = False
            first.endpoint_kwargs["deadend_start"] = not first.endpoint_kwargs.get("deadend_start", False)
            first.applied_filters.append(dict(name="collect_generation_meta", args=(), kwargs={}))
            again = MazeDatasetConfig.load(json.loads(text))
            why = same_cfg(c, again)
            if why or again.stable_hash_cfg() != c.stable_hash_cfg():
                ctx.violate(f"after a configuration loaded from the same content was edited in place by its owner, loading that content again no longer gives the original: "
                            f"{why or 'hash differs'} for {spec}", dict(case, route="load-after-edit-of-earlier-load"), key="rt-differs"); return None
        except Exception as e:
            ctx.violate(f"loading a configuration a second time raised {_exc(e)}: {str(e)[:120]} for {spec}", dict(case, route="load-after-edit-of-earlier-load"), key="rt-raises"); return None
    # ---- identity follows the CONTENT of the object as it is now: ask for hash / file name, change the object in place the way the
    #      library itself does (filters append to applied_filters; owners edit kwargs), ask again
    import copy as _copy
    probe = spec_to_cfg(_copy.deepcopy(spec))     # the edits below must not reach the spec (spec_to_cfg passes the dicts on by reference)
    probe.stable_hash_cfg(); probe.to_fname()
    edits = [("applied_filters.append", lambda c_: c_.applied_filters.append(dict(name="collect_generation_meta", args=(), kwargs={}))),
             ("maze_ctor_kwargs[do_forks]", lambda c_: c_.maze_ctor_kwargs.__setitem__("do_forks", not c_.maze_ctor_kwargs.get("do_forks", True))),
             ("endpoint_kwargs[deadend_end]", lambda c_: c_.endpoint_kwargs.__setitem__("deadend_end", not c_.endpoint_kwargs.get("deadend_end", False)))]
    for label, ed in (edits if ctx.evaluations % 4 == 0 else []):
        ed(probe)
        twin = MazeDatasetConfig.load(json.loads(json.dumps(probe.serialize())))      # same content, never asked before
        if probe.stable_hash_cfg() != twin.stable_hash_cfg() or probe.to_fname() != twin.to_fname():
            ctx.violate(f"after an in-place change of the configuration ({label}) its hash / file name ({probe.stable_hash_cfg() % 10**5}, {probe.to_fname()!r}) "
                        f"are not those of an identical-content configuration ({twin.stable_hash_cfg() % 10**5}, {twin.to_fname()!r}) for {spec}",
                        dict(case, edit=label), key="hash-stale-after-edit"); return None
    # ---- model request
    info = [[k, py_enc(v)] for k, v in shrink_ser(ser)["maze_ctor"].items() if k != "__name__"]
    reqs.append(dict(op="C18.roundtrip", cfg=cfg_wire(c), info=info))
    keep.append(("rt", case, dict(ser=py_enc(shrink_ser(ser)), ser_json=py_enc(shrink_ser(json.loads(text))), cfg=cfg_wire(c))))
    if all(ord(ch) < 128 for ch in c.name):
        reqs.append(dict(op="C18.fname", cfg=cfg_wire(c), shorten=shorten_numerical_to_str(c.n_mazes), hash=str(h)))
        keep.append(("fname", case, fn))
    return dict(spec=spec, hash=h, fname=fn, text=text)


def compare_model(ctx, reqs, keep):
    outs = ctx.driver.run_parallel(reqs)
    for (kind, case, impl), o in zip(keep, outs):
        if "error" in o:
            ctx.disagree(f"driver error {o['error']} on {kind}", case); continue
        ctx.traces_validated += 1
        if kind == "rt":
            if o["ser"] != impl["ser"]:
                ctx.disagree(f"serialized dict: model and code differ for {case['spec']}: model={json.dumps(o['ser'])[:300]} impl={json.dumps(impl['ser'])[:300]}", case)
            elif o["ser_json"] != impl["ser_json"]:
                ctx.disagree(f"JSON image of the serialized dict: model and code differ for {case['spec']}", case)
            elif not (o["wf"] and o["native"]):
                ctx.disagree(f"model says the generated configuration is outside the theorem's hypotheses (wf={o['wf']} native={o['native']}): {case['spec']}", case)
            elif not (o["load"]["ok"] and o["load"]["cfg"] == impl["cfg"] and o["load_json"]["ok"] and o["load_json"]["cfg"] == impl["cfg"]):
                ctx.disagree(f"model load of the serialized configuration is not the configuration: {o['load']} / {o['load_json']} vs {impl['cfg']}", case)
        elif kind == "fname":
            if o["fname"] != impl:
                ctx.disagree(f"file name: model {o['fname']!r} vs code {impl!r} for {case['spec']}", case)
        elif kind == "load":
            if o != impl:
                ctx.disagree(f"load of malformed data {case['what']}: model {o} vs code {impl}", case)
        elif kind == "tuple-kwargs":
            if not (o["load"]["ok"] and o["load"]["cfg"] == impl["direct"] and o["load_json"]["ok"] and o["load_json"]["cfg"] == impl["json"] and o["native"] is False):
                ctx.disagree(f"tuple inside maze_ctor_kwargs: model {o['load']} / {o['load_json']} vs code {impl}", case)
        elif kind == "fname-coll":
            if o["fname"] != impl:
                ctx.disagree(f"collection file name: model {o['fname']!r} vs code {impl!r}", case)


# ---------------------------------------------------------------- families
def cross_product(ctx, gens):
    k = 0
    for g, kw, ep, fl, seed in itertools.product(gens, range(len(KWARGS)), range(len(ENDPOINTS)), range(len(FILTERS)), SEEDS):
        yield mk_spec(name=NAMES[k % len(NAMES)], grid_n=GRIDS[k % len(GRIDS)], n_mazes=COUNTS[k % len(COUNTS)], maze_ctor=g,
                      maze_ctor_kwargs=KWARGS[kw], endpoint_kwargs=ENDPOINTS[ep], seed=seed, applied_filters=FILTERS[fl])
        k += 1


def random_specs(ctx, gens, n):
    r = ctx.rng
    alphabet = "abcXYZ019 ._-/:é中"
    for _ in range(n):
        kw = dict(r.choice(KWARGS))
        if r.random() < 0.5:
            kw[r.choice(["p", "k", "do_forks", "zz"])] = r.choice([0, 1, True, False, None, 0.75, 1e-9, -3, "s", [1, [2, [3]]], {"a": {"b": 1}}])
        ep = dict(r.choice(ENDPOINTS))
        if r.random() < 0.5:
            ep[r.choice(["allowed_start", "allowed_end"])] = [(r.randrange(5), r.randrange(5)) for _ in range(r.randrange(4))]
        fl = [dict(f) for f in r.choice(FILTERS)]
        if r.random() < 0.3:
            fl.append(dict(name=r.choice(["truncate_count", "remove_duplicates"]), args=[r.randrange(100)] if r.random() < 0.5 else [],
                           kwargs={} if r.random() < 0.5 else {"max_count": r.randrange(100)}))
        yield mk_spec(name="".join(r.choice(alphabet) for _ in range(r.randint(1, 12))), grid_n=r.choice(GRIDS + [r.randrange(1, 100)]),
                      n_mazes=r.choice(COUNTS + [r.randrange(0, 10 ** 7)]), maze_ctor=r.choice(gens), maze_ctor_kwargs=kw, endpoint_kwargs=ep,
                      seed=r.choice(SEEDS + [r.randrange(2 ** 31)]), applied_filters=fl, seq_len_max=r.choice([512, 1, 100000]))


def single_field_pairs(gens):
    """(field, spec_a, spec_b) differing in exactly that field"""
    bases = [mk_spec(), mk_spec(name="b2", grid_n=4, n_mazes=100, maze_ctor=gens[-1], maze_ctor_kwargs=KWARGS[3], endpoint_kwargs=ENDPOINTS[2], seed=7, applied_filters=FILTERS[1]),
             mk_spec(name="b3", grid_n=6, n_mazes=1000, maze_ctor=gens[1 % len(gens)], maze_ctor_kwargs=KWARGS[4], endpoint_kwargs=ENDPOINTS[5], seed=0, applied_filters=FILTERS[3])]
    alts = dict(name=["other", "test ", "Test"], grid_n=[2, 30], n_mazes=[6, 0, 50, 1001], maze_ctor=list(gens), maze_ctor_kwargs=KWARGS + [dict(p=0.5000001), dict(p=1), dict(p=True), dict(p="0.5")],
                endpoint_kwargs=ENDPOINTS + [dict(allowed_start=[[0, 0], [1, 2]]), dict(allowed_start=[[1, 1], [0, 0]]), dict(deadend_start=False), dict(allowed_end=[[0, 0], [1, 1]])],
                seed=[1, 43, 2 ** 31 - 1], applied_filters=FILTERS + [[dict(name="path_length", args=[4], kwargs={})], [dict(name="path_length", args=[], kwargs=dict(min_length=3))]],
                seq_len_min=[0], seq_len_max=[513])
    for b in bases:
        for f, vals in alts.items():
            for v in vals:
                v = json.loads(json.dumps(v))
                if b[f] != v or type(b[f]) is not type(v):
                    yield f, b, dict(b, **{f: v})


def malformed(ctx, reqs, keep):
    """load on data that is not the output of serialize: only model vs. code (error classes / defaults)"""
    from maze_dataset import MazeDatasetConfig
    base = spec_to_cfg(mk_spec(maze_ctor_kwargs=KWARGS[1], endpoint_kwargs=ENDPOINTS[2], applied_filters=FILTERS[1])).serialize()
    def variant(what, f):
        d = json.loads(json.dumps(base)); f(d)
        return what, d
    def drop(*ks):
        def f(d):
            for k in ks: d.pop(k, None)
        return f
    def setk(k, v):
        def f(d): d[k] = v
        return f
    cases = [variant("unknown generator name", lambda d: d["maze_ctor"].__setitem__("__name__", "gen_nope")),
             variant("legacy string generator", setk("maze_ctor", "gen_wilson")),
             variant("legacy string unknown", setk("maze_ctor", "nope")),
             variant("generator entry is a number", setk("maze_ctor", 3)),
             variant("generator dict without __name__", lambda d: d["maze_ctor"].pop("__name__")),
             variant("no optional fields", drop("seq_len_min", "seq_len_max", "seed", "applied_filters", "maze_ctor", "maze_ctor_kwargs", "endpoint_kwargs", "grid_shape", "__format__")),
             variant("kwargs None", lambda d: (d.__setitem__("maze_ctor_kwargs", None), d.__setitem__("endpoint_kwargs", None)) and None),
             variant("inverted seq_len", lambda d: (d.__setitem__("seq_len_min", 600)) and None),
             variant("filter without args", lambda d: d["applied_filters"][0].pop("args")),
             variant("filters not a list", setk("applied_filters", 3)),
             variant("endpoint coordinate list of non-sequences", lambda d: d["endpoint_kwargs"].__setitem__("allowed_start", [1, 2]))]
    for what, d in cases + [("not a dict", [1, 2])]:
        try:
            c = MazeDatasetConfig.load(d)
            impl = dict(ok=True, cfg=cfg_wire(c))
        except Exception as e:
            impl = dict(ok=False, err=_exc(e))
        case = dict(family="malformed", what=what)
        ctx.case(("malformed", what), nontrivial=True); ctx.count("family=malformed")
        reqs.append(dict(op="C18.load", data=py_enc(shrink_ser(d) if isinstance(d, dict) else d)))
        keep.append(("load", case, impl))
    # a tuple inside maze_ctor_kwargs: outside the theorem's hypothesis; the model still predicts the outcome exactly
    spec = mk_spec(maze_ctor_kwargs=dict(p=0.5))
    c = spec_to_cfg(spec); c.maze_ctor_kwargs["start_coord"] = (1, 2)
    ser = c.serialize()
    direct, via = MazeDatasetConfig.load(ser), MazeDatasetConfig.load(json.loads(json.dumps(ser)))
    info = [[k, py_enc(v)] for k, v in shrink_ser(ser)["maze_ctor"].items() if k != "__name__"]
    ctx.case(("tuple-kwargs",), nontrivial=True)
    reqs.append(dict(op="C18.roundtrip", cfg=cfg_wire(c), info=info))
    keep.append(("tuple-kwargs", dict(family="tuple-kwargs"), dict(direct=cfg_wire(direct), json=cfg_wire(via))))


def collection_fname(ctx, reqs, keep, specs):
    from maze_dataset.dataset.collected_dataset import MazeDatasetCollectionConfig
    from muutils.misc import shorten_numerical_to_str
    for name, idx in (("coll", [0, 1]), ("my coll.v2", [2, 3, 4]), ("c", [5])):
        members = [spec_to_cfg(specs[i % len(specs)]) for i in idx]
        cc = MazeDatasetCollectionConfig(name=name, maze_dataset_configs=members)
        h = cc.stable_hash_cfg()
        fn = cc.to_fname()
        n = sum(m.n_mazes for m in members)
        want = "".join(ch for ch in f"collected-{name}-n{shorten_numerical_to_str(n)}-h{h % 100000}" if ch.isalnum() or ch in "._-")
        ctx.case(("collection", name, idx), nontrivial=True); ctx.count("family=collection")
        if fn != want:
            ctx.violate(f"collection to_fname() = {fn!r}, expected {want!r}", dict(family="collection", name=name), key="fname-shape")
        if h != int.from_bytes(hashlib.sha256(json.dumps(cc.serialize()).encode()).digest(), "big"):
            ctx.disagree("collection stable_hash_cfg() is not the sha256 of its serialized JSON text", dict(family="collection", name=name))
        reqs.append(dict(op="C18.fname_collection", name=name, n=n, shorten=shorten_numerical_to_str(n), hash=str(h)))
        keep.append(("fname-coll", dict(family="collection", name=name), fn))


# ---------------------------------------------------------------- other interpreter processes
def subprocess_hashes(ctx, specs, hashseeds):
    """{hashseed: [(hash, fname, sha1(text))]} computed in fresh interpreters"""
    f = ctx.workdir / "c18_specs.json"
    f.write_text(json.dumps(specs))
    procs = []
    for hs in hashseeds:
        env = dict(os.environ, PYTHONHASHSEED=str(hs))
        procs.append((hs, subprocess.Popen([sys.executable, str(Path(__file__).resolve()), "--sub", str(f)], env=env, stdout=subprocess.PIPE, stderr=subprocess.PIPE, text=True)))
    out = {}
    for hs, p in procs:
        so, se = p.communicate(timeout=1200)
        if p.returncode != 0:
            raise RuntimeError(f"subprocess PYTHONHASHSEED={hs} failed: {se[-1500:]}")
        out[hs] = json.loads(so.strip().split("\n")[-1])
    return out


def _sub_main(path):
    warnings.filterwarnings("ignore")
    sys.path.insert(0, os.environ.get("VERIF_REPO", "/repo"))
    specs = json.loads(Path(path).read_text())
    res = []
    for s in specs:
        c = spec_to_cfg(s)
        res.append([str(c.stable_hash_cfg()), c.to_fname(), hashlib.sha1(json.dumps(c.serialize()).encode()).hexdigest()])
    print(json.dumps(res))


# ---------------------------------------------------------------- entry points
def _gens():
    from maze_dataset.generation import GENERATORS_MAP, LatticeMazeGenerators
    return list(GENERATORS_MAP.keys())


def _check_registry(ctx):
    from maze_dataset.generation import GENERATORS_MAP
    for k, f in GENERATORS_MAP.items():
        ctx.case(("registry", k))
        if getattr(f, "__name__", None) != k:
            ctx.violate(f"GENERATORS_MAP[{k!r}] is a function named {getattr(f, '__name__', None)!r}: serialize writes the function name, load looks the key up, "
                        f"so a configuration using it cannot round-trip", dict(family="registry", key=k), key="rt-differs")


def run(ctx, stop_on_violation=False, with_model=True):
    warnings.filterwarnings("ignore")
    gens = _gens()
    _check_registry(ctx)
    reqs, keep, seen = [], [], []
    specs = list(cross_product(ctx, gens)) + list(random_specs(ctx, gens, 300 if ctx.quick else 6000))
    if not ctx.quick:
        specs += [dict(s, name=s["name"] + "#2", seed=s["seed"] + 1) for s in list(cross_product(ctx, gens))[::3]]
    for spec in specs:
        r = observe(ctx, spec, reqs, keep)
        if r: seen.append(r)
        if stop_on_violation and ctx.violations: return
    # ---- distinct configurations -> distinct content -> distinct hashes (all pairs, via grouping)
    by_text = {}
    for r in seen:
        by_text.setdefault(r["text"], r)
    by_hash = {}
    for r in by_text.values():
        if r["hash"] in by_hash:
            ctx.violate(f"two configurations with different serialized content have the same stable hash: {by_hash[r['hash']]['spec']} and {r['spec']}",
                        dict(family="pair", a=by_hash[r["hash"]]["spec"], b=r["spec"]), key="hash-collision")
            break
        by_hash[r["hash"]] = r
    by_spec = {}
    for r in seen:
        k = json.dumps(r["spec"], sort_keys=True)
        if k in by_spec: continue
        by_spec[k] = r
    texts = {}
    for k, r in by_spec.items():
        if r["text"] in texts and texts[r["text"]] != k:
            ctx.violate(f"two different configurations serialize to the same content: {json.loads(texts[r['text']])} and {r['spec']}",
                        dict(family="pair", a=json.loads(texts[r["text"]]), b=r["spec"]), key="content-not-injective")
            break
        texts[r["text"]] = k
    # ---- every single-field difference
    for f, a, b in single_field_pairs(gens):
        ca, cb = spec_to_cfg(a), spec_to_cfg(b)
        ta, tb = json.dumps(ca.serialize()), json.dumps(cb.serialize())
        ctx.case(("pair", f, ta, tb), nontrivial=True); ctx.count("pair-field=" + f)
        if ta == tb or ca.stable_hash_cfg() == cb.stable_hash_cfg():
            ctx.violate(f"configurations differing only in `{f}` ({a[f]!r} vs {b[f]!r}) have the same " + ("serialized content" if ta == tb else "stable hash"),
                        dict(family="pair", field=f, a=a, b=b), key="field-not-separated")
            if stop_on_violation: return
        if f not in ("n_mazes",) and (ca == cb):
            ctx.violate(f"configurations differing only in `{f}` compare equal", dict(family="pair", field=f, a=a, b=b), key="field-not-separated")
    # ---- other processes, other hash seeds
    sub_specs = [r["spec"] for r in seen[:: max(1, len(seen) // (400 if ctx.quick else 4000))]]
    here = {json.dumps(r["spec"], sort_keys=True): r for r in seen}
    hashseeds = [1, 2, 12345, ctx.rng.randrange(1, 2 ** 32 - 1)]
    res = subprocess_hashes(ctx, sub_specs, hashseeds)
    for hs, rows in res.items():
        for spec, (h, fn, digest) in zip(sub_specs, rows):
            mine = here[json.dumps(spec, sort_keys=True)]
            ctx.case(("proc", hs, mine["text"]), nontrivial=True); ctx.count("process-check")
            if int(h) != mine["hash"] or fn != mine["fname"] or digest != hashlib.sha1(mine["text"].encode()).hexdigest():
                ctx.violate(f"hash / file name / serialized content differ in another interpreter process (PYTHONHASHSEED={hs}): here {mine['hash'] % 10**5}/{mine['fname']} "
                            f"there {int(h) % 10**5}/{fn} for {spec}", dict(family="process", hashseed=hs, spec=spec), key="hash-unstable")
                break
        if stop_on_violation and ctx.violations: return
    ctx.extra["processes"] = dict(hashseeds=hashseeds, configs_each=len(sub_specs))
    if not with_model:
        return
    malformed(ctx, reqs, keep)
    collection_fname(ctx, reqs, keep, specs)
    compare_model(ctx, reqs, keep)
    for r in seen[7:400:97]:
        ctx.sample(dict(spec=r["spec"], fname=r["fname"], hash_mod=r["hash"] % 10 ** 5), limit=5)


def search(ctx):
    run(ctx, stop_on_violation=True, with_model=False)


def replay(ctx, rp):
    warnings.filterwarnings("ignore")
    case = rp.get("case", rp)
    fam = case.get("family")
    if fam == "cfg":
        r = observe(ctx, case["spec"], [], [])
        print("replay cfg:", None if r is None else dict(fname=r["fname"], hash_mod=r["hash"] % 10 ** 5))
    elif fam == "pair":
        ca, cb = spec_to_cfg(case["a"]), spec_to_cfg(case["b"])
        ta, tb = json.dumps(ca.serialize()), json.dumps(cb.serialize())
        ctx.case(("pair", ta, tb))
        print("replay pair: same content", ta == tb, "same hash", ca.stable_hash_cfg() == cb.stable_hash_cfg())
        if ta == tb or ca.stable_hash_cfg() == cb.stable_hash_cfg():
            ctx.violate(f"configurations {case['a']} and {case['b']} are not separated", case, key="field-not-separated")
    elif fam == "process":
        spec = case["spec"]
        c = spec_to_cfg(spec)
        res = subprocess_hashes(ctx, [spec], [case["hashseed"], 1])
        ctx.case(("proc", json.dumps(spec)))
        for hs, rows in res.items():
            if int(rows[0][0]) != c.stable_hash_cfg() or rows[0][1] != c.to_fname():
                ctx.violate(f"hash / file name differ in another process (PYTHONHASHSEED={hs})", case, key="hash-unstable")
    elif fam == "registry":
        _check_registry(ctx)
    else:
        run(ctx, stop_on_violation=True, with_model=False)


if __name__ == "__main__" and len(sys.argv) == 3 and sys.argv[1] == "--sub":
    _sub_main(sys.argv[2])
