import MazeVerif.Lemmas.WilsonStepProb
import MazeVerif.Lemmas.SpanningMask
/-! Support of Wilson's step machine ⊇ spanning trees (C19, EVERY grid): for every spanning-tree mask `T` there is a
    draw list on which the machine returns exactly `T`.
    Construction: start in cell 0; while a cell is unvisited, start the walk in the first unvisited cell and move along
    edges of `T` towards cell 0 (the draw is the index of the wanted neighbour in `nbrsOf`). Whatever loop erasure
    does, consecutive cells of the stored walk stay `T`-adjacent, so every connection ever written is a bit of `T`;
    a completed run returns a spanning-tree mask (refinement), which has as many bits as `T`, hence equals `T`.
    Also the generic converse of `val_pos_reaches`: a run into the target has positive probability. -/
namespace MZ.WSup
open MZ MZ.WStep MZ.WProb MZ.WRef

/-! ### generic list facts -/

theorem length_filter_mono {α : Type} {p q : α → Bool} : ∀ (l : List α), (∀ x ∈ l, q x = true → p x = true) →
    (l.filter q).length ≤ (l.filter p).length
  | [], _ => by simp
  | a :: l, h => by
    have ih := length_filter_mono l (fun x hx => h x (List.mem_cons_of_mem _ hx))
    have ha := h a (List.mem_cons_self ..)
    cases hq : q a
    · cases hp : p a <;> simp [hq, hp] <;> omega
    · simp [hq, ha hq]; omega

theorem length_filter_lt {α : Type} {p q : α → Bool} : ∀ (l : List α), (∀ x ∈ l, q x = true → p x = true) →
    (∃ x ∈ l, p x = true ∧ q x = false) → (l.filter q).length < (l.filter p).length
  | [], _, h => by obtain ⟨x, hx, _⟩ := h; cases hx
  | a :: l, h, ⟨x, hx, hpx, hqx⟩ => by
    have hmono := length_filter_mono l (fun y hy => h y (List.mem_cons_of_mem _ hy))
    rcases List.mem_cons.mp hx with rfl | hxl
    · simp [hpx, hqx]; omega
    · have ih := length_filter_lt l (fun y hy => h y (List.mem_cons_of_mem _ hy)) ⟨x, hxl, hpx, hqx⟩
      have ha := h a (List.mem_cons_self ..)
      cases hq : q a
      · cases hp : p a <;> simp [hq, hp] <;> omega
      · simp [hq, ha hq]; omega

/-- a sub-predicate with the same count is the same predicate on the list -/
theorem filter_eq_of_length_eq {α : Type} {p q : α → Bool} (l : List α) (h : ∀ x ∈ l, q x = true → p x = true)
    (hlen : (l.filter q).length = (l.filter p).length) : ∀ x ∈ l, p x = true → q x = true := by
  intro x hx hpx
  cases hqx : q x
  · have := length_filter_lt l h ⟨x, hx, hpx, hqx⟩
    omega
  · rfl

theorem sum_pos_of_mem {α : Type} {f : α → Rat} : ∀ (l : List α), (∀ x ∈ l, 0 ≤ f x) → ∀ x ∈ l, 0 < f x →
    0 < (l.map f).sum
  | [], _, x, hx, _ => by cases hx
  | a :: l, h, x, hx, hpos => by
    simp only [List.map_cons, List.sum_cons]
    have ha := h a (List.mem_cons_self ..)
    have hl : 0 ≤ (l.map f).sum := sum_map_nonneg fun y hy => h y (List.mem_cons_of_mem _ hy)
    rcases List.mem_cons.mp hx with rfl | hxl
    · linarith
    · have := sum_pos_of_mem l (fun y hy => h y (List.mem_cons_of_mem _ hy)) x hxl hpos
      linarith

/-! ### generic: a run into the target has positive probability (converse of `val_pos_reaches`) -/

theorem reaches_val_pos {σ : Type} (M : Machine σ) (tgt : σ → Bool) {s t : σ} {ds : List Nat}
    (h : Reaches M s ds t) (ht : tgt t = true) : ∀ n, ds.length ≤ n → 0 < val M tgt n s := by
  induction h with
  | done hf =>
    intro n _
    rw [val_fin M hf, ht]
    simp [ind]
  | @step s k ds t hf hk _ ih =>
    intro n hn
    cases n with
    | zero => simp at hn
    | succ n =>
      rw [val_succ]
      simp only [hf, Bool.false_eq_true, if_false]
      unfold avg
      have hpos : (0 : Rat) < (M.arity s : Rat) := by exact_mod_cast Nat.lt_of_le_of_lt (Nat.zero_le _) hk
      apply div_pos _ hpos
      exact sum_pos_of_mem (f := fun k => val M tgt n (M.next s k)) _ (fun x _ => val_nonneg M tgt n _) k
        (List.mem_range.mpr hk) (ih ht n (by simpa using hn))

theorem expect_pos_of_mem {σ : Type} {f : σ → Rat} {d : List (σ × Rat)} (hw : ∀ x ∈ d, 0 ≤ x.2) (hf : ∀ s, 0 ≤ f s)
    {x : σ × Rat} (hx : x ∈ d) (hxw : 0 < x.2) (hxf : 0 < f x.1) : 0 < expect f d := by
  unfold expect
  exact sum_pos_of_mem (f := fun sw : σ × Rat => sw.2 * f sw.1) d (fun y hy => mul_nonneg (hw y hy) (hf _)) x hx
    (mul_pos hxw hxf)

/-! ### multi-step runs of the Wilson machine -/

/-- feeding the draws `ds` (each within its range, never to a finished state) takes `s` to `t` -/
inductive Steps (rows cols : Nat) : WS → List Nat → WS → Prop
  | refl (s) : Steps rows cols s [] s
  | step {s k ds t} : finished rows cols s = false → k < arity rows cols s →
      Steps rows cols (next rows cols s k) ds t → Steps rows cols s (k :: ds) t

theorem Steps.trans {rows cols : Nat} {s t u : WS} {ds es : List Nat} (h1 : Steps rows cols s ds t)
    (h2 : Steps rows cols t es u) : Steps rows cols s (ds ++ es) u := by
  induction h1 with
  | refl => exact h2
  | step hf hk _ ih => exact .step hf hk (ih h2)

theorem Steps.reaches {rows cols : Nat} {s t : WS} {ds : List Nat} (h : Steps rows cols s ds t)
    (hf : finished rows cols t = true) : Reaches (wilson rows cols) s ds t := by
  induction h with
  | refl => exact .done hf
  | step hf' hk _ ih => exact .step hf' hk (ih hf)

/-! ### the tree `T` on cell indices -/

/-- `j` is a lattice neighbour of `i` and the connection between them is a bit of `T` -/
def TAdj (rows cols T i j : Nat) : Prop := j ∈ nbrsOf rows cols i ∧ bit T (edgeBit rows cols i j) = true

/-- cell `i` is joined to cell 0 by connections of `T` -/
inductive TReach0 (rows cols T : Nat) : Nat → Prop
  | zero : TReach0 rows cols T 0
  | head {a b} : TAdj rows cols T a b → TReach0 rows cols T b → TReach0 rows cols T a

/-- every consecutive pair of the walk is joined by a connection of `T` (the pairs `attachGo` writes) -/
def PathOK (rows cols T : Nat) : List Nat → Prop
  | a :: b :: rest => bit T (edgeBit rows cols a b) = true ∧ PathOK rows cols T (b :: rest)
  | _ => True

theorem PathOK.take {rows cols T : Nat} : ∀ (p : List Nat) (k : Nat), PathOK rows cols T p →
    PathOK rows cols T (p.take k)
  | [], k, _ => by simp [PathOK]
  | [a], k, _ => by cases k <;> simp [PathOK]
  | a :: b :: rest, 0, _ => by simp [PathOK]
  | a :: b :: rest, 1, _ => by simp [PathOK]
  | a :: b :: rest, k + 2, h => by
    have ih := PathOK.take (b :: rest) (k + 1) h.2
    simp only [List.take_succ_cons] at ih ⊢
    exact ⟨h.1, ih⟩

theorem PathOK.snoc {rows cols T : Nat} {cur nx : Nat} (hb : bit T (edgeBit rows cols cur nx) = true) :
    ∀ (p : List Nat), PathOK rows cols T p → p.getLast? = some cur → PathOK rows cols T (p ++ [nx])
  | [], _, hl => by cases hl
  | [a], _, hl => by
    simp only [List.getLast?_singleton, Option.some.injEq] at hl
    subst hl
    exact ⟨hb, trivial⟩
  | a :: b :: rest, h, hl => by
    have hl' : (b :: rest).getLast? = some cur := by simpa [List.getLast?_cons_cons] using hl
    exact ⟨h.1, PathOK.snoc hb (b :: rest) h.2 hl'⟩

theorem attachGo_vis (rows cols : Nat) : ∀ (p : List Nat) (vis edges i : Nat),
    bit (attachGo rows cols vis edges p).1 i = true ↔ bit vis i = true ∨ i ∈ p.dropLast
  | [], vis, edges, i => by simp [attachGo]
  | [a], vis, edges, i => by simp [attachGo]
  | a :: b :: rest, vis, edges, i => by
    have hun : attachGo rows cols vis edges (a :: b :: rest) =
        attachGo rows cols (vis ||| (1 <<< a)) (edges ||| (1 <<< edgeBit rows cols a b)) (b :: rest) := by
      simp only [attachGo]
    rw [hun, attachGo_vis rows cols (b :: rest), bit_set, List.dropLast_cons_cons, List.mem_cons]
    constructor
    · rintro ((h | h) | h)
      · exact Or.inl h
      · exact Or.inr (Or.inl h)
      · exact Or.inr (Or.inr h)
    · rintro (h | h | h)
      · exact Or.inl (Or.inl h)
      · exact Or.inl (Or.inr h)
      · exact Or.inr h

theorem attachGo_sub {rows cols T : Nat} : ∀ (p : List Nat) (vis edges : Nat), PathOK rows cols T p →
    (∀ i, bit edges i = true → bit T i = true) →
    ∀ i, bit (attachGo rows cols vis edges p).2 i = true → bit T i = true
  | [], vis, edges, _, h => by simpa [attachGo] using h
  | [a], vis, edges, _, h => by simpa [attachGo] using h
  | a :: b :: rest, vis, edges, hp, h => by
    have hun : attachGo rows cols vis edges (a :: b :: rest) =
        attachGo rows cols (vis ||| (1 <<< a)) (edges ||| (1 <<< edgeBit rows cols a b)) (b :: rest) := by
      simp only [attachGo]
    rw [hun]
    apply attachGo_sub (b :: rest) _ _ hp.2
    intro i hi
    rcases (bit_set _ _ _).mp hi with hi | rfl
    · exact h i hi
    · exact hp.1

/-! ### one walk: from the first cell `u` along `T` to the visited set -/

/-- invariant inside a walk that started in `u` and whose head is `cur` -/
structure WInv (rows cols T : Nat) (s : WS) (u cur : Nat) : Prop where
  vis0 : bit s.vis 0 = true
  sub : ∀ i, bit s.edges i = true → bit T i = true
  head : s.path.head? = some u
  last : s.path.getLast? = some cur
  curU : bit s.vis cur = false
  uU : bit s.vis u = false
  ok : PathOK rows cols T s.path

theorem getElem?_idxOf' {l : List Nat} {x : Nat} (h : x ∈ l) : l[l.idxOf x]? = some x := by
  have hlt : l.idxOf x < l.length := List.idxOf_lt_length_iff.mpr h
  rw [List.getElem?_eq_getElem hlt, List.getElem_idxOf hlt]

theorem mem_dropLast_of_head {p : List Nat} {u nx : Nat} (hh : p.head? = some u) (hl : p.getLast? = some nx)
    (hne : u ≠ nx) : u ∈ p.dropLast := by
  cases p with
  | nil => cases hh
  | cons a rest =>
    simp only [List.head?_cons, Option.some.injEq] at hh
    subst hh
    cases rest with
    | nil =>
      simp only [List.getLast?_singleton, Option.some.injEq] at hl
      exact absurd hl hne
    | cons b rest => simp [List.dropLast_cons_cons]

theorem walk_to_tree {rows cols T : Nat} {u cur : Nat} (hreach : TReach0 rows cols T cur) :
    ∀ s : WS, WInv rows cols T s u cur → ∃ ds t, Steps rows cols s ds t ∧ t.path = [] ∧ bit t.vis 0 = true ∧
      (∀ i, bit t.edges i = true → bit T i = true) ∧ (∀ i, bit s.vis i = true → bit t.vis i = true) ∧
      bit t.vis u = true := by
  induction hreach with
  | zero => intro s hI; have := hI.curU; rw [hI.vis0] at this; cases this
  | @head cur nx hadj _ ih =>
    intro s hI
    obtain ⟨hmem, hbitT⟩ := hadj
    have hnx : (nbrsOf rows cols cur)[(nbrsOf rows cols cur).idxOf nx]? = some nx := getElem?_idxOf' hmem
    generalize (nbrsOf rows cols cur).idxOf nx = k at hnx
    have hk : k < (nbrsOf rows cols cur).length := by
      rcases Nat.lt_or_ge k (nbrsOf rows cols cur).length with h | h
      · exact h
      · rw [List.getElem?_eq_none h] at hnx; cases hnx
    have hne : s.path ≠ [] := by intro h; have := hI.last; rw [h] at this; cases this
    have hfin : finished rows cols s = false := by
      cases hp : s.path with
      | nil => exact absurd hp hne
      | cons a l => simp [finished, hp]
    have har : arity rows cols s = (nbrsOf rows cols cur).length := by simp only [arity, hI.last]
    have hnext : next rows cols s k = settle rows cols
        { s with path := if s.path.contains nx then s.path.take (s.path.idxOf nx + 1) else s.path ++ [nx] } := by
      simp only [next, hI.last, hnx]
    have hp : ∃ p, (if s.path.contains nx then s.path.take (s.path.idxOf nx + 1) else s.path ++ [nx]) = p ∧
        p.head? = some u ∧ p.getLast? = some nx ∧ PathOK rows cols T p := by
      refine ⟨_, rfl, ?_⟩
      by_cases hin : nx ∈ s.path
      · have hcont : s.path.contains nx = true := List.contains_iff_mem.mpr hin
        simp only [hcont, if_true]
        refine ⟨?_, getLast?_take_idxOf hin, hI.ok.take _ _⟩
        rw [List.head?_take]
        simp [hI.head]
      · have hcont : s.path.contains nx = false := by
          cases h : s.path.contains nx
          · rfl
          · exact absurd (List.contains_iff_mem.mp h) hin
        simp only [hcont, Bool.false_eq_true, if_false]
        refine ⟨?_, List.getLast?_concat, PathOK.snoc hbitT _ hI.ok hI.last⟩
        rw [List.head?_append, hI.head]
        rfl
    obtain ⟨p, hpe, hph, hpl, hpok⟩ := hp
    rw [hpe] at hnext
    cases hbn : bit s.vis nx with
    | true =>
      have hune : u ≠ nx := by intro h; have := hI.uU; rw [h, hbn] at this; cases this
      have hset : settle rows cols { s with path := p } =
          { vis := (attachGo rows cols s.vis s.edges p).1, edges := (attachGo rows cols s.vis s.edges p).2,
            path := [] } := by
        simp only [settle, hpl, hbn, if_true]
      refine ⟨[k], _, .step hfin (by rw [har]; exact hk) (.refl _), ?_⟩
      rw [hnext, hset]
      refine ⟨rfl, ?_, ?_, ?_, ?_⟩
      · exact (attachGo_vis rows cols p _ _ 0).mpr (Or.inl hI.vis0)
      · exact attachGo_sub p _ _ hpok hI.sub
      · intro i hi; exact (attachGo_vis rows cols p _ _ i).mpr (Or.inl hi)
      · exact (attachGo_vis rows cols p _ _ u).mpr (Or.inr (mem_dropLast_of_head hph hpl hune))
    | false =>
      have hset : settle rows cols { s with path := p } = { s with path := p } :=
        settle_unvisited (s := { s with path := p }) hpl hbn
      rw [hset] at hnext
      obtain ⟨ds, t, hst, h1, h2, h3, h4, h5⟩ := ih { s with path := p }
        ⟨hI.vis0, hI.sub, hph, hpl, hbn, hI.uU, hpok⟩
      exact ⟨k :: ds, t, .step hfin (by rw [har]; exact hk) (by rw [hnext]; exact hst), h1, h2, h3, h4, h5⟩

/-! ### the whole run -/

theorem unvisited_length_lt {rows cols v v' u : Nat} (hmono : ∀ i, bit v i = true → bit v' i = true)
    (hu : u < rows * cols) (hv : bit v u = false) (hv' : bit v' u = true) :
    (unvisited rows cols v').length < (unvisited rows cols v).length := by
  unfold unvisited
  apply length_filter_lt
  · intro x _ hx
    simp only [Bool.not_eq_true'] at hx ⊢
    cases h : bit v x
    · rfl
    · rw [hmono x h] at hx; cases hx
  · exact ⟨u, List.mem_range.mpr hu, by simp [hv], by simp [hv']⟩

theorem run_to_end {rows cols T : Nat} (hC : ∀ i, i < rows * cols → TReach0 rows cols T i) :
    ∀ (m : Nat) (s : WS), (unvisited rows cols s.vis).length ≤ m → s.path = [] → bit s.vis 0 = true →
      (∀ i, bit s.edges i = true → bit T i = true) →
      ∃ ds t, Steps rows cols s ds t ∧ finished rows cols t = true ∧ ∀ i, bit t.edges i = true → bit T i = true := by
  intro m
  induction m with
  | zero =>
    intro s hm hp _ hsub
    have hu : unvisited rows cols s.vis = [] := List.length_eq_zero_iff.mp (by omega)
    exact ⟨[], s, .refl _, by simp [finished, hp, hu], hsub⟩
  | succ m ih =>
    intro s hm hp h0 hsub
    cases hu : unvisited rows cols s.vis with
    | nil => exact ⟨[], s, .refl _, by simp [finished, hp, hu], hsub⟩
    | cons u l =>
      have hfin : finished rows cols s = false := by simp [finished, hp, hu]
      have hgl : s.path.getLast? = none := by rw [hp]; rfl
      have har : arity rows cols s = (unvisited rows cols s.vis).length := by simp only [arity, hgl]
      obtain ⟨hult, hub⟩ := mem_unvisited (rows := rows) (cols := cols) (v := s.vis) (u := u) (by rw [hu]; simp)
      have hnext : next rows cols s 0 = { s with path := [u] } := by
        simp only [next, hgl, hu, List.getElem?_cons_zero]
        exact settle_unvisited (s := { s with path := [u] }) (last := u) rfl hub
      obtain ⟨ds, t, hst, h1, h2, h3, h4, h5⟩ := walk_to_tree (u := u) (hC u hult) { s with path := [u] }
        ⟨h0, hsub, rfl, rfl, hub, hub, trivial⟩
      have hlt := unvisited_length_lt (rows := rows) (cols := cols) h4 hult hub h5
      obtain ⟨es, t', hst', hf', hsub'⟩ := ih t (by simp only at hlt; omega) h1 h2 h3
      refine ⟨0 :: (ds ++ es), t', .step hfin (by rw [har, hu]; simp) ?_, hf', hsub'⟩
      rw [hnext]
      exact hst.trans hst'

/-! ### every cell is joined to cell 0 inside a spanning-tree mask -/

theorem treach0_of_spanning {rows cols T : Nat} (hr : 0 < rows) (hc : 0 < cols)
    (h : isSpanningMask rows cols T = true) : ∀ i, i < rows * cols → TReach0 rows cols T i := by
  obtain ⟨hwf, _, _, hreach, _⟩ := isSpanningMask_sound hr hc h
  have hn : 0 < rows * cols := Nat.mul_pos hr hc
  have hcover : ∀ c, Reach (edgesOfMask rows cols T) (cellOf cols 0) c →
      ∃ i, i < rows * cols ∧ cellOf cols i = c ∧ TReach0 rows cols T i := by
    intro c hrc
    induction hrc with
    | refl => exact ⟨0, hn, rfl, .zero⟩
    | @step b c _ hbc ih =>
      obtain ⟨i, hi, rfl, hir⟩ := ih
      obtain ⟨j, hj, rfl⟩ := inGrid_cellOf (Views.adj_inGrid hwf hbc).2
      have := adj_complete hc hj hi hbc.symm
      simp only [List.mem_filter] at this
      exact ⟨j, hj, rfl, .head this hir⟩
  intro i hi
  obtain ⟨k, _, hk, hkr⟩ := hcover (cellOf cols i) (hreach _ _ (cellOf_inGrid hc hn) (cellOf_inGrid hc hi))
  rw [← cellOf_inj hk]; exact hkr

/-! ### two spanning-tree masks, one inside the other, are equal -/

theorem mask_eq_of_sub {rows cols e T : Nat} (he : isSpanningMask rows cols e = true)
    (hT : isSpanningMask rows cols T = true) (hsub : ∀ i, bit e i = true → bit T i = true) : e = T := by
  simp only [isSpanningMask, Bool.and_eq_true, beq_iff_eq, decide_eq_true_eq, List.all_eq_true] at he hT
  obtain ⟨⟨⟨_, helt⟩, hecount⟩, _⟩ := he
  obtain ⟨⟨⟨_, hTlt⟩, hTcount⟩, _⟩ := hT
  have hback := filter_eq_of_length_eq (p := fun b => bit T b) (q := fun b => bit e b)
    (List.range (2 * (rows * cols))) (fun x _ hx => hsub x hx) (by omega)
  apply Nat.eq_of_testBit_eq
  intro i
  rcases Nat.lt_or_ge i (2 * (rows * cols)) with hi | hi
  · cases hTi : T.testBit i
    · cases hei : e.testBit i
      · rfl
      · have := hsub i hei; simp only [bit] at this; rw [this] at hTi; cases hTi
    · exact hback i (List.mem_range.mpr hi) hTi
  · have h2 : 2 ^ (2 * (rows * cols)) ≤ 2 ^ i := Nat.pow_le_pow_right (by omega) hi
    rw [Nat.testBit_lt_two_pow (Nat.lt_of_lt_of_le helt h2), Nat.testBit_lt_two_pow (Nat.lt_of_lt_of_le hTlt h2)]

/-! ### the construction, up to the final identification -/

/-- the start state for the start cell `(0,0)` (as `WStep.run` writes it) -/
def s00 (cols : Nat) : WS := { vis := 1 <<< (0 * cols + 0), edges := 0, path := [] }

theorem s00_mem_starts (rows cols : Nat) : s00 cols ∈ starts rows cols := by
  unfold starts
  have h1 : 0 < max (rows - 1) 1 := by omega
  have h2 : 0 < max (cols - 1) 1 := by omega
  exact List.mem_flatMap.mpr ⟨0, List.mem_range.mpr h1, List.mem_map.mpr ⟨0, List.mem_range.mpr h2, rfl⟩⟩

/-- for every spanning-tree mask `T` some accepted draw list drives the machine from the start state of cell `(0,0)`
    to a finished state all of whose connections are connections of `T` -/
theorem exists_run_inside {rows cols T : Nat} (hr : 0 < rows) (hc : 0 < cols)
    (h : isSpanningMask rows cols T = true) :
    ∃ ds t, Reaches (wilson rows cols) (s00 cols) ds t ∧ ∀ i, bit t.edges i = true → bit T i = true := by
  obtain ⟨ds, t, hst, hf, hsub⟩ := run_to_end (treach0_of_spanning hr hc h) _ (s00 cols) (Nat.le_refl _) rfl
    (by simp [s00, bit]) (by intro i hi; simp only [s00] at hi; rw [bit_zero] at hi; cases hi)
  exact ⟨ds, t, hst.reaches hf, hsub⟩

end MZ.WSup
