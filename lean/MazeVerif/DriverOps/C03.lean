import MazeVerif.DriverOps.C01
import MazeVerif.DriverOps.C02
import MazeVerif.Model.Dataset
import MazeVerif.Model.DatasetGen
namespace MZ.Drv.C03
open Lean MZ.Drv MZ MZ.AStar

def getOpts (j : Json) : R EndpointOpts := do
  let cellsOpt (k : String) : R (Option (List Cell)) := match optFld j k with
    | none => pure none
    | some v => do pure (some (← (← v.getArr?).toList.mapM asCell))
  let b (k : String) : Bool := (optFld j k).map (fun v => v.getBool?.toOption.getD false) |>.getD false
  pure { allowedStart := ← cellsOpt "allowed_start", allowedEnd := ← cellsOpt "allowed_end",
         deadendStart := b "deadend_start", deadendEnd := b "deadend_end", notEqual := b "endpoints_not_equal" }

def jItem (r : Except ItemErr (List Cell)) : List (String × Json) :=
  match r with
  | .ok p => [("solve", "ok"), ("solution", jCells p)]
  | .error .illegalEndpoints => [("solve", "illegalEndpoints")]
  | .error .noPath => [("solve", "noPath")]
  | .error (.solver r) => [("solve", "solver"), ("detail", C02.jResult r)]


/-- the generator part of a request (same fields as a `C01.gen` request) as a `GenCfg`; `.error reason` when the given
    `start_coord` is not a pair of integers (outside the model's type `Cell`) -/
def getGenCfg (j : Json) : R (Except String (GenCfg × Option Cell)) := do
  let gen ← getStr j "gen"
  let rows ← getNat j "rows"; let cols ← getNat j "cols"
  let given : Option Cell ← match (← C01.getStartArg j) with
    | .absent => pure none
    | .cell c => pure (some c)
    | .wrongLength _ => return (.error "start_wrong_length")
  let getP : R (Nat × Nat) := do
    match ← getNatList j "p" with
    | [pn, pd] => pure (pn, pd)
    | _ => throw "p: expected [num, den]"
  let getArgs : R Args := do
    let acc ← C01.asPyNum (optFld j "accessible_cells")
    let depth ← C01.asPyNum (optFld j "max_tree_depth")
    let (nAcc, md) := C01.dfsArgs rows cols acc depth
    let doForks := (optFld j "do_forks").map (fun v => v.getBool?.toOption.getD true) |>.getD true
    let rs := (optFld j "randomized_stack").map (fun v => v.getBool?.toOption.getD false) |>.getD false
    pure { nAcc := nAcc.toNat, maxDepth := md, doForks := doForks, randStack := rs }
  match gen with
  | "dfs" => pure (.ok (.dfs (← getArgs) given, given))
  | "prim" => pure (.ok (.prim (← getArgs) given, given))
  | "wilson" => pure (.ok (.wilson, none))
  | "percolation" => pure (.ok (.percolation (← getP) given, given))
  | "dfs_percolation" => pure (.ok (.dfsPercolation (← getP) (← getArgs) given, given))
  | g => throw s!"unknown generator {g}"

def getObs (j : Json) : R Obs := do
  pure { s := ← getCell j "s", e := ← getCell j "e", picks := ← getCells j "picks" }

def jDsItem (rows cols : Nat) (it : Item) : Json :=
  obj [("edges", jEdges it.edges), ("component_size", jNat it.comp.length), ("s", jCell it.s), ("e", jCell it.e),
       ("solution", jCells it.sol), ("wf", Json.bool (decide (WF rows cols it.edges)))]

/-- the items a serial run completes before its first failing helper call, and the streams that call starts on
    (the driver's own loop over `serialItem`, used only to NAME the failure when `generateSerial` returned `none`) -/
def completed (cfg : DatasetCfg) (gf sf : Nat) : Nat → Streams → Nat → Nat × Streams
  | 0, st, k => (k, st)
  | n + 1, st, k =>
    match serialItem cfg gf sf st with
    | none => (k, st)
    | some (_, st') => completed cfg gf sf n st' (k + 1)

/-- why `serialItem` returned `none` on `st` -/
def whyNone (cfg : DatasetCfg) (given : Option Cell) (gf sf : Nat) (st : Streams) : List (String × Json) :=
  match genMaze cfg.rows cfg.cols cfg.gen st.draws st.rands gf with
  | none => [("reason", Json.str (C01.noneReason cfg.rows cfg.cols given st.draws))]
  | some m =>
    if ¬ (1 < cfg.rows ∧ 1 < cfg.cols) then [("reason", "grid_side_not_above_1")]
    else match st.obs with
      | [] => [("reason", "no_observation_left")]
      | ob :: _ =>
        match endpointDraws cfg.rows cfg.cols m.edges m.comp cfg.opts ob.s m.draws with
        | none => [("reason", Json.str "endpoint_draws"), ("next_draws", jNats (m.draws.take 2)), ("component_size", jNat m.comp.length),
                   ("edges", jEdges m.edges)]
        | some _ => ([("reason", Json.str "solve"), ("edges", jEdges m.edges)] : List (String × Json))
                      ++ jItem (solveItem cfg.rows cfg.cols m.edges m.comp cfg.opts ob.s ob.e ob.picks sf)

/-- `C03.item`: a `C01.gen` request (generator + tapped draws) plus `opts`, the observed `s`, `e` and A* `picks`:
    the model regenerates the maze, reads the component off the metadata, checks the endpoint choice is one the code can
    make and replays the solver.
    `C03.solve`: the same on a maze given explicitly (`edges`, `component`) — used for items that come out of worker
    processes, where no tap is possible.
    `C03.dataset`: a WHOLE tapped serial generation: generator fields as in `C01.gen`, `opts`, `n`, the complete `draws` /
    `rands` streams of the run and per item the observed `obs = [{s, e, picks}]`; replayed with `generateSerial` (ONE
    shared stream, each item starting on what the previous left). Reply: all items and the leftover stream sizes, or
    `ok=false` with the index of the first failing helper call and why. -/
def handle (op : String) (j : Json) : R Json := do
  match op with
  | "C03.item" =>
    let rows ← getNat j "rows"; let cols ← getNat j "cols"
    match ← C01.runGen j with
    | .error reason => pure (obj [("ok", false), ("reason", Json.str reason)])
    | .ok g =>
      let opts ← getOpts (← fld j "opts")
      match g.component rows cols with
      | none => pure (obj ([("ok", Json.bool true), ("component", Json.null)] ++ [("gen", g.toJson)]))
      | some comp =>
        let s ← getCell j "s"; let e ← getCell j "e"
        let picks ← getCells j "picks"
        let r := solveItem rows cols g.edges comp opts s e picks (rows * cols + 1)
        pure (obj ([("ok", Json.bool true), ("gen", g.toJson), ("component_size", jNat comp.length),
                    ("wf", Json.bool (decide (WF rows cols g.edges)))] ++ jItem r))
  | "C03.solve" =>
    let rows ← getNat j "rows"; let cols ← getNat j "cols"
    let E ← getEdges j "edges"
    let comp ← getCells j "component"
    let opts ← getOpts (← fld j "opts")
    let s ← getCell j "s"; let e ← getCell j "e"
    let picks ← getCells j "picks"
    pure (obj ([("ok", Json.bool true), ("wf", Json.bool (decide (WF rows cols E)))]
      ++ jItem (solveItem rows cols E comp opts s e picks (rows * cols + 1))))
  | "C03.dataset" =>
    let rows ← getNat j "rows"; let cols ← getNat j "cols"
    let n ← getNat j "n"
    match ← getGenCfg j with
    | .error reason => pure (obj [("ok", false), ("failed_at", jNat 0), ("reason", Json.str reason)])
    | .ok (g, given) =>
      let opts ← getOpts (← fld j "opts")
      let draws ← getNatList j "draws"
      let rands ← C01.getRands j
      let obs ← (← getArr j "obs").mapM getObs
      let cfg : DatasetCfg := { rows := rows, cols := cols, gen := g, opts := opts }
      let st : Streams := { draws := draws, rands := rands, obs := obs }
      -- enough for every call: the per-item bounds of `C01.gen` / `C03.item`, taken on the whole stream
      let gf := 64 * (draws.length + rows * cols) + 64
      let sf := rows * cols + 1
      match generateSerial cfg gf sf n st with
      | some (its, left) =>
        pure (obj [("ok", Json.bool true), ("items", jList (jDsItem rows cols) its), ("leftover_draws", jNat left.draws.length),
                   ("leftover_rands", jNat left.rands.length), ("leftover_obs", jNat left.obs.length)])
      | none =>
        let (k, st') := completed cfg gf sf n st 0
        pure (obj ([("ok", Json.bool false), ("failed_at", jNat k), ("draws_before", jNat (draws.length - st'.draws.length)),
                    ("rands_before", jNat (rands.length - st'.rands.length))] ++ whyNone cfg given gf sf st'))
  | _ => throw s!"unknown op {op}"

end MZ.Drv.C03
