import MazeVerif.Lemmas.Plot
import MazeVerif.Generated.PlotConstants
/-! # C20 — maze plots draw the maze that was given

Model: `MZ.Plot` (`Model/Plot.lean`), mirroring `maze_dataset/plotting/plot_maze.py:123-169, 284-297, 397-550`.
Everything below is unbounded: all grid shapes `rows × cols`, all edge lists `E` (any graph, tree or cyclic, well-formed or not),
all unit lengths for which the quantified pixel ranges are non-empty (`ul ≥ 2`, so in particular all `ul ≥ 3`), both colour
schemes (`nv = none` / `nv = some f` for an arbitrary value function `f` into an arbitrary type), all cell lists as paths.
Pixel values are symbolic (`Px`): `wall` = -1.0, `one` = 1.0, `conn` = 0.93·1.0, `val v`, `nan`.
`pixels rows cols E ul nv y x` is entry `[y, x]` of the array handed to `imshow`. -/
namespace MZ.Plot
variable {α : Type}

/-- image size: one `ul`-unit per cell plus the closing wall line -/
theorem C20_size (rows cols : Nat) (E : List Edge) (ul : Nat) (nv : Option (Nat → Nat → α)) :
    (latticeMazeToImg rows cols E ul nv).1 = rows * ul + 1 ∧ (latticeMazeToImg rows cols E ul nv).2.1 = cols * ul + 1 := ⟨rfl, rfl⟩

/-- one `(ul-1) × (ul-1)` block per cell: pixel rows `r·ul+1 … (r+1)·ul-1`, pixel columns `c·ul+1 … (c+1)·ul-1`, all carrying the
    node level (`1.0`) or, when values are supplied, the cell's value. -/
theorem C20_blocks (rows cols : Nat) (E : List Edge) (ul : Nat) (nv : Option (Nat → Nat → α))
    (r c : Nat) (hr : r < rows) (hc : c < cols) (y x : Nat)
    (hy : r * ul + 1 ≤ y ∧ y < (r + 1) * ul) (hx : c * ul + 1 ≤ x ∧ x < (c + 1) * ul) :
    pixels rows cols E ul nv y x = nodePx nv r c := by
  rw [pixels_in_square rows cols E ul nv r c hr hc y x ⟨hy.1, Nat.le_of_lt hy.2, hx.1, Nat.le_of_lt hx.2⟩,
    drawCellPx_block ul _ r c y x _ hy hx]
  cases nv <;> rfl

/-- the `ul-1` pixels of the strip below cell `(r,c)` (also for the last row, where a well-formed maze has no connection) -/
theorem C20_strip_down (rows cols : Nat) (E : List Edge) (ul : Nat) (nv : Option (Nat → Nat → α))
    (r c : Nat) (hr : r < rows) (hc : c < cols) (x : Nat) (hx : c * ul + 1 ≤ x ∧ x < (c + 1) * ul) :
    pixels rows cols E ul nv ((r + 1) * ul) x = if connB E 0 r c then passagePx nv r c else wallPx nv := by
  have hsq : InSquare ul (r, c) ((r + 1) * ul) x := by
    refine ⟨?_, Nat.le_refl _, hx.1, Nat.le_of_lt hx.2⟩
    simp only [Nat.add_mul, Nat.one_mul] at hx ⊢; omega
  rw [pixels_in_square rows cols E ul nv r c hr hc _ x hsq, drawCellPx_down ul _ (setup_hack_le E nv) r c x _ hx]
  cases nv <;> cases hcn : connB E 0 r c <;> simp [setup, passagePx, wallPx, hcn]

/-- the `ul-1` pixels of the strip right of cell `(r,c)` -/
theorem C20_strip_right (rows cols : Nat) (E : List Edge) (ul : Nat) (nv : Option (Nat → Nat → α))
    (r c : Nat) (hr : r < rows) (hc : c < cols) (y : Nat) (hy : r * ul + 1 ≤ y ∧ y < (r + 1) * ul) :
    pixels rows cols E ul nv y ((c + 1) * ul) = if connB E 1 r c then passagePx nv r c else wallPx nv := by
  have hsq : InSquare ul (r, c) y ((c + 1) * ul) := by
    refine ⟨hy.1, Nat.le_of_lt hy.2, ?_, Nat.le_refl _⟩
    simp only [Nat.add_mul, Nat.one_mul] at hy ⊢; omega
  rw [pixels_in_square rows cols E ul nv r c hr hc y _ hsq, drawCellPx_right ul _ (setup_hack_le E nv) r c y _ hy]
  cases nv <;> cases hcn : connB E 1 r c <;> simp [setup, passagePx, wallPx, hcn]

/-- each lattice edge's separator strip is drawn as passage exactly when the two cells are connected, as wall otherwise;
    passage and wall values differ. Vertical neighbours `(r,c)`–`(r+1,c)`. Both colour schemes (`nv = none / some f`). -/
theorem C20_strip_iff_adj_down (rows cols : Nat) (E : List Edge) (ul : Nat) (nv : Option (Nat → Nat → α))
    (r c : Nat) (hr : r + 1 < rows) (hc : c < cols) (x : Nat) (hx : c * ul + 1 ≤ x ∧ x < (c + 1) * ul) :
    (pixels rows cols E ul nv ((r + 1) * ul) x = passagePx nv r c ↔ Adj E ((r : Int), (c : Int)) ((r : Int) + 1, (c : Int))) ∧
    (pixels rows cols E ul nv ((r + 1) * ul) x = wallPx nv ↔ ¬ Adj E ((r : Int), (c : Int)) ((r : Int) + 1, (c : Int))) ∧
    passagePx nv r c ≠ wallPx nv := by
  rw [C20_strip_down rows cols E ul nv r c (by omega) hc x hx, adj_down_iff]
  cases nv <;> cases connB E 0 r c <;> simp [passagePx, wallPx]

/-- horizontal neighbours `(r,c)`–`(r,c+1)` -/
theorem C20_strip_iff_adj_right (rows cols : Nat) (E : List Edge) (ul : Nat) (nv : Option (Nat → Nat → α))
    (r c : Nat) (hr : r < rows) (hc : c + 1 < cols) (y : Nat) (hy : r * ul + 1 ≤ y ∧ y < (r + 1) * ul) :
    (pixels rows cols E ul nv y ((c + 1) * ul) = passagePx nv r c ↔ Adj E ((r : Int), (c : Int)) ((r : Int), (c : Int) + 1)) ∧
    (pixels rows cols E ul nv y ((c + 1) * ul) = wallPx nv ↔ ¬ Adj E ((r : Int), (c : Int)) ((r : Int), (c : Int) + 1)) ∧
    passagePx nv r c ≠ wallPx nv := by
  rw [C20_strip_right rows cols E ul nv r c hr (by omega) y hy, adj_right_iff]
  cases nv <;> cases connB E 1 r c <;> simp [passagePx, wallPx]

/-- pixels that are neither block nor strip: row 0 and column 0 keep the background; the corner pixel below-right of a
    cell keeps the background without node values and carries the cell's value with node values (a quirk of the
    one-pixel-larger node block; corners are not strips). -/
theorem C20_frame_and_corners (rows cols : Nat) (E : List Edge) (ul : Nat) (hul : 1 ≤ ul) (nv : Option (Nat → Nat → α)) :
    (∀ y x, y = 0 ∨ x = 0 → pixels rows cols E ul nv y x = .wall) ∧
    (∀ r c, r < rows → c < cols → pixels rows cols E ul nv ((r + 1) * ul) ((c + 1) * ul) =
      match nv with | none => .wall | some f => .val (f r c)) := by
  refine ⟨fun y x h => pixels_frame rows cols E ul nv y x h, fun r c hr hc => ?_⟩
  have hsq : InSquare ul (r, c) ((r + 1) * ul) ((c + 1) * ul) := by
    refine ⟨?_, Nat.le_refl _, ?_, Nat.le_refl _⟩ <;> (simp only [Nat.add_mul, Nat.one_mul]; omega)
  rw [pixels_in_square rows cols E ul nv r c hr hc _ _ hsq, drawCellPx_corner ul _ (setup_hack_le E nv) hul r c]
  cases nv <;> simp [setup]

/-! ## paths -/

/-- true path / any path drawn as a line (`quiver_kwargs is None`): the k-th vertex handed to `ax.plot` is the centre of the
    k-th listed cell, `x` from the column and `y` from the row, order and length kept; start and end markers sit on the
    first and last listed cell. Doubled coordinates: `ul·(2·col+1) = 2·ul·(col+½)`. All `ul`, all cell lists. -/
theorem C20_path_points (ul : Nat) (path : List Cell) (hne : path ≠ []) :
    ∃ pts, plotPath ul false path =
        [.line pts, .line [rowcolToCoord2 ul (path.head hne)], .line [rowcolToCoord2 ul (path.getLast hne)]] ∧
      pts.length = path.length ∧
      ∀ (k : Nat) (p : Cell), path[k]? = some p → pts[k]? = some ((ul : Int) * (2 * p.2 + 1), (ul : Int) * (2 * p.1 + 1)) := by
  cases path with
  | nil => exact absurd rfl hne
  | cons a rest =>
    refine ⟨(a :: rest).map (rowcolToCoord2 ul), rfl, by simp, fun k p hk => ?_⟩
    rw [List.getElem?_map, hk]; rfl

/-- a path drawn as arrows (`quiver_kwargs is not None`, the default for predicted paths): arrow k starts at the centre of the
    k-th listed cell and ends at the centre of the (k+1)-th; there are `len-1` arrows; markers as above. -/
theorem C20_quiver_points (ul : Nat) (path : List Cell) (hne : path ≠ []) :
    ∃ X Y U V, plotPath ul true path =
        [.quiver X Y U V, .line [rowcolToCoord2 ul (path.head hne)], .line [rowcolToCoord2 ul (path.getLast hne)]] ∧
      X.length = path.length - 1 ∧ Y.length = path.length - 1 ∧ U.length = path.length - 1 ∧ V.length = path.length - 1 ∧
      ∀ (k : Nat) (p q : Cell), path[k]? = some p → path[k + 1]? = some q →
        ∃ x y u v, X[k]? = some x ∧ Y[k]? = some y ∧ U[k]? = some u ∧ V[k]? = some v ∧
          (x, y) = rowcolToCoord2 ul p ∧ (x + u, y + v) = rowcolToCoord2 ul q := by
  cases path with
  | nil => exact absurd rfl hne
  | cons a rest =>
    refine ⟨_, _, _, _, rfl, by simp, by simp, by simp [diffs_length], by simp [diffs_length], fun k p q hp hq => ?_⟩
    have hx0 : (((a :: rest).map (rowcolToCoord2 ul)).map Prod.fst)[k]? = some (rowcolToCoord2 ul p).1 := by
      rw [List.getElem?_map, List.getElem?_map, hp]; rfl
    have hx1 : (((a :: rest).map (rowcolToCoord2 ul)).map Prod.fst)[k + 1]? = some (rowcolToCoord2 ul q).1 := by
      rw [List.getElem?_map, List.getElem?_map, hq]; rfl
    have hy0 : (((a :: rest).map (rowcolToCoord2 ul)).map Prod.snd)[k]? = some (rowcolToCoord2 ul p).2 := by
      rw [List.getElem?_map, List.getElem?_map, hp]; rfl
    have hy1 : (((a :: rest).map (rowcolToCoord2 ul)).map Prod.snd)[k + 1]? = some (rowcolToCoord2 ul q).2 := by
      rw [List.getElem?_map, List.getElem?_map, hq]; rfl
    refine ⟨_, _, _, _, dropLast_getElem? _ k _ _ hx0 hx1, dropLast_getElem? _ k _ _ hy0 hy1,
      diffs_getElem? _ k _ _ hx0 hx1, diffs_getElem? _ k _ _ hy0 hy1, rfl, ?_⟩
    ext <;> simp

/-- an empty path draws nothing; artists appear in the order true path, predicted path 1, 2, … -/
theorem C20_artist_order (ul : Nat) (tp : Option (Bool × List Cell)) (preds : List (Bool × List Cell)) :
    plotPath ul true [] = [] ∧ plotPath ul false [] = [] ∧
    linesOf (plotArtists ul tp preds) =
      linesOf (match tp with | none => [] | some qp => plotPath ul qp.1 qp.2) ++ linesOf (preds.flatMap fun qp => plotPath ul qp.1 qp.2) ∧
    quiversOf (plotArtists ul tp preds) =
      quiversOf (match tp with | none => [] | some qp => plotPath ul qp.1 qp.2) ++ quiversOf (preds.flatMap fun qp => plotPath ul qp.1 qp.2) ∧
    (∀ (qp : Bool × List Cell) (rest : List (Bool × List Cell)), quiversOf ((qp :: rest).flatMap fun qp => plotPath ul qp.1 qp.2) =
      quiversOf (plotPath ul qp.1 qp.2) ++ quiversOf (rest.flatMap fun qp => plotPath ul qp.1 qp.2)) ∧
    (∀ (qp : Bool × List Cell) (rest : List (Bool × List Cell)), linesOf ((qp :: rest).flatMap fun qp => plotPath ul qp.1 qp.2) =
      linesOf (plotPath ul qp.1 qp.2) ++ linesOf (rest.flatMap fun qp => plotPath ul qp.1 qp.2)) := by
  refine ⟨rfl, rfl, ?_, ?_, fun qp rest => ?_, fun qp rest => ?_⟩
  · unfold plotArtists; rw [linesOf_append]; cases tp <;> rfl
  · unfold plotArtists; rw [quiversOf_append]; cases tp <;> rfl
  · rw [List.flatMap_cons, quiversOf_append]
  · rw [List.flatMap_cons, linesOf_append]

/-- path and picture agree: for an in-grid cell `(r,c)` and `ul ≥ 2`, every pixel `(row j, column i)` whose extent
    `[i-½,i+½]×[j-½,j+½]` (imshow's default placement of pixel `(j,i)`) contains the vertex drawn for `(r,c)` is a pixel of the
    block of `(r,c)` — row index from the cell's row, column index from its column — and the vertex is the exact midpoint
    of that block's extent. -/
theorem C20_vertex_in_own_block (rows cols : Nat) (E : List Edge) (ul : Nat) (hul : 2 ≤ ul) (nv : Option (Nat → Nat → α))
    (r c : Nat) (hr : r < rows) (hc : c < cols) :
    (∀ i j : Nat,
      2 * (i : Int) - 1 ≤ (rowcolToCoord2 ul ((r : Int), (c : Int))).1 ∧ (rowcolToCoord2 ul ((r : Int), (c : Int))).1 ≤ 2 * (i : Int) + 1 →
      2 * (j : Int) - 1 ≤ (rowcolToCoord2 ul ((r : Int), (c : Int))).2 ∧ (rowcolToCoord2 ul ((r : Int), (c : Int))).2 ≤ 2 * (j : Int) + 1 →
      pixels rows cols E ul nv j i = nodePx nv r c) ∧
    2 * (rowcolToCoord2 ul ((r : Int), (c : Int))).1 = (2 * ((c * ul + 1 : Nat) : Int) - 1) + (2 * (((c + 1) * ul - 1 : Nat) : Int) + 1) ∧
    2 * (rowcolToCoord2 ul ((r : Int), (c : Int))).2 = (2 * ((r * ul + 1 : Nat) : Int) - 1) + (2 * (((r + 1) * ul - 1 : Nat) : Int) + 1) := by
  refine ⟨fun i j hi hj => ?_, centre_midpoint ul c (by omega), centre_midpoint ul r (by omega)⟩
  exact C20_blocks rows cols E ul nv r c hr hc j i (centre_bounds ul r j hul hj) (centre_bounds ul c i hul hi)

/-! ## ASCII export -/

/-- plain maze, no path added: the export is the maze's own drawing — literally `as_ascii(show_endpoints)` with
    `show_solution` left at its default (the quirk of line 550), hence equal to the own drawing for every flag combination
    with `show_endpoints = True` (in particular the defaults). `sp` is irrelevant for a plain maze. -/
theorem C20_ascii_plain (rows cols : Nat) (E : List Edge) (sp : List Cell) (se ss : Bool) :
    toAscii (newPlot (.plain rows cols E) sp) se ss = asAscii (.plain rows cols E) se true ∧
    toAscii (newPlot (.plain rows cols E) sp) true ss = asAscii (.plain rows cols E) true ss := by
  refine ⟨rfl, ?_⟩
  show (do pure (renderAscii (tabulate rows cols (← asAsciiFn (.plain rows cols E) true true))) : Except Err String) =
    (do pure (renderAscii (tabulate rows cols (← asAsciiFn (.plain rows cols E) true ss))))
  rw [asAsciiFn_plain, asAsciiFn_plain]

/-- every maze object the `SolvedMaze` constructor can produce: the export equals the maze's own drawing, all flags
    (errors included: both sides are the same `Except` value). -/
theorem C20_ascii_solved (rows cols : Nat) (E : List Edge) (sol sp : List Cell) (m : MazeObj) (se ss : Bool)
    (h : mkSolved rows cols E sol = .ok m) : toAscii (newPlot m sp) se ss = asAscii m se ss := by
  unfold mkSolved at h
  cases sol with
  | nil => simp at h
  | cons a rest =>
    simp only at h
    split_ifs at h with hc
    simp only [Except.ok.injEq] at h
    subst h
    unfold toAscii toAsciiFn newPlot solvedMaze
    simp only [mkSolved, MazeObj.rows, MazeObj.cols, MazeObj.edges, hc]
    rfl

/-- targeted maze: the export is the drawing of the solved maze the constructor builds from the shortest path `sp` … -/
theorem C20_ascii_targeted (rows cols : Nat) (E : List Edge) (s e : Cell) (sp : List Cell) (se ss : Bool) :
    toAscii (newPlot (.targeted rows cols E s e) sp) se ss = (do let m ← mkSolved rows cols E sp; asAscii m se ss) := by
  unfold toAscii toAsciiFn newPlot solvedMaze
  simp only [MazeObj.rows, MazeObj.cols, MazeObj.edges]
  unfold mkSolved
  cases sp with
  | nil => rfl
  | cons a rest =>
    simp only
    split_ifs <;> rfl
/-- … and whenever that export succeeds (default flags) and the constructor's path runs from `start_pos` to `end_pos`,
    it agrees with the targeted maze's own drawing at every position that is not a PATH character. -/
theorem C20_ascii_targeted_offpath (rows cols : Nat) (E : List Edge) (s e : Cell) (sp : List Cell) (f₁ : CGrid)
    (hs : sp.head? = some s) (he : sp.getLast? = some e)
    (h1 : toAsciiFn (newPlot (.targeted rows cols E s e) sp) true true = .ok f₁) :
    ∃ f₂, asAsciiFn (.targeted rows cols E s e) true true = .ok f₂ ∧ ∀ y x, f₁ y x ≠ .path → f₁ y x = f₂ y x := by
  cases sp with
  | nil => simp at hs
  | cons a rest =>
    simp only [List.head?_cons, Option.some.injEq] at hs
    subst hs
    have hlast : (a :: rest).getLast (List.cons_ne_nil _ _) = e := by
      rw [List.getLast?_eq_some_getLast (List.cons_ne_nil _ _)] at he
      exact Option.some.inj he
    have hto : toAsciiFn (newPlot (.targeted rows cols E a e) (a :: rest)) true true =
        (do let m ← mkSolved rows cols E (a :: rest); asAsciiFn m true true) := rfl
    rw [hto] at h1
    by_cases hc : inGrid rows cols a ∧ inGrid rows cols ((a :: rest).getLast (List.cons_ne_nil _ _))
    · have hmk : mkSolved rows cols E (a :: rest) = .ok (.solved rows cols E (a :: rest)) := by simp only [mkSolved, hc, and_self, if_true]
      rw [hmk] at h1
      simp only [bind, Except.bind] at h1
      obtain ⟨g1, hpb, hf1⟩ := asAsciiFn_solved_ok rows cols E a rest f₁ h1
      obtain ⟨f₂, hf2, hf2v⟩ := asAsciiFn_targeted_ok rows cols E a e
      refine ⟨f₂, hf2, fun y x hne => ?_⟩
      rw [hf1] at hne ⊢
      rw [hf2v]
      rw [hlast] at hne ⊢
      have hb := bwPixel_val rows cols E y x
      have hg : g1 y x = bwPixel rows cols E y x ∨ g1 y x = .path := by
        rcases paintBetween_val _ _ _ hpb y x with h | h
        · rcases paintCells_val (a :: rest) (bwPixel rows cols E) y x with h' | h'
          · exact Or.inl (h.trans h')
          · exact Or.inr (h.trans h')
        · exact Or.inr h
      simp only [setCellPx] at hne ⊢
      exact pick_offpath _ _ _ _ hb hg hne
    · have hmk : mkSolved rows cols E (a :: rest) = .error .ValueError := by simp only [mkSolved, hc, if_false]
      rw [hmk] at h1
      simp only [bind, Except.bind] at h1
      cases h1

/-- … and it does succeed whenever the constructor's path is a non-empty in-grid walk between lattice neighbours
    (what `find_shortest_path` returns on a connected pair). -/
theorem C20_ascii_targeted_total (rows cols : Nat) (E : List Edge) (s e : Cell) (sp : List Cell) (hne : sp ≠ [])
    (hall : ∀ c ∈ sp, inGrid rows cols c) (hch : adjChain sp = true) :
    ∃ f, toAsciiFn (newPlot (.targeted rows cols E s e) sp) true true = .ok f := by
  cases sp with
  | nil => exact absurd rfl hne
  | cons a rest =>
    have hto : toAsciiFn (newPlot (.targeted rows cols E s e) (a :: rest)) true true =
        (do let m ← mkSolved rows cols E (a :: rest); asAsciiFn m true true) := rfl
    have hc : inGrid rows cols a ∧ inGrid rows cols ((a :: rest).getLast (List.cons_ne_nil _ _)) :=
      ⟨hall a (List.mem_cons_self ..), hall _ (List.getLast_mem _)⟩
    have hmk : mkSolved rows cols E (a :: rest) = .ok (.solved rows cols E (a :: rest)) := by simp only [mkSolved, hc, and_self, if_true]
    rw [hto, hmk]
    simp only [bind, Except.bind]
    exact asAsciiFn_solved_total rows cols E a rest hall hch

/-- the five characters are pairwise different (generated `AsciiChars` table), so "not a PATH character" and "not the PATH
    class" coincide and equal classes give equal characters -/
theorem C20_ascii_chars_distinct : ∀ a b : Col, colChar a = colChar b → a = b := by
  intro a b; cases a <;> cases b <;> decide

/-! ## tie to the literal constants of the source (regenerated from `plot_maze.py` on every run) -/

/-- the constants the model hard-wires are the ones the source states: hack 0/1, inversion only without values,
    background `-ones`, gray levels `vmin = wall = -1 < 0.93 = connection < 1 = node = vmax` (so the three levels are distinct
    and the wall is the darkest), NaN drawn black, `(x, y) = (point[1], point[0]) + ½`, true path drawn as a line and
    predicted paths as arrows by default. -/
theorem C20_constants_tie :
    (∀ E : List Edge, (setup (α := Nat) E none).hack = MZ.Gen.Plot.hackNoValues) ∧
    (∀ (E : List Edge) (f : Nat → Nat → Nat), (setup E (some f)).hack = MZ.Gen.Plot.hackValues) ∧
    MZ.Gen.Plot.invertNoValues = true ∧ MZ.Gen.Plot.invertValues = false ∧
    MZ.Gen.Plot.backgroundMinusOnes = true ∧
    MZ.Gen.Plot.connValuesNoValues = "scaled_node_values * connection_val_scale" ∧
    MZ.Gen.Plot.connValuesValues = "np.full_like(scaled_node_values, np.nan)" ∧
    MZ.Gen.Plot.grayVmin = (-1, 1) ∧ MZ.Gen.Plot.grayVmax = (1, 1) ∧
    (MZ.Gen.Plot.grayVmin.1 * MZ.Gen.Plot.connectionValScale.2 < MZ.Gen.Plot.connectionValScale.1 * MZ.Gen.Plot.grayVmin.2) ∧
    (MZ.Gen.Plot.connectionValScale.1 * MZ.Gen.Plot.grayVmax.2 < MZ.Gen.Plot.grayVmax.1 * MZ.Gen.Plot.connectionValScale.2) ∧
    MZ.Gen.Plot.setBadColor = some "black" ∧
    MZ.Gen.Plot.coordIndexOrder = [1, 0] ∧ MZ.Gen.Plot.coordOffset = (1, 2) ∧
    MZ.Gen.Plot.trueUsesQuiver = false ∧ MZ.Gen.Plot.predictedUsesQuiver = true := by
  refine ⟨fun _ => rfl, fun _ _ => rfl, ?_⟩
  decide

/-! ## the full statement -/

/-- C20 in one proposition (every clause is one of the theorems above, with its quantifiers). -/
def C20_full : Prop :=
  (∀ (α : Type) (rows cols : Nat) (E : List Edge) (ul : Nat) (nv : Option (Nat → Nat → α)),
    -- size
    ((latticeMazeToImg rows cols E ul nv).1 = rows * ul + 1 ∧ (latticeMazeToImg rows cols E ul nv).2.1 = cols * ul + 1) ∧
    -- blocks
    (∀ r c, r < rows → c < cols → ∀ y x, r * ul + 1 ≤ y ∧ y < (r + 1) * ul → c * ul + 1 ≤ x ∧ x < (c + 1) * ul →
      pixels rows cols E ul nv y x = nodePx nv r c) ∧
    -- strips of lattice edges ⇔ adjacency
    (∀ r c, r + 1 < rows → c < cols → ∀ x, c * ul + 1 ≤ x ∧ x < (c + 1) * ul →
      (pixels rows cols E ul nv ((r + 1) * ul) x = passagePx nv r c ↔ Adj E ((r : Int), (c : Int)) ((r : Int) + 1, (c : Int))) ∧
      (pixels rows cols E ul nv ((r + 1) * ul) x = wallPx nv ↔ ¬ Adj E ((r : Int), (c : Int)) ((r : Int) + 1, (c : Int))) ∧
      passagePx nv r c ≠ wallPx nv) ∧
    (∀ r c, r < rows → c + 1 < cols → ∀ y, r * ul + 1 ≤ y ∧ y < (r + 1) * ul →
      (pixels rows cols E ul nv y ((c + 1) * ul) = passagePx nv r c ↔ Adj E ((r : Int), (c : Int)) ((r : Int), (c : Int) + 1)) ∧
      (pixels rows cols E ul nv y ((c + 1) * ul) = wallPx nv ↔ ¬ Adj E ((r : Int), (c : Int)) ((r : Int), (c : Int) + 1)) ∧
      passagePx nv r c ≠ wallPx nv) ∧
    -- path vertices lie in (the middle of) the block of their own cell
    (2 ≤ ul → ∀ r c, r < rows → c < cols → ∀ i j : Nat,
      2 * (i : Int) - 1 ≤ (rowcolToCoord2 ul ((r : Int), (c : Int))).1 ∧ (rowcolToCoord2 ul ((r : Int), (c : Int))).1 ≤ 2 * (i : Int) + 1 →
      2 * (j : Int) - 1 ≤ (rowcolToCoord2 ul ((r : Int), (c : Int))).2 ∧ (rowcolToCoord2 ul ((r : Int), (c : Int))).2 ≤ 2 * (j : Int) + 1 →
      pixels rows cols E ul nv j i = nodePx nv r c)) ∧
  -- paths
  (∀ (ul : Nat) (path : List Cell) (hne : path ≠ []),
    (∃ pts, plotPath ul false path =
        [.line pts, .line [rowcolToCoord2 ul (path.head hne)], .line [rowcolToCoord2 ul (path.getLast hne)]] ∧
      pts.length = path.length ∧
      ∀ (k : Nat) (p : Cell), path[k]? = some p → pts[k]? = some ((ul : Int) * (2 * p.2 + 1), (ul : Int) * (2 * p.1 + 1))) ∧
    (∃ X Y U V, plotPath ul true path =
        [.quiver X Y U V, .line [rowcolToCoord2 ul (path.head hne)], .line [rowcolToCoord2 ul (path.getLast hne)]] ∧
      X.length = path.length - 1 ∧ Y.length = path.length - 1 ∧ U.length = path.length - 1 ∧ V.length = path.length - 1 ∧
      ∀ (k : Nat) (p q : Cell), path[k]? = some p → path[k + 1]? = some q →
        ∃ x y u v, X[k]? = some x ∧ Y[k]? = some y ∧ U[k]? = some u ∧ V[k]? = some v ∧
          (x, y) = rowcolToCoord2 ul p ∧ (x + u, y + v) = rowcolToCoord2 ul q)) ∧
  -- ASCII
  (∀ (rows cols : Nat) (E : List Edge) (sp : List Cell) (se ss : Bool),
    toAscii (newPlot (.plain rows cols E) sp) true ss = asAscii (.plain rows cols E) true ss ∧
    (∀ sol m, mkSolved rows cols E sol = .ok m → toAscii (newPlot m sp) se ss = asAscii m se ss) ∧
    (∀ s e, toAscii (newPlot (.targeted rows cols E s e) sp) se ss = (do let m ← mkSolved rows cols E sp; asAscii m se ss)) ∧
    (∀ s e f₁, sp.head? = some s → sp.getLast? = some e →
      toAsciiFn (newPlot (.targeted rows cols E s e) sp) true true = .ok f₁ →
      ∃ f₂, asAsciiFn (.targeted rows cols E s e) true true = .ok f₂ ∧ ∀ y x, f₁ y x ≠ .path → f₁ y x = f₂ y x))

theorem C20_full_holds : C20_full := by
  refine ⟨fun α rows cols E ul nv => ⟨C20_size rows cols E ul nv, ?_, ?_, ?_, ?_⟩, fun ul path hne => ⟨C20_path_points ul path hne, C20_quiver_points ul path hne⟩,
    fun rows cols E sp se ss => ⟨(C20_ascii_plain rows cols E sp se ss).2, fun sol m h => C20_ascii_solved rows cols E sol sp m se ss h,
      fun s e => C20_ascii_targeted rows cols E s e sp se ss, fun s e f₁ hs he h1 => C20_ascii_targeted_offpath rows cols E s e sp f₁ hs he h1⟩⟩
  · exact fun r c hr hc y x hy hx => C20_blocks rows cols E ul nv r c hr hc y x hy hx
  · exact fun r c hr hc x hx => C20_strip_iff_adj_down rows cols E ul nv r c hr hc x hx
  · exact fun r c hr hc y hy => C20_strip_iff_adj_right rows cols E ul nv r c hr hc y hy
  · exact fun hul r c hr hc i j hi hj => (C20_vertex_in_own_block rows cols E ul hul nv r c hr hc).1 i j hi hj

/-! ## non-vacuity: a 2×2 maze with the connections (0,0)–(1,0) and (1,0)–(1,1), `ul = 3` -/

-- blocks, a passage strip, a wall strip, without and with values (value of cell (r,c) = 10·r + c)
example : pixels 2 2 [(0, 0, 0), (1, 1, 0)] 3 (none : Option (Nat → Nat → Nat)) 1 1 = .one ∧
    pixels 2 2 [(0, 0, 0), (1, 1, 0)] 3 (none : Option (Nat → Nat → Nat)) 3 1 = .conn ∧
    pixels 2 2 [(0, 0, 0), (1, 1, 0)] 3 (none : Option (Nat → Nat → Nat)) 1 3 = .wall := by decide
example : pixels 2 2 [(0, 0, 0), (1, 1, 0)] 3 (some fun r c => 10 * r + c) 5 4 = .val 11 ∧
    pixels 2 2 [(0, 0, 0), (1, 1, 0)] 3 (some fun r c => 10 * r + c) 3 2 = .val 0 ∧
    pixels 2 2 [(0, 0, 0), (1, 1, 0)] 3 (some fun r c => 10 * r + c) 2 3 = .nan := by decide
-- the hypotheses of the strip theorems are satisfiable with both outcomes
example : Adj [(0, 0, 0), (1, 1, 0)] (((0 : Nat) : Int), ((0 : Nat) : Int)) (((0 : Nat) : Int) + 1, ((0 : Nat) : Int)) :=
  (adj_down_iff _ 0 0).mpr (by decide)
example : ¬ Adj [(0, 0, 0), (1, 1, 0)] (((0 : Nat) : Int), ((0 : Nat) : Int)) (((0 : Nat) : Int), ((0 : Nat) : Int) + 1) :=
  fun h => absurd ((adj_right_iff _ 0 0).mp h) (by decide)
example : (0 : Nat) + 1 < 2 ∧ 0 * 3 + 1 ≤ 1 ∧ 1 < (0 + 1) * 3 := by decide
-- frame and corner
example : pixels 2 2 [(0, 0, 0), (1, 1, 0)] 3 (some fun r c => 10 * r + c) 0 4 = .wall ∧
    pixels 2 2 [(0, 0, 0), (1, 1, 0)] 3 (some fun r c => 10 * r + c) 3 3 = .val 0 ∧
    pixels 2 2 [(0, 0, 0), (1, 1, 0)] 3 (none : Option (Nat → Nat → Nat)) 3 3 = .wall := by decide
-- paths: a line and a quiver through (0,0),(1,0),(1,1) with ul = 4
example : plotPath 4 false [(0, 0), (1, 0), (1, 1)] = [.line [(4, 4), (4, 12), (12, 12)], .line [(4, 4)], .line [(12, 12)]] := by decide
example : plotPath 4 true [(0, 0), (1, 0), (1, 1)] = [.quiver [4, 4] [4, 12] [0, 8] [8, 0], .line [(4, 4)], .line [(12, 12)]] := by decide
example : plotPath 4 true [(2, 2)] = [.quiver [] [] [] [], .line [(20, 20)], .line [(20, 20)]] := by decide
example : quiversOf (plotArtists 4 (some (false, [(0, 0), (0, 1)])) [(true, [(0, 0), (1, 0)]), (true, []), (false, [(1, 1)])]) = [([4], [4], [0], [8])] := by decide
-- the vertex of cell (1,0) for ul = 3 (odd: it sits on a pixel boundary) and ul = 4 lies in its block
example : (2 * ((1 : Nat) : Int) - 1 ≤ (rowcolToCoord2 3 (1, 0)).1 ∧ (rowcolToCoord2 3 (1, 0)).1 ≤ 2 * ((1 : Nat) : Int) + 1) ∧
    (2 * ((2 : Nat) : Int) - 1 ≤ (rowcolToCoord2 3 (1, 0)).1 ∧ (rowcolToCoord2 3 (1, 0)).1 ≤ 2 * ((2 : Nat) : Int) + 1) ∧
    pixels 2 2 [(0, 0, 0), (1, 1, 0)] 3 (none : Option (Nat → Nat → Nat)) 4 1 = .one := by decide
-- ASCII: the targeted maze (0,0) → (1,1), its solved drawing, and the agreement outside the path
example : (toAsciiFn (newPlot (.targeted 2 2 [(0, 0, 0), (1, 1, 0)] (0, 0) (1, 1)) [(0, 0), (1, 0), (1, 1)]) true true).map (tabulate 2 2) =
    .ok [[.wall, .wall, .wall, .wall, .wall], [.wall, .start, .wall, .open_, .wall], [.wall, .path, .wall, .wall, .wall],
         [.wall, .path, .path, .end_, .wall], [.wall, .wall, .wall, .wall, .wall]] := by decide
example : (asAsciiFn (.targeted 2 2 [(0, 0, 0), (1, 1, 0)] (0, 0) (1, 1)) true true).map (tabulate 2 2) =
    .ok [[.wall, .wall, .wall, .wall, .wall], [.wall, .start, .wall, .open_, .wall], [.wall, .open_, .wall, .wall, .wall],
         [.wall, .open_, .open_, .end_, .wall], [.wall, .wall, .wall, .wall, .wall]] := by decide
example : adjChain [(0, 0), (1, 0), (1, 1)] = true ∧ ∀ c ∈ [((0 : Int), (0 : Int)), (1, 0), (1, 1)], inGrid 2 2 c := by decide
example : mkSolved 2 2 [(0, 0, 0), (1, 1, 0)] [(0, 0), (1, 0), (1, 1)] = .ok (.solved 2 2 [(0, 0, 0), (1, 1, 0)] [(0, 0), (1, 0), (1, 1)]) := by decide
-- the path-less export does not forward `show_solution`: (False, False) is the ValueError branch although the maze's own drawing exists
example : (toAsciiFn (newPlot (.plain 2 2 [(0, 0, 0)]) []) false false).map (tabulate 2 2) = .error .ValueError ∧
    (asAsciiFn (.plain 2 2 [(0, 0, 0)]) false false).map (tabulate 2 2) ≠ .error .ValueError := by decide
example : [colChar .wall, colChar .open_, colChar .start, colChar .end_, colChar .path] = ['#', ' ', 'S', 'E', 'X'] := by decide

end MZ.Plot
