import MazeVerif.Lemmas.SerialRT
/-! # C05 — datasets survive serialization and disk round trips unchanged

Model: `MZ.Serial` (`Model/Serial.lean`) — the three serializers, the four loaders, `serialize()`'s threshold rule, `load`'s
dispatch, the `SolvedMaze` constructor the loaders re-run, the in-place `collect_generation_meta` of the minimal serializers,
zanj's handler selection, collections. Format strings, dispatch table, threshold comparison and numpy dtypes are the
GENERATED tables `MZ.Gen.Serial.*` (re-emitted from the source on every run), so every theorem below is re-checked against
what the source says now.

Reading guide (definitions are in `Lemmas/Serial.lean`, `Lemmas/SerialRT.lean`):
* `Constructed m` — invariant of every constructed `SolvedMaze`: start/end = first/last solution row, inside its grid.
* `Storable g m` — guard of the minimal formats: grid size = `cfg.grid_n`, every solution coordinate fits int8
  (`coords < 128`), solution length fits int32.
* `HasMeta ds` — metadata precondition of the minimal serializers: collected already, or every maze carries its own.
* `collectedForm E ds` — the source dataset after the in-place `collect_generation_meta` (unchanged if already collected;
  otherwise config + one filter record, per-maze meta cleared, collected dict filled). `core m` = (grid, connection bits,
  solution, start, end).
* `EnvOK E` — the config survives its own json round trip (C18), the filter record does not change `grid_n`.
* `pad` — the contents of `np.empty`, universally quantified. -/
namespace MZ.Serial
open MZ.Gen.Serial

/-! ## full statement -/

/-- the three formats, called explicitly, each loaded back by `MazeDataset.load` under any threshold setting -/
def C05_formats : Prop :=
  ∀ (κ μ M : Type) (E : Env κ μ M), EnvOK E → ∀ (lthr : Option Int) (pad : Nat → Nat → Coord) (ds : DS κ μ M),
    (∀ m ∈ ds.mazes, Constructed m) →
    (∃ st, serializeFull E ds = .ok (ds, st) ∧ load E lthr st = .ok (fullLoaded E ds)) ∧
    (HasMeta ds → (∀ m ∈ ds.mazes, Storable (E.gridN ds.cfg) m) →
      (ds.mazes ≠ [] → ∃ st, serializeMinimal E pad ds = .ok (collectedForm E ds, st) ∧ load E lthr st = .ok (minimalLoaded E ds)) ∧
      (∃ st, serializeCat E ds = .ok (collectedForm E ds, st) ∧ load E lthr st = .ok (minimalLoaded E ds)))

/-- what the loaded dataset is, in the words of the property: equal config (up to the one filter record the in-place collection
    appends), same mazes in the same order with identical grid, connection bits, solution, start and end; collected metadata
    kept (through json) when it was present -/
def C05_same_data : Prop :=
  ∀ (κ μ M : Type) (E : Env κ μ M) (ds : DS κ μ M),
    ((fullLoaded E ds).cfg = ds.cfg ∧ (fullLoaded E ds).mazes.map core = ds.mazes.map core ∧
      (fullLoaded E ds).collected = ds.collected.map E.metaJson) ∧
    ((minimalLoaded E ds).mazes.map core = ds.mazes.map core ∧ (minimalLoaded E ds).mazes.length = ds.mazes.length ∧
      (minimalLoaded E ds).cfg = (collectedForm E ds).cfg ∧
      (∀ c, ds.collected = some c → (minimalLoaded E ds).cfg = ds.cfg ∧ (minimalLoaded E ds).collected = some (E.metaJson c)) ∧
      (ds.collected = none → (minimalLoaded E ds).cfg = E.addCollectFilter ds.cfg ∧
        (minimalLoaded E ds).collected = some (E.metaJson (E.collect (ds.mazes.filterMap (·.gmeta))))))

/-- `save` under any threshold, `read` under any (possibly different) threshold, through the zanj handler -/
def C05_save_read : Prop :=
  ∀ (κ μ M : Type) (E : Env κ μ M), EnvOK E → ∀ (thr lthr : Option Int) (pad : Nat → Nat → Coord) (ds : DS κ μ M),
    SerializableUnder E thr ds →
    ∃ st, save E thr pad ds = .ok (postForm E thr ds, st) ∧ read E lthr st = .ok (loadedForm E thr ds) ∧
      load E lthr st = .ok (loadedForm E thr ds)

/-- collections, member by member (members may be empty whenever the full format is selected for them) -/
def C05_collections : Prop :=
  ∀ (κ μ M : Type) [DecidableEq κ] (E : Env κ μ M), EnvOK E → ∀ (thr lthr : Option Int) (pads : Nat → Nat → Nat → Coord)
    (members : List (DS κ μ M)) (collected : Option M), (∀ d ∈ members, SerializableUnder E thr d) →
    ∃ st, serializeColl E thr pads members collected = .ok (members.map (postForm E thr), st) ∧
      selectHandler st.fmt = some "MazeDatasetCollection" ∧
      loadColl E lthr st = .ok ((members.map (postForm E thr)).map (·.cfg), members.map (loadedForm E thr),
        collected.map E.metaJson)

def C05_full : Prop := C05_formats ∧ C05_same_data ∧ C05_save_read ∧ C05_collections

/-! ## theorems -/

/-- full format: every dataset of constructed mazes (ANY length incl. empty, any grid sizes, any metadata), loaded under any
    threshold setting (incl. −1 = the legacy loader) -/
theorem C05_full_rt {κ μ M} (E : Env κ μ M) (hE : EnvOK E) (lthr : Option Int) (ds : DS κ μ M)
    (hc : ∀ m ∈ ds.mazes, Constructed m) :
    ∃ st, serializeFull E ds = .ok (ds, st) ∧ st.fmt = "MazeDataset" ∧ load E lthr st = .ok (fullLoaded E ds) :=
  ⟨fullStored E ds, serializeFull_eq E ds, rfl, load_fullStored E lthr ds (hE.cfgJson_id _) hc⟩

/-- minimal format: every NON-EMPTY dataset, every content `pad` of the `np.empty` arrays, every mix of solution lengths -/
theorem C05_minimal_rt {κ μ M} (E : Env κ μ M) (hE : EnvOK E) (pad : Nat → Nat → Coord) (lthr : Option Int) (ds : DS κ μ M)
    (hne : ds.mazes ≠ []) (hmeta : HasMeta ds) (hc : ∀ m ∈ ds.mazes, Constructed m)
    (hs : ∀ m ∈ ds.mazes, Storable (E.gridN ds.cfg) m) :
    ∃ st, serializeMinimal E pad ds = .ok (collectedForm E ds, st) ∧ st.fmt = "MazeDataset:minimal" ∧
      load E lthr st = .ok (minimalLoaded E ds) :=
  minimal_rt E hE pad lthr ds hne hmeta hc hs

/-- concatenated format: every dataset (empty allowed once metadata is collected) -/
theorem C05_cat_rt {κ μ M} (E : Env κ μ M) (hE : EnvOK E) (lthr : Option Int) (ds : DS κ μ M)
    (hmeta : HasMeta ds) (hc : ∀ m ∈ ds.mazes, Constructed m) (hs : ∀ m ∈ ds.mazes, Storable (E.gridN ds.cfg) m) :
    ∃ st, serializeCat E ds = .ok (collectedForm E ds, st) ∧ st.fmt = "MazeDataset:minimal_soln_cat" ∧
      load E lthr st = .ok (minimalLoaded E ds) :=
  cat_rt E hE lthr ds hmeta hc hs

/-- the array identity behind the concatenated format, for all row lists of any element type:
    `np.split(np.concatenate(rows), np.cumsum(lengths)[:-1]) = rows` -/
theorem C05_split_concat {α} (rows : List (List α)) (h : rows ≠ []) :
    npSplit rows.flatten (cumsumFrom 0 (rows.map fun r => (r.length : Int))).dropLast = rows :=
  npSplit_flatten rows h

/-- the documented failure: the minimal format cannot store an empty dataset — `max()` of an empty sequence (ValueError) when
    metadata is collected, `dataset[0]` (IndexError) when it is not -/
theorem C05_minimal_empty_fails {κ μ M} (E : Env κ μ M) (pad : Nat → Nat → Coord) (ds : DS κ μ M) (h : ds.mazes = []) :
    serializeMinimal E pad ds = .error (if ds.collected.isSome then .valueError else .indexError) := by
  cases hc : ds.collected with
  | some c => simp [serializeMinimal, filteredMeta, hc, h, bind, Except.bind]
  | none => simp [serializeMinimal, filteredMeta, collectMeta, hc, h, bind, Except.bind]

/-- the stated precondition of both minimal serializers: nothing collected and the first maze carries no metadata →
    AssertionError, nothing is written -/
theorem C05_minimal_needs_meta {κ μ M} (E : Env κ μ M) (pad : Nat → Nat → Coord) (ds : DS κ μ M) (m0 : Maze μ)
    (rest : List (Maze μ)) (hm : ds.mazes = m0 :: rest) (h0 : m0.gmeta = none) (hc : ds.collected = none) :
    serializeMinimal E pad ds = .error .assertionError ∧ serializeCat E ds = .error .assertionError := by
  constructor <;> simp [serializeMinimal, serializeCat, filteredMeta, collectMeta, hc, hm, h0, bind, Except.bind]

/-- every threshold value (None, negative, 0, …) and every length: `serialize()` uses the minimal serializer exactly from
    `len ≥ threshold` on; whichever it picks, the format string written is dispatched by `load` — under every threshold
    setting at load time — to the matching loader, and zanj hands it to the MazeDataset handler -/
theorem C05_dispatch (thr lthr : Option Int) (len : Nat) :
    (serializerName thr len = if minimalSelected thr len then "_serialize_minimal" else "_serialize_full") ∧
    (fmtOf "_serialize_full" = .ok "MazeDataset" ∧ fmtOf "_serialize_minimal" = .ok "MazeDataset:minimal" ∧
      fmtOf "_serialize_minimal_soln_cat" = .ok "MazeDataset:minimal_soln_cat") ∧
    (loaderName lthr "MazeDataset" = some (if lthr = some (-1) then "_load_legacy" else "_load_full") ∧
      loaderName lthr "MazeDataset:minimal" = some "_load_minimal" ∧
      loaderName lthr "MazeDataset:minimal_soln_cat" = some "_load_minimal_soln_cat") ∧
    (selectHandler "MazeDataset" = some "MazeDataset" ∧ selectHandler "MazeDataset:minimal" = some "MazeDataset" ∧
      selectHandler "MazeDataset:minimal_soln_cat" = some "MazeDataset" ∧
      selectHandler collectionFormat = some "MazeDatasetCollection") :=
  ⟨serializerName_spec thr len, ⟨fmtOf_full, fmtOf_minimal, fmtOf_cat⟩,
   ⟨loaderName_full lthr, loaderName_minimal lthr, loaderName_cat lthr⟩,
   ⟨handler_full, handler_minimal, handler_cat, handler_collection⟩⟩

/-- an unknown format string is refused with the exception the source names (KeyError), never loaded as something else -/
theorem C05_unknown_format {κ μ M} (E : Env κ μ M) (lthr : Option Int) (s : Stored κ μ M)
    (h : loadTable.lookup s.fmt = none) : load E lthr s = .error (errOfName loadUnknownRaises) := by
  simp only [load, loaderName, h]

/-- `save` under every threshold, `read`/`load` under every threshold -/
theorem C05_save_read_rt {κ μ M} (E : Env κ μ M) (hE : EnvOK E) (thr lthr : Option Int) (pad : Nat → Nat → Coord)
    (ds : DS κ μ M) (h : SerializableUnder E thr ds) :
    ∃ st, save E thr pad ds = .ok (postForm E thr ds, st) ∧ read E lthr st = .ok (loadedForm E thr ds) ∧
      load E lthr st = .ok (loadedForm E thr ds) := by
  obtain ⟨st, h1, h2, h3⟩ := serialize_rt E hE thr lthr pad ds h
  exact ⟨st, h1, by rw [read_eq_load E lthr st h2]; exact h3, h3⟩

/-- collections of any number of members, member by member; a member may be empty whenever the threshold selects the full
    format for it; the collection handler (not the MazeDataset one, whose prefix test also matches) gets the file -/
theorem C05_collection_rt {κ μ M} [DecidableEq κ] (E : Env κ μ M) (hE : EnvOK E) (thr lthr : Option Int)
    (pads : Nat → Nat → Nat → Coord) (members : List (DS κ μ M)) (collected : Option M)
    (h : ∀ d ∈ members, SerializableUnder E thr d) :
    ∃ st, serializeColl E thr pads members collected = .ok (members.map (postForm E thr), st) ∧
      selectHandler st.fmt = some "MazeDatasetCollection" ∧
      loadColl E lthr st = .ok ((members.map (postForm E thr)).map (·.cfg), members.map (loadedForm E thr),
        collected.map E.metaJson) :=
  collection_rt E hE thr lthr pads members collected h

/-- what is preserved, in the property's words (all datasets, no hypotheses: facts about the result forms) -/
theorem C05_same_data_holds : C05_same_data := by
  intro κ μ M E ds
  refine ⟨⟨rfl, ?_, rfl⟩, ?_, ?_, rfl, ?_, ?_⟩
  · simp [fullLoaded, core, Function.comp_def]
  · simp [minimalLoaded, core, clearMeta, Function.comp_def]
  · simp [minimalLoaded]
  · intro c hc
    simp [minimalLoaded, collectedForm, hc]
  · intro hc
    simp [minimalLoaded, collectedForm, hc]

/-- collected metadata through json: when the stringified keys of each field are pairwise distinct (and the field names are),
    the dict keeps every field in order, every key as `str(key)` and every count -/
theorem C05_meta_counts (m : CMeta) (hf : (m.map (·.1)).Nodup)
    (hk : ∀ f ∈ m, (f.2.map fun kv => kv.1.str).Nodup) :
    jsonMeta m = m.map fun f => (f.1, f.2.map fun kv => (kv.1.str, kv.2)) := by
  unfold jsonMeta
  have hinner : (m.map fun (x : String × List (PyKey × Nat)) =>
      match x with
      | (k, cnts) => (k, dictOfPairs (cnts.map fun (y : PyKey × Nat) => match y with | (v, n) => (v.str, n)))) =
      m.map fun f => (f.1, f.2.map fun kv => (kv.1.str, kv.2)) := by
    apply List.map_congr_left
    intro f hfm
    obtain ⟨k, cnts⟩ := f
    have := hk (k, cnts) hfm
    simp only
    rw [dictOfPairs_nodup]
    simpa [List.map_map, Function.comp_def] using this
  rw [hinner, dictOfPairs_nodup]
  simpa [List.map_map, Function.comp_def] using hf

theorem C05_full_holds : C05_full := by
  refine ⟨?_, C05_same_data_holds, ?_, ?_⟩
  · intro κ μ M E hE lthr pad ds hc
    refine ⟨?_, fun hmeta hs => ⟨fun hne => ?_, ?_⟩⟩
    · obtain ⟨st, h1, _, h3⟩ := C05_full_rt E hE lthr ds hc
      exact ⟨st, h1, h3⟩
    · obtain ⟨st, h1, _, h3⟩ := C05_minimal_rt E hE pad lthr ds hne hmeta hc hs
      exact ⟨st, h1, h3⟩
    · obtain ⟨st, h1, _, h3⟩ := C05_cat_rt E hE lthr ds hmeta hc hs
      exact ⟨st, h1, h3⟩
  · intro κ μ M E hE thr lthr pad ds h
    exact C05_save_read_rt E hE thr lthr pad ds h
  · intro κ μ M _ E hE thr lthr pads members collected h
    exact C05_collection_rt E hE thr lthr pads members collected h

/-! ## non-vacuity: a concrete ragged dataset (solution lengths 3, 1, 2 on a 2×2 grid), junk padding, all formats -/

private def envX : Env (Nat × Nat) Unit Nat :=
  { gridN := fun c => c.1, addCollectFilter := fun c => (c.1, c.2 + 1), collect := fun l => l.length,
    cfgJson := id, metaJson := id, mazeMetaJson := id }

private def mzX (sol : List Coord) (s e : Coord) : Maze Unit :=
  { gridN := 2, clist := [true, false, false, false, true, false, true, false], sol, startPos := s, endPos := e, gmeta := some () }

private def dsX : DS (Nat × Nat) Unit Nat :=
  { cfg := (2, 0), mazes := [mzX [(0, 0), (1, 0), (1, 1)] (0, 0) (1, 1), mzX [(1, 1)] (1, 1) (1, 1), mzX [(0, 0), (0, 1)] (0, 0) (0, 1)],
    collected := none }

private def padX : Nat → Nat → Coord := fun i j => (-77 + i, 99 + j)

private def coresOf (r : Except Err (DS (Nat × Nat) Unit Nat)) : Option (List (Nat × List Bool × List Coord × Coord × Coord)) :=
  match r with
  | .ok d => some (d.mazes.map core)
  | .error _ => none

private theorem envX_ok : EnvOK envX := ⟨fun _ => rfl, fun _ => rfl⟩

/-- the hypotheses of the theorems are satisfiable by a ragged dataset with a length-1 and a length-2 solution -/
example : SerializableUnder envX (some 1) dsX := by
  refine ⟨?_, fun _ => ⟨by decide, Or.inr ⟨by decide, ?_⟩, ?_⟩⟩
  · intro m hm
    simp only [dsX, List.mem_cons, List.not_mem_nil, or_false] at hm
    rcases hm with rfl | rfl | rfl <;> exact ⟨rfl, rfl, rfl, rfl⟩
  · intro m hm
    simp only [dsX, List.mem_cons, List.not_mem_nil, or_false] at hm
    rcases hm with rfl | rfl | rfl <;> rfl
  · intro m hm
    simp only [dsX, List.mem_cons, List.not_mem_nil, or_false] at hm
    rcases hm with rfl | rfl | rfl <;>
      exact ⟨rfl, by intro c hc; simp [mzX] at hc; rcases hc with rfl | rfl | rfl <;> simp [I8], by simp [mzX]⟩

set_option synthInstance.maxSize 512 in
/-- minimal format on it: junk padding is really written, and the loaded mazes are the source mazes -/
example : (match serializeMinimal envX padX dsX with
    | .ok (_, st) => (match st.payload with
        | .minimal _ _ lens sols => decide (lens = [3, 1, 2]) && decide (sols.map List.length = [3, 3, 3]) &&
            decide ((sols.getD 1 []).getD 2 (0, 0) = (-76, 101))
        | _ => false) && decide (coresOf (load envX none st) = some (dsX.mazes.map core))
    | .error _ => false) = true := by decide

set_option synthInstance.maxSize 512 in
example : (match serializeCat envX dsX with
    | .ok (post, st) => decide (post.cfg = (2, 1)) && decide (post.collected = some 3) &&
        decide (coresOf (load envX (some (-1)) st) = some (dsX.mazes.map core))
    | .error _ => false) = true := by decide

set_option synthInstance.maxSize 512 in
example : (match serializeFull envX dsX with
    | .ok (_, st) => decide (coresOf (load envX (some (-1)) st) = some (dsX.mazes.map core)) &&
        decide (coresOf (read envX none st) = some (dsX.mazes.map core))
    | .error _ => false) = true := by decide

/-- the guards are needed: a coordinate 128 comes back as −128 and the constructor refuses it -/
example : (match serializeMinimal envX padX { dsX with cfg := (200, 0), mazes := [{ mzX [(0, 128)] (0, 128) (0, 128) with gridN := 200 }] } with
    | .ok (_, st) => (match load envX none st with | .error e => decide (e = Err.valueError) | .ok _ => false)
    | .error _ => false) = true := by decide

/-- a collection with an empty member under a threshold that keeps the empty member in the full format -/
example : (match serializeColl envX (some 1) (fun _ => padX) [dsX, { dsX with mazes := [] }] none with
    | .ok (post, st) => decide (post.map (·.cfg) = [(2, 1), (2, 0)]) &&
        decide (st.members.map (·.fmt) = ["MazeDataset:minimal", "MazeDataset"]) &&
        (match loadColl envX none st with
          | .ok (cfgs, ds, _) => decide (cfgs = [(2, 1), (2, 0)]) && decide (ds.map (·.mazes.length) = [3, 0])
          | .error _ => false)
    | .error _ => false) = true := by decide

example : serializerName (some 3) 3 = "_serialize_minimal" ∧ serializerName (some 4) 3 = "_serialize_full" ∧
    serializerName none 1000 = "_serialize_full" ∧ serializerName (some (-1)) 0 = "_serialize_minimal" := by decide

example : npSplit [1, 2, 3, 4, 5, 6] (cumsumFrom 0 [3, 1, 2]).dropLast = [[1, 2, 3], [4], [5, 6]] := by decide

example : jsonMeta [("grid_shape", [(.t [3, 3], 4)]), ("fully_connected", [(.b true, 3), (.b false, 1)]), ("n", [(.i (-9), 4)])] =
    [("grid_shape", [("(3, 3)", 4)]), ("fully_connected", [("True", 3), ("False", 1)]), ("n", [("-9", 4)])] := by decide

/-- and the hypothesis of `C05_meta_counts` matters: two keys with the same `str` collapse (last count wins) -/
example : jsonMeta [("k", [(.i 1, 5), (.s "1", 2)])] = [("k", [("1", 2)])] := by decide

end MZ.Serial
