import MazeVerif.DriverOps.Util
import MazeVerif.Model.Vocab
namespace MZ.Drv.C14
open Lean MZ.Drv MZ.Vocab

def jPairs (l : List P) : Json := Json.arr (l.map fun x => Json.arr #[jNat x.1, jNat x.2]).toArray

def asPair (j : Json) : R P := do
  match ← asNatList j with
  | [a, b] => pure (a, b)
  | _ => throw "pair: expected [x,y]"

def parseMode (s : String) : R Mode :=
  match s with
  | "AOTP_UT_rasterized" => pure .rasterized
  | "AOTP_UT_uniform" => pure .uniform
  | "AOTP_CTT_indexed" => pure .indexed
  | _ => throw s!"unknown mode {s}"

/-- `"voc"`: `"modular"` or `{"mode":…, "n": nat | null}` -/
inductive VocSel where
  | modular
  | legacy (m : Mode) (size : Option Nat)

def getVoc (j : Json) : R VocSel := do
  let v ← fld j "voc"
  match v with
  | Json.str "modular" => pure .modular
  | _ =>
    let m ← parseMode (← getStr v "mode")
    let size ← match optFld v "n" with
      | none => pure none
      | some x => pure (some (← x.getNat?))
    pure (.legacy m size)

def jExcept {α} (f : α → Json) : Except Err α → Json
  | .ok a => obj [("ok", f a)]
  | .error e => obj [("err", Json.str e.name)]

/-- ops:
  * `C14.vocab` {} → {vocab, from_blocks, specials, head_n, ut_n}
  * `C14.corner` {n, impl?: [[x,y],…]} → {corner, ndindex, spec_ok?}
  * `C14.token_arr` {mode, n: nat|null} → {arr: [...]|null}
  * `C14.lookup` {voc, tokens} → {ids: [nat|null]}
  * `C14.encode` {voc, tokens} → {ok:[…]} | {err}
  * `C14.decode` {voc, ids} → {ok:[…]} | {err} -/
def handle (op : String) (j : Json) : R Json := do
  match op with
  | "C14.vocab" =>
    pure <| obj [("vocab", jStrs vocab), ("from_blocks", jStrs vocabFromBlocks), ("specials", jStrs specials),
                 ("head_n", jNat headTokens.length), ("ut_n", jNat utTokens.length)]
  | "C14.corner" =>
    let n ← getNat j "n"
    let base := [("corner", jPairs (cornerFirst n)), ("ndindex", jPairs (ndindex n))]
    match optFld j "impl" with
    | none => pure <| obj base
    | some x =>
      let l ← (← x.getArr?).toList.mapM asPair
      pure <| obj (base ++ [("spec_ok", Json.bool (cornerSpecOK n l))])
  | "C14.token_arr" =>
    let m ← parseMode (← getStr j "mode")
    let size ← match optFld j "n" with
      | none => pure none
      | some x => pure (some (← x.getNat?))
    pure <| obj [("arr", match tokenArr? m size with | none => Json.null | some a => jStrs a)]
  | "C14.lookup" =>
    let toks ← (← getArr j "tokens").mapM (·.getStr?)
    let voc ← match ← getVoc j with
      | .modular => pure vocab
      | .legacy m (some n) => pure (tokenArr m n)
      | .legacy _ none => throw "lookup needs a size"
    pure <| obj [("ids", Json.arr (toks.map fun t => match tokenToIndex voc t with | some i => jNat i | none => Json.null).toArray)]
  | "C14.encode" =>
    let toks ← (← getArr j "tokens").mapM (·.getStr?)
    match ← getVoc j with
    | .modular => pure <| jExcept jNats (encode vocab toks)
    | .legacy m size => pure <| jExcept jNats (legacyEncode m size toks)
  | "C14.decode" =>
    let ids ← getIntList j "ids"
    match ← getVoc j with
    | .modular => pure <| jExcept jStrs (decode vocab ids)
    | .legacy m size => pure <| jExcept jStrs (legacyDecode m size ids)
  | _ => throw s!"unknown op {op}"

end MZ.Drv.C14
