import MazeVerif.DriverOps.Util
namespace MZ.Drv.C05
open Lean MZ.Drv

/-- driver ops of property C05 (`"op": "C05.<name>"`) -/
def handle (op : String) (_j : Json) : R Json := do
  match op with
  | _ => throw s!"unknown op {op}"

end MZ.Drv.C05
