import MazeVerif.Lemmas.WilsonStepProb
import MazeVerif.Lemmas.WilsonRefine
import MazeVerif.Lemmas.SpanningMask
import MazeVerif.Lemmas.WilsonSupport
import MazeVerif.Lemmas.WilsonTerm
import MazeVerif.Props.C01
import MazeVerif.Props.C19Table33
import MazeVerif.Props.C19Table24
import MazeVerif.Props.C19Table25
/-! # C19 — Wilson's generator samples spanning trees uniformly

Model: `gen_wilson` as a step machine (`Model/WilsonStep.lean`: one step per random draw of the real code), with the
probability semantics of `Model/WilsonProb.lean`: every draw is uniform on its range and draws are independent.
`P rows cols n T` is the probability that the generator has returned the maze with connection mask `T` after at most
`n` draws (not counting the two draws of the start cell), `R rows cols n` the probability that it is still running.

General theorems (EVERY grid, every `n`, no bound): monotonicity, the sandwich `P n T ≤ P m T ≤ P n T + R n` for all
`m ≥ n`, conservation of mass, and "positive probability ⇒ a concrete draw list on which the executable machine
returns `T`" (the machine is what the correspondence check replays against real `gen_wilson` runs).
Small grids (2x2, 2x3, 3x2, 3x3, 2x4, 4x2, 2x5, 5x2): for EVERY number of draws `m ≥ n0` every spanning tree has
probability within `10⁻⁹` of `1/N`, so every spanning tree appears and the limit law is uniform up to `10⁻⁹`
(`C19_full_partial`: the first six grids, `C19_full_partial8`: all eight).
Support (EVERY grid, `Lemmas/WilsonRefine.lean` + `Lemmas/SpanningMask.lean`): the step machine refines the nested-loop
model of C01 (`C19_machine_refines_nested`), so every completed run returns a spanning tree in C01's sense
(`C19_support_sub`); the executable test behind the tables is sound and complete (`C19_isSpanningMask_iff`), the table
`allSpanningMasks` is exactly the set of spanning trees (`C19_table_exact`), every returned mask is a table entry
(`C19_support_in_table`) and every other mask has probability 0 at all times (`C19_outside_table_zero`).
Conversely (EVERY grid, `Lemmas/WilsonSupport.lean`): every spanning tree is returned by some run of the executable
machine (`C19_support_all`) and from some number of draws on has positive probability (`C19_every_tree_positive`,
`C19_every_tree_positive_eventually`); hence a mask has positive probability at some time iff it is a spanning tree
(`C19_support_exact`, `C19_support_exact_tree`) — the qualitative half of uniformity.
Termination (EVERY grid, `Lemmas/WilsonTerm.lean`): from every reachable state the generator finishes within
`termL = (rows*cols+1)*(rows+cols+1)` draws with probability at least `termDelta = (1/max 4 (rows*cols))^termL`
(`C19_can_finish_within`, `C19_finish_probability`), so `R (m + termL) ≤ (1 - termDelta) * R m`
(`C19_unfinished_contracts`), `R (k*termL) ≤ (1 - termDelta)^k` (`C19_geometric_decay`), `R m → 0`
(`C19_terminates_almost_surely`), `Pany m → 1` (`C19_Pany_tends_to_one`) and every `P n T` is Cauchy with an explicit
rate (`C19_P_cauchy`, `C19_P_rate`): the law of the returned maze is a well-defined limit and the loops hang with
probability 0. This is the `R`-half of `C19_full`.
`_partial`: uniformity on larger grids (Wilson's theorem in general: all those positive limits are EQUAL) is not
mechanised. -/
namespace MZ.C19
open MZ.WProb MZ.WStep

/-- probability that `gen_wilson` has returned the maze with connection mask `T` within `n` draws -/
def P (rows cols n T : Nat) : Rat := expect (val (wilson rows cols) (edgesAre T) n) (start rows cols)
/-- probability that `gen_wilson` has returned anything within `n` draws -/
def Pany (rows cols n : Nat) : Rat := expect (val (wilson rows cols) (fun _ => true) n) (start rows cols)
/-- probability that `gen_wilson` is still running after `n` draws -/
def R (rows cols n : Nat) : Rat := expect (unfin (wilson rows cols) n) (start rows cols)

/-- the statement for one small grid: the grid has exactly `N` spanning trees; from `n0` draws on, every one of them
    has probability within `eps` of `1/N` and at most `eps` is unfinished -/
def UniformFrom (rows cols n0 N : Nat) (eps : Rat) : Prop :=
  (allSpanningMasks rows cols).length = N ∧ (allSpanningMasks rows cols).Nodup ∧
  ∀ m, n0 ≤ m → R rows cols m ≤ eps ∧
    ∀ T ∈ allSpanningMasks rows cols, 1 / (N : Rat) - eps ≤ P rows cols m T ∧ P rows cols m T ≤ 1 / (N : Rat) + eps

/-- the part of the property that is proved (grids 2x2, 2x3, 3x2, 3x3; the property names "a small grid") -/
def C19_full_partial : Prop :=
  UniformFrom 2 2 80 4 eps9 ∧ UniformFrom 2 3 200 15 eps9 ∧ UniformFrom 3 2 200 15 eps9 ∧ UniformFrom 3 3 300 192 eps9 ∧
  UniformFrom 2 4 500 56 eps9 ∧ UniformFrom 4 2 500 56 eps9

/-- the proved part with the two 10-cell grids added: eight grids, every grid with at most 10 cells and both sides
    at least 2 (2x5 and 5x2: 209 spanning trees each, from 500 draws on) -/
def C19_full_partial8 : Prop :=
  C19_full_partial ∧ UniformFrom 2 5 500 209 eps9 ∧ UniformFrom 5 2 500 209 eps9

/-- the full statement: uniformity in the limit on EVERY grid (Wilson's theorem). NOT proved here. -/
def C19_full : Prop :=
  ∀ rows cols, 1 < rows * cols → ∀ eps : Rat, 0 < eps → ∃ n0, ∀ m, n0 ≤ m → R rows cols m ≤ eps ∧
    ∀ T ∈ allSpanningMasks rows cols,
      |P rows cols m T - 1 / ((allSpanningMasks rows cols).length : Rat)| ≤ eps

/-! ### general theorems: every grid, every number of draws -/

/-- more draws never lower the probability of having returned `T` -/
theorem C19_mono (rows cols T : Nat) {n m : Nat} (h : n ≤ m) : P rows cols n T ≤ P rows cols m T :=
  expect_mono (fun s => val_mono _ _ h s) (start_weights_nonneg rows cols)

/-- the sandwich: after `n` draws the probability of `T` is pinned up to the unfinished mass, for ALL later times -/
theorem C19_sandwich (rows cols T : Nat) {n m : Nat} (h : n ≤ m) :
    P rows cols n T ≤ P rows cols m T ∧ P rows cols m T ≤ P rows cols n T + R rows cols n := by
  refine ⟨C19_mono rows cols T h, ?_⟩
  unfold P R
  rw [← expect_add]
  exact expect_mono (fun s => (val_sandwich _ _ h s).2) (start_weights_nonneg rows cols)

/-- the unfinished mass never grows -/
theorem C19_unfinished_anti (rows cols : Nat) {n m : Nat} (h : n ≤ m) : R rows cols m ≤ R rows cols n :=
  expect_mono (fun s => unfin_anti _ h s) (start_weights_nonneg rows cols)

/-- conservation of mass: returned + still running = 1 (grids with at least two cells) -/
theorem C19_mass (rows cols n : Nat) (h : 1 < rows * cols) : Pany rows cols n + R rows cols n = 1 := by
  unfold Pany R
  rw [← expect_add]
  have : (fun s => val (wilson rows cols) (fun _ => true) n s + unfin (wilson rows cols) n s) = fun _ => (1 : Rat) :=
    funext fun s => val_true_add_unfin _ (wilson_arity_pos h) n s
  rw [this]
  exact start_total rows cols

/-- the probabilities of distinct masks add up to the probability of "one of them" — in particular to at most
    `1 - R n` -/
theorem C19_masks_additive (rows cols n : Nat) (Ts : List Nat) (hnd : Ts.Nodup) :
    (Ts.map fun T => P rows cols n T).sum =
      expect (val (wilson rows cols) (fun s => decide (s.edges ∈ Ts)) n) (start rows cols) := by
  have hpt : ∀ s, val (wilson rows cols) (fun x => decide (x.edges ∈ Ts)) n s =
      (Ts.map fun T => val (wilson rows cols) (edgesAre T) n s).sum := fun s =>
    val_keys (wilson rows cols) (fun x : WS => x.edges) Ts hnd n s
  have hfun : val (wilson rows cols) (fun x => decide (x.edges ∈ Ts)) n =
      fun s => (Ts.map fun T => val (wilson rows cols) (edgesAre T) n s).sum := funext hpt
  rw [hfun]
  unfold P
  clear hpt hnd hfun
  induction Ts with
  | nil => simp [expect]
  | cons T Ts ih =>
    simp only [List.map_cons, List.sum_cons]
    rw [expect_add, ih]

/-- the forward table and the backward definition agree: `P n T` is the finished-with-`T` mass of the `n`-draw law
    (this is what makes the evaluated tables statements about `P`) -/
theorem C19_forward_eq_backward (rows cols n T : Nat) :
    massFin (wilson rows cols) (edgesAre T) (law rows cols n) = P rows cols n T :=
  massFin_eq _ _ _ _ _

theorem C19_forward_eq_backward_unfinished (rows cols n : Nat) :
    massUnfin (wilson rows cols) (law rows cols n) = R rows cols n :=
  massUnfin_eq _ _ _ _

/-- positive probability is witnessed by a run of the executable machine: two draws for the start cell, then a draw
    list, each draw within its range, on which `WStep.run` returns exactly the mask `T` with no draw left over -/
theorem C19_positive_has_run (rows cols n T : Nat) (h : 0 < P rows cols n T) :
    ∃ a b ds s, ds.length ≤ n ∧ run rows cols (a :: b :: ds) ds.length = some (s, []) ∧ s.edges = T := by
  obtain ⟨x, hx, hpos⟩ := expect_pos_exists h
  have hw := start_weights_nonneg rows cols x hx
  have hv : 0 < val (wilson rows cols) (edgesAre T) n x.1 := by
    rcases lt_or_eq_of_le (val_nonneg (wilson rows cols) (edgesAre T) n x.1) with hlt | heq
    · exact hlt
    · rw [← heq] at hpos; simp at hpos
  obtain ⟨ds, t, hl, hr, ht⟩ := val_pos_reaches _ _ n x.1 hv
  have hxs : x.1 ∈ starts rows cols := by
    simp only [start, List.mem_map] at hx
    obtain ⟨s, hs, rfl⟩ := hx
    exact hs
  obtain ⟨a, b, ha, hb, hs⟩ := mem_starts hxs
  refine ⟨a, b, ds, t, hl, ?_, by simpa [edgesAre] using ht⟩
  simp only [run, ha, hb, and_self, if_true]
  rw [← hs]
  exact reaches_runFrom hr _ (le_refl _)

/-! ### small grids: uniform up to 10⁻⁹ from `n0` draws on, for every later time -/

private theorem uniform_of_table {rows cols n0 N : Nat} {eps : Rat} (h : tableOK rows cols n0 N eps = true) :
    UniformFrom rows cols n0 N eps := by
  obtain ⟨hlen, hnd, hT, hR⟩ := tableOK_spec h
  rw [C19_forward_eq_backward_unfinished] at hR
  refine ⟨hlen, hnd, fun m hm => ⟨le_trans (C19_unfinished_anti rows cols hm) hR, fun T hTm => ?_⟩⟩
  obtain ⟨hlo, hhi⟩ := hT T hTm
  rw [C19_forward_eq_backward] at hlo hhi
  obtain ⟨h1, h2⟩ := C19_sandwich rows cols T hm
  constructor <;> linarith

theorem C19_uniform_2x2 : UniformFrom 2 2 80 4 eps9 := uniform_of_table table_2x2
theorem C19_uniform_2x3 : UniformFrom 2 3 200 15 eps9 := uniform_of_table table_2x3
theorem C19_uniform_3x2 : UniformFrom 3 2 200 15 eps9 := uniform_of_table table_3x2
theorem C19_uniform_3x3 : UniformFrom 3 3 300 192 eps9 := uniform_of_table table_3x3
theorem C19_uniform_2x4 : UniformFrom 2 4 500 56 eps9 := uniform_of_table table_2x4
theorem C19_uniform_4x2 : UniformFrom 4 2 500 56 eps9 := uniform_of_table table_4x2

theorem C19_uniform_2x5 : UniformFrom 2 5 500 209 eps9 := uniform_of_table table_2x5
theorem C19_uniform_5x2 : UniformFrom 5 2 500 209 eps9 := uniform_of_table table_5x2

theorem C19_full_partial_holds : C19_full_partial :=
  ⟨C19_uniform_2x2, C19_uniform_2x3, C19_uniform_3x2, C19_uniform_3x3, C19_uniform_2x4, C19_uniform_4x2⟩

/-- all eight evaluated grids (the six of `C19_full_partial` and 2x5, 5x2) -/
theorem C19_full_partial8_holds : C19_full_partial8 :=
  ⟨C19_full_partial_holds, C19_uniform_2x5, C19_uniform_5x2⟩

/-- every spanning tree of the 3x3 grid is returned by some run of the executable machine (likewise 2x2, 2x3, 3x2) -/
theorem C19_tree_appears_of_uniform {rows cols n0 N : Nat} (hu : UniformFrom rows cols n0 N eps9) (hN : 0 < N)
    (hNle : N ≤ 1000) :
    ∀ T ∈ allSpanningMasks rows cols, ∃ a b ds s, run rows cols (a :: b :: ds) ds.length = some (s, []) ∧ s.edges = T := by
  intro T hT
  obtain ⟨hlo, _⟩ := (hu.2.2 n0 (le_refl _)).2 T hT
  have hpos : 0 < P rows cols n0 T := by
    have hNq : (0 : Rat) < (N : Rat) := by exact_mod_cast hN
    have h1 : (1 : Rat) / 1000 ≤ 1 / (N : Rat) := by
      apply one_div_le_one_div_of_le hNq
      exact_mod_cast hNle
    have h2 : eps9 < 1 / 1000 := by unfold eps9; norm_num
    linarith
  obtain ⟨a, b, ds, s, _, hrun, he⟩ := C19_positive_has_run rows cols n0 T hpos
  exact ⟨a, b, ds, s, hrun, he⟩

theorem C19_every_tree_appears_2x2 : ∀ T ∈ allSpanningMasks 2 2, ∃ a b ds s, run 2 2 (a :: b :: ds) ds.length = some (s, []) ∧ s.edges = T :=
  C19_tree_appears_of_uniform C19_uniform_2x2 (by norm_num) (by norm_num)
theorem C19_every_tree_appears_2x3 : ∀ T ∈ allSpanningMasks 2 3, ∃ a b ds s, run 2 3 (a :: b :: ds) ds.length = some (s, []) ∧ s.edges = T :=
  C19_tree_appears_of_uniform C19_uniform_2x3 (by norm_num) (by norm_num)
theorem C19_every_tree_appears_3x2 : ∀ T ∈ allSpanningMasks 3 2, ∃ a b ds s, run 3 2 (a :: b :: ds) ds.length = some (s, []) ∧ s.edges = T :=
  C19_tree_appears_of_uniform C19_uniform_3x2 (by norm_num) (by norm_num)
theorem C19_every_tree_appears_2x4 : ∀ T ∈ allSpanningMasks 2 4, ∃ a b ds s, run 2 4 (a :: b :: ds) ds.length = some (s, []) ∧ s.edges = T :=
  C19_tree_appears_of_uniform C19_uniform_2x4 (by norm_num) (by norm_num)
theorem C19_every_tree_appears_4x2 : ∀ T ∈ allSpanningMasks 4 2, ∃ a b ds s, run 4 2 (a :: b :: ds) ds.length = some (s, []) ∧ s.edges = T :=
  C19_tree_appears_of_uniform C19_uniform_4x2 (by norm_num) (by norm_num)
theorem C19_every_tree_appears_2x5 : ∀ T ∈ allSpanningMasks 2 5, ∃ a b ds s, run 2 5 (a :: b :: ds) ds.length = some (s, []) ∧ s.edges = T :=
  C19_tree_appears_of_uniform C19_uniform_2x5 (by norm_num) (by norm_num)
theorem C19_every_tree_appears_5x2 : ∀ T ∈ allSpanningMasks 5 2, ∃ a b ds s, run 5 2 (a :: b :: ds) ds.length = some (s, []) ∧ s.edges = T :=
  C19_tree_appears_of_uniform C19_uniform_5x2 (by norm_num) (by norm_num)
theorem C19_every_tree_appears_3x3 : ∀ T ∈ allSpanningMasks 3 3, ∃ a b ds s, run 3 3 (a :: b :: ds) ds.length = some (s, []) ∧ s.edges = T :=
  C19_tree_appears_of_uniform C19_uniform_3x3 (by norm_num) (by norm_num)

/-! ### the step machine refines the nested-loop model; its support lies inside the spanning trees (EVERY grid) -/

/-- the step machine of this file and the nested-loop model of C01 (`genWilsonTop`) are two descriptions of the same
    generator: every completed machine run is matched, on the same draw list, by a completed nested run with the same
    unread draws whose connection list is a permutation of the decoded edge mask -/
theorem C19_machine_refines_nested {rows cols : Nat} (hr : 0 < rows) (hc : 0 < cols) {draws : List Nat} {fuel : Nat}
    {s : WS} {rest : List Nat} (h : run rows cols draws fuel = some (s, rest)) :
    ∃ fuel' w, genWilsonTop rows cols draws fuel' = some w ∧ w.rng = rest ∧
      (∀ e, e ∈ w.E ↔ e ∈ edgesOfMask rows cols s.edges) ∧ w.E.Perm (edgesOfMask rows cols s.edges) := by
  obtain ⟨f, w, h1, h2, h3, h4, _⟩ := WRef.wstep_refines_nested hr hc h
  exact ⟨f, w, h1, h2, h3, h4⟩

private theorem spanningTree_perm {rows cols : Nat} {E E' : List Edge} (hp : E.Perm E')
    (h : SpanningTree rows cols E) : SpanningTree rows cols E' := by
  obtain ⟨hwf, hnd, hlen, hreach, hac⟩ := h
  refine ⟨fun e he => hwf e (hp.mem_iff.mpr he), hp.nodup_iff.mp hnd, by rw [← hp.length_eq]; exact hlen,
    fun a b ha hb => (hreach a b ha hb).mono (fun e he => hp.mem_iff.mp he), ?_⟩
  rw [← graphOf_congr (fun e => hp.mem_iff)]; exact hac

/-- support ⊆ spanning trees, ALL grid sizes: whatever draw list the step machine completes on, the connection list
    encoded by the returned edge mask is a spanning tree of the `rows × cols` grid in exactly the sense of C01
    (`SpanningTree`: well formed, duplicate-free, `rows*cols-1` connections, all cells mutually reachable, acyclic) -/
theorem C19_support_sub {rows cols : Nat} (hr : 0 < rows) (hc : 0 < cols) {draws : List Nat} {fuel : Nat}
    {s : WS} {rest : List Nat} (h : run rows cols draws fuel = some (s, rest)) :
    SpanningTree rows cols (edgesOfMask rows cols s.edges) := by
  obtain ⟨f, w, hg, _, _, hp⟩ := C19_machine_refines_nested hr hc h
  exact spanningTree_perm hp (C01_wilson_spanning hr hc hg)

/-- soundness of the executable test behind the tables: a mask accepted by `isSpanningMask` decodes to a spanning tree
    of the grid in the sense of C01 (EVERY grid) -/
theorem C19_isSpanningMask_sound {rows cols m : Nat} (hr : 0 < rows) (hc : 0 < cols)
    (h : isSpanningMask rows cols m = true) : SpanningTree rows cols (edgesOfMask rows cols m) :=
  WRef.isSpanningMask_sound hr hc h

/-- every entry of the brute-force table `allSpanningMasks` is a genuine spanning tree (so "uniform on
    `allSpanningMasks`" in `UniformFrom` is a statement about spanning trees, not about an unverified filter) -/
theorem C19_table_masks_are_trees {rows cols : Nat} (hr : 0 < rows) (hc : 0 < cols) :
    ∀ T ∈ allSpanningMasks rows cols, SpanningTree rows cols (edgesOfMask rows cols T) := by
  intro T hT
  simp only [allSpanningMasks, List.mem_filter] at hT
  exact C19_isSpanningMask_sound hr hc hT.2

/-- soundness AND completeness of the executable test: for masks without bits outside the `2*rows*cols` connection
    slots, `isSpanningMask` decides exactly "the decoded connection list is a spanning tree (C01 sense)" -/
theorem C19_isSpanningMask_iff {rows cols m : Nat} (hr : 0 < rows) (hc : 0 < cols) (hm : m < 2 ^ (2 * (rows * cols))) :
    isSpanningMask rows cols m = true ↔ SpanningTree rows cols (edgesOfMask rows cols m) :=
  ⟨C19_isSpanningMask_sound hr hc, fun h => WRef.isSpanningMask_complete hr hc hm h.1 h.2.2.1 h.2.2.2.1⟩

/-- the brute-force table is EXACTLY the set of spanning trees of the grid (as masks over the connection slots) -/
theorem C19_table_exact {rows cols T : Nat} (hr : 0 < rows) (hc : 0 < cols) :
    T ∈ allSpanningMasks rows cols ↔ T < 2 ^ (2 * (rows * cols)) ∧ SpanningTree rows cols (edgesOfMask rows cols T) := by
  rw [WRef.mem_allSpanningMasks]
  constructor
  · intro h
    have hm : T < 2 ^ (2 * (rows * cols)) := by
      simp only [isSpanningMask, Bool.and_eq_true, decide_eq_true_eq] at h
      exact h.1.1.2
    exact ⟨hm, C19_isSpanningMask_sound hr hc h⟩
  · rintro ⟨hm, h⟩
    exact (C19_isSpanningMask_iff hr hc hm).mpr h

/-- support ⊆ table, ALL grid sizes: the mask returned by any completed run of the step machine is an entry of
    `allSpanningMasks` -/
theorem C19_support_in_table {rows cols : Nat} (hr : 0 < rows) (hc : 0 < cols) {draws : List Nat} {fuel : Nat}
    {s : WS} {rest : List Nat} (h : run rows cols draws fuel = some (s, rest)) :
    s.edges ∈ allSpanningMasks rows cols := by
  obtain ⟨_, _, _, _, _, _, _, hlt⟩ := WRef.wstep_refines_nested hr hc h
  rw [Nat.mul_assoc] at hlt
  exact (C19_table_exact hr hc).mpr ⟨hlt, C19_support_sub hr hc h⟩

/-- in probability terms: a mask that is not a spanning tree of the grid is returned with probability 0, at every
    time, on EVERY grid -/
theorem C19_outside_table_zero {rows cols : Nat} (hr : 0 < rows) (hc : 0 < cols) {T : Nat}
    (hT : T ∉ allSpanningMasks rows cols) (n : Nat) : P rows cols n T = 0 := by
  have hnn : 0 ≤ P rows cols n T := by
    unfold P expect
    apply sum_map_nonneg
    intro x hx
    exact mul_nonneg (start_weights_nonneg rows cols x hx) (val_nonneg _ _ _ _)
  rcases lt_or_eq_of_le hnn with hpos | h0
  · obtain ⟨a, b, ds, s, _, hrun, he⟩ := C19_positive_has_run rows cols n T hpos
    exact absurd (he ▸ C19_support_in_table hr hc hrun) hT
  · exact h0.symm

/-! ### support ⊇ spanning trees (EVERY grid): every spanning tree can be produced -/

/-- for every spanning-tree mask `T` there is a draw list, each draw within its range, that takes the machine from
    the start state of cell `(0,0)` to a finished state whose connection mask is exactly `T` -/
private theorem tree_reached {rows cols : Nat} (hr : 0 < rows) (hc : 0 < cols) {T : Nat}
    (hT : T ∈ allSpanningMasks rows cols) :
    ∃ ds t, WProb.Reaches (wilson rows cols) (WSup.s00 cols) ds t ∧ t.edges = T := by
  have hTm : isSpanningMask rows cols T = true := WRef.mem_allSpanningMasks.mp hT
  obtain ⟨ds, t, hreach, hsub⟩ := WSup.exists_run_inside hr hc hTm
  refine ⟨ds, t, hreach, ?_⟩
  have hrun : run rows cols (0 :: 0 :: ds) ds.length = some (t, []) := by
    have h1 : 0 < max (rows - 1) 1 := by omega
    have h2 : 0 < max (cols - 1) 1 := by omega
    simp only [run, h1, h2, and_self, if_true]
    exact reaches_runFrom hreach _ (le_refl _)
  have htm : isSpanningMask rows cols t.edges = true :=
    WRef.mem_allSpanningMasks.mp (C19_support_in_table hr hc hrun)
  exact WSup.mask_eq_of_sub htm hTm hsub

/-- support ⊇ spanning trees, ALL grid sizes: every spanning tree of the grid (every entry of `allSpanningMasks`,
    which by `C19_table_exact` is every mask `T < 2^(2*rows*cols)` decoding to a `SpanningTree`) is returned by some
    run of the executable machine: two draws for the start cell, then a draw list, each draw within its range, on
    which `WStep.run` returns exactly the mask `T` with no draw left over -/
theorem C19_support_all {rows cols : Nat} (hr : 0 < rows) (hc : 0 < cols) {T : Nat}
    (hT : T ∈ allSpanningMasks rows cols) :
    ∃ a b ds s, run rows cols (a :: b :: ds) ds.length = some (s, []) ∧ s.edges = T := by
  obtain ⟨ds, t, hreach, he⟩ := tree_reached hr hc hT
  refine ⟨0, 0, ds, t, ?_, he⟩
  have h1 : 0 < max (rows - 1) 1 := by omega
  have h2 : 0 < max (cols - 1) 1 := by omega
  simp only [run, h1, h2, and_self, if_true]
  exact reaches_runFrom hreach _ (le_refl _)

/-- the same in C01's terms: every connection mask over the `2*rows*cols` slots that decodes to a `SpanningTree` of
    the grid is returned by some run of the executable machine -/
theorem C19_support_all_tree {rows cols : Nat} (hr : 0 < rows) (hc : 0 < cols) {T : Nat}
    (hlt : T < 2 ^ (2 * (rows * cols))) (hT : SpanningTree rows cols (edgesOfMask rows cols T)) :
    ∃ a b ds s, run rows cols (a :: b :: ds) ds.length = some (s, []) ∧ s.edges = T :=
  C19_support_all hr hc ((C19_table_exact hr hc).mpr ⟨hlt, hT⟩)

/-- every spanning tree has positive probability from some number of draws on, on EVERY grid -/
theorem C19_every_tree_positive_eventually {rows cols : Nat} (hr : 0 < rows) (hc : 0 < cols) {T : Nat}
    (hT : T ∈ allSpanningMasks rows cols) : ∃ n0, ∀ n, n0 ≤ n → 0 < P rows cols n T := by
  obtain ⟨ds, t, hreach, he⟩ := tree_reached hr hc hT
  refine ⟨ds.length, fun n hn => ?_⟩
  have hv : 0 < val (wilson rows cols) (edgesAre T) n (WSup.s00 cols) :=
    WSup.reaches_val_pos _ _ hreach (by simp [edgesAre, he]) n hn
  have hlen : (0 : Rat) < ((starts rows cols).length : Rat) := by
    exact_mod_cast List.length_pos_of_ne_nil (starts_ne_nil rows cols)
  have hx : (WSup.s00 cols, 1 / ((starts rows cols).length : Rat)) ∈ start rows cols := by
    simp only [start, List.mem_map]
    exact ⟨WSup.s00 cols, WSup.s00_mem_starts rows cols, rfl⟩
  exact WSup.expect_pos_of_mem (start_weights_nonneg rows cols) (fun s => val_nonneg _ _ _ s) hx
    (div_pos (by norm_num) hlen) hv

/-- every spanning tree has positive probability at some time, on EVERY grid -/
theorem C19_every_tree_positive {rows cols : Nat} (hr : 0 < rows) (hc : 0 < cols) {T : Nat}
    (hT : T ∈ allSpanningMasks rows cols) : ∃ n, 0 < P rows cols n T := by
  obtain ⟨n0, h⟩ := C19_every_tree_positive_eventually hr hc hT
  exact ⟨n0, h n0 (le_refl _)⟩

/-- the support of the generator is EXACTLY the set of spanning trees, on EVERY grid: a connection mask is returned
    with positive probability at some time iff it is an entry of `allSpanningMasks` -/
theorem C19_support_exact {rows cols : Nat} (hr : 0 < rows) (hc : 0 < cols) (T : Nat) :
    (∃ n, 0 < P rows cols n T) ↔ T ∈ allSpanningMasks rows cols := by
  constructor
  · rintro ⟨n, hn⟩
    by_contra hT
    rw [C19_outside_table_zero hr hc hT n] at hn
    exact lt_irrefl _ hn
  · exact C19_every_tree_positive hr hc

/-- the same in C01's terms: positive probability at some time iff the mask lies within the `2*rows*cols` connection
    slots and decodes to a `SpanningTree` of the grid -/
theorem C19_support_exact_tree {rows cols : Nat} (hr : 0 < rows) (hc : 0 < cols) (T : Nat) :
    (∃ n, 0 < P rows cols n T) ↔
      T < 2 ^ (2 * (rows * cols)) ∧ SpanningTree rows cols (edgesOfMask rows cols T) := by
  rw [C19_support_exact hr hc, C19_table_exact hr hc]

/-! ### almost-sure termination on EVERY grid: the unfinished mass decays geometrically, every `P n T` converges -/

/-- the state invariant behind the termination argument (`WTerm.Inv`: some in-grid cell is visited; the stored walk
    consists of unvisited in-grid cells) holds in every start state and is preserved by every draw -/
theorem C19_invariant {rows cols : Nat} (hr : 0 < rows) (hc : 0 < cols) :
    (∀ s ∈ starts rows cols, WTerm.Inv rows cols s) ∧
    ∀ s k, WTerm.Inv rows cols s → WTerm.Inv rows cols (next rows cols s k) :=
  ⟨fun _ hs => WTerm.inv_start hr hc hs, fun _ k hI => WTerm.inv_next hI k⟩

/-- quantitative "can finish" (EVERY grid, EVERY invariant state, in particular mid-walk): some draw list of length at
    most `termL rows cols = (rows*cols+1)*(rows+cols+1)`, each draw within its range, drives the executable machine
    to a finished state -/
theorem C19_can_finish_within {rows cols : Nat} {s : WS} (hI : WTerm.Inv rows cols s) :
    ∃ ds t, ds.length ≤ WTerm.termL rows cols ∧ runFrom rows cols s ds ds.length = some (t, []) := by
  obtain ⟨ds, t, hreach, hlen⟩ := WTerm.finish_from hI
  exact ⟨ds, t, hlen, reaches_runFrom hreach _ (le_refl _)⟩

/-- from EVERY invariant state the generator has returned within `termL` draws with probability at least
    `termDelta = (1 / max 4 (rows*cols)) ^ termL > 0`; equivalently it is still running with probability at most
    `1 - termDelta` -/
theorem C19_finish_probability {rows cols : Nat} {s : WS} (hI : WTerm.Inv rows cols s) :
    0 < WTerm.termDelta rows cols ∧
    WTerm.termDelta rows cols ≤ val (wilson rows cols) (fun _ => true) (WTerm.termL rows cols) s ∧
    unfin (wilson rows cols) (WTerm.termL rows cols) s ≤ 1 - WTerm.termDelta rows cols :=
  ⟨WTerm.termDelta_pos rows cols, WTerm.val_termL_ge hI, WTerm.unfin_termL_le hI⟩

/-- Markov-property bound: `termL` extra draws shrink the probability of still running by the factor `1 - termDelta`,
    from every invariant state and after any number `m` of draws -/
theorem C19_unfinished_contracts_state {rows cols : Nat} {s : WS} (hI : WTerm.Inv rows cols s) (m : Nat) :
    unfin (wilson rows cols) (m + WTerm.termL rows cols) s ≤
      (1 - WTerm.termDelta rows cols) * unfin (wilson rows cols) m s :=
  WTerm.unfin_add_termL_le hI m

private theorem start_inv {rows cols : Nat} (hr : 0 < rows) (hc : 0 < cols) :
    ∀ x ∈ start rows cols, WTerm.Inv rows cols x.1 := by
  intro x hx
  simp only [start, List.mem_map] at hx
  obtain ⟨s, hs, rfl⟩ := hx
  exact WTerm.inv_start hr hc hs

/-- the same for the generator started as `gen_wilson` starts it: `R (m + termL) ≤ (1 - termDelta) * R m` -/
theorem C19_unfinished_contracts {rows cols : Nat} (hr : 0 < rows) (hc : 0 < cols) (m : Nat) :
    R rows cols (m + WTerm.termL rows cols) ≤ (1 - WTerm.termDelta rows cols) * R rows cols m := by
  unfold R
  rw [← WTerm.expect_mul_left]
  exact WTerm.expect_mono_on (fun x hx => WTerm.unfin_add_termL_le (start_inv hr hc x hx) m)
    (start_weights_nonneg rows cols)

/-- geometric decay: after `k * termL` draws the generator is still running with probability at most
    `(1 - termDelta)^k` -/
theorem C19_geometric_decay {rows cols : Nat} (hr : 0 < rows) (hc : 0 < cols) (k : Nat) :
    R rows cols (k * WTerm.termL rows cols) ≤ (1 - WTerm.termDelta rows cols) ^ k := by
  have h := WTerm.expect_mono_on (f := unfin (wilson rows cols) (k * WTerm.termL rows cols))
    (g := fun _ => (1 - WTerm.termDelta rows cols) ^ k) (d := start rows cols)
    (fun x hx => WTerm.unfin_geometric (start_inv hr hc x hx) k) (start_weights_nonneg rows cols)
  rw [WTerm.expect_const, start_total, mul_one] at h
  exact h

/-- `gen_wilson` terminates almost surely on EVERY grid: the probability that it is still running after `m` draws
    tends to 0 (so the `while` loops hang with probability 0) -/
theorem C19_terminates_almost_surely (rows cols : Nat) (h : 0 < rows) (h' : 0 < cols) :
    ∀ eps : Rat, 0 < eps → ∃ n, ∀ m, n ≤ m → R rows cols m ≤ eps := by
  intro eps heps
  have hc1 : 1 - WTerm.termDelta rows cols < 1 := by have := WTerm.termDelta_pos rows cols; linarith
  obtain ⟨k, hk⟩ := WTerm.exists_pow_le hc1 heps
  exact ⟨k * WTerm.termL rows cols, fun m hm =>
    le_trans (C19_unfinished_anti rows cols hm) (le_trans (C19_geometric_decay h h' k) hk)⟩

private theorem pany_1x1 (m : Nat) : Pany 1 1 m = 1 := by
  have hs : starts 1 1 = [{ vis := 1, edges := 0, path := [] }] := by decide
  have hf : (wilson 1 1).fin { vis := 1, edges := 0, path := [] } = true := by decide
  unfold Pany start
  rw [hs]
  simp [expect, val_fin _ hf, ind]

/-- the probability that `gen_wilson` has returned a maze tends to 1, on EVERY grid -/
theorem C19_Pany_tends_to_one (rows cols : Nat) (h : 0 < rows) (h' : 0 < cols) :
    ∀ eps : Rat, 0 < eps → ∃ n, ∀ m, n ≤ m → 1 - eps ≤ Pany rows cols m ∧ Pany rows cols m ≤ 1 := by
  intro eps heps
  rcases Nat.lt_or_ge 1 (rows * cols) with h2 | h2
  · obtain ⟨n, hn⟩ := C19_terminates_almost_surely rows cols h h' eps heps
    refine ⟨n, fun m hm => ?_⟩
    have hmass := C19_mass rows cols m h2
    have hR := hn m hm
    have hR0 : 0 ≤ R rows cols m := by
      unfold R expect
      exact sum_map_nonneg fun x hx => mul_nonneg (start_weights_nonneg rows cols x hx) (unfin_nonneg _ _ _)
    constructor <;> linarith
  · have h1 : rows * cols = 1 := le_antisymm h2 (Nat.mul_pos h h')
    have hr1 : rows = 1 := by have := Nat.le_mul_of_pos_right rows h'; omega
    have hc1 : cols = 1 := by have := Nat.le_mul_of_pos_left cols h; omega
    subst hr1 hc1
    exact ⟨0, fun m _ => by rw [pany_1x1]; constructor <;> linarith⟩

/-- every `P n T` converges (Cauchy in `n`), on EVERY grid and for EVERY mask `T`: the law of the returned maze is a
    well-defined limit. From `n` on, any two values differ by at most `eps`. -/
theorem C19_P_cauchy (rows cols T : Nat) (h : 0 < rows) (h' : 0 < cols) :
    ∀ eps : Rat, 0 < eps → ∃ n, ∀ m k, n ≤ m → n ≤ k → |P rows cols k T - P rows cols m T| ≤ eps := by
  intro eps heps
  obtain ⟨n, hn⟩ := C19_terminates_almost_surely rows cols h h' eps heps
  refine ⟨n, fun m k hm hk => ?_⟩
  rw [abs_le]
  rcases Nat.le_total m k with hmk | hkm
  · obtain ⟨h1, h2⟩ := C19_sandwich rows cols T hmk
    have := hn m hm
    constructor <;> linarith
  · obtain ⟨h1, h2⟩ := C19_sandwich rows cols T hkm
    have := hn k hk
    constructor <;> linarith

/-- the limit is approached from below and the error after `n` draws is at most the unfinished mass, which is at most
    `(1 - termDelta)^k` once `n ≥ k * termL`: an explicit rate for every grid and every mask -/
theorem C19_P_rate (rows cols T : Nat) (h : 0 < rows) (h' : 0 < cols) (k : Nat) {n m : Nat}
    (hn : k * WTerm.termL rows cols ≤ n) (hnm : n ≤ m) :
    P rows cols n T ≤ P rows cols m T ∧ P rows cols m T ≤ P rows cols n T + (1 - WTerm.termDelta rows cols) ^ k := by
  obtain ⟨h1, h2⟩ := C19_sandwich rows cols T hnm
  have h3 := le_trans (C19_unfinished_anti rows cols hn) (C19_geometric_decay h h' k)
  exact ⟨h1, by linarith⟩

/-! ### non-vacuity -/

example : (allSpanningMasks 2 2) = [19, 67, 81, 82] := by decide
example : 3 ∈ allSpanningMasks 2 2 → False := by decide
example : ∃ T, T ∈ allSpanningMasks 2 2 := ⟨19, by decide⟩
example : run 2 2 [0, 0, 0, 0, 0, 1, 0, 0] 6 = some ({ vis := 15, edges := 81, path := [] }, []) := by decide
-- the refinement / support theorems apply to that completed run (mask 81 = connections (0,0,0), (1,0,0), (1,1,0))
example : SpanningTree 2 2 (edgesOfMask 2 2 81) :=
  C19_support_sub (rows := 2) (cols := 2) (by decide) (by decide) (draws := [0, 0, 0, 0, 0, 1, 0, 0]) (fuel := 6)
    (s := { vis := 15, edges := 81, path := [] }) (rest := []) (by decide)
example : ∃ fuel' w, genWilsonTop 2 2 [0, 0, 0, 0, 0, 1, 0, 0] fuel' = some w ∧ w.rng = [] ∧
    (∀ e, e ∈ w.E ↔ e ∈ edgesOfMask 2 2 81) ∧ w.E.Perm (edgesOfMask 2 2 81) :=
  C19_machine_refines_nested (rows := 2) (cols := 2) (by decide) (by decide) (fuel := 6)
    (s := { vis := 15, edges := 81, path := [] }) (by decide)
example : edgesOfMask 2 2 81 = [(0, 0, 0), (1, 0, 0), (1, 1, 0)] := by decide
example : isSpanningMask 2 2 81 = true := by decide
example : SpanningTree 2 3 (edgesOfMask 2 3 199) := C19_isSpanningMask_sound (by decide) (by decide) (by decide)
example : ∀ T ∈ allSpanningMasks 2 2, SpanningTree 2 2 (edgesOfMask 2 2 T) := C19_table_masks_are_trees (by decide) (by decide)
example : isSpanningMask 2 2 81 = true ↔ SpanningTree 2 2 (edgesOfMask 2 2 81) :=
  C19_isSpanningMask_iff (by decide) (by decide) (by decide)
example : 81 ∈ allSpanningMasks 2 2 ↔ 81 < 2 ^ (2 * (2 * 2)) ∧ SpanningTree 2 2 (edgesOfMask 2 2 81) :=
  C19_table_exact (by decide) (by decide)
example : 81 ∈ allSpanningMasks 2 2 :=
  C19_support_in_table (rows := 2) (cols := 2) (by decide) (by decide) (draws := [0, 0, 0, 0, 0, 1, 0, 0]) (fuel := 6)
    (s := { vis := 15, edges := 81, path := [] }) (rest := []) (by decide)
-- 3 = both vertical connections, nothing else: not a spanning tree, hence never returned
example : P 2 2 50 3 = 0 := C19_outside_table_zero (by decide) (by decide) (by decide) 50

-- support ⊇ trees: a grid outside the evaluated tables (3x4, comb tree: all 8 vertical connections + the top row)
example : isSpanningMask 3 4 28927 = true := by decide
example : ∃ a b ds s, run 3 4 (a :: b :: ds) ds.length = some (s, []) ∧ s.edges = 28927 :=
  C19_support_all (by decide) (by decide) (WRef.mem_allSpanningMasks.mpr (by decide))
example : ∃ a b ds s, run 2 2 (a :: b :: ds) ds.length = some (s, []) ∧ s.edges = 81 :=
  C19_support_all_tree (by decide) (by decide) (by decide)
    ((C19_table_exact (by decide) (by decide)).mp (by decide)).2
-- the 1x1 grid: the only spanning tree is the empty mask, returned with no draw at all
example : allSpanningMasks 1 1 = [0] := by decide
example : run 1 1 [0, 0] 0 = some ({ vis := 1, edges := 0, path := [] }, []) := by decide
example : ∃ n, 0 < P 3 4 n 28927 :=
  C19_every_tree_positive (by decide) (by decide) (WRef.mem_allSpanningMasks.mpr (by decide))
example : ∃ n0, ∀ n, n0 ≤ n → 0 < P 3 4 n 28927 :=
  C19_every_tree_positive_eventually (by decide) (by decide) (WRef.mem_allSpanningMasks.mpr (by decide))
-- both directions of the support characterisation are exercised: 81 is a tree, 3 is not
example : ∃ n, 0 < P 2 2 n 81 := (C19_support_exact (by decide) (by decide) 81).mpr (by decide)
example : ¬ ∃ n, 0 < P 2 2 n 3 := fun h => absurd ((C19_support_exact (by decide) (by decide) 3).mp h) (by decide)
example : (∃ n, 0 < P 2 2 n 81) ↔ 81 < 2 ^ (2 * (2 * 2)) ∧ SpanningTree 2 2 (edgesOfMask 2 2 81) :=
  C19_support_exact_tree (by decide) (by decide) 81

-- termination: the constants are explicit, the invariant covers mid-walk states, the theorems apply to a grid outside
-- the evaluated tables
example : WTerm.termL 2 2 = 25 ∧ WTerm.termA 2 2 = 4 ∧ WTerm.termL 3 4 = 104 ∧ WTerm.termA 3 4 = 12 := by decide
example : WTerm.termDelta 2 2 = (1 / 4) ^ 25 := by norm_num [WTerm.termDelta, WTerm.termA, WTerm.termL]
example : WTerm.Inv 2 2 { vis := 1, edges := 0, path := [] } :=
  (C19_invariant (rows := 2) (cols := 2) (by decide) (by decide)).1 _
    (by rw [show starts 2 2 = [{ vis := 1, edges := 0, path := [] }] by decide]; simp)
-- a mid-walk state of the 3x3 grid (cells 0,1 visited, the walk stands at 8 -> 7 -> 4): invariant, one more draw
example : WTerm.Inv 3 3 { vis := 3, edges := 512, path := [8, 7, 4] } :=
  ⟨⟨0, by decide, by decide⟩, by decide, by decide⟩
example : WTerm.Inv 3 3 (next 3 3 { vis := 3, edges := 512, path := [8, 7, 4] } 3) :=
  (C19_invariant (rows := 3) (cols := 3) (by decide) (by decide)).2 _ 3 ⟨⟨0, by decide, by decide⟩, by decide, by decide⟩
example : next 3 3 { vis := 3, edges := 512, path := [8, 7, 4] } 3 = { vis := 403, edges := 66066, path := [] } := by decide
example : ∃ ds t, ds.length ≤ WTerm.termL 3 3 ∧ runFrom 3 3 { vis := 3, edges := 512, path := [8, 7, 4] } ds ds.length = some (t, []) :=
  C19_can_finish_within ⟨⟨0, by decide, by decide⟩, by decide, by decide⟩
example : 0 < WTerm.termDelta 3 3 ∧
    WTerm.termDelta 3 3 ≤ val (wilson 3 3) (fun _ => true) (WTerm.termL 3 3) { vis := 3, edges := 512, path := [8, 7, 4] } ∧
    unfin (wilson 3 3) (WTerm.termL 3 3) { vis := 3, edges := 512, path := [8, 7, 4] } ≤ 1 - WTerm.termDelta 3 3 :=
  C19_finish_probability ⟨⟨0, by decide, by decide⟩, by decide, by decide⟩
example : unfin (wilson 3 3) (7 + WTerm.termL 3 3) { vis := 3, edges := 512, path := [8, 7, 4] } ≤
    (1 - WTerm.termDelta 3 3) * unfin (wilson 3 3) 7 { vis := 3, edges := 512, path := [8, 7, 4] } :=
  C19_unfinished_contracts_state ⟨⟨0, by decide, by decide⟩, by decide, by decide⟩ 7
example : R 3 4 (5 + WTerm.termL 3 4) ≤ (1 - WTerm.termDelta 3 4) * R 3 4 5 := C19_unfinished_contracts (by decide) (by decide) 5
example : R 3 4 (2 * WTerm.termL 3 4) ≤ (1 - WTerm.termDelta 3 4) ^ 2 := C19_geometric_decay (by decide) (by decide) 2
example : ∃ n, ∀ m, n ≤ m → R 5 7 m ≤ 1 / 1000000 := C19_terminates_almost_surely 5 7 (by decide) (by decide) _ (by norm_num)
example : ∃ n, ∀ m, n ≤ m → 1 - 1 / 1000000 ≤ Pany 5 7 m ∧ Pany 5 7 m ≤ 1 :=
  C19_Pany_tends_to_one 5 7 (by decide) (by decide) _ (by norm_num)
example : ∃ n, ∀ m, n ≤ m → 1 - 1 / 2 ≤ Pany 1 1 m ∧ Pany 1 1 m ≤ 1 := C19_Pany_tends_to_one 1 1 (by decide) (by decide) _ (by norm_num)
example : ∃ n, ∀ m k, n ≤ m → n ≤ k → |P 3 4 k 28927 - P 3 4 m 28927| ≤ 1 / 1000000 :=
  C19_P_cauchy 3 4 28927 (by decide) (by decide) _ (by norm_num)
example : P 3 4 208 28927 ≤ P 3 4 300 28927 ∧ P 3 4 300 28927 ≤ P 3 4 208 28927 + (1 - WTerm.termDelta 3 4) ^ 2 :=
  C19_P_rate 3 4 28927 (by decide) (by decide) 2 (by decide) (by decide)
-- the contraction factor is a genuine contraction: 0 <= 1 - termDelta < 1
example : 0 ≤ 1 - WTerm.termDelta 3 4 ∧ 1 - WTerm.termDelta 3 4 < 1 :=
  ⟨by have := WTerm.termDelta_le_one 3 4; linarith, by have := WTerm.termDelta_pos 3 4; linarith⟩

-- the 10-cell tables: the comb trees of the 2x5 grid (all 5 vertical connections + the top row, mask 15391) and of the
-- 5x2 grid (all 5 horizontal connections + the left column, mask 349269) are table entries, so the uniform law pins
-- their probability at every time from 500 draws on, and some run of the executable machine returns them
example : isSpanningMask 2 5 15391 = true ∧ isSpanningMask 5 2 349269 = true := by decide
example : R 2 5 700 ≤ eps9 ∧ 1 / (209 : Rat) - eps9 ≤ P 2 5 700 15391 ∧ P 2 5 700 15391 ≤ 1 / (209 : Rat) + eps9 :=
  have h := C19_uniform_2x5.2.2 700 (by decide)
  ⟨h.1, h.2 15391 (WRef.mem_allSpanningMasks.mpr (by decide))⟩
example : R 5 2 500 ≤ eps9 ∧ 1 / (209 : Rat) - eps9 ≤ P 5 2 500 349269 ∧ P 5 2 500 349269 ≤ 1 / (209 : Rat) + eps9 :=
  have h := C19_uniform_5x2.2.2 500 (by decide)
  ⟨h.1, h.2 349269 (WRef.mem_allSpanningMasks.mpr (by decide))⟩
example : (allSpanningMasks 2 5).length = 209 ∧ (allSpanningMasks 5 2).length = 209 :=
  ⟨C19_full_partial8_holds.2.1.1, C19_full_partial8_holds.2.2.1⟩
example : ∃ a b ds s, run 2 5 (a :: b :: ds) ds.length = some (s, []) ∧ s.edges = 15391 :=
  C19_every_tree_appears_2x5 15391 (WRef.mem_allSpanningMasks.mpr (by decide))
example : ∃ a b ds s, run 5 2 (a :: b :: ds) ds.length = some (s, []) ∧ s.edges = 349269 :=
  C19_every_tree_appears_5x2 349269 (WRef.mem_allSpanningMasks.mpr (by decide))

end MZ.C19
