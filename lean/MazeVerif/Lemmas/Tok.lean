import MazeVerif.Model.Tok
/-! Round-trip lemmas for coordinate tokens and the generic `parseMany` lemma. -/
namespace MZ.Tok

theorem eat_opt (b : Bool) (t : Tok) (rest : List Tok) : eat b t (opt b t ++ rest) = some rest := by
  cases b <;> simp [eat, opt]

theorem parseCoord_coordToks (ct : CoordTok) (c : C) (rest : List Tok) :
    parseCoord ct (coordToks ct c ++ rest) = some (c, rest) := by
  cases ct with
  | ut => simp [coordToks, parseCoord]
  | ctt pre intra post =>
    cases pre <;> cases intra <;> cases post <;> simp [coordToks, parseCoord, opt, eat]

/-- no region delimiter occurs in the list -/
def NoDelim (l : List Tok) : Prop := ∀ t ∈ l, t.isDelim = false

theorem NoDelim.append {a b : List Tok} (ha : NoDelim a) (hb : NoDelim b) : NoDelim (a ++ b) := by
  intro t ht; rcases List.mem_append.1 ht with h | h
  · exact ha t h
  · exact hb t h

theorem NoDelim.nil : NoDelim [] := by intro t ht; cases ht

theorem noDelim_opt (b : Bool) (t : Tok) (h : t.isDelim = false) : NoDelim (opt b t) := by
  intro x hx; cases b
  · simp [opt] at hx
  · simp [opt] at hx; subst hx; exact h

theorem noDelim_coordToks (ct : CoordTok) (c : C) : NoDelim (coordToks ct c) := by
  cases ct with
  | ut => simp [NoDelim, coordToks, Tok.isDelim]
  | ctt pre intra post =>
    cases pre <;> cases intra <;> cases post <;> simp [NoDelim, coordToks, opt, Tok.isDelim]

theorem coordToks_ne_nil (ct : CoordTok) (c : C) : coordToks ct c ≠ [] := by
  cases ct with
  | ut => simp [coordToks]
  | ctt pre intra post => cases pre <;> simp [coordToks, opt]

/-- a non-empty delimiter-free list starts with a token different from any delimiter -/
theorem head_ne_of_noDelim {l : List Tok} {stop : Tok} (hne : l ≠ []) (hnd : NoDelim l) (hs : stop.isDelim = true) :
    ∃ t ts, l = t :: ts ∧ t ≠ stop := by
  cases l with
  | nil => exact absurd rfl hne
  | cons t ts =>
    refine ⟨t, ts, rfl, ?_⟩
    intro h; have := hnd t (by simp); rw [h, hs] at this; cases this

/-- generic round trip of `parseMany`: items whose encodings are non-empty, do not start with `stop`, and are read back by `p` -/
theorem parseMany_items {α} (stop : Tok) (p : List Tok → Option (α × List Tok)) (rest : List Tok) :
    ∀ (items : List (α × List Tok)),
      (∀ it ∈ items, (∃ t ts, it.2 = t :: ts ∧ t ≠ stop) ∧ ∀ r, p (it.2 ++ r) = some (it.1, r)) →
      ∀ fuel, items.length < fuel →
      parseMany stop p fuel ((items.map (·.2)).flatten ++ stop :: rest) = some (items.map (·.1), stop :: rest)
  | [], _, fuel, hf => by
    cases fuel with
    | zero => omega
    | succ f => simp [parseMany]
  | it :: its, h, fuel, hf => by
    cases fuel with
    | zero => omega
    | succ f =>
      obtain ⟨⟨t, ts, hts, hne⟩, hp⟩ := h it (by simp)
      have ih := parseMany_items stop p rest its (fun x hx => h x (by simp [hx])) f (by simp at hf; omega)
      have hp' := hp ((its.map (·.2)).flatten ++ stop :: rest)
      simp only [List.map_cons, List.flatten_cons, List.append_assoc]
      rw [hts] at hp' ⊢
      simp only [List.cons_append] at hp' ⊢
      simp only [parseMany, hne, if_false, hp', ih]

end MZ.Tok
