import MazeVerif.Model.WilsonProb
import Mathlib.Tactic.Ring
import Mathlib.Tactic.Linarith
import Mathlib.Tactic.FieldSimp
import Mathlib.Algebra.Order.Field.Rat
import Mathlib.Algebra.Order.Field.Basic
import Mathlib.Algebra.Order.BigOperators.Group.List
import Mathlib.Algebra.BigOperators.Group.List.Basic
/-! Probability semantics of a draw-driven step machine (C19): monotonicity, the sandwich bound, conservation of
    mass, additivity over disjoint targets, and agreement of the backward (`val`/`unfin`) and forward (`dist`) views.
    All statements are for EVERY machine, every number of draws and every start state/distribution. -/
namespace MZ.WProb

variable {σ : Type} (M : Machine σ)

theorem ind_nonneg (b : Bool) : 0 ≤ ind b := by unfold ind; split <;> norm_num
theorem ind_le_one (b : Bool) : ind b ≤ 1 := by unfold ind; split <;> norm_num

/-! ### list-sum helpers -/

theorem sum_map_le {α : Type} {l : List α} {f g : α → Rat} (h : ∀ x ∈ l, f x ≤ g x) :
    (l.map f).sum ≤ (l.map g).sum := by
  induction l with
  | nil => simp
  | cons a l ih =>
    simp only [List.map_cons, List.sum_cons]
    have h1 := h a (by simp)
    have h2 := ih (fun x hx => h x (by simp [hx]))
    linarith

theorem sum_map_nonneg {α : Type} {l : List α} {f : α → Rat} (h : ∀ x ∈ l, 0 ≤ f x) : 0 ≤ (l.map f).sum := by
  have := sum_map_le (l := l) (f := fun _ => (0 : Rat)) (g := f) h
  simpa using this

theorem sum_map_le_length {α : Type} {l : List α} {f : α → Rat} (h : ∀ x ∈ l, f x ≤ 1) :
    (l.map f).sum ≤ (l.length : Rat) := by
  induction l with
  | nil => simp
  | cons a l ih =>
    simp only [List.map_cons, List.sum_cons, List.length_cons, Nat.cast_add, Nat.cast_one]
    have h1 := h a (by simp)
    have h2 := ih (fun x hx => h x (by simp [hx]))
    linarith

theorem sum_map_add {α : Type} (l : List α) (f g : α → Rat) :
    (l.map fun x => f x + g x).sum = (l.map f).sum + (l.map g).sum := by
  induction l with
  | nil => simp
  | cons a l ih => simp only [List.map_cons, List.sum_cons, ih]; ring

theorem sum_map_mul_left' {α : Type} (l : List α) (c : Rat) (f : α → Rat) :
    (l.map fun x => c * f x).sum = c * (l.map f).sum := by
  induction l with
  | nil => simp
  | cons a l ih => simp only [List.map_cons, List.sum_cons, ih]; ring

theorem sum_map_const_one {α : Type} (l : List α) : (l.map fun _ => (1 : Rat)).sum = (l.length : Rat) := by
  induction l with
  | nil => simp
  | cons a l ih => simp only [List.map_cons, List.sum_cons, ih, List.length_cons, Nat.cast_add, Nat.cast_one]; ring

/-- the average over the next draw -/
def avg (M : Machine σ) (g : σ → Rat) (s : σ) : Rat :=
  ((List.range (M.arity s)).map fun k => g (M.next s k)).sum / (M.arity s : Rat)

theorem avg_mono {g h : σ → Rat} (hgh : ∀ s, g s ≤ h s) (s : σ) : avg M g s ≤ avg M h s := by
  unfold avg
  apply div_le_div_of_nonneg_right (sum_map_le fun k _ => hgh _) (Nat.cast_nonneg _)

theorem avg_nonneg {g : σ → Rat} (hg : ∀ s, 0 ≤ g s) (s : σ) : 0 ≤ avg M g s := by
  unfold avg
  exact div_nonneg (sum_map_nonneg fun k _ => hg _) (Nat.cast_nonneg _)

theorem avg_le_one {g : σ → Rat} (hg : ∀ s, g s ≤ 1) (s : σ) : avg M g s ≤ 1 := by
  unfold avg
  rcases Nat.eq_zero_or_pos (M.arity s) with h0 | hpos
  · simp [h0]
  · have hp : (0 : Rat) < (M.arity s : Rat) := by exact_mod_cast hpos
    rw [div_le_one hp]
    have := sum_map_le_length (l := List.range (M.arity s)) (f := fun k => g (M.next s k)) (fun k _ => hg _)
    simpa using this

theorem avg_add (g h : σ → Rat) (s : σ) : avg M (fun x => g x + h x) s = avg M g s + avg M h s := by
  unfold avg
  rw [sum_map_add, add_div]

theorem avg_one (s : σ) (hpos : 0 < M.arity s) : avg M (fun _ => 1) s = 1 := by
  unfold avg
  rw [sum_map_const_one]
  have hp : (0 : Rat) < (M.arity s : Rat) := by exact_mod_cast hpos
  simp [ne_of_gt hp]

theorem val_succ (tgt : σ → Bool) (n : Nat) (s : σ) :
    val M tgt (n + 1) s = if M.fin s then ind (tgt s) else avg M (val M tgt n) s := rfl

theorem unfin_succ (n : Nat) (s : σ) :
    unfin M (n + 1) s = if M.fin s then 0 else avg M (unfin M n) s := rfl

/-! ### the backward view -/

theorem val_fin {tgt : σ → Bool} {s : σ} (h : M.fin s = true) : ∀ n, val M tgt n s = ind (tgt s)
  | 0 => by simp [val, h]
  | n + 1 => by simp [val_succ, h]

theorem unfin_fin {s : σ} (h : M.fin s = true) : ∀ n, unfin M n s = 0
  | 0 => by simp [unfin, h, ind]
  | n + 1 => by simp [unfin_succ, h]

theorem val_nonneg (tgt : σ → Bool) : ∀ n s, 0 ≤ val M tgt n s
  | 0, s => by simp only [val]; exact ind_nonneg _
  | n + 1, s => by
    rw [val_succ]; split
    · exact ind_nonneg _
    · exact avg_nonneg M (val_nonneg tgt n) s

theorem val_le_one (tgt : σ → Bool) : ∀ n s, val M tgt n s ≤ 1
  | 0, s => by simp only [val]; exact ind_le_one _
  | n + 1, s => by
    rw [val_succ]; split
    · exact ind_le_one _
    · exact avg_le_one M (val_le_one tgt n) s

theorem unfin_nonneg : ∀ n s, 0 ≤ unfin M n s
  | 0, s => by simp only [unfin]; exact ind_nonneg _
  | n + 1, s => by
    rw [unfin_succ]; split
    · exact le_refl _
    · exact avg_nonneg M (unfin_nonneg n) s

theorem unfin_le_one : ∀ n s, unfin M n s ≤ 1
  | 0, s => by simp only [unfin]; exact ind_le_one _
  | n + 1, s => by
    rw [unfin_succ]; split
    · norm_num
    · exact avg_le_one M (unfin_le_one n) s

/-- more draws can only add finished mass -/
theorem val_mono_step (tgt : σ → Bool) : ∀ n s, val M tgt n s ≤ val M tgt (n + 1) s
  | 0, s => by
    rw [val_succ]
    cases h : M.fin s
    · have h0 : val M tgt 0 s = 0 := by simp [val, h, ind]
      rw [h0]; simp only [Bool.false_eq_true, if_false]
      exact avg_nonneg M (val_nonneg M tgt 0) s
    · simp [val, h]
  | n + 1, s => by
    rw [val_succ M tgt (n + 1), val_succ M tgt n]
    split
    · exact le_refl _
    · exact avg_mono M (val_mono_step tgt n) s

theorem val_mono (tgt : σ → Bool) {n m : Nat} (h : n ≤ m) (s : σ) : val M tgt n s ≤ val M tgt m s := by
  induction h with
  | refl => exact le_refl _
  | step _ ih => exact le_trans ih (val_mono_step M tgt _ s)

/-- more draws can only remove unfinished mass -/
theorem unfin_anti_step : ∀ n s, unfin M (n + 1) s ≤ unfin M n s
  | 0, s => by
    rw [unfin_succ]
    cases h : M.fin s
    · have h0 : unfin M 0 s = 1 := by simp [unfin, h, ind]
      rw [h0]; simp only [Bool.false_eq_true, if_false]
      exact avg_le_one M (unfin_le_one M 0) s
    · simp [unfin, h, ind]
  | n + 1, s => by
    rw [unfin_succ M (n + 1), unfin_succ M n]
    split
    · exact le_refl _
    · exact avg_mono M (unfin_anti_step n) s

theorem unfin_anti {n m : Nat} (h : n ≤ m) (s : σ) : unfin M m s ≤ unfin M n s := by
  induction h with
  | refl => exact le_refl _
  | step _ ih => exact le_trans (unfin_anti_step M _ s) ih

/-- whatever happens after `n` draws, the finished-in-target mass can grow by at most the unfinished mass -/
theorem val_upper (tgt : σ → Bool) : ∀ n k s, val M tgt (n + k) s ≤ val M tgt n s + unfin M n s
  | 0, k, s => by
    cases h : M.fin s
    · have := val_le_one M tgt (0 + k) s
      simp only [val, unfin, h, Bool.false_and, Bool.not_false, ind]
      simpa using this
    · rw [val_fin M h, val_fin M h, unfin_fin M h]; simp
  | n + 1, k, s => by
    have e : n + 1 + k = (n + k) + 1 := by omega
    rw [e, val_succ, val_succ, unfin_succ]
    split
    · simp
    · rw [← avg_add]
      exact avg_mono M (fun x => val_upper tgt n k x) s

/-- the sandwich: for all `m ≥ n`, `val n ≤ val m ≤ val n + unfin n` -/
theorem val_sandwich (tgt : σ → Bool) {n m : Nat} (h : n ≤ m) (s : σ) :
    val M tgt n s ≤ val M tgt m s ∧ val M tgt m s ≤ val M tgt n s + unfin M n s := by
  refine ⟨val_mono M tgt h s, ?_⟩
  obtain ⟨k, rfl⟩ := Nat.exists_eq_add_of_le h
  exact val_upper M tgt n k s

/-- conservation of mass: finished + unfinished = 1, provided an unfinished state always has a next draw -/
theorem val_true_add_unfin (harity : ∀ s, M.fin s = false → 0 < M.arity s) :
    ∀ n s, val M (fun _ => true) n s + unfin M n s = 1
  | 0, s => by cases h : M.fin s <;> simp [val, unfin, h, ind]
  | n + 1, s => by
    rw [val_succ, unfin_succ]
    cases h : M.fin s
    · simp only [Bool.false_eq_true, if_false]
      rw [← avg_add]
      have : (fun x => val M (fun _ => true) n x + unfin M n x) = fun _ => (1 : Rat) :=
        funext fun x => val_true_add_unfin harity n x
      rw [this]
      exact avg_one M s (harity s h)
    · simp [ind]

/-- additivity over disjoint targets -/
theorem val_or {t1 t2 : σ → Bool} (hd : ∀ s, ¬(t1 s = true ∧ t2 s = true)) :
    ∀ n s, val M (fun x => t1 x || t2 x) n s = val M t1 n s + val M t2 n s
  | 0, s => by
    have := hd s
    cases h : M.fin s <;> cases h1 : t1 s <;> cases h2 : t2 s <;> simp_all [val, ind]
  | n + 1, s => by
    rw [val_succ, val_succ, val_succ]
    cases h : M.fin s
    · simp only [Bool.false_eq_true, if_false]
      rw [← avg_add]
      congr 1
      exact funext fun x => val_or hd n x
    · have := hd s
      cases h1 : t1 s <;> cases h2 : t2 s <;> simp_all [ind]

theorem val_false : ∀ n s, val M (fun _ => false) n s = 0
  | 0, s => by simp [val, ind]
  | n + 1, s => by
    rw [val_succ]
    split
    · simp [ind]
    · unfold avg
      have : (fun k => val M (fun _ => false) n (M.next s k)) = fun _ => (0 : Rat) :=
        funext fun k => val_false n _
      rw [this]; simp

/-- the mass of "the key is one of `Ts`" is the sum of the masses of the single keys (`Ts` duplicate-free) -/
theorem val_keys {κ : Type} [DecidableEq κ] (key : σ → κ) :
    ∀ (Ts : List κ), Ts.Nodup → ∀ n s,
      val M (fun x => decide (key x ∈ Ts)) n s = (Ts.map fun T => val M (fun x => decide (key x = T)) n s).sum
  | [], _, n, s => by simpa using val_false M n s
  | T :: Ts, hnd, n, s => by
    have hT : T ∉ Ts := (List.nodup_cons.mp hnd).1
    have hd : ∀ x, ¬(decide (key x = T) = true ∧ decide (key x ∈ Ts) = true) := by
      intro x ⟨h1, h2⟩
      simp only [decide_eq_true_eq] at h1 h2
      exact hT (h1 ▸ h2)
    have e : (fun x => decide (key x ∈ T :: Ts)) = fun x => decide (key x = T) || decide (key x ∈ Ts) := by
      funext x; simp [List.mem_cons]
    rw [e, val_or M hd, val_keys key Ts (List.nodup_cons.mp hnd).2]
    simp

/-! ### the forward view -/

theorem expect_nil (f : σ → Rat) : expect f [] = 0 := rfl
theorem expect_cons (f : σ → Rat) (x : σ × Rat) (d : List (σ × Rat)) :
    expect f (x :: d) = x.2 * f x.1 + expect f d := by simp [expect]
theorem expect_append (f : σ → Rat) (d e : List (σ × Rat)) : expect f (d ++ e) = expect f d + expect f e := by
  simp [expect]

theorem expect_perm (f : σ → Rat) {d e : List (σ × Rat)} (h : d.Perm e) : expect f d = expect f e := by
  unfold expect
  exact (h.map _).sum_eq

theorem expect_combine [DecidableEq σ] (f : σ → Rat) : ∀ d : List (σ × Rat), expect f (combine d) = expect f d := by
  intro d
  induction d using combine.induct with
  | case1 => simp [combine]
  | case2 x => simp [combine]
  | case3 x y rest heq ih =>
    rw [combine, if_pos heq, ih, expect_cons, expect_cons, expect_cons]
    simp only [heq]; ring
  | case4 x y rest hne ih =>
    rw [combine, if_neg hne, expect_cons, ih, expect_cons f x (y :: rest)]

theorem expect_merge [DecidableEq σ] (f : σ → Rat) (key : σ → Nat) (d : List (σ × Rat)) :
    expect f (merge key d) = expect f d := by
  unfold merge
  rw [expect_combine]
  exact expect_perm f (List.mergeSort_perm _ _)

/-- pushing the distribution one draw ahead = averaging the function one draw back -/
theorem expect_push (g g' : σ → Rat) (hfin : ∀ s, M.fin s = true → g' s = g s)
    (hstep : ∀ s, M.fin s = false → g' s = avg M g s) :
    ∀ d : List (σ × Rat), expect g' d = expect g (push M d)
  | [] => by simp [push, expect]
  | x :: d => by
    have ih := expect_push g g' hfin hstep d
    unfold push at *
    rw [List.flatMap_cons, expect_append, expect_cons, ih]
    congr 1
    cases h : M.fin x.1
    · simp only [Bool.false_eq_true, if_false]
      rw [hstep _ h]
      unfold avg expect
      rw [List.map_map]
      simp only [Function.comp_def]
      rw [sum_map_mul_left' (List.range (M.arity x.1)) (x.2 / (M.arity x.1 : Rat)) (fun k => g (M.next x.1 k))]
      ring
    · simp only [if_true]
      rw [hfin _ h, expect_cons, expect_nil]; ring

theorem expect_val_push (tgt : σ → Bool) (n : Nat) (d : List (σ × Rat)) :
    expect (val M tgt (n + 1)) d = expect (val M tgt n) (push M d) :=
  expect_push M _ _ (fun s h => by rw [val_fin M h, val_fin M h]) (fun s h => by simp [val_succ, h]) d

theorem expect_unfin_push (n : Nat) (d : List (σ × Rat)) :
    expect (unfin M (n + 1)) d = expect (unfin M n) (push M d) :=
  expect_push M _ _ (fun s h => by rw [unfin_fin M h, unfin_fin M h]) (fun s h => by simp [unfin_succ, h]) d

/-- forward = backward: the `n`-draw value under `d0` is the `k`-draw value under the law after `n-k`... stated at `k = 0` -/
theorem expect_val_dist [DecidableEq σ] (tgt : σ → Bool) (key : σ → Nat) (d0 : List (σ × Rat)) :
    ∀ n k, expect (val M tgt (n + k)) d0 = expect (val M tgt k) (dist M key d0 n)
  | 0, k => by simp [dist]
  | n + 1, k => by
    have e : n + 1 + k = n + (k + 1) := by omega
    rw [e, expect_val_dist tgt key d0 n (k + 1), expect_val_push]
    simp only [dist]
    rw [expect_merge]

theorem expect_unfin_dist [DecidableEq σ] (key : σ → Nat) (d0 : List (σ × Rat)) :
    ∀ n k, expect (unfin M (n + k)) d0 = expect (unfin M k) (dist M key d0 n)
  | 0, k => by simp [dist]
  | n + 1, k => by
    have e : n + 1 + k = n + (k + 1) := by omega
    rw [e, expect_unfin_dist key d0 n (k + 1), expect_unfin_push]
    simp only [dist]
    rw [expect_merge]

theorem massFin_eq [DecidableEq σ] (tgt : σ → Bool) (key : σ → Nat) (d0 : List (σ × Rat)) (n : Nat) :
    massFin M tgt (dist M key d0 n) = expect (val M tgt n) d0 := by
  have := expect_val_dist M tgt key d0 n 0
  simpa [massFin, val] using this.symm

theorem massUnfin_eq [DecidableEq σ] (key : σ → Nat) (d0 : List (σ × Rat)) (n : Nat) :
    massUnfin M (dist M key d0 n) = expect (unfin M n) d0 := by
  have := expect_unfin_dist M key d0 n 0
  simpa [massUnfin, unfin] using this.symm

/-! ### expectations inherit the pointwise bounds (non-negative weights) -/

theorem expect_mono {f g : σ → Rat} (hfg : ∀ s, f s ≤ g s) {d : List (σ × Rat)} (hw : ∀ x ∈ d, 0 ≤ x.2) :
    expect f d ≤ expect g d := by
  unfold expect
  exact sum_map_le fun x hx => mul_le_mul_of_nonneg_left (hfg _) (hw x hx)

theorem expect_add (f g : σ → Rat) (d : List (σ × Rat)) :
    expect (fun s => f s + g s) d = expect f d + expect g d := by
  unfold expect
  rw [← sum_map_add]
  congr 1
  exact List.map_congr_left fun x _ => by ring

end MZ.WProb
