import MazeVerif.Model.Grid
/-! Pixel / ASCII renderings and their readers (property C10; reused by C17).
    Mirrors maze_dataset/maze/lattice_maze.py:
      `_as_pixels_bw` / `as_pixels`, `_from_pixel_grid_bw`, `_from_pixel_grid_with_positions`, `from_pixels`
      (incl. the solution re-ordering walk), `_as_ascii_grid` / `as_ascii` / `from_ascii`, `detect_pixels_type`,
      `color_in_pixel_grid`, `get_coord_neighbors`, `nodes_connected`.
    An image (numpy array of shape `(h, w)` with entries of type `α`; RGB images have `α = RGB`) is a pair of
    dimensions and a pixel function; numpy item assignment is function update, so the painting order of the
    Python code is kept literally.  Only pixels with `x < h ∧ y < w` are meaningful.
    Colours and characters are literal here and tied to `Generated/Constants.lean` in `Lemmas/Pixels.lean`. -/
namespace MZ.Pix

abbrev RGB := Nat × Nat × Nat

/-- `PixelColors` -/
def cWall : RGB := (0, 0, 0)
def cOpen : RGB := (255, 255, 255)
def cStart : RGB := (0, 255, 0)
def cEnd : RGB := (255, 0, 0)
def cPath : RGB := (0, 0, 255)
/-- `AsciiChars` -/
def chWall : Char := '#'
def chOpen : Char := ' '
def chStart : Char := 'S'
def chEnd : Char := 'E'
def chPath : Char := 'X'
/-- `ASCII_PIXEL_PAIRINGS` in dict order -/
def pairings : List (Char × RGB) :=
  [(chWall, cWall), (chOpen, cOpen), (chStart, cStart), (chEnd, cEnd), (chPath, cPath)]

/-- exception classes the modelled code can raise -/
inductive Err | value | assertion | index | shape | fuel
  deriving DecidableEq, Repr

structure Img (α : Type) where
  h : Nat
  w : Nat
  px : Nat → Nat → α

namespace Img
variable {α β : Type}
def full (h w : Nat) (a : α) : Img α := ⟨h, w, fun _ _ => a⟩
def get? (g : Img α) (x y : Nat) : Option α := if x < g.h ∧ y < g.w then some (g.px x y) else none
/-- `g[x, y] = a` for in-range non-negative indices -/
def set (g : Img α) (x y : Nat) (a : α) : Img α :=
  ⟨g.h, g.w, fun x' y' => if x' = x ∧ y' = y then a else g.px x' y'⟩
def map (f : α → β) (g : Img α) : Img β := ⟨g.h, g.w, fun x y => f (g.px x y)⟩
/-- `g[g == a] = b` (boolean-mask assignment of one value) -/
def recolor [DecidableEq α] (g : Img α) (a b : α) : Img α :=
  ⟨g.h, g.w, fun x y => if g.px x y = a then b else g.px x y⟩
def toLists (g : Img α) : List (List α) :=
  (List.range g.h).map fun x => (List.range g.w).map fun y => g.px x y
/-- rows of equal length → image; `none` for a ragged list (numpy refuses it) -/
def ofLists (dflt : α) (l : List (List α)) : Option (Img α) :=
  match l with
  | [] => some ⟨0, 0, fun _ _ => dflt⟩
  | r :: _ =>
    if l.all (fun r' => r'.length == r.length) then
      some ⟨l.length, r.length, fun x y => match l[x]? with
        | some row => (match row[y]? with | some a => a | none => dflt)
        | none => dflt⟩
    else none
end Img

/-- numpy integer index into an axis of length `n`: negatives wrap once, anything else is an IndexError -/
def normIdx (n : Nat) (i : Int) : Option Nat :=
  if 0 ≤ i ∧ i < n then some i.toNat
  else if i < 0 ∧ -(n : Int) ≤ i then some (i + n).toNat
  else none

/-- `g[x, y] = a` with Python integer indices -/
def setI {α} (g : Img α) (x y : Int) (a : α) : Except Err (Img α) :=
  match normIdx g.h x, normIdx g.w y with
  | some x', some y' => .ok (g.set x' y' a)
  | _, _ => .error .index

/-- all index pairs `(x, y)`, `x < h`, `y < w`, row-major (`np.argwhere` / nested `for` order) -/
def natCells (h w : Nat) : List (Nat × Nat) :=
  (List.range h).flatMap fun x => (List.range w).map fun y => (x, y)

/-! ## mazes of the three kinds -/
inductive Kind | lattice | targeted | solved
  deriving DecidableEq, Repr

/-- `cls in cls_detected.__mro__` for the chain SolvedMaze < TargetedLatticeMaze < LatticeMaze -/
def Kind.rank : Kind → Nat
  | .lattice => 0 | .targeted => 1 | .solved => 2

/-- `SolvedMaze.__init__` sets `start_pos = solution[0]`, `end_pos = solution[-1]`; an empty solution is rejected
    there, so a solved maze carries its solution as `s :: rest`. -/
inductive Maze
  | lattice (rows cols : Nat) (E : List Edge)
  | targeted (rows cols : Nat) (E : List Edge) (s e : Cell)
  | solved (rows cols : Nat) (E : List Edge) (s : Cell) (rest : List Cell)
  deriving DecidableEq, Repr

namespace Maze
def rows : Maze → Nat | lattice r _ _ => r | targeted r _ _ _ _ => r | solved r _ _ _ _ => r
def cols : Maze → Nat | lattice _ c _ => c | targeted _ c _ _ _ => c | solved _ c _ _ _ => c
def edges : Maze → List Edge | lattice _ _ E => E | targeted _ _ E _ _ => E | solved _ _ E _ _ => E
def kind : Maze → Kind | lattice .. => .lattice | targeted .. => .targeted | solved .. => .solved
def solution : Maze → List Cell | solved _ _ _ s rest => s :: rest | _ => []
def ends : Maze → Option (Cell × Cell)
  | lattice .. => none
  | targeted _ _ _ s e => some (s, e)
  | solved _ _ _ s rest => some (s, (s :: rest).getLast (by simp))
end Maze

/-! ## `_as_pixels_bw` -/
/-- one `if connected: pixel_grid[...] = True` of the two loops -/
def paintEdge (g : Img Bool) (e : Edge) : Img Bool :=
  if e.1 = 0 then g.set (2 * e.2.1.toNat + 2) (2 * e.2.2.toNat + 1) true
  else if e.1 = 1 then g.set (2 * e.2.1.toNat + 1) (2 * e.2.2.toNat + 2) true
  else g

def asPixelsBW (rows cols : Nat) (E : List Edge) : Img Bool :=
  let g0 : Img Bool := Img.full (2 * rows + 1) (2 * cols + 1) false
  -- pixel_grid[1::2, 1::2] = True
  let g1 : Img Bool := ⟨g0.h, g0.w, fun x y => if x % 2 = 1 ∧ y % 2 = 1 then true else g0.px x y⟩
  E.foldl paintEdge g1

/-! ## `as_pixels` -/
/-- pixel index of a cell coordinate: `c * 2 + 1` -/
def cpx (c : Cell) : Int × Int := (c.1 * 2 + 1, c.2 * 2 + 1)

/-- `for coord in self.solution: pixel_grid[coord*2+1] = PATH` -/
def paintCells (g : Img RGB) : List Cell → Except Err (Img RGB)
  | [] => .ok g
  | c :: cs =>
    match setI g (cpx c).1 (cpx c).2 cPath with
    | .ok g' => paintCells g' cs
    | .error e => .error e

/-- `np.linalg.norm(coord - next_coord) == 1` -/
def unitStep (a b : Cell) : Bool := (a.1 - b.1) * (a.1 - b.1) + (a.2 - b.2) * (a.2 - b.2) == 1

/-- the loop over `enumerate(self.solution[:-1])` -/
def paintBetween (g : Img RGB) : List Cell → Except Err (Img RGB)
  | [] => .ok g
  | [_] => .ok g
  | a :: b :: rest =>
    if unitStep a b then
      match setI g (a.1 * 2 + 1 + b.1 - a.1) (a.2 * 2 + 1 + b.2 - a.2) cPath with
      | .ok g' => paintBetween g' (b :: rest)
      | .error e => .error e
    else .error .assertion

def paintEnds (g : Img RGB) (s e : Cell) : Except Err (Img RGB) :=
  match setI g (cpx s).1 (cpx s).2 cStart with
  | .ok g' => setI g' (cpx e).1 (cpx e).2 cEnd
  | .error er => .error er

/-- the `if show_solution:` block -/
def paintSolution (g : Img RGB) (sol : List Cell) (showSolution : Bool) : Except Err (Img RGB) :=
  if showSolution then
    match paintCells g sol with
    | .ok g' => paintBetween g' sol
    | .error e => .error e
  else .ok g

def asPixels (m : Maze) (showEndpoints showSolution : Bool) : Except Err (Img RGB) :=
  if showSolution && !showEndpoints then .error .value
  else
    let g : Img RGB := (asPixelsBW m.rows m.cols m.edges).map fun b => if b then cOpen else cWall
    match m with
    | .lattice .. => .ok g
    | .targeted _ _ _ s e => if showEndpoints then paintEnds g s e else .ok g
    | .solved _ _ _ s rest =>
      let sol := s :: rest
      match paintSolution g sol showSolution with
      | .error e => .error e
      | .ok g1 => if showEndpoints then paintEnds g1 s (sol.getLast (by simp [sol])) else .ok g1

/-! ## reading pixels -/
/-- `_from_pixel_grid_bw` for an odd×odd grid: `connection_list[0] = grid[2::2, 1::2]`, `[1] = grid[1::2, 2::2]`;
    result = the `True` entries `(dim, i, j)` in array order -/
def readEdges (g : Img Bool) (rows cols : Nat) : List Edge :=
  ((natCells rows cols).filter fun p => g.px (2 * p.1 + 2) (2 * p.2 + 1)).map (fun p => (0, (p.1 : Int), (p.2 : Int))) ++
  ((natCells rows cols).filter fun p => g.px (2 * p.1 + 1) (2 * p.2 + 2)).map (fun p => (1, (p.1 : Int), (p.2 : Int)))

/-- `np.argwhere(np.all(pixel_grid == color, axis=-1))`, kept if both indices are odd, halved -/
def positions (g : Img RGB) (color : RGB) : List Cell :=
  (((natCells g.h g.w).filter fun p => g.px p.1 p.2 = color).filter fun p => p.1 % 2 = 1 ∧ p.2 % 2 = 1).map
    fun p => (((p.1 / 2 : Nat) : Int), ((p.2 / 2 : Nat) : Int))

/-- `color_in_pixel_grid` -/
def colorIn (g : Img RGB) (color : RGB) : Bool := (natCells g.h g.w).any fun p => g.px p.1 p.2 = color

/-- `detect_pixels_type` -/
def detectType (g : Img RGB) : Kind :=
  if colorIn g cStart || colorIn g cEnd then (if colorIn g cPath then .solved else .targeted) else .lattice

/-- `nodes_connected(c, n)` for a lattice neighbour `n` of `c`: the stored bit `edgeOf c n` -/
def connNbrs (rows cols : Nat) (E : List Edge) (c : Cell) : List Cell :=
  (nbrs c).filter fun n => decide (inGrid rows cols n) && decide (edgeOf c n ∈ E)

/-- the `while solution[-1] != end_pos` loop of `from_pixels`; the solution so far is `done ++ [cur]` -/
def walk (nb : Cell → List Cell) (rawList : List Cell) (stop : Cell) : Nat → List Cell → Cell → Except Err (List Cell)
  | 0, _, _ => .error .fuel
  | fuel + 1, done, cur =>
    if cur = stop then .ok (done ++ [cur])
    else
      match (nb cur).filter (fun c => decide (c ∈ rawList) && !decide (c ∈ done ++ [cur])) with
      | [c] => walk nb rawList stop fuel (done ++ [cur]) c
      | _ => .error .assertion

def l1 (a b : Cell) : Nat := (a.1 - b.1).natAbs + (a.2 - b.2).natAbs

/-- the tail of `from_pixels` for `SolvedMaze`: checks on the raw solution, the ordering walk, the constructor -/
def orderSolution (rows cols : Nat) (E : List Edge) (s e : Cell) (raw : List Cell) : Except Err Maze :=
  if raw = [] ∧ l1 s e ≠ 1 then .error .assertion
  else
    let rawList := raw ++ [e]
    match walk (connNbrs rows cols E) rawList e (rawList.length + 1) [] s with
    | .error er => .error er
    | .ok [] => .error .value
    | .ok (s' :: rest) => .ok (.solved rows cols E s' rest)

/-- `cls.from_pixels(pixel_grid)` for an RGB grid with odd side lengths (`.shape` otherwise: the slices of
    `_from_pixel_grid_bw` do not fit; not compared with the code) -/
def fromPixels (cls : Kind) (g : Img RGB) : Except Err Maze :=
  if ¬ (cls.rank ≤ (detectType g).rank) then .error .value
  else if ¬ (g.h % 2 = 1 ∧ g.w % 2 = 1) then .error .shape
  else
    -- pixel_grid_bw = ~np.all(pixel_grid == WALL, axis=-1)
    let E := readEdges (g.map fun c => !decide (c = cWall)) (g.h / 2) (g.w / 2)
    match cls with
    | .lattice => .ok (.lattice (g.h / 2) (g.w / 2) E)
    | .targeted =>
      match positions g cStart, positions g cEnd with
      | [s], [e] => .ok (.targeted (g.h / 2) (g.w / 2) E s e)
      | _, _ => .error .assertion
    | .solved =>
      match positions g cStart, positions g cEnd with
      | [s], [e] => orderSolution (g.h / 2) (g.w / 2) E s e (positions g cPath)
      | _, _ => .error .assertion

/-! ## ASCII -/
/-- the replacement loop of `as_ascii`: `for ascii_char, pixel_color in ASCII_PIXEL_PAIRINGS.items(): if ascii_char in
    chars_replace: ascii_grid[(pixel_grid == pixel_color).all(axis=-1)] = ascii_char` -/
def asciiReplace (pg : Img RGB) (a0 : Img Char) (showEndpoints showSolution : Bool) : Img Char :=
  pairings.foldl (fun a p =>
    if p.1 ∈ ((if showEndpoints then [chStart, chEnd] else []) ++ (if showSolution then [chPath] else []) : List Char)
    then (⟨a.h, a.w, fun x y => if pg.px x y = p.2 then p.1 else a.px x y⟩ : Img Char) else a) a0

/-- `as_ascii` before the final join: the character grid -/
def asAsciiGrid (m : Maze) (showEndpoints showSolution : Bool) : Except Err (Img Char) :=
  -- _as_ascii_grid
  let a0 : Img Char := (asPixelsBW m.rows m.cols m.edges).map fun b => if b then chOpen else chWall
  match asPixels m showEndpoints showSolution with
  | .error e => .error e
  | .ok pg => .ok (asciiReplace pg a0 showEndpoints showSolution)

/-- `"\n".join("".join(row) for row in ascii_grid)` -/
def joinLines (ls : List (List Char)) : List Char := ['\n'].intercalate ls

def asAscii (m : Maze) (showEndpoints showSolution : Bool) : Except Err (List Char) :=
  match asAsciiGrid m showEndpoints showSolution with
  | .error e => .error e
  | .ok a => .ok (joinLines a.toLists)

/-- ASCII whitespace removed by `str.strip()` -/
def isWs (c : Char) : Bool := c = ' ' || c = '\n' || c = '\t' || c = '\r' || c = '\x0b' || c = '\x0c'
def strip (s : List Char) : List Char := ((s.dropWhile isWs).reverse.dropWhile isWs).reverse

/-- `str.split("\n")` -/
def splitLines : List Char → List (List Char)
  | [] => [[]]
  | c :: cs =>
    match splitLines cs with
    | [] => [[]]   -- unreachable
    | l :: ls => if c = '\n' then [] :: l :: ls else (c :: l) :: ls

/-- the pixel grid `from_ascii` builds: zeros, then `pixel_grid[ascii_grid == ch] = colour` for every pairing -/
def asciiToPixels (a : Img Char) : Img RGB :=
  pairings.foldl (fun g p => ⟨g.h, g.w, fun x y => if a.px x y = p.1 then p.2 else g.px x y⟩)
    (Img.full a.h a.w ((0, 0, 0) : RGB))

/-- `from_ascii` on a character grid (after strip / split / per-line strip) -/
def fromAsciiGrid (cls : Kind) (a : Img Char) : Except Err Maze := fromPixels cls (asciiToPixels a)

def fromAscii (cls : Kind) (s : List Char) : Except Err Maze :=
  let lines := (splitLines (strip s)).map strip
  match Img.ofLists ' ' lines with
  | none => .error .value
  | some a => fromAsciiGrid cls a

end MZ.Pix
