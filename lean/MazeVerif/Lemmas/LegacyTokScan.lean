import MazeVerif.Lemmas.LegacyTok
/-! C07 lemmas, part 2: the scanner on space-joined token lists; `strings_to_coords` on rendered items. -/
namespace MZ.LT
open MZ.Gen.LT

theorem isSpace_blank : isSpace ' ' = true := by decide

theorem scan_word_stop {w : Str} (acc rest : Str) (h : ∀ c ∈ w, isSpace c = false) :
    scan (.word acc) (w ++ ' ' :: rest) = (acc ++ w) :: scan .idle rest := by
  induction w generalizing acc with
  | nil => simp [scan, isSpace_blank]
  | cons x xs ih =>
    have hx := h x (by simp)
    simp only [List.cons_append, scan, hx]
    rw [if_neg (by simp), ih _ (fun c hc => h c (by simp [hc]))]; simp

theorem scan_word_end {w : Str} (acc : Str) (h : ∀ c ∈ w, isSpace c = false) :
    scan (.word acc) w = [acc ++ w] := by
  induction w generalizing acc with
  | nil => simp [scan]
  | cons x xs ih =>
    have hx := h x (by simp)
    simp only [scan, hx]
    rw [if_neg (by simp), ih _ (fun c hc => h c (by simp [hc]))]; simp

theorem scan_paren_stop {w : Str} (acc rest : Str) (h : ')' ∉ w) :
    scan (.paren acc) (w ++ ')' :: rest) = (acc ++ w ++ [')']) :: scan .idle rest := by
  induction w generalizing acc with
  | nil => simp [scan]
  | cons x xs ih =>
    have hx : (x == ')') = false := by
      have : x ≠ ')' := by intro e; exact h (by simp [e])
      simpa using this
    simp only [List.cons_append, scan, hx]
    rw [if_neg (by simp), ih _ (fun hc => h (by simp [hc]))]; simp

/-- what the regex returns as one match -/
inductive GoodChunk : Str → Prop
  | coord (inner : Str) (h : ')' ∉ inner) : GoodChunk ('(' :: inner ++ [')'])
  | word (c : Char) (w : Str) (hc : c ≠ '(') (h : ∀ x ∈ c :: w, isSpace x = false) : GoodChunk (c :: w)

theorem scan_idle_chunk_stop {s : Str} (h : GoodChunk s) (rest : Str) :
    scan .idle (s ++ ' ' :: rest) = s :: scan .idle rest := by
  cases h with
  | coord inner hin =>
    have hc : (inner ++ [')'] ++ ' ' :: rest).contains ')' = true := by simp
    have e : ('(' :: inner ++ [')']) ++ ' ' :: rest = '(' :: (inner ++ [')'] ++ ' ' :: rest) := by simp
    rw [e]
    simp only [scan, hc, beq_self_eq_true, Bool.and_self, if_true]
    have e2 : inner ++ [')'] ++ ' ' :: rest = inner ++ ')' :: (' ' :: rest) := by simp
    rw [e2, scan_paren_stop _ _ hin]
    simp [scan, isSpace_blank]
  | word c w hc hw =>
    have hcs := hw c (by simp)
    have hc' : (c == '(') = false := by simpa using hc
    simp only [List.cons_append, scan, hc', Bool.false_and, hcs]
    rw [if_neg (by simp), if_neg (by simp), scan_word_stop _ _ (fun x hx => hw x (by simp [hx]))]; simp

theorem scan_idle_chunk_end {s : Str} (h : GoodChunk s) : scan .idle s = [s] := by
  cases h with
  | coord inner hin =>
    have hc : (inner ++ [')']).contains ')' = true := by simp
    have e : ('(' :: inner ++ [')']) = '(' :: (inner ++ [')']) := by simp
    rw [e]
    simp only [scan, hc, beq_self_eq_true, Bool.and_self, if_true]
    have e2 : inner ++ [')'] = inner ++ ')' :: [] := by simp
    rw [e2, scan_paren_stop _ _ hin]
    simp [scan]
  | word c w hc hw =>
    have hcs := hw c (by simp)
    have hc' : (c == '(') = false := by simpa using hc
    simp only [scan, hc', Bool.false_and, hcs]
    rw [if_neg (by simp), if_neg (by simp), scan_word_end _ (fun x hx => hw x (by simp [hx]))]; simp

/-- the scanner undoes `" ".join` on lists of well-shaped chunks (regex level of `strings_to_coords`) -/
theorem splitUT_joinSp : ∀ (chunks : List Str), (∀ s ∈ chunks, GoodChunk s) → splitUT (joinSp chunks) = chunks
  | [], _ => rfl
  | [t], h => by simpa [splitUT, joinSp] using scan_idle_chunk_end (h t (by simp))
  | t :: t' :: ts, h => by
    have ih := splitUT_joinSp (t' :: ts) (fun s hs => h s (by simp [hs]))
    unfold splitUT at ih ⊢
    rw [joinSp, scan_idle_chunk_stop (h t (by simp)), ih]

/-! ### `str.split()` undoes `" ".join` on tokens without blanks -/
theorem pySplitAux_stop {w : Str} (acc rest : Str) (h : ∀ c ∈ w, isSpace c = false) (hne : acc ++ w ≠ []) :
    pySplitAux acc (w ++ ' ' :: rest) = (acc ++ w) :: pySplitAux [] rest := by
  induction w generalizing acc with
  | nil =>
    have : acc.isEmpty = false := by
      cases acc with
      | nil => simp at hne
      | cons _ _ => rfl
    simp [pySplitAux, isSpace_blank, this]
  | cons x xs ih =>
    have hx := h x (by simp)
    simp only [List.cons_append, pySplitAux, hx]
    rw [if_neg (by simp), ih _ (fun c hc => h c (by simp [hc])) (by simp)]; simp

theorem pySplitAux_end {w : Str} (acc : Str) (h : ∀ c ∈ w, isSpace c = false) (hne : acc ++ w ≠ []) :
    pySplitAux acc w = [acc ++ w] := by
  induction w generalizing acc with
  | nil =>
    have : acc.isEmpty = false := by
      cases acc with
      | nil => simp at hne
      | cons _ _ => rfl
    simp [pySplitAux, this]
  | cons x xs ih =>
    have hx := h x (by simp)
    simp only [pySplitAux, hx]
    rw [if_neg (by simp), ih _ (fun c hc => h c (by simp [hc])) (by simp)]; simp

/-- a token as the tokenizers emit it: non-empty, no whitespace inside -/
def Solid (t : Str) : Prop := t ≠ [] ∧ ∀ c ∈ t, isSpace c = false

theorem pySplit_joinSp : ∀ (toks : List Str), (∀ t ∈ toks, Solid t) → pySplit (joinSp toks) = toks
  | [], _ => rfl
  | [t], h => by
    have ht := h t (by simp)
    simpa [pySplit, joinSp] using pySplitAux_end [] ht.2 (by simpa using ht.1)
  | t :: t' :: ts, h => by
    have ih := pySplit_joinSp (t' :: ts) (fun s hs => h s (by simp [hs]))
    have ht := h t (by simp)
    unfold pySplit at ih ⊢
    rw [joinSp, pySplitAux_stop [] _ ht.2 (by simpa using ht.1), ih]; simp

/-! ### regrouping tokens into chunks -/
theorem joinSp_ne_nil {l : List Str} (h : l ≠ []) (h0 : ∀ t ∈ l, t ≠ []) : joinSp l ≠ [] := by
  match l, h with
  | [t], _ => simpa [joinSp] using h0 t (by simp)
  | t :: t' :: ts, _ =>
    have := h0 t (by simp)
    simp [joinSp, this]

theorem joinSp_append : ∀ (l1 l2 : List Str), l1 ≠ [] → l2 ≠ [] → joinSp (l1 ++ l2) = joinSp l1 ++ ' ' :: joinSp l2
  | [], _, h, _ => absurd rfl h
  | [t], [], _, h => absurd rfl h
  | [t], u :: us, _, _ => by simp [joinSp]
  | t :: t' :: ts, l2, _, h2 => by
    have ih := joinSp_append (t' :: ts) l2 (by simp) h2
    simp only [List.cons_append] at ih ⊢
    rw [joinSp, ih, joinSp]; simp

theorem joinSp_flatMap {α} (f : α → List Str) : ∀ (xs : List α), (∀ x ∈ xs, f x ≠ []) →
    joinSp (xs.flatMap f) = joinSp (xs.map (fun x => joinSp (f x)))
  | [], _ => rfl
  | [x], _ => by simp [joinSp]
  | x :: x' :: xs, h => by
    have ih := joinSp_flatMap f (x' :: xs) (fun y hy => h y (by simp [hy]))
    have hne : (x' :: xs).flatMap f ≠ [] := by
      have := h x' (by simp)
      simp only [List.flatMap_cons]
      intro e; exact this (List.append_eq_nil_iff.mp e).1
    rw [List.flatMap_cons, joinSp_append _ _ (h x (by simp)) hne, ih]
    simp [joinSp]

/-! ### source items: what `_as_coords_and_special_AOTP` lists before `coords_to_strings` -/
inductive Src
  | cell (c : NCell)
  | sp (s : Str)

def srcToks (ct : CoordTok) : Src → List Str
  | .cell c => coordToks ct c
  | .sp s => [s]

def srcItem : Src → Item
  | .cell c => .coord [c.1, c.2]
  | .sp s => .str s

/-- a special token: starts with a character that is neither `(` nor blank, contains no blanks -/
def IsWord (s : Str) : Prop := ∃ c w, s = c :: w ∧ c ≠ '(' ∧ ∀ x ∈ c :: w, isSpace x = false

def srcChunk (ct : CoordTok) (x : Src) : Str := joinSp (srcToks ct x)

theorem srcChunk_cell_ut (c : NCell) : srcChunk .ut (.cell c) = paddedCoord [] [] [] [] c.1 c.2 := by
  simp [srcChunk, srcToks, coordToks, joinSp, paddedCoord, vcCOORD_PRE, vcCOORD_INTRA, vcCOORD_POST]

theorem srcChunk_cell_ctt (c : NCell) : srcChunk .ctt (.cell c) = paddedCoord [' '] [' '] [' '] [' '] c.1 c.2 := by
  simp [srcChunk, srcToks, coordToks, joinSp, paddedCoord, vcCOORD_PRE, vcCOORD_INTRA, vcCOORD_POST]

theorem allSp_nil : AllSp [] := by intro x hx; simp at hx
theorem allSp_one : AllSp [' '] := by intro x hx; simpa using hx

theorem srcChunk_cell (ct : CoordTok) (c : NCell) :
    ∃ sp1 sp2 sp3 sp4, AllSp sp1 ∧ AllSp sp2 ∧ AllSp sp3 ∧ AllSp sp4 ∧ srcChunk ct (.cell c) = paddedCoord sp1 sp2 sp3 sp4 c.1 c.2 := by
  cases ct with
  | ut => exact ⟨[], [], [], [], allSp_nil, allSp_nil, allSp_nil, allSp_nil, srcChunk_cell_ut c⟩
  | ctt => exact ⟨_, _, _, _, allSp_one, allSp_one, allSp_one, allSp_one, srcChunk_cell_ctt c⟩

theorem goodChunk_padded {sp1 sp2 sp3 sp4 : Str} (r c : Nat) (h1 : AllSp sp1) (h2 : AllSp sp2) (h3 : AllSp sp3) (h4 : AllSp sp4) :
    GoodChunk (paddedCoord sp1 sp2 sp3 sp4 r c) :=
  GoodChunk.coord _ (inner_clean h1 h2 h3 h4 ')' (by decide) (by decide) (by decide))

theorem goodChunk_src (ct : CoordTok) (x : Src) (h : ∀ s, x = .sp s → IsWord s) : GoodChunk (srcChunk ct x) := by
  cases x with
  | cell c =>
    obtain ⟨_, _, _, _, h1, h2, h3, h4, e⟩ := srcChunk_cell ct c
    rw [e]; exact goodChunk_padded _ _ h1 h2 h3 h4
  | sp s =>
    obtain ⟨c, w, rfl, hc, hw⟩ := h s rfl
    simpa [srcChunk, srcToks, joinSp] using GoodChunk.word c w hc hw

theorem coordNoneable_src (ct : CoordTok) (x : Src) (h : ∀ s, x = .sp s → IsWord s) :
    coordNoneable (srcChunk ct x) = match x with | .cell c => some [c.1, c.2] | .sp _ => none := by
  cases x with
  | cell c =>
    obtain ⟨_, _, _, _, h1, h2, h3, h4, e⟩ := srcChunk_cell ct c
    rw [e]; exact coordNoneable_padded _ _ h1 h2 h3 h4
  | sp s =>
    obtain ⟨c, w, rfl, hc, hw⟩ := h s rfl
    simpa [srcChunk, srcToks, joinSp] using coordNoneable_of_head (s := c :: w) (a := c) rfl (hw c (by simp)) hc

theorem srcToks_ne_nil (ct : CoordTok) (x : Src) : srcToks ct x ≠ [] := by
  cases x with
  | cell c => cases ct <;> simp [srcToks, coordToks]
  | sp s => simp [srcToks]

theorem classify_include_src (ct : CoordTok) : ∀ (xs : List Src), (∀ s, Src.sp s ∈ xs → IsWord s) →
    classify .include (xs.map (srcChunk ct)) = .ok (xs.map srcItem)
  | [], _ => rfl
  | x :: xs, h => by
    have ih := classify_include_src ct xs (fun s hs => h s (by simp [hs]))
    have hx := coordNoneable_src ct x (fun s e => h s (by simp [e]))
    simp only [List.map_cons, classify]
    cases x with
    | cell c => simp only at hx; rw [hx]; simp [ih, srcItem, Except.map]
    | sp s =>
      simp only at hx; rw [hx]; simp only [ih, srcItem, Except.map]
      simp [srcChunk, srcToks, joinSp]

theorem classify_error_cells (ct : CoordTok) : ∀ (cs : List NCell),
    classify .error (cs.map (fun c => srcChunk ct (.cell c))) = .ok (cs.map (fun c => Item.coord [c.1, c.2]))
  | [] => rfl
  | c :: cs => by
    have ih := classify_error_cells ct cs
    have hx := coordNoneable_src ct (.cell c) (fun s e => by cases e)
    simp only at hx
    simp only [List.map_cons, classify, hx, ih, Except.map]

/-- `strings_to_coords(tokens, "include")` recovers the items from their rendered tokens (both coordinate styles) -/
theorem stringsToCoords_include (ct : CoordTok) (xs : List Src) (h : ∀ s, Src.sp s ∈ xs → IsWord s) :
    stringsToCoords (xs.flatMap (srcToks ct)) .include = .ok (xs.map srcItem) := by
  unfold stringsToCoords
  rw [joinSp_flatMap _ _ (fun x _ => srcToks_ne_nil ct x)]
  rw [splitUT_joinSp _ (by
    intro s hs
    obtain ⟨x, hx, rfl⟩ := List.mem_map.mp hs
    exact goodChunk_src ct x (fun s e => h s (e ▸ hx)))]
  exact classify_include_src ct xs h

/-- `strings_to_coords(tokens, "error")` on rendered coordinates only -/
theorem stringsToCoords_error (ct : CoordTok) (cs : List NCell) :
    stringsToCoords (cs.flatMap (coordToks ct)) .error = .ok (cs.map (fun c => Item.coord [c.1, c.2])) := by
  unfold stringsToCoords
  have e : cs.flatMap (coordToks ct) = (cs.map Src.cell).flatMap (srcToks ct) := by
    simp [List.flatMap_map, srcToks]
  rw [e, joinSp_flatMap _ _ (fun x _ => srcToks_ne_nil ct x)]
  rw [splitUT_joinSp _ (by
    intro s hs
    obtain ⟨x, hx, rfl⟩ := List.mem_map.mp hs
    obtain ⟨c, _, rfl⟩ := List.mem_map.mp hx
    exact goodChunk_src ct _ (fun s e => by cases e))]
  rw [List.map_map]
  exact classify_error_cells ct cs

end MZ.LT
