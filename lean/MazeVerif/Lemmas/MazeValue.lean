import MazeVerif.Model.MazeValue
/-! Helper lemmas for C09 (maze objects are values). -/
namespace MZ.MV

/-- structural sameness of two arrays: shape and values, not dtype -/
def Same (a b : Arr) : Prop := a.shape = b.shape ∧ a.data = b.data

theorem arrayEqual_iff (a b : Arr) : arrayEqual a b = true ↔ Same a b := by
  simp [arrayEqual, Same]

theorem truth_cmpArrayEqual (a b : Arr) : truth (cmpArrayEqual a b) = .ok (arrayEqual a b) := rfl

theorem pyAll_ok (l : List Bool) : pyAll (l.map fun b => Except.ok b) = .ok (l.all id) := by
  induction l with
  | nil => rfl
  | cons b bs ih => cases b <;> simp [pyAll, ih]

theorem pyAll_map_ok {α} (f : α → Bool) (l : List α) :
    pyAll (l.map fun x => Except.ok (f x)) = .ok (l.all f) := by
  induction l with
  | nil => rfl
  | cons b bs ih => cases h : f b <;> simp [pyAll, ih, h]

/-- the repaired `__eq__` on two mazes of the same class: all compared fields array-equal -/
def fieldsEqual (a b : Maze) : Bool := (List.zip a.cmpFields b.cmpFields).all fun xy => arrayEqual xy.1 xy.2

theorem eqMethod_arrayEqual (a b : Maze) :
    eqMethod cmpArrayEqual a b = if a.kind ≠ b.kind then .ok .notImplemented else .ok (.val (fieldsEqual a b)) := by
  unfold eqMethod
  by_cases h : a.kind ≠ b.kind
  · rw [if_pos h, if_pos h]
  · rw [if_neg h, if_neg h]
    have : (List.zip a.cmpFields b.cmpFields).map (fun xy => truth (cmpArrayEqual xy.1 xy.2))
        = (List.zip a.cmpFields b.cmpFields).map (fun xy => Except.ok (arrayEqual xy.1 xy.2)) := rfl
    rw [this, pyAll_map_ok]; rfl

theorem pyEq_arrayEqual (a b : Maze) :
    pyEq cmpArrayEqual a b = .ok (decide (a.kind = b.kind) && fieldsEqual a b) := by
  unfold pyEq
  rw [eqMethod_arrayEqual a b, eqMethod_arrayEqual b a]
  by_cases h : a.kind = b.kind
  · have h' : ¬ (a.kind ≠ b.kind) := fun x => x h
    simp [h]
  · have h2 : b.kind ≠ a.kind := fun x => h x.symm
    simp [h, h2]

theorem pyNe_arrayEqual (a b : Maze) :
    pyNe cmpArrayEqual a b = .ok (!(decide (a.kind = b.kind) && fieldsEqual a b)) := by
  unfold pyNe neMethod
  rw [eqMethod_arrayEqual a b, eqMethod_arrayEqual b a]
  by_cases h : a.kind = b.kind
  · simp [h]
  · have h2 : b.kind ≠ a.kind := fun x => h x.symm
    simp [h, h2]

/-- the property's reading of "identical structure": same class, and connection structure, start, end,
    solution identical as arrays of values (shape and entries); `generation_meta` and dtypes do not occur -/
def SameValue : Maze → Maze → Prop
  | .lattice c _, .lattice c' _ => Same c c'
  | .targeted c s e _, .targeted c' s' e' _ => Same c c' ∧ Same s s' ∧ Same e e'
  | .solved c s e p _, .solved c' s' e' p' _ => Same c c' ∧ Same s s' ∧ Same e e' ∧ Same p p'
  | _, _ => False

theorem sameValue_iff (a b : Maze) :
    (decide (a.kind = b.kind) && fieldsEqual a b) = true ↔ SameValue a b := by
  cases a <;> cases b <;>
    simp [Maze.kind, fieldsEqual, Maze.cmpFields, SameValue, arrayEqual_iff, and_assoc]

theorem Same.refl (a : Arr) : Same a a := ⟨rfl, rfl⟩
theorem Same.symm {a b : Arr} (h : Same a b) : Same b a := ⟨h.1.symm, h.2.symm⟩
theorem Same.trans {a b c : Arr} (h : Same a b) (h' : Same b c) : Same a c := ⟨h.1.trans h'.1, h.2.trans h'.2⟩

theorem SameValue.refl (a : Maze) : SameValue a a := by
  cases a <;> simp [SameValue, Same.refl]

theorem SameValue.symm {a b : Maze} (h : SameValue a b) : SameValue b a := by
  cases a <;> cases b <;> simp only [SameValue] at h ⊢
  · exact h.symm
  · exact ⟨h.1.symm, h.2.1.symm, h.2.2.symm⟩
  · exact ⟨h.1.symm, h.2.1.symm, h.2.2.1.symm, h.2.2.2.symm⟩

theorem SameValue.trans {a b c : Maze} (h : SameValue a b) (h' : SameValue b c) : SameValue a c := by
  cases a <;> cases b <;> cases c <;> simp only [SameValue] at h h' ⊢
  · exact h.trans h'
  · exact ⟨h.1.trans h'.1, h.2.1.trans h'.2.1, h.2.2.trans h'.2.2⟩
  · exact ⟨h.1.trans h'.1, h.2.1.trans h'.2.1, h.2.2.1.trans h'.2.2.1, h.2.2.2.trans h'.2.2.2⟩

theorem Same.boolBytes {a b : Arr} (h : Same a b) : boolBytes a = boolBytes b := by
  unfold MV.boolBytes; rw [h.2]
theorem Same.i64Bytes {a b : Arr} (h : Same a b) : i64Bytes a = i64Bytes b := by
  unfold MV.i64Bytes; rw [h.2]

theorem SameValue.hashKey {a b : Maze} (h : SameValue a b) : hashKey a = hashKey b := by
  cases a <;> cases b <;> simp only [SameValue] at h <;> simp only [MV.hashKey]
  · rw [h.boolBytes]
  · rw [h.1.boolBytes]
  · rw [h.1.boolBytes, h.2.2.2.i64Bytes]

/-! ### bounds -/

theorem outOfBounds_pair (rows cols : Nat) (r c : Int) :
    outOfBounds [rows, cols] [r, c] = .ok (decide (¬ inGrid rows cols (r, c))) := by
  unfold outOfBounds idx
  simp only [List.getElem?_cons_zero, List.getElem?_cons_succ]
  by_cases h1 : r ≥ (rows : Int)
  · have hg : ¬ inGrid rows cols (r, c) := by unfold inGrid; simp only; omega
    simp only [h1, if_true, hg, not_false_eq_true, decide_true]
  · simp only [h1, if_false]
    by_cases h2 : c ≥ (cols : Int)
    · have hg : ¬ inGrid rows cols (r, c) := by unfold inGrid; simp only; omega
      simp only [h2, if_true, hg, not_false_eq_true, decide_true]
    · simp only [h2, if_false]
      by_cases h3 : r < 0
      · have hg : ¬ inGrid rows cols (r, c) := by unfold inGrid; simp only; omega
        simp only [h3, if_true, hg, not_false_eq_true, decide_true]
      · simp only [h3, if_false]
        by_cases h4 : c < 0
        · have hg : ¬ inGrid rows cols (r, c) := by unfold inGrid; simp only; omega
          simp only [h4, hg, not_false_eq_true, decide_true]
        · have hg : inGrid rows cols (r, c) := by unfold inGrid; simp only; omega
          simp only [h4, hg, not_true_eq_false, decide_false]

/-- whatever the argument shapes: if the disjunction evaluates to False the point has two leading
    coordinates inside the two leading grid extents -/
theorem outOfBounds_false {gs : List Nat} {p : List Int} (h : outOfBounds gs p = .ok false) :
    ∃ r c rows cols, p[0]? = some r ∧ p[1]? = some c ∧ gs[0]? = some rows ∧ gs[1]? = some cols ∧
      inGrid rows cols (r, c) := by
  unfold outOfBounds idx at h
  split at h
  · simp at h
  · next p0 hp0 =>
    split at hp0
    · next x hx =>
      injection hp0 with hp0; subst hp0
      split at h
      · simp at h
      · next g0 hg0 =>
        split at hg0
        · next y hy =>
          injection hg0 with hg0; subst hg0
          split at h
          · simp at h
          · next hn1 =>
            split at h
            · simp at h
            · next p1 hp1 =>
              split at hp1
              · next z hz =>
                injection hp1 with hp1; subst hp1
                split at h
                · simp at h
                · next g1 hg1 =>
                  split at hg1
                  · next w hw =>
                    injection hg1 with hg1; subst hg1
                    split at h
                    · simp at h
                    · next hn2 =>
                      split at h
                      · simp at h
                      · next hn3 =>
                        have hn4 : ¬ (z < 0) := by simpa using h
                        exact ⟨x, z, y, w, hx, hz, hy, hw, by unfold inGrid; simp only; omega⟩
                  · simp at hg1
              · simp at hp1
        · simp at hg0
    · simp at hp0

end MZ.MV
