import MazeVerif.Model.Filters
/-! Helper lemmas for C08 (model `MZ.Filt`): positional filters, duplicate removal, counters, heap allocation. -/
namespace MZ.Filt
open MZ.Gen (PyLit filterTable)

/-! ## positional filters: the vocabulary in which "which positions survive" is stated -/

/-- keep the element `x` standing after the prefix `pre` and before the suffix `suf` iff `f pre x suf` -/
def posFilter {α} (f : List α → α → List α → Bool) : List α → List α → List α
  | _, [] => []
  | pre, x :: suf => if f pre x suf then x :: posFilter f (pre ++ [x]) suf else posFilter f (pre ++ [x]) suf

theorem posFilter_sublist {α} (f : List α → α → List α → Bool) : ∀ (l pre : List α), (posFilter f pre l).Sublist l
  | [], _ => by simp [posFilter]
  | x :: suf, pre => by
    unfold posFilter
    split
    · exact (posFilter_sublist f suf _).cons_cons x
    · exact (posFilter_sublist f suf _).cons x

/-- index form: the elements `l[i]` (in order of `i`) with `f (pre ++ l.take i) l[i] (l.drop (i+1))` -/
def survivors {α} (f : List α → α → List α → Bool) (pre l : List α) : List α :=
  (List.range l.length).filterMap (fun i =>
    match l[i]? with
    | some x => if f (pre ++ l.take i) x (l.drop (i + 1)) then some x else none
    | none => none)

theorem posFilter_eq_filterMap {α} (f : List α → α → List α → Bool) : ∀ (l pre : List α),
    posFilter f pre l = (List.range l.length).filterMap (fun i =>
      match l[i]? with
      | some x => if f (pre ++ l.take i) x (l.drop (i + 1)) then some x else none
      | none => none)
  | [], _ => by simp [posFilter]
  | x :: suf, pre => by
    rw [posFilter, posFilter_eq_filterMap f suf (pre ++ [x])]
    simp only [List.length_cons, List.range_succ_eq_map, List.filterMap_cons, List.filterMap_map]
    have hfun : ((fun i => match (x :: suf)[i]? with
        | some y => if f (pre ++ (x :: suf).take i) y ((x :: suf).drop (i + 1)) then some y else none
        | none => none) ∘ Nat.succ) =
        (fun i => match suf[i]? with
        | some y => if f (pre ++ [x] ++ suf.take i) y (suf.drop (i + 1)) then some y else none
        | none => none) := by
      funext i
      simp [List.append_assoc] <;> rfl
    rw [hfun]
    by_cases h : f pre x suf <;> simp [h]

theorem posFilter_eq_survivors {α} (f : List α → α → List α → Bool) (l pre : List α) :
    posFilter f pre l = survivors f pre l := posFilter_eq_filterMap f l pre

theorem filter_eq_posFilter {α} (p : α → Bool) : ∀ (l pre : List α), l.filter p = posFilter (fun _ x _ => p x) pre l
  | [], _ => by simp [posFilter]
  | x :: suf, pre => by
    rw [posFilter, List.filter_cons, filter_eq_posFilter p suf (pre ++ [x])]

theorem take_eq_posFilter {α} (k : Nat) : ∀ (l pre : List α), pre.length ≤ k →
    l.take (k - pre.length) = posFilter (fun pre _ _ => decide (pre.length < k)) pre l
  | [], _, _ => by simp [posFilter]
  | x :: suf, pre, hk => by
    rw [posFilter]
    by_cases h : pre.length < k
    · have ih := take_eq_posFilter k suf (pre ++ [x]) (by simp; omega)
      simp only [List.length_append, List.length_singleton] at ih
      have : k - pre.length = (k - (pre.length + 1)) + 1 := by omega
      rw [this, List.take_succ_cons, ih]
      simp [h]
    · have hk' : k = pre.length := by omega
      subst hk'
      simp only [Nat.sub_self, List.take_zero, Nat.lt_irrefl, decide_false, Bool.false_eq_true, if_false]
      -- nothing further survives: every later prefix is longer than k
      have none_later : ∀ (l pre' : List α), pre.length ≤ pre'.length →
          posFilter (fun pre'' _ _ => decide (pre''.length < pre.length)) pre' l = [] := by
        intro l
        induction l with
        | nil => intro _ _; simp [posFilter]
        | cons y ys ih =>
          intro pre' hle
          rw [posFilter]
          have : ¬ pre'.length < pre.length := by omega
          simp only [this, decide_false, Bool.false_eq_true, if_false]
          exact ih _ (by simp; omega)
      exact (none_later suf (pre ++ [x]) (by simp)).symm

/-! ## `remove_duplicates` / `remove_duplicates_fast` -/

theorem rdLoop_eq_posFilter (cl : Maze → Maze → Bool) : ∀ (l pre : List Maze),
    rdLoop cl l = posFilter (fun _ a suf => !suf.any (cl a)) pre l
  | [], _ => by simp [rdLoop, posFilter]
  | a :: rest, pre => by
    rw [rdLoop, posFilter, rdLoop_eq_posFilter cl rest (pre ++ [a])]
    by_cases h : rest.any (cl a) <;> simp [h]

theorem dedupGo_eq_posFilter : ∀ (l pre : List Maze) (seen : List (List Nat × List Bool × Cell × Cell × List Cell)),
    (∀ k, k ∈ seen ↔ k ∈ pre.map Maze.key) →
    dedupGo seen l = posFilter (fun pre x _ => !pre.any (fun p => p.pyEq x)) pre l
  | [], _, _, _ => by simp [dedupGo, posFilter]
  | m :: ms, pre, seen, hs => by
    rw [dedupGo, posFilter]
    have hc : seen.contains m.key = pre.any (fun p => p.pyEq m) := by
      rw [Bool.eq_iff_iff]
      simp only [List.contains_iff_mem, List.any_eq_true, Maze.pyEq, decide_eq_true_eq, hs, List.mem_map]
    rw [hc]
    cases hb : pre.any (fun p => p.pyEq m)
    · simp only [Bool.false_eq_true, if_false, Bool.not_false, if_true]
      rw [dedupGo_eq_posFilter ms (pre ++ [m]) (seen ++ [m.key])]
      intro k
      simp only [List.map_append, List.map_cons, List.map_nil, List.mem_append, List.mem_singleton]
      rw [hs]
    · have hmem : m.key ∈ seen := by
        have : seen.contains m.key = true := by rw [hc, hb]
        simpa using this
      simp only [if_true, Bool.not_true, Bool.false_eq_true, if_false]
      rw [dedupGo_eq_posFilter ms (pre ++ [m]) seen]
      intro k
      simp only [List.map_append, List.map_cons, List.map_nil, List.mem_append, List.mem_singleton]
      constructor
      · intro hk; exact Or.inl ((hs k).1 hk)
      · rintro (hk | hk)
        · exact (hs k).2 hk
        · exact hk ▸ hmem

theorem dedupGo_mem_keys : ∀ (l : List Maze) (seen : List (List Nat × List Bool × Cell × Cell × List Cell)) k,
    k ∈ (dedupGo seen l).map Maze.key ↔ (k ∈ l.map Maze.key ∧ k ∉ seen)
  | [], _, _ => by simp [dedupGo]
  | m :: ms, seen, k => by
    rw [dedupGo]
    by_cases h : seen.contains m.key
    · have hm : m.key ∈ seen := by simpa using h
      simp only [h, if_true, List.map_cons, List.mem_cons]
      rw [dedupGo_mem_keys ms seen k]
      constructor
      · rintro ⟨a, b⟩; exact ⟨Or.inr a, b⟩
      · rintro ⟨a | a, b⟩
        · exact absurd (a ▸ hm) b
        · exact ⟨a, b⟩
    · have hm : m.key ∉ seen := by simpa using h
      simp only [h, Bool.false_eq_true, if_false, List.map_cons, List.mem_cons]
      rw [dedupGo_mem_keys ms (seen ++ [m.key]) k]
      simp only [List.mem_append, List.mem_singleton, not_or]
      constructor
      · rintro (a | ⟨a, b, _⟩)
        · exact ⟨Or.inl a, a ▸ hm⟩
        · exact ⟨Or.inr a, b⟩
      · rintro ⟨a | a, b⟩
        · exact Or.inl a
        · by_cases hk : k = m.key
          · exact Or.inl hk
          · exact Or.inr ⟨a, b, hk⟩

theorem dedupGo_nodup : ∀ (l : List Maze) (seen : List (List Nat × List Bool × Cell × Cell × List Cell)),
    ((dedupGo seen l).map Maze.key).Nodup
  | [], _ => by simp [dedupGo]
  | m :: ms, seen => by
    rw [dedupGo]
    by_cases h : seen.contains m.key
    · simp only [h, if_true]; exact dedupGo_nodup ms seen
    · simp only [h, Bool.false_eq_true, if_false, List.map_cons, List.nodup_cons]
      refine ⟨?_, dedupGo_nodup ms _⟩
      intro hin
      have := (dedupGo_mem_keys ms (seen ++ [m.key]) m.key).1 hin
      exact this.2 (by simp)

/-! ## counters -/

theorem Counter.get_bump (c : Counter) (v w : Val) :
    (Counter.bump c v).get w = c.get w + (if v = w then 1 else 0) := by
  induction c with
  | nil => simp [Counter.bump, Counter.get]
  | cons e rest ih =>
    obtain ⟨u, n⟩ := e
    unfold Counter.bump
    by_cases huv : u = v
    · subst huv
      by_cases huw : u = w
      · simp [Counter.get, huw]
      · simp [Counter.get, huw]
    · simp only [huv, if_false]
      by_cases huw : u = w
      · subst huw
        have : ¬ v = u := fun h => huv h.symm
        simp [Counter.get, this]
      · simp [Counter.get, huw, ih]

theorem Counter.get_bumpAll (vs : List Val) : ∀ (c : Counter) (w : Val),
    (Counter.bumpAll c vs).get w = c.get w + vs.count w := by
  induction vs with
  | nil => intro c w; simp [Counter.bumpAll]
  | cons v vs ih =>
    intro c w
    have : Counter.bumpAll c (v :: vs) = Counter.bumpAll (Counter.bump c v) vs := by simp [Counter.bumpAll]
    rw [this, ih, Counter.get_bump, List.count_cons]
    by_cases h : v = w <;> simp [h] <;> omega

theorem Collected.get_upd (g : Collected) (k k' : String) (f : Counter → Counter) :
    (Collected.upd g k f).get k' = if k = k' then f (g.get k) else g.get k' := by
  induction g with
  | nil =>
    by_cases h : k = k' <;> simp [Collected.upd, Collected.get, h]
  | cons e rest ih =>
    obtain ⟨k0, c⟩ := e
    unfold Collected.upd
    by_cases h0 : k0 = k
    · subst h0
      by_cases h : k0 = k' <;> simp [Collected.get, h]
    · simp only [h0, if_false]
      by_cases h1 : k0 = k'
      · subst h1
        have : ¬ k = k0 := fun h => h0 h.symm
        simp [Collected.get, this]
      · by_cases h : k = k'
        · subst h; simp [Collected.get, h0, ih]
        · simp [Collected.get, h1, ih, h]

/-- how often the value `v` is contributed under key `k` by one maze's metadata -/
def occMeta (dim : Nat) (k : String) (v : Val) : Meta → Nat
  | [] => 0
  | (k', mv) :: rest =>
    (if k' = k then (match metaVals dim mv with | .ok vs => vs.count v | .error _ => 0) else 0) + occMeta dim k v rest

theorem occMeta_cons (dim : Nat) (k : String) (v : Val) (k' : String) (mv : MetaVal) (rest : Meta) :
    occMeta dim k v ((k', mv) :: rest) =
      (if k' = k then (match metaVals dim mv with | .ok vs => vs.count v | .error _ => 0) else 0) + occMeta dim k v rest := rfl

theorem addMeta_count (dim : Nat) (k : String) (v : Val) : ∀ (m : Meta) (g g' : Collected),
    addMeta dim g m = .ok g' → (g'.get k).get v = (g.get k).get v + occMeta dim k v m
  | [], g, g', h => by
    simp only [addMeta, Except.ok.injEq] at h; subst h; simp [occMeta]
  | (k', mv) :: rest, g, g', h => by
    unfold addMeta at h
    split at h
    · cases h
    · next vs hv =>
      have ih := addMeta_count dim k v rest _ g' h
      rw [ih, Collected.get_upd, occMeta_cons, hv]
      by_cases hk : k' = k
      · subst hk; simp [Counter.get_bumpAll]; omega
      · simp [hk]

/-! ## heap allocation -/

theorem getAll_append_left {α} (l r : List α) : ∀ (as : List Nat) (xs : List α),
    getAll l as = some xs → getAll (l ++ r) as = some xs
  | [], xs, h => by simpa [getAll] using h
  | a :: as, xs, h => by
    unfold getAll at h ⊢
    split at h
    · next x ys hx hys =>
      have hlt : a < l.length := by
        rcases Nat.lt_or_ge a l.length with h' | h'
        · exact h'
        · rw [List.getElem?_eq_none_iff.2 h'] at hx; cases hx
      rw [List.getElem?_append_left hlt, hx, getAll_append_left l r as ys hys]
      exact h
    · cases h

theorem getAll_range' {α} : ∀ (ms l : List α), getAll (l ++ ms) (List.range' l.length ms.length) = some ms
  | [], l => by simp [getAll]
  | m :: ms, l => by
    have h1 : (l ++ m :: ms)[l.length]? = some m := by simp
    have h2 := getAll_range' ms (l ++ [m])
    simp only [List.length_append, List.length_singleton, List.append_assoc, List.singleton_append] at h2
    simp only [List.length_cons, List.range'_succ, getAll, h1, h2]

/-! ## the registering wrappers on the heap -/

/-- the heap after `deepcopy(MazeDataset(cfg=c, mazes=ms, gmc=g))`, `applied_filters.append(r)`, `update_self_config()` -/
def outHeap (h : Heap) (c : Cfg) (ms : List Maze) (g : Option Collected) (r : FilterRec) : Heap :=
  { cfgs := h.cfgs ++ [{ c with applied := c.applied ++ [r], nMazes := ms.length }],
    mazes := h.mazes ++ ms,
    dsets := h.dsets ++ [{ cfg := h.cfgs.length, mazes := List.range' h.mazes.length ms.length, gmc := g }] }

theorem copyNew_ok {h : Heap} {c : Cfg} {ms : List Maze} {g : Option Collected} {h1 : Heap} {nd : Nat}
    (hc : copyNew h c ms g = .ok (h1, nd)) :
    allArgs c.applied = true ∧ nd = h.dsets.length ∧
    h1 = { cfgs := h.cfgs ++ [c], mazes := h.mazes ++ ms,
           dsets := h.dsets ++ [{ cfg := h.cfgs.length, mazes := List.range' h.mazes.length ms.length, gmc := g }] } := by
  unfold copyNew at hc
  split at hc
  · next ha => simp only [Except.ok.injEq, Prod.mk.injEq] at hc; exact ⟨ha, hc.2.symm, hc.1.symm⟩
  · cases hc

theorem copyNew_finish {h : Heap} {c : Cfg} {ms : List Maze} {g : Option Collected} {h1 : Heap} {nd : Nat} (r : FilterRec)
    (hc : copyNew h c ms g = .ok (h1, nd)) : finish h1 nd r = .ok (outHeap h c ms g r, h.dsets.length) := by
  obtain ⟨_, rfl, rfl⟩ := copyNew_ok hc
  simp [finish, appendFilter, updateSelfConfig, outHeap]

theorem outHeap_view (h : Heap) (c : Cfg) (ms : List Maze) (g : Option Collected) (r : FilterRec) :
    (outHeap h c ms g r).view h.dsets.length =
      some ({ cfg := h.cfgs.length, mazes := List.range' h.mazes.length ms.length, gmc := g },
            { c with applied := c.applied ++ [r], nMazes := ms.length }, ms) := by
  simp [Heap.view, outHeap, getAll_range']

theorem view_cfgOf {h : Heap} {d : Nat} {ds : DS} {c : Cfg} {ms : List Maze} (hv : h.view d = some (ds, c, ms)) :
    cfgOf h d = some c ∧ h.dsets[d]? = some ds ∧ h.cfgs[ds.cfg]? = some c ∧ getAll h.mazes ds.mazes = some ms := by
  unfold Heap.view at hv
  split at hv
  · cases hv
  · next ds' hds =>
    split at hv
    · next c' vs hc hvs =>
      simp only [Option.some.injEq, Prod.mk.injEq] at hv
      obtain ⟨rfl, rfl, rfl⟩ := hv
      exact ⟨by simp [cfgOf, hds, hc], hds, hc, hvs⟩
    · cases hv

theorem getAll_length {α} (l : List α) : ∀ (as : List Nat) (xs : List α), getAll l as = some xs → xs.length = as.length
  | [], xs, h => by simp [getAll] at h; subst h; rfl
  | a :: as, xs, h => by
    unfold getAll at h
    split at h
    · next x ys _ hys => simp only [Option.some.injEq] at h; subst h; simp [getAll_length l as ys hys]
    · cases h

/-- what `finish` does to the cell the dataset references, whatever cell that is -/
theorem finish_cfgOf {h : Heap} {d : Nat} {r : FilterRec} {h' : Heap} {d' : Nat} (hf : finish h d r = .ok (h', d')) :
    d' = d ∧ ∃ ds c, h.dsets[d]? = some ds ∧ h.cfgs[ds.cfg]? = some c ∧
      h'.dsets = h.dsets ∧ h'.mazes = h.mazes ∧
      h'.cfgs = h.cfgs.set ds.cfg { c with applied := c.applied ++ [r], nMazes := ds.mazes.length } := by
  unfold finish at hf
  split at hf
  · cases hf
  · next h1 ha =>
    split at hf
    · cases hf
    · next h2 hu =>
      simp only [Except.ok.injEq, Prod.mk.injEq] at hf
      obtain ⟨rfl, rfl⟩ := hf
      refine ⟨rfl, ?_⟩
      unfold appendFilter at ha
      split at ha
      · cases ha
      · next ds hds =>
        split at ha
        · cases ha
        · next c hc =>
          simp only [Option.some.injEq] at ha
          subst ha
          have hlt : ds.cfg < h.cfgs.length := by
            rcases Nat.lt_or_ge ds.cfg h.cfgs.length with h' | h'
            · exact h'
            · rw [List.getElem?_eq_none_iff.2 h'] at hc; cases hc
          simp only [updateSelfConfig, hds, List.getElem?_set_self hlt, Option.some.injEq] at hu
          subst hu
          exact ⟨ds, c, hds, hc, rfl, rfl, by simp⟩

/-! ## shape of one registered filter step -/

/-- what both wrappers do around the undecorated filter -/
def regStep (np : Percentile) (h : Heap) (d : Nat) (f : FName) (vals : List PyLit) (r : FilterRec) : Except Err (Heap × Nat) :=
  match method np h d f vals with
  | .error e => .error e
  | .ok (h1, nd) => finish h1 nd r

theorem applyReg_regStep {np : Percentile} {h : Heap} {d : Nat} {c : Call} {res : Heap × Nat}
    (ha : applyReg np h d c = .ok res) :
    ∃ f vals e, FName.ofString c.name = some f ∧ filterTable.find? (fun e => e.1 == c.name) = some e ∧
      bindParams e.2.2 c.args c.kwargs = .ok vals ∧ regStep np h d f vals c.record = .ok res := by
  unfold applyReg at ha
  split at ha
  · next n kind params f he hf =>
    split at ha
    · cases ha
    · split at ha
      · cases ha
      · next vals hb =>
        refine ⟨f, vals, (n, kind, params), hf, he, hb, ?_⟩
        unfold regStep
        split at ha
        · cases ha
        · next h1 nd hm => rw [hm]; exact ha
  · cases ha

/-- the result of a copying filter step: a fresh config cell, fresh maze objects holding `ms'`, a fresh dataset object -/
def Copied (h : Heap) (c : Cfg) (h' : Heap) (d' : Nat) (ms' : List Maze) (g : Option Collected) (r : FilterRec) : Prop :=
  h' = outHeap h c ms' g r ∧ d' = h.dsets.length

theorem regStep_of_copyNew {np : Percentile} {h : Heap} {d : Nat} {f : FName} {vals : List PyLit} {r : FilterRec}
    {h' : Heap} {d' : Nat} {c : Cfg} {ms' : List Maze} {g : Option Collected}
    (hs : regStep np h d f vals r = .ok (h', d'))
    (hm : ∀ h1 nd, method np h d f vals = .ok (h1, nd) → copyNew h c ms' g = .ok (h1, nd)) :
    Copied h c h' d' ms' g r := by
  unfold regStep at hs
  split at hs
  · cases hs
  · next h1 nd hmm =>
    have := copyNew_finish r (hm h1 nd hmm)
    rw [this] at hs
    simp only [Except.ok.injEq, Prod.mk.injEq] at hs
    exact ⟨hs.1.symm, hs.2.symm⟩

theorem method_copy {np : Percentile} {h : Heap} {d : Nat} {f : FName} {vals : List PyLit} {h1 : Heap} {nd : Nat}
    (hf : f ≠ .collectMeta) (hm : method np h d f vals = .ok (h1, nd)) :
    ∃ ds c ms0 ms g, h.view d = some (ds, c, ms0) ∧ copyNew h c ms g = .ok (h1, nd) := by
  unfold method at hm
  split at hm
  · cases hm
  · next ds c ms hv =>
    split at hm
    all_goals (try (repeat' (split at hm)))
    all_goals (first
      | (cases hm; done)
      | exact ⟨_, _, _, _, _, hv, hm⟩
      | exact absurd rfl hf)

/-! ## monotonicity of views, the custom filter -/

theorem idx_lt_of_getElem? {α} {l : List α} {i : Nat} {x : α} (h : l[i]? = some x) : i < l.length := by
  rcases Nat.lt_or_ge i l.length with h' | h'
  · exact h'
  · rw [List.getElem?_eq_none_iff.2 h'] at h; cases h

theorem view_mono {h h' : Heap} (hc : h.cfgs <+: h'.cfgs) (hm : h.mazes <+: h'.mazes) (hd : h.dsets <+: h'.dsets)
    {d : Nat} {x : DS × Cfg × List Maze} (hv : h.view d = some x) : h'.view d = some x := by
  obtain ⟨ds, c, ms⟩ := x
  obtain ⟨_, hds, hcc, hms⟩ := view_cfgOf hv
  obtain ⟨t1, e1⟩ := hc
  obtain ⟨t2, e2⟩ := hm
  obtain ⟨t3, e3⟩ := hd
  simp only [Heap.view, ← e1, ← e2, ← e3, List.getElem?_append_left (idx_lt_of_getElem? hds), hds,
    List.getElem?_append_left (idx_lt_of_getElem? hcc), hcc, getAll_append_left _ _ _ _ hms]

theorem getAll_filter {α} (l : List α) (p : α → Bool) : ∀ (as : List Nat) (xs : List α), getAll l as = some xs →
    getAll l (((as.zip xs).filter (fun am => p am.2)).map (fun am => am.1)) = some (xs.filter p) ∧
    (((as.zip xs).filter (fun am => p am.2)).map (fun am => am.1)).Sublist as
  | [], xs, h => by
    simp [getAll] at h; subst h; simp [getAll]
  | a :: as, xs, h => by
    unfold getAll at h
    split at h
    · next x ys hx hys =>
      simp only [Option.some.injEq] at h; subst h
      obtain ⟨ih1, ih2⟩ := getAll_filter l p as ys hys
      by_cases hp : p x
      · simp only [List.zip_cons_cons, List.filter_cons, hp, if_true, List.map_cons, getAll, hx, ih1]
        exact ⟨trivial, ih2.cons_cons a⟩
      · simp only [List.zip_cons_cons, List.filter_cons, hp, Bool.false_eq_true, if_false]
        exact ⟨ih1, ih2.cons a⟩
    · cases h

/-- the repaired `custom_maze_filter` is a copying step like the registered maze filters -/
theorem customFilter_spec {h : Heap} {d : Nat} {fname : String} {p : Maze → Bool} {kw : List (String × PyLit)}
    {h' : Heap} {d' : Nat} (hs : customFilter h d fname p kw = .ok (h', d')) :
    ∃ ds c ms, h.view d = some (ds, c, ms) ∧ allArgs c.applied = true ∧
      Copied h c h' d' (ms.filter p) none { name := "__custom__:" ++ fname, args := some [], kwargs := kw } := by
  unfold customFilter at hs
  split at hs
  · cases hs
  · next ds c ms hv =>
    split at hs
    · cases hs
    · next h1 nd hc =>
      rw [copyNew_finish _ hc] at hs
      simp only [Except.ok.injEq, Prod.mk.injEq] at hs
      exact ⟨ds, c, ms, hv, (copyNew_ok hc).1, hs.1.symm, hs.2.symm⟩

/-! ## `collect_generation_meta` -/

/-- total contribution of the maze objects at `as` (as they are in `mz`) to the counter of key `k`, value `v` -/
def occAll (mz : List Maze) (k : String) (v : Val) : List Nat → Nat
  | [] => 0
  | a :: as =>
    (match mz[a]? with
     | some m => (match m.gmeta with | some kv => occMeta m.latticeDim k v kv | none => 0)
     | none => 0) + occAll mz k v as

theorem occAll_cons (mz : List Maze) (k : String) (v : Val) (a : Nat) (as : List Nat) :
    occAll mz k v (a :: as) =
      (match mz[a]? with
       | some m => (match m.gmeta with | some kv => occMeta m.latticeDim k v kv | none => 0)
       | none => 0) + occAll mz k v as := rfl

theorem occAll_congr {mz mz' : List Maze} (k : String) (v : Val) : ∀ (as : List Nat),
    (∀ a ∈ as, mz'[a]? = mz[a]?) → occAll mz' k v as = occAll mz k v as
  | [], _ => rfl
  | a :: as, h => by
    unfold occAll
    rw [h a (by simp), occAll_congr k v as (fun b hb => h b (by simp [hb]))]

/-- the collection loop over pairwise distinct maze objects that all carry metadata: exact value counts, and the
    only thing that may change in the heap of mazes is the `generation_meta` field of the visited objects -/
theorem collectLoop_counts (clear allowFail : Bool) (k : String) (v : Val) : ∀ (as : List Nat) (mz : List Maze) (g0 : Collected)
    (mz' : List Maze) (g' : Collected), as.Nodup →
    (∀ a ∈ as, ∃ m kv, mz[a]? = some m ∧ m.gmeta = some kv) →
    collectLoop clear allowFail mz g0 as = .ok (mz', g') →
    (g'.get k).get v = (g0.get k).get v + occAll mz k v as
  | [], mz, g0, mz', g', _, _, h => by
    simp only [collectLoop, Except.ok.injEq, Prod.mk.injEq] at h
    obtain ⟨_, rfl⟩ := h
    simp [occAll]
  | a :: as, mz, g0, mz', g', hnd, hall, h => by
    obtain ⟨m, kv, hm, hkv⟩ := hall a (by simp)
    have hnd' := List.nodup_cons.1 hnd
    unfold collectLoop at h
    simp only [hm, hkv] at h
    split at h
    · cases h
    · next g1 hg1 =>
      have key : ∀ b ∈ as, (if clear = true then mz.set a { m with gmeta := none } else mz)[b]? = mz[b]? := by
        intro b hb
        have hne : a ≠ b := fun e => hnd'.1 (e ▸ hb)
        cases clear <;> simp [List.getElem?_set_ne hne]
      have ih := collectLoop_counts clear allowFail k v as _ g1 mz' g' hnd'.2
        (fun b hb => by rw [key b hb]; exact hall b (by simp [hb])) h
      rw [ih, occAll_congr k v as key, addMeta_count _ k v kv g0 g1 hg1, occAll_cons]
      simp only [hm, hkv]
      omega

theorem collectLoop_frame (clear allowFail : Bool) : ∀ (as : List Nat) (mz : List Maze) (g0 : Collected)
    (mz' : List Maze) (g' : Collected), collectLoop clear allowFail mz g0 as = .ok (mz', g') →
    mz'.length = mz.length ∧ (∀ b : Nat, (mz'[b]?).map Maze.key = (mz[b]?).map Maze.key) ∧ (∀ b : Nat, b ∉ as → mz'[b]? = mz[b]?)
  | [], mz, g0, mz', g', h => by
    simp only [collectLoop, Except.ok.injEq, Prod.mk.injEq] at h
    obtain ⟨rfl, _⟩ := h
    exact ⟨rfl, fun _ => rfl, fun _ _ => rfl⟩
  | a :: as, mz, g0, mz', g', h => by
    unfold collectLoop at h
    split at h
    · cases h
    · next m hm =>
      split at h
      · split at h
        · simp only [Except.ok.injEq, Prod.mk.injEq] at h
          obtain ⟨rfl, _⟩ := h
          exact ⟨rfl, fun _ => rfl, fun _ _ => rfl⟩
        · cases h
      · next kv hkv =>
        split at h
        · cases h
        · next g1 _ =>
          obtain ⟨i1, i2, i3⟩ := collectLoop_frame clear allowFail as _ g1 mz' g' h
          by_cases hc : clear = true
          · simp only [hc, if_true] at i1 i2 i3
            refine ⟨by simpa using i1, ?_, ?_⟩
            · intro b
              rw [i2 b]
              by_cases hb : a = b
              · subst hb
                rw [List.getElem?_set_self (idx_lt_of_getElem? hm), hm]
                rfl
              · rw [List.getElem?_set_ne hb]
            · intro b hb
              simp only [List.mem_cons, not_or] at hb
              rw [i3 b hb.2, List.getElem?_set_ne (fun e => hb.1 e.symm)]
          · simp only [hc, if_false] at i1 i2 i3
            exact ⟨i1, i2, fun b hb => i3 b (fun hh => hb (by simp [hh]))⟩

/-! ## provenance of one step -/

theorem collectMethod_cfgOf {h : Heap} {d : Nat} {cl ip af : Bool} {h1 : Heap} {nd : Nat}
    (hm : collectMethod h d cl ip af = .ok (h1, nd)) : ∃ c, cfgOf h d = some c ∧ cfgOf h1 nd = some c := by
  unfold collectMethod at hm
  split at hm
  · cases hm
  · next ds c vals hv =>
    obtain ⟨hcf, hds, hcc, _⟩ := view_cfgOf hv
    split at hm
    · split at hm
      · simp only [Except.ok.injEq, Prod.mk.injEq] at hm
        obtain ⟨rfl, rfl⟩ := hm
        exact ⟨c, hcf, hcf⟩
      · obtain ⟨_, rfl, rfl⟩ := copyNew_ok hm
        exact ⟨c, hcf, by simp [cfgOf]⟩
    · split at hm
      · cases hm
      · split at hm
        · cases hm
        · split at hm
          · cases hm
          · next h1' nd' heq =>
            split at hm
            · cases hm
            · next nds hnds =>
              split at hm
              · cases hm
              · next mz g _ =>
                simp only [Except.ok.injEq, Prod.mk.injEq] at hm
                obtain ⟨rfl, rfl⟩ := hm
                refine ⟨c, hcf, ?_⟩
                have hlt := idx_lt_of_getElem? hnds
                cases ip
                · -- not in place: a fresh copy whose config cell is `c`
                  simp only [Bool.false_eq_true, if_false] at heq
                  obtain ⟨_, rfl, rfl⟩ := copyNew_ok heq
                  simp at hnds
                  subst hnds
                  simp [cfgOf]
                · simp only [if_true, Except.ok.injEq, Prod.mk.injEq] at heq
                  obtain ⟨rfl, rfl⟩ := heq
                  rw [hds] at hnds
                  simp only [Option.some.injEq] at hnds
                  subst hnds
                  simp [cfgOf, List.getElem?_set_self hlt, hcc]

theorem method_cfgOf {np : Percentile} {h : Heap} {d : Nat} {f : FName} {vals : List PyLit} {h1 : Heap} {nd : Nat}
    (hm : method np h d f vals = .ok (h1, nd)) : ∃ c, cfgOf h d = some c ∧ cfgOf h1 nd = some c := by
  by_cases hf : f = .collectMeta
  · subst hf
    unfold method at hm
    split at hm
    · cases hm
    · split at hm
      all_goals first
        | (cases hm; done)
        | exact collectMethod_cfgOf hm
        | (rename_i hh; simp at hh)
  · obtain ⟨ds, c, ms0, ms, g, hv, hc⟩ := method_copy hf hm
    obtain ⟨_, rfl, rfl⟩ := copyNew_ok hc
    exact ⟨c, (view_cfgOf hv).1, by simp [cfgOf]⟩

/-- one filter application: the result's config is the input's config content with exactly the op's record appended and
    `n_mazes` set to the number of mazes the result holds -/
theorem step_provenance {np : Percentile} {h : Heap} {d : Nat} {op : Op} {h' : Heap} {d' : Nat}
    (hs : applyOp np h d op = .ok (h', d')) :
    ∃ c c' ds', cfgOf h d = some c ∧ cfgOf h' d' = some c' ∧ h'.dsets[d']? = some ds' ∧
      c'.applied = c.applied ++ [op.record] ∧ c'.base = c.base ∧ c'.nMazes = ds'.mazes.length := by
  cases op with
  | reg call =>
    obtain ⟨f, vals, _, _, _, _, hr⟩ := applyReg_regStep hs
    unfold regStep at hr
    split at hr
    · cases hr
    · next h1 nd hm =>
      obtain ⟨c, hc0, hc1⟩ := method_cfgOf hm
      obtain ⟨rfl, ds, cc, hds, hcc, e1, _, e3⟩ := finish_cfgOf hr
      have : cc = c := by
        simp only [cfgOf, hds] at hc1
        rw [hcc] at hc1
        exact Option.some.inj hc1
      subst this
      refine ⟨cc, { cc with applied := cc.applied ++ [call.record], nMazes := ds.mazes.length }, ds, hc0, ?_,
        by rw [e1]; exact hds, rfl, rfl, rfl⟩
      simp only [cfgOf, e1, hds, e3, List.getElem?_set_self (idx_lt_of_getElem? hcc)]
  | custom fname p kw =>
    obtain ⟨ds, c, ms, hv, _, rfl, rfl⟩ := customFilter_spec hs
    exact ⟨c, { c with applied := c.applied ++ [{ name := "__custom__:" ++ fname, args := some [], kwargs := kw }], nMazes := (ms.filter p).length },
      { cfg := h.cfgs.length, mazes := List.range' h.mazes.length (ms.filter p).length, gmc := none },
      (view_cfgOf hv).1, by simp [cfgOf, outHeap], by simp [outHeap], rfl, rfl, by simp⟩

/-! ## the config-driven entry point -/

theorem cfgLoop_eq_runSeq (np : Percentile) : ∀ (rs : List FilterRec) (h : Heap) (d : Nat),
    (∀ r ∈ rs, filterTable.any (fun e => e.1 == r.name) = true) →
    cfgLoop np h d rs = runSeq np h d (rs.map (fun r => Op.reg (callOfRec r)))
  | [], _, _, _ => rfl
  | r :: rs, h, d, hr => by
    have h1 := hr r (by simp)
    simp only [cfgLoop, h1, Bool.not_true, Bool.false_eq_true, if_false, List.map_cons, runSeq, applyOp]
    cases applyReg np h d (callOfRec r) with
    | error e => rfl
    | ok res =>
      obtain ⟨h1, d1⟩ := res
      exact cfgLoop_eq_runSeq np rs h1 d1 (fun r' hr' => hr r' (by simp [hr']))

theorem lookup_self_of_nodup : ∀ (kw : List (String × PyLit)), (kw.map Prod.fst).Nodup →
    ∀ kv ∈ kw, kw.lookup kv.1 = some kv.2
  | [], _, kv, h => by simp at h
  | (k, v) :: rest, hn, kv, hmem => by
    simp only [List.map_cons, List.nodup_cons] at hn
    rcases List.mem_cons.1 hmem with rfl | h'
    · simp [List.lookup]
    · have hne : kv.1 ≠ k := by
        intro e
        exact hn.1 (e ▸ List.mem_map_of_mem (f := Prod.fst) h')
      have hb : (kv.1 == k) = false := by simpa using hne
      simp only [List.lookup, hb]
      exact lookup_self_of_nodup rest hn.2 kv h'

theorem checkPair_self (r : FilterRec) (ha : r.args.isSome = true) (hk : (r.kwargs.map Prod.fst).Nodup) :
    checkPair r r = true := by
  unfold checkPair
  cases hargs : r.args with
  | none => simp [hargs] at ha
  | some a =>
    simp only [beq_self_eq_true, Bool.true_and, Bool.and_eq_true, List.all_eq_true]
    refine ⟨⟨?_, trivial⟩, ?_⟩
    · intro p hp
      have := List.of_mem_zip hp
      -- both components come from the same position of the same list
      have hz : ∀ (l : List PyLit) (q : PyLit × PyLit), q ∈ l.zip l → q.1 = q.2 := by
        intro l
        induction l with
        | nil => intro q hq; simp at hq
        | cons x xs ih =>
          intro q hq
          simp only [List.zip_cons_cons, List.mem_cons] at hq
          rcases hq with rfl | hq
          · rfl
          · exact ih q hq
      simpa using hz a p hp
    · intro kv hkv
      rw [lookup_self_of_nodup r.kwargs hk kv hkv]
      simp

theorem checkFilterEquality_self : ∀ (rs : List FilterRec), allArgs rs = true →
    (∀ r ∈ rs, (r.kwargs.map Prod.fst).Nodup) → checkFilterEquality rs rs = true := by
  intro rs ha hk
  unfold checkFilterEquality
  simp only [beq_self_eq_true, Bool.true_and, List.all_eq_true]
  intro p hp
  have hz : ∀ (l : List FilterRec) (q : FilterRec × FilterRec), q ∈ l.zip l → q.1 = q.2 ∧ q.1 ∈ l := by
    intro l
    induction l with
    | nil => intro q hq; simp at hq
    | cons x xs ih =>
      intro q hq
      simp only [List.zip_cons_cons, List.mem_cons] at hq
      rcases hq with rfl | hq
      · exact ⟨rfl, by simp⟩
      · exact ⟨(ih q hq).1, by simp [(ih q hq).2]⟩
  obtain ⟨e, hm⟩ := hz rs p hp
  rw [← e]
  exact checkPair_self p.1 (by simpa [allArgs] using (List.all_eq_true.1 ha) p.1 hm) (hk p.1 hm)

end MZ.Filt
