import MazeVerif.Lemmas.AStarGrid
import MazeVerif.Lemmas.GenTie
/-! # C02 — the shortest-path solver is sound, optimal and complete on every maze

Model: `MZ.AStar.astar` (`Model/AStar.lean`, lattice_maze.py:267-342). Theorems hold for EVERY well-formed connection
structure (trees, cyclic, disconnected), every ordered pair of cells, every fuel, and **every legal pick sequence**
(all that `min(open_vtx, key=f_score)` guarantees, whatever CPython's set order does). -/
namespace MZ.AStar
open MZ

/-- number of steps of the returned path -/
def steps (path : List Cell) : Nat := path.length - 1

/-- full statement of C02 (proved as `C02_full_holds`) -/
def C02_full : Prop :=
  ∀ (rows cols : Nat) (E : List Edge), WF rows cols E → ∀ (start endc : Cell) (picks : List Cell) (fuel : Nat),
    -- a returned path is a walk from start to end along connections, of minimum length
    (∀ path, astar rows cols E start endc picks fuel = .found path →
      path.head? = some start ∧ path.getLast? = some endc ∧ IsWalkList (Adj E) path ∧
      Walk (Adj E) start endc (steps path) ∧ ∀ m, Walk (Adj E) start endc m → steps path ≤ m) ∧
    -- the ValueError branch is taken only when the cells are not connected
    (astar rows cols E start endc picks fuel = .noPath → ¬ Reach E start endc) ∧
    -- a path is returned only when they are
    (∀ path, astar rows cols E start endc picks fuel = .found path → Reach E start endc) ∧
    -- enough fuel: the loop ends by itself (at most one iteration per cell)
    (inGrid rows cols start → rows * cols + 1 ≤ fuel → astar rows cols E start endc picks fuel ≠ .outOfFuel)

private theorem spec {rows cols : Nat} {E : List Edge} (start endc : Cell) (picks : List Cell) (fuel : Nat) :
    (∀ path, astar rows cols E start endc picks fuel = .found path →
      ∃ n : Nat, (path.head? = some start ∧ path.getLast? = some endc ∧ path.length = n + 1 ∧
          IsWalkList (GAdj rows cols E) path) ∧
        Walk (GAdj rows cols E) start endc n ∧ ∀ m, Walk (GAdj rows cols E) start endc m → n ≤ m) ∧
    (astar rows cols E start endc picks fuel = .noPath → ∀ m, ¬ Walk (GAdj rows cols E) start endc m) := by
  unfold astar initState
  exact run_spec (Adj := GAdj rows cols E) (start := start) (fun a b => mem_coordNeighbors_iff)
    (fun a b hab => manhattan_consistent endc hab.1) fuel _ picks
    (inv_init _ _ (by simp [upd])) (by simp)

theorem C02_sound {rows cols : Nat} {E : List Edge} (hwf : WF rows cols E) {start endc : Cell} {picks fuel path}
    (h : astar rows cols E start endc picks fuel = .found path) :
    path.head? = some start ∧ path.getLast? = some endc ∧ IsWalkList (Adj E) path := by
  obtain ⟨n, ⟨h1, h2, _, h4⟩, _⟩ := (spec start endc picks fuel).1 path h
  exact ⟨h1, h2, isWalkList_congr (fun a b hab => (gadj_iff_adj hwf).mp hab) h4⟩

theorem C02_optimal {rows cols : Nat} {E : List Edge} (hwf : WF rows cols E) {start endc : Cell} {picks fuel path}
    (h : astar rows cols E start endc picks fuel = .found path) :
    Walk (Adj E) start endc (steps path) ∧ ∀ m, Walk (Adj E) start endc m → steps path ≤ m := by
  obtain ⟨n, ⟨_, _, h3, _⟩, hw, hmin⟩ := (spec start endc picks fuel).1 path h
  have hc : ∀ a b, GAdj rows cols E a b ↔ Adj E a b := fun a b => gadj_iff_adj hwf
  have hs : steps path = n := by simp [steps, h3]
  rw [hs]
  exact ⟨(walk_congr hc).mp hw, fun m wm => hmin m ((walk_congr hc).mpr wm)⟩

/-- completeness, error direction: the solver gives up (ValueError) only if no connection path exists -/
theorem C02_complete_error {rows cols : Nat} {E : List Edge} (hwf : WF rows cols E) {start endc : Cell} {picks fuel}
    (h : astar rows cols E start endc picks fuel = .noPath) : ¬ Reach E start endc := by
  intro hr
  obtain ⟨n, w⟩ := reach_iff_walk.mp hr
  exact (spec start endc picks fuel).2 h n ((walk_congr (fun a b => gadj_iff_adj hwf)).mpr w)

theorem C02_complete_found {rows cols : Nat} {E : List Edge} (hwf : WF rows cols E) {start endc : Cell} {picks fuel path}
    (h : astar rows cols E start endc picks fuel = .found path) : Reach E start endc :=
  reach_iff_walk.mpr ⟨_, (C02_optimal hwf h).1⟩

/-- connected cells are never answered with the error (for any legal picks and enough fuel the only other outcome is a path) -/
theorem C02_connected_not_error {rows cols : Nat} {E : List Edge} (hwf : WF rows cols E) {start endc : Cell} {picks fuel}
    (hr : Reach E start endc) : astar rows cols E start endc picks fuel ≠ .noPath :=
  fun h => C02_complete_error hwf h hr

/-- termination: `rows*cols + 1` iterations always suffice, for any picks -/
theorem C02_total {rows cols : Nat} {E : List Edge} {start endc : Cell} {picks fuel}
    (hs : inGrid rows cols start) (hf : rows * cols + 1 ≤ fuel) :
    astar rows cols E start endc picks fuel ≠ .outOfFuel := by
  unfold astar initState
  exact run_no_outOfFuel fuel _ picks
    ⟨by intro v hv; simp at hv; subst hv; exact hs, by simp, by simp, by simp, by simp⟩ (by simpa using hf)

/-- a query from a cell to itself returns the one-cell path (the only legal first pick is the start) -/
theorem C02_self {rows cols : Nat} {E : List Edge} (c : Cell) (rest : List Cell) (fuel : Nat) :
    astar rows cols E c c (c :: rest) (fuel + 1) = .found [c] := by
  simp [astar, run, initState, upd, recon, manhattan]

/-- and any other first pick is rejected as illegal, so `[c]` is the only possible answer -/
theorem C02_self_only {rows cols : Nat} {E : List Edge} (c x : Cell) (rest : List Cell) (fuel : Nat) (hx : x ≠ c) :
    astar rows cols E c c (x :: rest) (fuel + 1) = .illegalPick := by
  simp [astar, run, initState, hx]

theorem C02_full_holds : C02_full := by
  intro rows cols E hwf start endc picks fuel
  refine ⟨fun path h => ?_, C02_complete_error hwf, fun path h => C02_complete_found hwf h,
    fun hs hf => C02_total hs hf⟩
  obtain ⟨h1, h2, h3⟩ := C02_sound hwf h
  obtain ⟨h4, h5⟩ := C02_optimal hwf h
  exact ⟨h1, h2, h3, h4, h5⟩

/-! ## non-vacuity: a cyclic 2x2 maze and a disconnected one -/
example : astar 2 2 [(0,0,0),(1,0,0),(0,0,1),(1,1,0)] (0,0) (1,1) [(0,0),(0,1),(1,1)] 9 = .found [(0,0),(0,1),(1,1)] := by decide
example : astar 2 2 [(1,0,0)] (0,0) (1,1) [(0,0),(0,1)] 9 = .noPath := by decide
example : WF 2 2 [(0,0,0),(1,0,0),(0,0,1),(1,1,0)] := by decide

end MZ.AStar
