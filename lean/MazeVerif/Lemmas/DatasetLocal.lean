import MazeVerif.Lemmas.DatasetGen
/-! LOCALITY of serial generation: every call reads the shared streams only through the prefix it consumes. If a run on
    streams `st` leaves `left`, then `st = used ++ left` (stream by stream) and the SAME items come out of ANY streams
    `used ++ t` — replacing everything after the consumed prefix changes nothing but the leftover. -/
namespace MZ

theorem startCoord_local {rows cols : Nat} {given draws c rest}
    (h : startCoord rows cols given draws = some (c, rest)) :
    ∃ u, draws = u ++ rest ∧ ∀ t, startCoord rows cols given (u ++ t) = some (c, t) := by
  unfold startCoord at h
  split at h
  · next c0 =>
    split at h
    · next hin =>
      simp only [Option.some.injEq, Prod.mk.injEq] at h
      obtain ⟨rfl, rfl⟩ := h
      exact ⟨[], rfl, fun t => by simp [startCoord, hin]⟩
    · exact absurd h (by simp)
  · unfold randomStart at h
    split at h
    · next a b r =>
      split at h
      · next hab =>
        simp only [Option.some.injEq, Prod.mk.injEq] at h
        obtain ⟨rfl, rfl⟩ := h
        exact ⟨[a, b], rfl, fun t => by simp [startCoord, randomStart, hab]⟩
      · exact absurd h (by simp)
    · exact absurd h (by simp)

theorem popIdx_local {a : Args} {s : St} {i rng1} (h : popIdx a s = some (i, rng1)) :
    ∃ u, s.rng = u ++ rng1 ∧ ∀ t, popIdx a { s with rng := u ++ t } = some (i, t) := by
  unfold popIdx at h
  split at h
  · next hrs =>
    split at h
    · next r rs hr =>
      simp only [Option.some.injEq, Prod.mk.injEq] at h
      obtain ⟨rfl, rfl⟩ := h
      exact ⟨[r], by rw [hr]; rfl, fun t => by simp [popIdx, hrs]⟩
    · exact absurd h (by simp)
  · next hrs =>
    simp only [Option.some.injEq, Prod.mk.injEq] at h
    obtain ⟨rfl, rfl⟩ := h
    exact ⟨[], rfl, fun t => by simp [popIdx, hrs]⟩

theorem step_local {rows cols : Nat} {a : Args} {s s' : St} (h : step rows cols a s = some s') :
    ∃ u, s.rng = u ++ s'.rng ∧ ∀ t, step rows cols a { s with rng := u ++ t } = some { s' with rng := t } := by
  unfold step at h
  split at h
  · exact absurd h (by simp)
  · next i rng1 hp =>
    obtain ⟨u1, hu1, hp'⟩ := popIdx_local hp
    split at h
    · exact absurd h (by simp)
    · next cur hcur =>
      simp only at h
      split at h
      · next hc =>
        split at h
        · exact absurd h (by simp)
        · next k rng2 =>
          split at h
          · exact absurd h (by simp)
          · next nb hnb =>
            simp only [Option.some.injEq] at h
            subst h
            refine ⟨u1 ++ [k], by simp [hu1], fun t => ?_⟩
            have hpk := hp' (k :: t)
            unfold step
            simp only [List.append_assoc, List.cons_append, List.nil_append]
            simp only [hpk, hcur, hc, hnb]
            simp [hc.1]
      · next hc =>
        simp only [Option.some.injEq] at h
        subst h
        refine ⟨u1, hu1, fun t => ?_⟩
        have hpk := hp' t
        unfold step
        simp only [hpk, hcur, hc]
        simp

theorem loop_local {rows cols : Nat} {a : Args} : ∀ (fuel : Nat) {s s' : St}, loop rows cols a fuel s = some s' →
    ∃ u, s.rng = u ++ s'.rng ∧ ∀ t, loop rows cols a fuel { s with rng := u ++ t } = some { s' with rng := t }
  | 0, _, _, h => by simp [loop] at h
  | fuel + 1, s, s', h => by
    rw [loop] at h
    split at h
    · next hcond =>
      split at h
      · next s1 hs1 =>
        obtain ⟨u1, e1, f1⟩ := step_local hs1
        obtain ⟨u2, e2, f2⟩ := loop_local fuel h
        refine ⟨u1 ++ u2, by rw [e1, e2, List.append_assoc], fun t => ?_⟩
        rw [loop]
        have hcond' : ({ s with rng := u1 ++ u2 ++ t } : St).stack ≠ [] ∧
            ({ s with rng := u1 ++ u2 ++ t } : St).visited.length < a.nAcc := hcond
        rw [if_pos hcond', List.append_assoc, f1 (u2 ++ t)]
        exact f2 t
      · exact absurd h (by simp)
    · next hcond =>
      simp only [Option.some.injEq] at h; subst h
      refine ⟨[], rfl, fun t => ?_⟩
      rw [loop]
      have hcond' : ¬ (({ s with rng := [] ++ t } : St).stack ≠ [] ∧
            ({ s with rng := [] ++ t } : St).visited.length < a.nAcc) := hcond
      rw [if_neg hcond']; rfl

theorem genDfsTop_local {rows cols : Nat} {a given draws fuel o}
    (h : genDfsTop rows cols a given draws fuel = some o) :
    ∃ u, draws = u ++ o.leftover ∧ ∀ t, genDfsTop rows cols a given (u ++ t) fuel = some { o with leftover := t } := by
  unfold genDfsTop at h
  split at h
  · exact absurd h (by simp)
  · next start d1 hst =>
    split at h
    · exact absurd h (by simp)
    · next s hs =>
      simp only [Option.some.injEq] at h; subst h
      obtain ⟨u1, e1, f1⟩ := startCoord_local hst
      obtain ⟨u2, e2, f2⟩ := loop_local fuel (s := init start d1) hs
      refine ⟨u1 ++ u2, by rw [e1]; show u1 ++ d1 = _; rw [show d1 = u2 ++ s.rng from e2, List.append_assoc], fun t => ?_⟩
      unfold genDfsTop
      rw [List.append_assoc, f1 (u2 ++ t)]
      have : genDfs rows cols a start (u2 ++ t) fuel = some { s with rng := t } := f2 t
      simp only [this]

theorem walk_local {rows cols : Nat} {vis : List Cell} : ∀ (fuel : Nat) {path rng path' rng'},
    walk rows cols vis fuel path rng = some (path', rng') →
    ∃ u, rng = u ++ rng' ∧ ∀ t, walk rows cols vis fuel path (u ++ t) = some (path', t)
  | 0, _, _, _, _, h => by simp [walk] at h
  | fuel + 1, path, rng, path', rng', h => by
    unfold walk at h
    split at h
    · next hv =>
      simp only [Option.some.injEq, Prod.mk.injEq] at h
      obtain ⟨rfl, rfl⟩ := h
      exact ⟨[], rfl, fun t => by unfold walk; rw [if_pos hv]; rfl⟩
    · next hv =>
      split at h
      · exact absurd h (by simp)
      · next k r =>
        split at h
        · exact absurd h (by simp)
        · next nx hnx =>
          split at h
          · next hmem =>
            obtain ⟨u, e, f⟩ := walk_local fuel h
            refine ⟨k :: u, by rw [e]; rfl, fun t => ?_⟩
            unfold walk
            rw [if_neg hv]
            simp only [List.cons_append, hnx, if_pos hmem]
            exact f t
          · next hmem =>
            obtain ⟨u, e, f⟩ := walk_local fuel h
            refine ⟨k :: u, by rw [e]; rfl, fun t => ?_⟩
            unfold walk
            rw [if_neg hv]
            simp only [List.cons_append, hnx, if_neg hmem]
            exact f t

theorem outer_local {rows cols : Nat} : ∀ (fuel : Nat) {s s' : WSt}, outer rows cols fuel s = some s' →
    ∃ u, s.rng = u ++ s'.rng ∧ ∀ t, outer rows cols fuel { s with rng := u ++ t } = some { s' with rng := t }
  | 0, _, _, h => by simp [outer] at h
  | fuel + 1, s, s', h => by
    rw [outer] at h
    split at h
    · next hu =>
      simp only [Option.some.injEq] at h; subst h
      refine ⟨[], rfl, fun t => ?_⟩
      rw [outer]
      have hu' : (cells rows cols).filter (fun c => c ∉ ({ s with rng := [] ++ t } : WSt).vis) = [] := hu
      simp only [hu', if_true]; rfl
    · next hu =>
      split at h
      · exact absurd h (by simp)
      · next k rng1 hr =>
        split at h
        · exact absurd h (by simp)
        · next u0 hu0 =>
          split at h
          · exact absurd h (by simp)
          · next path rng2 hw =>
            obtain ⟨u1, e1, f1⟩ := walk_local fuel hw
            obtain ⟨u2, e2, f2⟩ := outer_local fuel h
            refine ⟨k :: (u1 ++ u2), ?_, fun t => ?_⟩
            · rw [hr, e1]
              have : rng2 = u2 ++ s'.rng := e2
              rw [this]; simp
            · rw [outer]
              have hu' : ¬ (cells rows cols).filter (fun c => c ∉ ({ s with rng := k :: (u1 ++ u2) ++ t } : WSt).vis) = [] := hu
              have hu0' : ((cells rows cols).filter (fun c => c ∉ ({ s with rng := k :: (u1 ++ u2) ++ t } : WSt).vis))[k]? = some u0 := hu0
              simp only [hu', if_false]
              simp only [List.cons_append, List.append_assoc, hu0']
              have hw' : walk rows cols s.vis fuel [u0] (u1 ++ (u2 ++ t)) = some (path, u2 ++ t) := f1 (u2 ++ t)
              simp only [hw']
              exact f2 t

theorem genWilsonTop_local {rows cols : Nat} {draws fuel w}
    (h : genWilsonTop rows cols draws fuel = some w) :
    ∃ u, draws = u ++ w.rng ∧ ∀ t, genWilsonTop rows cols (u ++ t) fuel = some { w with rng := t } := by
  unfold genWilsonTop at h
  split at h
  · exact absurd h (by simp)
  · next start d1 hst =>
    obtain ⟨u1, e1, f1⟩ := startCoord_local (given := none) (by simpa [startCoord] using hst)
    obtain ⟨u2, e2, f2⟩ := outer_local fuel (s := { vis := [start], E := [], rng := d1 }) h
    refine ⟨u1 ++ u2, by rw [e1]; show u1 ++ d1 = _; rw [show d1 = u2 ++ w.rng from e2, List.append_assoc], fun t => ?_⟩
    unfold genWilsonTop
    have f1' : randomStart rows cols (u1 ++ (u2 ++ t)) = some (start, u2 ++ t) := by
      simpa [startCoord] using f1 (u2 ++ t)
    rw [List.append_assoc, f1']
    exact f2 t

theorem percolate_some_length {rows cols : Nat} {p r E} (h : percolate rows cols p r = some E) :
    r.length = 2 * rows * cols := by
  unfold percolate at h
  split at h
  · assumption
  · exact absurd h (by simp)

/-- `gen_percolation` looks at the draws only through the start coordinate -/
theorem genPercolationTop_congr {rows cols : Nat} {p given draws draws' rands fuel c d1 d1'}
    (h1 : startCoord rows cols given draws = some (c, d1)) (h2 : startCoord rows cols given draws' = some (c, d1')) :
    genPercolationTop rows cols p given draws rands fuel = genPercolationTop rows cols p given draws' rands fuel := by
  unfold genPercolationTop; rw [h1, h2]

theorem genPercolationTop_rands_length {rows cols : Nat} {p given draws rands fuel o}
    (h : genPercolationTop rows cols p given draws rands fuel = some o) : rands.length = 2 * rows * cols := by
  unfold genPercolationTop at h
  split at h
  · exact absurd h (by simp)
  · split at h
    · exact absurd h (by simp)
    · next E hE => exact percolate_some_length hE

theorem genDfsPercolationTop_rands_length {rows cols : Nat} {p a given draws rands fuel o}
    (h : genDfsPercolationTop rows cols p a given draws rands fuel = some o) : rands.length = 2 * rows * cols := by
  unfold genDfsPercolationTop at h
  split at h
  · exact absurd h (by simp)
  · split at h
    · exact absurd h (by simp)
    · split at h
      · exact absurd h (by simp)
      · next E hE => exact percolate_some_length hE

/-- `gen_dfs_percolation` looks at the draws only through the start coordinate and the dfs run (edges, visited) -/
theorem genDfsPercolationTop_local {rows cols : Nat} {p a given draws rands fuel d}
    (hd : genDfsTop rows cols a given draws fuel = some d) :
    ∃ u, draws = u ++ d.leftover ∧ ∀ t, genDfsTop rows cols a given (u ++ t) fuel = some { d with leftover := t } ∧
      genDfsPercolationTop rows cols p a given (u ++ t) rands fuel = genDfsPercolationTop rows cols p a given draws rands fuel := by
  unfold genDfsTop at hd
  split at hd
  · exact absurd hd (by simp)
  · next start d1 hst =>
    split at hd
    · exact absurd hd (by simp)
    · next s hs =>
      simp only [Option.some.injEq] at hd; subst hd
      obtain ⟨u1, e1, f1⟩ := startCoord_local hst
      obtain ⟨u2, e2, f2⟩ := loop_local fuel (s := init start d1) hs
      refine ⟨u1 ++ u2, by rw [e1]; show u1 ++ d1 = _; rw [show d1 = u2 ++ s.rng from e2, List.append_assoc], fun t => ?_⟩
      have hg : genDfs rows cols a start (u2 ++ t) fuel = some { s with rng := t } := f2 t
      constructor
      · unfold genDfsTop
        rw [List.append_assoc, f1 (u2 ++ t)]
        simp only [hg]
      · unfold genDfsPercolationTop
        rw [List.append_assoc, f1 (u2 ++ t), hst]
        have hs' : genDfs rows cols a start d1 fuel = some s := hs
        simp only [hg, hs']

theorem genMaze_local {rows cols : Nat} {g draws rands fuel m}
    (h : genMaze rows cols g draws rands fuel = some m) :
    ∃ ud ur, draws = ud ++ m.draws ∧ rands = ur ++ m.rands ∧
      ∀ td tr, genMaze rows cols g (ud ++ td) (ur ++ tr) fuel = some { m with draws := td, rands := tr } := by
  unfold genMaze at h
  cases g with
  | dfs a given =>
    simp only [Option.map_eq_some_iff] at h
    obtain ⟨o, ho, rfl⟩ := h
    obtain ⟨u, e, f⟩ := genDfsTop_local ho
    exact ⟨u, [], e, rfl, fun td tr => by simp [genMaze, f td]⟩
  | prim a given =>
    simp only [Option.map_eq_some_iff] at h
    obtain ⟨o, ho, rfl⟩ := h
    obtain ⟨u, e, f⟩ := genDfsTop_local (a := { a with randStack := true }) ho
    refine ⟨u, [], e, rfl, fun td tr => ?_⟩
    have := f td
    simp only [genMaze, genPrimTop, this]; simp
  | wilson =>
    simp only [Option.map_eq_some_iff] at h
    obtain ⟨w, hw, rfl⟩ := h
    obtain ⟨u, e, f⟩ := genWilsonTop_local hw
    exact ⟨u, [], e, rfl, fun td tr => by simp [genMaze, f td]⟩
  | percolation p given =>
    simp only at h
    split at h
    · next c d1 o hst ho =>
      simp only [Option.some.injEq] at h; subst h
      obtain ⟨u, e, f⟩ := startCoord_local hst
      have hl := genPercolationTop_rands_length ho
      refine ⟨u, rands.take (2 * rows * cols), e, (List.take_append_drop _ _).symm, fun td tr => ?_⟩
      have ht : (rands.take (2 * rows * cols) ++ tr).take (2 * rows * cols) = rands.take (2 * rows * cols) :=
        List.take_left' hl
      have hdr : (rands.take (2 * rows * cols) ++ tr).drop (2 * rows * cols) = tr := List.drop_left' hl
      have hc := genPercolationTop_congr (p := p) (rands := rands.take (2 * rows * cols)) (fuel := fuel) (f td) hst
      simp only [genMaze, f td, ht, hdr, hc, ho]
    · exact absurd h (by simp)
  | dfsPercolation p a given =>
    simp only at h
    split at h
    · next d o hd ho =>
      simp only [Option.some.injEq] at h; subst h
      obtain ⟨u, e, f⟩ := genDfsPercolationTop_local (p := p) (rands := rands.take (2 * rows * cols)) hd
      have hl := genDfsPercolationTop_rands_length ho
      refine ⟨u, rands.take (2 * rows * cols), e, (List.take_append_drop _ _).symm, fun td tr => ?_⟩
      have ht : (rands.take (2 * rows * cols) ++ tr).take (2 * rows * cols) = rands.take (2 * rows * cols) :=
        List.take_left' hl
      have hdr : (rands.take (2 * rows * cols) ++ tr).drop (2 * rows * cols) = tr := List.drop_left' hl
      simp only [genMaze, (f td).1, (f td).2, ht, hdr, ho]
    · exact absurd h (by simp)

theorem endpointDraws_local {rows cols : Nat} {E comp o s draws rest}
    (h : endpointDraws rows cols E comp o s draws = some rest) :
    ∃ a b, draws = a :: b :: rest ∧ ∀ t, endpointDraws rows cols E comp o s (a :: b :: t) = some t := by
  unfold endpointDraws at h
  split at h
  · next a b r =>
    refine ⟨a, b, ?_⟩
    split at h
    · next hdef =>
      simp only [Option.ite_none_right_eq_some, Option.some.injEq] at h
      refine ⟨by rw [h.2], fun t => ?_⟩
      simp only [endpointDraws, hdef, if_true]
      rw [if_pos h.1]
    · next hdef =>
      simp only [Option.ite_none_right_eq_some, Option.some.injEq] at h
      refine ⟨by rw [h.2], fun t => ?_⟩
      simp only [endpointDraws, hdef, h.1]
      simp
  · exact absurd h (by simp)

/-- stream-wise concatenation: `u.app t` = the streams `u` followed by the streams `t` -/
def Streams.app (u t : Streams) : Streams :=
  { draws := u.draws ++ t.draws, rands := u.rands ++ t.rands, obs := u.obs ++ t.obs }

/-- ONE helper call reads only the prefix `u` it consumes: on ANY continuation `t` of that prefix it returns the same
    item and leaves exactly `t` -/
theorem serialItem_local {cfg : DatasetCfg} {gf sf : Nat} {st : Streams} {it st'}
    (h : serialItem cfg gf sf st = some (it, st')) :
    ∃ u : Streams, st = u.app st' ∧ ∀ t, serialItem cfg gf sf (u.app t) = some (it, t) := by
  unfold serialItem at h
  split at h
  · exact absurd h (by simp)
  · next m hm =>
    obtain ⟨ud, ur, ed, er, fm⟩ := genMaze_local hm
    split at h
    · next hg =>
      split at h
      · exact absurd h (by simp)
      · next ob obs' hobs =>
        split at h
        · exact absurd h (by simp)
        · next d' hed =>
          split at h
          · next sol hsol =>
            simp only [Option.some.injEq, Prod.mk.injEq] at h
            obtain ⟨rfl, rfl⟩ := h
            obtain ⟨a, b, hab, fe⟩ := endpointDraws_local hed
            refine ⟨{ draws := ud ++ [a, b], rands := ur, obs := [ob] }, ?_, fun t => ?_⟩
            · cases st with
              | mk d r o =>
                simp only at ed er hobs
                simp only [Streams.app, Streams.mk.injEq]
                refine ⟨?_, er, hobs⟩
                rw [ed, hab]; simp
            · have hm' := fm ([a, b] ++ t.draws) t.rands
              have hd : ({ draws := ud ++ [a, b], rands := ur, obs := [ob] } : Streams).app t =
                  { draws := ud ++ ([a, b] ++ t.draws), rands := ur ++ t.rands, obs := ob :: t.obs } := by
                simp [Streams.app]
              rw [hd]
              unfold serialItem
              simp only [hm', if_pos hg]
              have fe' := fe t.draws
              simp only [List.cons_append, List.nil_append, fe', hsol]
          · exact absurd h (by simp)
    · exact absurd h (by simp)

theorem Streams.app_assoc (a b c : Streams) : (a.app b).app c = a.app (b.app c) := by
  simp [Streams.app]

/-- LOCALITY of a whole run: it reads only the prefix `u` it consumes; on ANY continuation `t` of that prefix the same
    items come out and exactly `t` is left -/
theorem generateSerial_local {cfg : DatasetCfg} {gf sf : Nat} : ∀ {n : Nat} {st : Streams} {its left},
    generateSerial cfg gf sf n st = some (its, left) →
    ∃ u : Streams, st = u.app left ∧ ∀ t, generateSerial cfg gf sf n (u.app t) = some (its, t)
  | 0, st, its, left, h => by
    simp only [generateSerial, Option.some.injEq, Prod.mk.injEq] at h
    obtain ⟨rfl, rfl⟩ := h
    refine ⟨{ draws := [], rands := [], obs := [] }, by simp [Streams.app], fun t => ?_⟩
    have : ({ draws := [], rands := [], obs := [] } : Streams).app t = t := by simp [Streams.app]
    rw [this]; rfl
  | n + 1, st, its, left, h => by
    rw [generateSerial] at h
    split at h
    · exact absurd h (by simp)
    · next it st' hs =>
      split at h
      · exact absurd h (by simp)
      · next its' st'' h' =>
        simp only [Option.some.injEq, Prod.mk.injEq] at h
        obtain ⟨rfl, rfl⟩ := h
        obtain ⟨u1, e1, f1⟩ := serialItem_local hs
        obtain ⟨u2, e2, f2⟩ := generateSerial_local h'
        refine ⟨u1.app u2, by rw [e1, e2, Streams.app_assoc], fun t => ?_⟩
        rw [Streams.app_assoc, generateSerial, f1 (u2.app t)]
        simp only [f2 t]

end MZ
