import MazeVerif.Generated.SerialFormats
/-! Model of dataset (de)serialisation — property C05.

Mirrors, line by line,
* `MazeDataset.serialize / _serialize_full / _serialize_minimal / _serialize_minimal_soln_cat`
  (maze_dataset.py:437-537) and `load / _load_full / _load_minimal / _load_minimal_soln_cat / _load_legacy` (347-435),
* the in-place `collect_generation_meta` filter the two minimal serializers call when nothing is collected yet
  (maze_dataset.py:745-815 through the `register_dataset_filter` wrapper, dataset.py:484-500),
* the `SolvedMaze` / `TargetedLatticeMaze` constructor every loader goes through (lattice_maze.py:1066-1086, 1140-1185),
* `MazeDatasetCollection.serialize / load / __init__` (collected_dataset.py:71-86, 141-159),
* `GPTDataset.save / read` (dataset.py:316-326) with zanj's handler selection (`get_item_loader`: exact uid first, then the first
  handler whose `check` — a `startswith` test — accepts; maze_dataset.py:563-577, collected_dataset.py:193-206).

Format strings, the `load` dispatch table, the threshold comparison and the numpy dtypes of the array stores are NOT written here:
they come from `Generated/SerialFormats.lean`, re-emitted from the source on every run.

External calls are parameters (`Env`): json round trip of the config (C18), of the collected dict, of a per-maze meta dict, the
`Counter` loop of `collect_generation_meta` (C08), and the ZANJ/npy store itself (identity on the tree of arrays).
`np.empty` contents are an explicit argument `pad`. Core Lean only. -/
namespace MZ.Serial
open MZ.Gen.Serial

inductive Err | valueError | assertionError | indexError | keyError | other
  deriving DecidableEq, Repr, Inhabited

def Err.name : Err → String
  | .valueError => "ValueError" | .assertionError => "AssertionError" | .indexError => "IndexError"
  | .keyError => "KeyError" | .other => "other"

def errOfName : String → Err
  | "ValueError" => .valueError | "AssertionError" => .assertionError | "IndexError" => .indexError
  | "KeyError" => .keyError | _ => .other

abbrev Coord := Int × Int

/-! ## numpy idioms -/

/-- storing a Python int into a signed fixed-width numpy array (two's complement wrap, numpy 1.26 semantics) -/
def wrapBits (bits : Nat) (x : Int) : Int := (x + 2 ^ (bits - 1)) % 2 ^ bits - 2 ^ (bits - 1)

/-- the store function of a numpy dtype named as in the source (`np.int8`, …); unknown names store exactly -/
def wrapDtype : String → Int → Int
  | "int8" => wrapBits 8 | "int16" => wrapBits 16 | "int32" => wrapBits 32 | "int64" => wrapBits 64
  | "uint8" => fun x => x % 2 ^ 8 | "uint16" => fun x => x % 2 ^ 16 | "uint32" => fun x => x % 2 ^ 32
  | _ => id

/-- dtype of the array variable `var` allocated in serializer `ser` (from the generated table) -/
def dtypeOf (ser var : String) : Option String :=
  (storeDtypes.find? fun e => e.1 = ser ∧ e.2.1 = var).map (·.2.2)

def wrapCoord (dt : String) (c : Coord) : Coord := (wrapDtype dt c.1, wrapDtype dt c.2)

/-- Python index normalisation inside a slice: negative counts from the end, everything clamps to `[0, n]` -/
def normIdx (n : Nat) (i : Int) : Nat :=
  if 0 ≤ i then min i.toNat n else (n - (-i).toNat)

/-- `xs[s:e]` -/
def pySlice {α} (xs : List α) (s e : Int) : List α :=
  (xs.take (normIdx xs.length e)).drop (normIdx xs.length s)

/-- `xs[:e]` -/
def pySliceTo {α} (xs : List α) (e : Int) : List α := xs.take (normIdx xs.length e)

/-- `np.cumsum` with a start value -/
def cumsumFrom : Int → List Int → List Int
  | _, [] => []
  | acc, x :: xs => (acc + x) :: cumsumFrom (acc + x) xs

/-- `np.split(ary, indices, axis=0)`: pieces `ary[d_k : d_{k+1}]` for `d = [0] ++ indices ++ [len]` -/
def npSplitFrom {α} (xs : List α) : Int → List Int → List (List α)
  | prev, [] => [pySlice xs prev xs.length]
  | prev, i :: is => pySlice xs prev i :: npSplitFrom xs i is

def npSplit {α} (xs : List α) (idx : List Int) : List (List α) := npSplitFrom xs 0 idx

def zip3 {α β γ} : List α → List β → List γ → List (α × β × γ)
  | a :: as, b :: bs, c :: cs => (a, b, c) :: zip3 as bs cs
  | _, _, _ => []

/-! ## data -/

/-- a constructed `SolvedMaze`: `gridN` = `connection_list.shape[1]` (square), `clist` the flat bits of the `(2,g,g)` array -/
structure Maze (μ : Type) where
  gridN : Nat
  clist : List Bool
  sol : List Coord
  startPos : Coord
  endPos : Coord
  gmeta : Option μ
  deriving Repr

/-- a `MazeDataset`: config, mazes, `generation_metadata_collected` -/
structure DS (κ μ M : Type) where
  cfg : κ
  mazes : List (Maze μ)
  collected : Option M

/-- the external calls -/
structure Env (κ μ M : Type) where
  /-- `cfg.grid_n` -/
  gridN : κ → Nat
  /-- `cfg.applied_filters.append(dict(name="collect_generation_meta", args=(), kwargs={}))` (dataset.py:493-496) -/
  addCollectFilter : κ → κ
  /-- the `Counter` loop of `collect_generation_meta` over the per-maze dicts (maze_dataset.py:767-806) -/
  collect : List μ → M
  /-- `MazeDatasetConfig.load ∘ json_serialize` (property C18) -/
  cfgJson : κ → κ
  /-- `json_serialize` of the collected dict: keys become `str(key)` -/
  metaJson : M → M
  /-- json round trip of a per-maze `generation_meta` dict (full format only) -/
  mazeMetaJson : μ → μ

def inBounds (g : Nat) (c : Coord) : Bool := decide (0 ≤ c.1) && decide (c.1 < g) && decide (0 ≤ c.2) && decide (c.2 < g)

/-- `SolvedMaze.__init__` + `TargetedLatticeMaze.__post_init__`: the solution must be non-empty (ValueError), start/end are its
    first/last rows and must lie in the grid (ValueError), explicitly given endpoints must agree (AssertionError). -/
def mkSolved {μ} (g : Nat) (clist : List Bool) (sol : List Coord) (gmeta : Option μ) (sp ep : Option Coord) :
    Except Err (Maze μ) :=
  match sol.head?, sol.getLast? with
  | some s, some e =>
    if !inBounds g s then .error .valueError
    else if !inBounds g e then .error .valueError
    else if sp.any (· != s) then .error .assertionError
    else if ep.any (· != e) then .error .assertionError
    else .ok { gridN := g, clist, sol, startPos := s, endPos := e, gmeta }
  | _, _ => .error .valueError

/-! ## `collect_generation_meta` as called by the minimal serializers (in place) -/

def clearMeta {μ} (m : Maze μ) : Maze μ := { m with gmeta := none }

/-- what the dataset looks like once its metadata has been collected (total function used by the theorems) -/
def collectedForm {κ μ M} (E : Env κ μ M) (ds : DS κ μ M) : DS κ μ M :=
  match ds.collected with
  | some _ => ds
  | none => { cfg := E.addCollectFilter ds.cfg, mazes := ds.mazes.map clearMeta,
              collected := some (E.collect (ds.mazes.filterMap (·.gmeta))) }

/-- `dataset.filter_by.collect_generation_meta()`: the registered wrapper around the filter.
    Already collected → same dataset (the wrapper still appends the filter record); empty → `dataset[0]` IndexError;
    first maze without meta → AssertionError; a later maze without meta → ValueError. The source object is mutated in place,
    so the result is also the new state of the source. -/
def collectMeta {κ μ M} (E : Env κ μ M) (ds : DS κ μ M) : Except Err (DS κ μ M) :=
  match ds.collected with
  | some _ => .ok { ds with cfg := E.addCollectFilter ds.cfg }
  | none =>
    match ds.mazes with
    | [] => .error .indexError
    | m0 :: _ =>
      if m0.gmeta.isNone then .error .assertionError
      else if ds.mazes.all (·.gmeta.isSome) then .ok (collectedForm E ds)
      else .error .valueError

/-- `filtered_meta` of both minimal serializers -/
def filteredMeta {κ μ M} (E : Env κ μ M) (ds : DS κ μ M) : Except Err (DS κ μ M) :=
  if ds.collected.isNone then collectMeta E ds else .ok ds

/-! ## stored trees -/

structure StoredMaze (μ : Type) where
  gridN : Nat
  clist : List Bool
  gmeta : Option μ
  startPos : Coord
  endPos : Coord
  sol : List Coord

inductive Payload (μ : Type)
  /-- `mazes=json_serialize(self.mazes)` -/
  | full (mazes : List (StoredMaze μ))
  /-- arrays `maze_connection_lists (n,2,g,g)`, `maze_solution_lengths (n,)`, `maze_solutions (n,maxLen,2)` -/
  | minimal (g : Nat) (clists : List (List Bool)) (lens : List Int) (sols : List (List Coord))
  /-- arrays `maze_connection_lists`, `maze_endpoints (n,2,2)`, `maze_solution_lengths`, `maze_solutions_concat (total,2)` -/
  | cat (g : Nat) (clists : List (List Bool)) (endpoints : List (Coord × Coord)) (lens : List Int) (concat : List Coord)

/-- the dict a serializer returns / a `.zanj` file holds -/
structure Stored (κ μ M : Type) where
  fmt : String
  cfg : κ
  collected : Option M
  payload : Payload μ

def fmtOf (ser : String) : Except Err String :=
  match formatWritten.lookup ser with
  | some f => .ok f
  | none => .error .other

/-- `maze_connection_lists[idx] = maze.connection_list`: shapes `(2,g',g')` into `(2,g,g)`; numpy broadcasts a `(2,1,1)`
    source, any other mismatch raises ValueError -/
def storeClist {μ} (g : Nat) (m : Maze μ) : Except Err (List Bool) :=
  if m.gridN = g then .ok m.clist
  else if m.gridN = 1 then
    match m.clist with
    | [a, b] => .ok (List.replicate (g * g) a ++ List.replicate (g * g) b)
    | _ => .error .valueError
  else .error .valueError

/-! ## the three serializers; each returns the new state of the SOURCE dataset and the stored dict -/

/-- `SolvedMaze.serialize()` (muutils dataclass serialisation): every field, per-maze meta through json -/
def storeMaze {κ μ M} (E : Env κ μ M) (m : Maze μ) : StoredMaze μ :=
  { gridN := m.gridN, clist := m.clist, gmeta := m.gmeta.map E.mazeMetaJson, startPos := m.startPos, endPos := m.endPos,
    sol := m.sol }

/-- `SolvedMaze.load(data)`: the constructor re-run with the stored endpoints -/
def loadMaze {μ} (m : StoredMaze μ) : Except Err (Maze μ) :=
  mkSolved m.gridN m.clist m.sol m.gmeta (some m.startPos) (some m.endPos)

/-- `_serialize_full` (maze_dataset.py:447-455) -/
def serializeFull {κ μ M} (E : Env κ μ M) (ds : DS κ μ M) : Except Err (DS κ μ M × Stored κ μ M) := do
  let fmt ← fmtOf "_serialize_full"
  pure (ds, { fmt, cfg := ds.cfg, collected := ds.collected.map E.metaJson, payload := .full (ds.mazes.map (storeMaze E)) })

/-- row `idx` of `maze_solutions`: `maze_solutions[idx, :len] = maze.solution`, the rest is whatever `np.empty` held -/
def mkRow (dt : String) (pad : Nat → Nat → Coord) (maxLen idx : Nat) (sol : List Coord) : List Coord :=
  sol.map (wrapCoord dt) ++ (List.range' sol.length (maxLen - sol.length)).map (pad idx)

def mkRowsFrom {μ} (dt : String) (pad : Nat → Nat → Coord) (maxLen : Nat) : Nat → List (Maze μ) → List (List Coord)
  | _, [] => []
  | i, m :: ms => mkRow dt pad maxLen i m.sol :: mkRowsFrom dt pad maxLen (i + 1) ms

/-- `_serialize_minimal` (maze_dataset.py:457-491) -/
def serializeMinimal {κ μ M} (E : Env κ μ M) (pad : Nat → Nat → Coord) (ds : DS κ μ M) :
    Except Err (DS κ μ M × Stored κ μ M) := do
  let fm ← filteredMeta E ds
  let maxLen ← match (fm.mazes.map (·.sol.length)).max? with
    | none => .error .valueError            -- `max()` of an empty sequence
    | some x => pure x
  let g := E.gridN fm.cfg
  let dtLen ← match dtypeOf "_serialize_minimal" "maze_solution_lengths" with | some d => pure d | none => .error .other
  let dtSol ← match dtypeOf "_serialize_minimal" "maze_solutions" with | some d => pure d | none => .error .other
  let clists ← fm.mazes.mapM (storeClist g)
  let lens := fm.mazes.map fun m => wrapDtype dtLen m.sol.length
  let sols := mkRowsFrom dtSol pad maxLen 0 fm.mazes
  let fmt ← fmtOf "_serialize_minimal"
  pure (fm, { fmt, cfg := fm.cfg, collected := fm.collected.map E.metaJson, payload := .minimal g clists lens sols })

/-- `_serialize_minimal_soln_cat` (maze_dataset.py:493-537). `total_solution_len = np.sum(maze_solution_lengths)` is the sum of the
    STORED lengths; if it differs from the real total the slice assignments do not fit (modelled as ValueError). -/
def serializeCat {κ μ M} (E : Env κ μ M) (ds : DS κ μ M) : Except Err (DS κ μ M × Stored κ μ M) := do
  let fm ← filteredMeta E ds
  let dtLen ← match dtypeOf "_serialize_minimal_soln_cat" "maze_solution_lengths" with | some d => pure d | none => .error .other
  let dtSol ← match dtypeOf "_serialize_minimal_soln_cat" "maze_solutions_concat" with | some d => pure d | none => .error .other
  let dtEnd ← match dtypeOf "_serialize_minimal_soln_cat" "maze_endpoints" with | some d => pure d | none => .error .other
  let lens := fm.mazes.map fun m => wrapDtype dtLen m.sol.length
  let g := E.gridN fm.cfg
  let total : Int := lens.sum
  let clists ← fm.mazes.mapM (storeClist g)
  let endpoints := fm.mazes.map fun m => (wrapCoord dtEnd m.startPos, wrapCoord dtEnd m.endPos)
  let concat := (fm.mazes.map fun m => m.sol.map (wrapCoord dtSol)).flatten
  if total ≠ (concat.length : Int) then .error .valueError else
  let fmt ← fmtOf "_serialize_minimal_soln_cat"
  pure (fm, { fmt, cfg := fm.cfg, collected := fm.collected.map E.metaJson, payload := .cat g clists endpoints lens concat })

/-- `serialize()` (maze_dataset.py:437-445): the threshold picks the method by name -/
def serializerName (thr : Option Int) (len : Nat) : String :=
  match thr with
  | some t => if thresholdCmp len t then serializeThen else serializeElse
  | none => serializeElse

def runSerializer {κ μ M} (E : Env κ μ M) (pad : Nat → Nat → Coord) (name : String) (ds : DS κ μ M) :
    Except Err (DS κ μ M × Stored κ μ M) :=
  if name = "_serialize_full" then serializeFull E ds
  else if name = "_serialize_minimal" then serializeMinimal E pad ds
  else if name = "_serialize_minimal_soln_cat" then serializeCat E ds
  else .error .other

def serialize {κ μ M} (E : Env κ μ M) (thr : Option Int) (pad : Nat → Nat → Coord) (ds : DS κ μ M) :
    Except Err (DS κ μ M × Stored κ μ M) :=
  runSerializer E pad (serializerName thr ds.mazes.length) ds

/-! ## loaders -/

def assertFmt {κ μ M} (loader : String) (s : Stored κ μ M) : Except Err Unit :=
  match loaderAsserts.lookup loader with
  | some f => if s.fmt = f then .ok () else .error .assertionError
  | none => .error .other

/-- `_load_full` (maze_dataset.py:373-380): `SolvedMaze.load` re-runs the constructor with the stored endpoints -/
def loadFull {κ μ M} (E : Env κ μ M) (s : Stored κ μ M) : Except Err (DS κ μ M) := do
  assertFmt "_load_full" s
  match s.payload with
  | .full mazes =>
    let ms ← mazes.mapM loadMaze
    pure { cfg := E.cfgJson s.cfg, mazes := ms, collected := s.collected }
  | _ => .error .keyError

/-- `_load_legacy` (maze_dataset.py:425-435): same data path through `load_item_recursive` -/
def loadLegacy {κ μ M} (E : Env κ μ M) (s : Stored κ μ M) : Except Err (DS κ μ M) := do
  assertFmt "_load_legacy" s
  match s.payload with
  | .full mazes =>
    let ms ← mazes.mapM loadMaze
    pure { cfg := E.cfgJson s.cfg, mazes := ms, collected := s.collected }
  | _ => .error .keyError

/-- `_load_minimal` (maze_dataset.py:382-402): `SolvedMaze(clist, soln[:slen, ...])` over `zip` of the three arrays -/
def loadMinimal {κ μ M} (E : Env κ μ M) (s : Stored κ μ M) : Except Err (DS κ μ M) := do
  assertFmt "_load_minimal" s
  match s.payload with
  | .minimal g clists lens sols =>
    let ms ← (zip3 clists lens sols).mapM fun (cl, sl, so) => mkSolved g cl (pySliceTo so sl) none none none
    pure { cfg := E.cfgJson s.cfg, mazes := ms, collected := s.collected }
  | _ => .error .keyError

/-- `_load_minimal_soln_cat` (maze_dataset.py:404-433): `np.split(concat, np.cumsum(lengths)[:-1])`, `maze_endpoints` is not read -/
def loadCat {κ μ M} (E : Env κ μ M) (s : Stored κ μ M) : Except Err (DS κ μ M) := do
  assertFmt "_load_minimal_soln_cat" s
  match s.payload with
  | .cat g clists _endpoints lens concat =>
    let sols := npSplit concat (cumsumFrom 0 lens).dropLast
    let ms ← (clists.zip sols).mapM fun (cl, so) => mkSolved g cl so none none none
    pure { cfg := E.cfgJson s.cfg, mazes := ms, collected := s.collected }
  | _ => .error .keyError

def runLoader {κ μ M} (E : Env κ μ M) (name : String) (s : Stored κ μ M) : Except Err (DS κ μ M) :=
  if name = "_load_full" then loadFull E s
  else if name = "_load_minimal" then loadMinimal E s
  else if name = "_load_minimal_soln_cat" then loadCat E s
  else if name = "_load_legacy" then loadLegacy E s
  else .error .other

/-- which loader `MazeDataset.load` calls for a format string under the current threshold (if/elif chain = first match) -/
def loaderName (thr : Option Int) (fmt : String) : Option String :=
  match loadTable.lookup fmt with
  | none => none
  | some l =>
    match legacyBranch with
    | some (f, t, lg) => if fmt = f ∧ thr = some t then some lg else some l
    | none => some l

/-- `MazeDataset.load` (maze_dataset.py:347-371) -/
def load {κ μ M} (E : Env κ μ M) (thr : Option Int) (s : Stored κ μ M) : Except Err (DS κ μ M) :=
  match loaderName thr s.fmt with
  | none => .error (errOfName loadUnknownRaises)
  | some l => runLoader E l s

/-! ## zanj handler selection and save/read -/

/-- `zanj.loading.get_item_loader`: `__format__ in LOADER_MAP` (keyed by uid) first, else the first registered handler whose
    `check` (a `startswith` test) accepts. Only the two handlers maze-dataset registers are listed. -/
def selectHandler (fmt : String) : Option String :=
  match loaderHandlers.find? (fun h => h.1 = fmt) with
  | some h => some h.1
  | none => (loaderHandlers.find? fun h => h.2.toList.isPrefixOf fmt.toList).map (·.1)

/-- `ds.save(path)` = `zanj.save(self.serialize(), path)`; the store itself is trusted to return the same tree -/
def save {κ μ M} (E : Env κ μ M) (thr : Option Int) (pad : Nat → Nat → Coord) (ds : DS κ μ M) :
    Except Err (DS κ μ M × Stored κ μ M) := serialize E thr pad ds

/-- `MazeDataset.read(path)` = `zanj.read(path)` → handler → `MazeDataset.load` -/
def read {κ μ M} (E : Env κ μ M) (thr : Option Int) (s : Stored κ μ M) : Except Err (DS κ μ M) :=
  if selectHandler s.fmt = some "MazeDataset" then load E thr s else .error .other

/-! ## collections -/

/-- the dict `MazeDatasetCollection.serialize` returns. `memberCfgs` = `cfg.maze_dataset_configs` as serialised: the serialised
    config dict SHARES each member's `applied_filters` list object with the live member config, so the in-place append done
    later by a member's minimal serializer is visible in it — the entries are the member configs AFTER member serialisation. -/
structure StoredColl (κ μ M : Type) where
  fmt : String
  memberCfgs : List κ
  members : List (Stored κ μ M)
  collected : Option M

def serializeMembersFrom {κ μ M} (E : Env κ μ M) (thr : Option Int) (pads : Nat → Nat → Nat → Coord) :
    Nat → List (DS κ μ M) → Except Err (List (DS κ μ M × Stored κ μ M))
  | _, [] => .ok []
  | k, d :: ds => do
    let r ← serialize E thr (pads k) d
    let rs ← serializeMembersFrom E thr pads (k + 1) ds
    pure (r :: rs)

/-- `MazeDatasetCollection.serialize` (collected_dataset.py:141-149); result: new member states and the stored dict -/
def serializeColl {κ μ M} (E : Env κ μ M) (thr : Option Int) (pads : Nat → Nat → Nat → Coord)
    (members : List (DS κ μ M)) (collected : Option M) : Except Err (List (DS κ μ M) × StoredColl κ μ M) := do
  let rs ← serializeMembersFrom E thr pads 0 members
  let post := rs.map (·.1)
  pure (post, { fmt := collectionFormat, memberCfgs := post.map (·.cfg), members := rs.map (·.2),
                collected := collected.map E.metaJson })

/-- `MazeDatasetCollection.load` + `__init__` (collected_dataset.py:151-159, 71-86): every member through the MazeDataset
    handler, then `assert c == ds.cfg` pairwise over `zip(cfg.maze_dataset_configs, maze_datasets)` -/
def loadColl {κ μ M} [DecidableEq κ] (E : Env κ μ M) (thr : Option Int) (s : StoredColl κ μ M) :
    Except Err (List κ × List (DS κ μ M) × Option M) := do
  if s.fmt ≠ collectionLoadAsserts then .error .assertionError else
  let cfgs := s.memberCfgs.map E.cfgJson
  let ds ← s.members.mapM (read E thr)
  if (cfgs.zip ds).all (fun p => decide (p.1 = p.2.cfg)) then pure (cfgs, ds, s.collected) else .error .assertionError

/-! ## the collected metadata dict through `json_serialize` (muutils: `{str(k): json_serialize(v) for k, v in obj.items()}`) -/

/-- keys that occur in `generation_metadata_collected[field]`: bool / int / str / coordinate tuple / float (carried as its `repr`) -/
inductive PyKey
  | b (v : Bool) | i (v : Int) | s (v : String) | t (v : List Int) | f (repr : String)
  deriving DecidableEq, Repr

/-- Python `str(key)` -/
def PyKey.str : PyKey → String
  | .b true => "True" | .b false => "False"
  | .i v => toString v
  | .s v => v
  | .t [x] => "(" ++ toString x ++ ",)"
  | .t xs => "(" ++ ", ".intercalate (xs.map toString) ++ ")"
  | .f r => r

/-- a dict comprehension over `(key, value)` pairs: a repeated key keeps its first position and takes the last value -/
def dictInsert {β} (d : List (String × β)) (k : String) (v : β) : List (String × β) :=
  match d with
  | [] => [(k, v)]
  | (k', v') :: rest => if k' = k then (k', v) :: rest else (k', v') :: dictInsert rest k v

def dictOfPairs {β} (ps : List (String × β)) : List (String × β) :=
  ps.foldl (fun d p => dictInsert d p.1 p.2) []

/-- `generation_metadata_collected`: field name ↦ (value ↦ count), in insertion order -/
abbrev CMeta := List (String × List (PyKey × Nat))

/-- `json_serialize(generation_metadata_collected)`: every key of both levels becomes `str(key)` -/
def jsonMeta (m : CMeta) : List (String × List (String × Nat)) :=
  dictOfPairs (m.map fun (k, cnts) => (k, dictOfPairs (cnts.map fun (v, n) => (v.str, n))))

end MZ.Serial
