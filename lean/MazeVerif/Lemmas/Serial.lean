import MazeVerif.Model.Serial
/-! Helper lemmas for C05 (serialisation round trips). Core Lean only. -/
namespace MZ.Serial
open MZ.Gen.Serial

/-! ## guards -/

/-- fits `int8` -/
def I8 (x : Int) : Prop := -128 ≤ x ∧ x < 128

/-- the invariant every constructed `SolvedMaze` has (lattice_maze.py:1066-1086,1160-1168): endpoints are the first / last row
    of the solution and lie in the maze's own grid -/
def Constructed {μ} (m : Maze μ) : Prop :=
  m.sol.head? = some m.startPos ∧ m.sol.getLast? = some m.endPos ∧
  inBounds m.gridN m.startPos = true ∧ inBounds m.gridN m.endPos = true

/-- guard of the two minimal formats: the maze has the config's grid size, every solution coordinate fits `int8`
    (the `coords < 128` guard) and the solution length fits `int32` -/
def Storable {μ} (g : Nat) (m : Maze μ) : Prop :=
  m.gridN = g ∧ (∀ c ∈ m.sol, I8 c.1 ∧ I8 c.2) ∧ (m.sol.length : Int) < 2 ^ 31

/-- the metadata precondition of the minimal serializers: collected already, or every maze still carries its own -/
def HasMeta {κ μ M} (ds : DS κ μ M) : Prop :=
  ds.collected.isSome = true ∨ (ds.mazes ≠ [] ∧ ∀ m ∈ ds.mazes, m.gmeta.isSome = true)

/-- what `load` returns for a dataset stored in the full format -/
def fullLoaded {κ μ M} (E : Env κ μ M) (ds : DS κ μ M) : DS κ μ M :=
  { cfg := ds.cfg, mazes := ds.mazes.map (fun m => { m with gmeta := m.gmeta.map E.mazeMetaJson }),
    collected := ds.collected.map E.metaJson }

/-- what `load` returns for a dataset stored in a minimal format -/
def minimalLoaded {κ μ M} (E : Env κ μ M) (ds : DS κ μ M) : DS κ μ M :=
  { cfg := (collectedForm E ds).cfg, mazes := ds.mazes.map clearMeta,
    collected := (collectedForm E ds).collected.map E.metaJson }

/-- the part of a maze the property speaks about -/
def core {μ} (m : Maze μ) : Nat × List Bool × List Coord × Coord × Coord := (m.gridN, m.clist, m.sol, m.startPos, m.endPos)

/-! ## numpy idioms -/

theorem wrapBits8_id {x : Int} (h : I8 x) : wrapBits 8 x = x := by
  obtain ⟨h1, h2⟩ := h
  unfold wrapBits
  omega

theorem wrapBits32_id {x : Int} (h0 : 0 ≤ x) (h : x < 2 ^ 31) : wrapBits 32 x = x := by
  unfold wrapBits
  omega

theorem wrapDtype_int32 : wrapDtype "int32" = wrapBits 32 := by
  unfold wrapDtype
  simp

theorem wrapDtype_int8 : wrapDtype "int8" = wrapBits 8 := by
  unfold wrapDtype
  simp

theorem wrapCoord8_id {c : Coord} (h : I8 c.1 ∧ I8 c.2) : wrapCoord "int8" c = c := by
  obtain ⟨a, b⟩ := c
  simp only [wrapCoord, wrapDtype_int8, wrapBits8_id h.1, wrapBits8_id h.2]

theorem map_wrapCoord8_id {l : List Coord} (h : ∀ c ∈ l, I8 c.1 ∧ I8 c.2) : l.map (wrapCoord "int8") = l := by
  induction l with
  | nil => rfl
  | cons a t ih =>
    simp only [List.map_cons, wrapCoord8_id (h a (List.mem_cons_self ..)),
      ih (fun c hc => h c (List.mem_cons_of_mem _ hc))]

theorem normIdx_natCast (n k : Nat) : normIdx n (k : Int) = min k n := by
  unfold normIdx
  have h : (0 : Int) ≤ (k : Int) := Int.natCast_nonneg k
  simp only [h, if_true, Int.toNat_natCast]

theorem pySliceTo_append_left {α} (a b : List α) : pySliceTo (a ++ b) (a.length : Int) = a := by
  unfold pySliceTo
  rw [normIdx_natCast, List.length_append, Nat.min_eq_left (by omega)]
  exact List.take_left' rfl

theorem pySlice_mid {α} (a b c : List α) :
    pySlice (a ++ b ++ c) (a.length : Int) ((a ++ b).length : Int) = b := by
  unfold pySlice
  rw [normIdx_natCast, normIdx_natCast]
  have h1 : min (a ++ b).length (a ++ b ++ c).length = (a ++ b).length := by
    simp only [List.length_append]; omega
  have h2 : min a.length (a ++ b ++ c).length = a.length := by
    simp only [List.length_append]; omega
  rw [h1, h2, List.take_left' rfl, List.drop_left' rfl]

theorem pySlice_end {α} (a b : List α) :
    pySlice (a ++ b) (a.length : Int) ((a ++ b).length : Int) = b := by
  have := pySlice_mid a b []
  simpa using this

/-- `np.split(np.concatenate(rows), np.cumsum(lengths)[:-1]) = rows`, from any offset: the core of the concatenated format -/
theorem npSplitFrom_flatten {α} : ∀ (rest : List (List α)) (pre s : List α),
    npSplitFrom (pre ++ (s :: rest).flatten) (pre.length : Int)
      (cumsumFrom (pre.length : Int) ((s :: rest).map fun r => (r.length : Int))).dropLast = s :: rest
  | [], pre, s => by
    simp only [List.flatten_cons, List.flatten_nil, List.append_nil, List.map_cons, List.map_nil, cumsumFrom,
      List.dropLast_singleton, npSplitFrom]
    rw [pySlice_end]
  | s' :: rest, pre, s => by
    have ih := npSplitFrom_flatten rest (pre ++ s) s'
    have hcs : cumsumFrom (pre.length : Int) ((s :: s' :: rest).map fun r => (r.length : Int)) =
        ((pre ++ s).length : Int) :: cumsumFrom ((pre ++ s).length : Int) ((s' :: rest).map fun r => (r.length : Int)) := by
      simp only [List.map_cons, cumsumFrom, List.length_append, Int.natCast_add]
    rw [hcs]
    have hne : cumsumFrom ((pre ++ s).length : Int) ((s' :: rest).map fun r => (r.length : Int)) ≠ [] := by
      simp [cumsumFrom]
    rw [List.dropLast_cons_of_ne_nil hne]
    simp only [npSplitFrom]
    have hx : pre ++ (s :: s' :: rest).flatten = (pre ++ s) ++ (s' :: rest).flatten := by
      simp only [List.flatten_cons, List.append_assoc]
    rw [hx, ih]
    congr 1
    exact pySlice_mid pre s _

theorem npSplit_flatten {α} (rows : List (List α)) (h : rows ≠ []) :
    npSplit rows.flatten (cumsumFrom 0 (rows.map fun r => (r.length : Int))).dropLast = rows := by
  match rows, h with
  | s :: rest, _ =>
    have := npSplitFrom_flatten rest [] s
    simpa [npSplit] using this

/-! ## `mapM` in `Except` -/

theorem mapM_ok {α β} (f : α → Except Err β) (g : α → β) :
    ∀ (l : List α), (∀ x ∈ l, f x = .ok (g x)) → l.mapM f = .ok (l.map g)
  | [], _ => rfl
  | a :: t, h => by
    rw [List.mapM_cons, h a (List.mem_cons_self ..), mapM_ok f g t (fun x hx => h x (List.mem_cons_of_mem _ hx))]
    rfl

/-! ## the `SolvedMaze` constructor on constructed data -/

theorem mkSolved_constructed {μ} (m : Maze μ) (hc : Constructed m) (gm : Option μ) :
    mkSolved m.gridN m.clist m.sol gm (some m.startPos) (some m.endPos) = .ok { m with gmeta := gm } := by
  obtain ⟨h1, h2, h3, h4⟩ := hc
  unfold mkSolved
  simp only [h1, h2, h3, h4, Bool.not_true, Bool.false_eq_true, if_false, Option.any_some, bne_self_eq_false]

theorem mkSolved_bare {μ} (m : Maze μ) (hc : Constructed m) :
    mkSolved (μ := μ) m.gridN m.clist m.sol none none none = .ok (clearMeta m) := by
  obtain ⟨h1, h2, h3, h4⟩ := hc
  unfold mkSolved
  simp only [h1, h2, h3, h4, Bool.not_true, Bool.false_eq_true, if_false, Option.any_none, clearMeta]

/-! ## `collect_generation_meta` -/

theorem filteredMeta_ok {κ μ M} (E : Env κ μ M) (ds : DS κ μ M) (h : HasMeta ds) :
    filteredMeta E ds = .ok (collectedForm E ds) := by
  unfold filteredMeta collectedForm
  cases hc : ds.collected with
  | some c => simp
  | none =>
    rcases h with h | ⟨hne, hall⟩
    · rw [hc] at h; simp at h
    · simp only [Option.isNone_none, if_true]
      unfold collectMeta
      simp only [hc]
      match hm : ds.mazes, hne with
      | m0 :: rest, _ =>
        have h0 : m0.gmeta.isSome = true := hall m0 (by rw [hm]; exact List.mem_cons_self ..)
        have h0' : m0.gmeta.isNone = false := by
          cases hg : m0.gmeta with
          | none => rw [hg] at h0; simp at h0
          | some _ => rfl
        have hall' : (m0 :: rest).all (fun m => m.gmeta.isSome) = true := by
          rw [List.all_eq_true]; intro x hx; exact hall x (by rw [hm]; exact hx)
        simp only [h0', Bool.false_eq_true, if_false, hall', if_true, collectedForm, hc, hm]

theorem collectedForm_mazes_core {κ μ M} (E : Env κ μ M) (ds : DS κ μ M) :
    (collectedForm E ds).mazes.map core = ds.mazes.map core := by
  unfold collectedForm
  cases ds.collected with
  | some _ => rfl
  | none => simp [core, clearMeta, Function.comp_def]

theorem collectedForm_mazes_clear {κ μ M} (E : Env κ μ M) (ds : DS κ μ M) :
    (collectedForm E ds).mazes.map clearMeta = ds.mazes.map clearMeta := by
  unfold collectedForm
  cases ds.collected with
  | some _ => rfl
  | none => simp [clearMeta, Function.comp_def]

theorem collectedForm_length {κ μ M} (E : Env κ μ M) (ds : DS κ μ M) :
    (collectedForm E ds).mazes.length = ds.mazes.length := by
  unfold collectedForm
  cases ds.collected with
  | some _ => rfl
  | none => simp

theorem collectedForm_mem {κ μ M} (E : Env κ μ M) (ds : DS κ μ M) (P : Maze μ → Prop)
    (hP : ∀ m, P m → P (clearMeta m)) (h : ∀ m ∈ ds.mazes, P m) : ∀ m ∈ (collectedForm E ds).mazes, P m := by
  unfold collectedForm
  cases ds.collected with
  | some _ => exact h
  | none =>
    intro m hm
    simp only [List.mem_map] at hm
    obtain ⟨m', hm', rfl⟩ := hm
    exact hP _ (h m' hm')

end MZ.Serial
