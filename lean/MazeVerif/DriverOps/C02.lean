import MazeVerif.DriverOps.Util
import MazeVerif.Model.AStar
namespace MZ.Drv.C02
open Lean MZ.Drv MZ MZ.AStar

def jResult : Result → Json
  | .found p => obj [("res", "found"), ("path", jCells p)]
  | .noPath => obj [("res", "noPath")]
  | .illegalPick => obj [("res", "illegalPick")]
  | .outOfPicks => obj [("res", "outOfPicks")]
  | .outOfFuel => obj [("res", "outOfFuel")]

/-- `C02.astar` {rows, cols, edges, queries: [{start, end, picks}]} → {results: [...]}; fuel = rows*cols+1 (C02_total) -/
def handle (op : String) (j : Json) : R Json := do
  match op with
  | "C02.astar" =>
    let rows ← getNat j "rows"; let cols ← getNat j "cols"
    let E ← getEdges j "edges"
    let qs ← getArr j "queries"
    let rs ← qs.mapM fun q => do
      let s ← getCell q "start"; let e ← getCell q "end"
      let picks ← getCells q "picks"
      pure (jResult (astar rows cols E s e picks (rows * cols + 1)))
    pure (obj [("results", Json.arr rs.toArray), ("wf", decide (WF rows cols E))])
  | _ => throw s!"unknown op {op}"

end MZ.Drv.C02
