#!/usr/bin/env python3
"""Regenerates /verif/MANIFEST.json from the table below (kept in one place so the manifest stays valid)."""
import json
from pathlib import Path
VERIF = Path(__file__).resolve().parent.parent

# pid -> (technique, level text, level note, design ref)
CLAIMS = {
 "C16": ("Lean 4 theorem (induction over the member list) about a hand-written model of __getitem__/len/mazes + exhaustive model-vs-code correspondence",
         "Unbounded theorems C16_getitem / C16_len / C16_mazes / C16_counts_agree / C16_getitem_out_of_range (all member-length vectors, all indices, any maze type) "
         "about MZ.Coll.locate, the model of np.cumsum + np.searchsorted(cum, index+1); tied to the code on every run by comparing the real MazeDatasetCollection "
         "with the model on every length vector up to 5 members x entries<=3 (thorough 6 x 4) and every index, identity checked with `is`.",
         "Trusted: Lean kernel, axioms propext/Quot.sound, the correspondence harness; np.searchsorted/itertools.accumulate are modelled (validated on every case). "
         "Counts clause assumes member cfg.n_mazes == len(member) (n_mazes is compare=False in the constructor's assertion).",
         "DESIGN.md section 6 C16"),
}
ALL = [f"C{i:02d}" for i in range(1, 21)]
NOT_YET = "machinery for this property is not built yet in this round (planned: DESIGN.md section 6); not claimed until its check exists"

m = dict(
 version=1,
 setup_cmd="./setup.sh",
 hooks=dict(guard="MAZE_DATASET_VERIF", enable="no source hooks: the harness observes the code from outside (RNG taps, module-global shadows); MAZE_DATASET_VERIF=1 is set by ./check and read only by the harness",
            baseline_off_cmd="cd /repo && /venv/bin/python -m pytest -ra -q -p no:cacheprovider --timeout=900 --continue-on-collection-errors",
            source_commits=[], add_only=True),
 engines=[dict(name="MazeVerif", path="lean/", serves_properties=sorted(CLAIMS), kind_free_text="Lean 4.33 library: executable models (Model/), lemmas (Lemmas/), property theorems (Props/), compiled JSON line-protocol driver (mzdriver)"),
          dict(name="harness", path="harness/", serves_properties=sorted(CLAIMS), kind_free_text="Python correspondence harness: runs the real code in-process, taps RNG, diffs against the Lean driver, failing-input search, evidence")],
 checks=[dict(property_id=p, quick_cmd=f"./check {p} --tier quick", thorough_cmd=f"./check {p} --tier thorough",
              evidence_file=f"evidence/{p}.json", replay_cmd_template=f"./check {p} --replay {{path}}", engine="MazeVerif",
              level_claimed=dict(category="proof", text=CLAIMS[p][1], design_ref=CLAIMS[p][3]), level_note=CLAIMS[p][2], technique=CLAIMS[p][0])
         for p in sorted(CLAIMS)],
 notes="Machine-checked Lean 4 proofs about hand-written executable models, tied to /repo's working tree on every run by a translator for constants and a model-vs-implementation correspondence check. See DESIGN.md.",
 not_applicable=[dict(property_id=p, reason=NOT_YET) for p in ALL if p not in CLAIMS],
)
(VERIF / "MANIFEST.json").write_text(json.dumps(m, indent=1) + "\n")
print("claimed:", sorted(CLAIMS))
