#!/usr/bin/env python3
"""Structural fingerprints of the source files each property is anchored in (properties.jsonl -> anchors.files).
`python3 harness/fingerprint.py --update` rewrites harness/fingerprints.json from /repo as it is now (do this after a `fix:` commit).
A check compares the current fingerprints with the recorded ones: when an anchored file's code changed (comments, docstrings and
formatting do not count) since the model was last validated, the check ALSO runs its failing-input search on the real code even if
the ordinary correspondence passed. The fingerprint itself never produces a verdict: only a concrete failing input does."""
import ast, hashlib, json, os, sys
from pathlib import Path
VERIF = Path(__file__).resolve().parent.parent
REPO = Path(os.environ.get("VERIF_REPO", "/repo"))
EXTRA = {  # files a property depends on beyond its listed anchors
    "C19": ["maze_dataset/generation/generators.py"], "C03": ["maze_dataset/generation/generators.py", "maze_dataset/dataset/maze_dataset.py"],
    "C04": ["maze_dataset/dataset/dataset.py", "maze_dataset/dataset/maze_dataset.py", "maze_dataset/generation/generators.py", "maze_dataset/maze/lattice_maze.py"],
    "C12": ["maze_dataset/maze/lattice_maze.py"], "C17": ["maze_dataset/maze/lattice_maze.py"], "C20": ["maze_dataset/maze/lattice_maze.py"],
    "C07": ["maze_dataset/tokenization/maze_tokenizer.py", "maze_dataset/dataset/maze_dataset.py"], "C06": ["maze_dataset/maze/lattice_maze.py"],
    "C11": ["maze_dataset/dataset/maze_dataset.py"], "C05": ["maze_dataset/maze/lattice_maze.py"], "C08": ["maze_dataset/maze/lattice_maze.py"],
}


def _strip(tree):
    for node in ast.walk(tree):
        body = getattr(node, "body", None)
        if isinstance(body, list) and body and isinstance(body[0], ast.Expr) and isinstance(getattr(body[0], "value", None), ast.Constant) \
                and isinstance(body[0].value.value, str):
            node.body = body[1:] or [ast.Pass()]
    return tree


def file_fp(path: Path) -> str:
    try:
        return hashlib.sha256(ast.dump(_strip(ast.parse(path.read_text())), annotate_fields=False).encode()).hexdigest()[:20]
    except Exception as e:
        return f"unparsable:{type(e).__name__}"


def anchors() -> dict:
    out = {}
    for line in (VERIF / "properties.jsonl").read_text().splitlines():
        if line.strip():
            p = json.loads(line)
            fs = [f for f in p.get("anchors", {}).get("files", []) if f.endswith(".py")]
            out[p["id"]] = sorted(set(fs + EXTRA.get(p["id"], [])))
    return out


def package_files(repo: Path = REPO) -> list[str]:
    return sorted(str(q.relative_to(repo)) for q in (repo / "maze_dataset").rglob("*.py"))


def current(repo: Path = REPO) -> dict:
    files = sorted({f for fs in anchors().values() for f in fs} | set(package_files(repo)))
    return {f: file_fp(repo / f) for f in files}


def changed_for(pid: str, repo: Path = REPO) -> list[str]:
    saved_p = VERIF / "harness" / "fingerprints.json"
    if not saved_p.exists(): return []
    saved = json.loads(saved_p.read_text())
    if saved.get("_python") != "%d.%d" % sys.version_info[:2]: return []     # ast.dump differs between Python versions: no trigger
    anchored = [f for f in anchors().get(pid, []) if f in saved and file_fp(repo / f) != saved[f]]
    # code the property's files import (helpers in utils.py, constants.py, token_utils.py, ...) counts as well: any other module of the
    # package whose code changed, or that is new, is reported after the anchored ones
    here = package_files(repo)
    other = [f for f in here if f not in anchors().get(pid, []) and (f not in saved or file_fp(repo / f) != saved[f])]
    gone = [f for f in saved if f.startswith("maze_dataset/") and f not in here and f not in anchors().get(pid, [])]
    return anchored + other + gone


if __name__ == "__main__":
    if "--update" in sys.argv:
        (VERIF / "harness" / "fingerprints.json").write_text(json.dumps(dict(current(Path("/repo")), _python="%d.%d" % sys.version_info[:2]), indent=1) + "\n")
        print("fingerprints.json updated from /repo")
    else:
        for pid in anchors():
            c = changed_for(pid)
            if c: print(pid, c)
