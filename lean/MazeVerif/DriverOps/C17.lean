import MazeVerif.DriverOps.C10
import MazeVerif.Model.Raster
namespace MZ.Drv.C17
open Lean MZ.Drv MZ.Pix MZ.Drv.C10

/-- ops:
  * `C17.process` {maze, ric, ext, eo} → model `(input, target)` images of `process_maze_rasterized_input_target`;
  * `C17.post` {pixels, what: "ric"|"ext"} → `_remove_isolated_cells` / `_extend_pixels` on an arbitrary image;
  * `C17.batch` {n, idxs} → `get_batch` over a dataset of `n` items whose item `k` has input `2k`, target `2k+1`. -/
def handle (op : String) (j : Json) : R Json := do
  match op with
  | "C17.process" =>
    let m ← parseMaze (← fld j "maze")
    let r := processRaster m (← getBool j "ric") (← getBool j "ext") (← getBool j "eo")
    pure <| obj [("out", jExcept (fun (p : Img RGB × Img RGB) => obj [("input", jImg p.1), ("target", jImg p.2)]) r)]
  | "C17.post" =>
    let g ← parseImg (← fld j "pixels")
    match ← getStr j "what" with
    | "ric" => pure <| obj [("out", jImg (removeIsolated g))]
    | "ext" => pure <| obj [("out", jImg (extendPixels g))]
    | w => throw s!"what {w}"
  | "C17.batch" =>
    let n ← getNat j "n"
    let idxs : Option (List Int) ← match optFld j "idxs" with
      | none => pure none
      | some v => do pure (some (← asIntList v))
    let r := getBatchPy (List.range n) (fun k => (.ok (2 * k, 2 * k + 1) : Except Err (Nat × Nat))) idxs
    pure <| obj [("out", jExcept (fun (p : List Nat × List Nat) => obj [("inputs", jNats p.1), ("targets", jNats p.2)]) r)]
  | _ => throw s!"unknown op {op}"

end MZ.Drv.C17
