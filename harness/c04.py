"""C04 — serial dataset generation is a pure function of the configuration.

Model tie: the harness records the seed/draw EVENT TRACE of the real `MazeDataset.generate` / `from_config(load_local=False,
save_local=False)` on the four RNGs the library can reach (python `random`, numpy global, torch global, generators.numpy_rng) and
has the Lean driver check it with the model's `wsTrace` (every draw preceded by a seed of the same generator; proved in
Props/C04.lean to hold for every run of a well-seeded program) and `seedsAre cfg.seed`.
Oracle (from the property statement): the same configuration gives bit-identical connection lists and solutions after EVERY prior
history (draws on all RNGs, re-seedings, other generations, other config constructions), in fresh interpreters with different
PYTHONHASHSEED, and inside processes that are multiprocessing children; `from_config` without cache equals `generate` followed by the
configured filters applied by hand in order, and leaves the configuration object passed in unmodified."""
from __future__ import annotations
import dataclasses, hashlib, json, os, random as _pyrandom, subprocess, sys, warnings
from pathlib import Path

RULE = ("configs = 5 generators (dfs, dfs randomized stack / no forks / bounded, wilson, percolation, dfs_percolation) x kwargs x endpoint "
        "kwargs x seeds {42, 7, 123456} x filter lists (path_length, start_end_distance, truncate_count, cut_percentile_shortest, "
        "collect_generation_meta), grid 2..5, 3..6 mazes; for each config 30 (quick) / 300 (thorough) prior histories = random "
        "interleavings of 0..12 actions (draws on python/numpy/torch/numpy_rng, re-seedings with other seeds, generate / from_config of "
        "OTHER configs, construction of other configs), the request config being constructed BEFORE the history; 4 / 32 fresh "
        "interpreters with distinct PYTHONHASHSEED; one multiprocessing-child scenario. distinct = distinct (config, history seed); "
        "non-trivial = history with at least one action; later additions: a gen_prim request, seed 0, fractional and 1.0-valued arguments, numeric twins (1 <-> 1.0) and failing library calls in histories, histories in fresh interpreters before the request, the generated dataset edited by the caller before the next request, library views (get_nodes, get_connected_component, ...) reordered in place in histories")
ASSUMPTIONS = ["everything between two RNG events is deterministic Python (no dependence on hash order of strings, time, pid): tested by the "
               "bit-for-bit comparison across histories and PYTHONHASHSEEDs, not proved",
               "all randomness of generation goes through python `random`, numpy's global RNG, torch's global RNG or generators.numpy_rng "
               "(the four tapped generators)"]
TRUSTED = ["RNG taps: recording proxies around generators.random, numpy.random.*, random.seed, torch.manual_seed / torch.rand*, generators.numpy_rng "
           "that delegate to the real objects (the run is a genuine run)"]

EV: list = []
_TAPPED = False
NP_DRAWS = ["rand", "randn", "randint", "random", "random_sample", "ranf", "sample", "choice", "shuffle", "permutation", "uniform", "normal",
            "bytes", "binomial", "poisson", "exponential", "standard_normal", "random_integers"]
TORCH_DRAWS = ["rand", "randn", "randint", "randperm", "bernoulli", "multinomial", "normal"]


def install_taps():
    """recording shims (DESIGN 4.2); idempotent. Nothing in /repo is touched: only names bound in already imported modules."""
    global _TAPPED
    if _TAPPED:
        return
    _TAPPED = True
    import random, numpy as np, torch
    import maze_dataset.generation.generators as G

    def wrap(mod, name, tag, is_seed=False):
        orig = getattr(mod, name, None)
        if orig is None:
            return
        def f(*a, **k):
            EV.append((tag, (a[0] if a else k.get("seed")) if is_seed else None))
            return orig(*a, **k)
        f.__wrapped__ = orig
        setattr(mod, name, f)

    class PyProxy:  # generators.py binds the module object `random`
        def __getattr__(self, n):
            v = getattr(random, n)
            if callable(v) and n in ("choice", "choices", "randint", "random", "shuffle", "randrange", "sample", "uniform", "getrandbits", "gauss"):
                def f(*a, **k):
                    EV.append(("py." + n, None)); return v(*a, **k)
                return f
            return v
    G.random = PyProxy()
    wrap(random, "seed", "py.seed", True)            # muutils seeds the real module; PyProxy.seed resolves to this wrapper too
    for n in NP_DRAWS:
        wrap(np.random, n, "np." + n)
    wrap(np.random, "seed", "np.seed", True)
    wrap(torch, "manual_seed", "torch.seed", True)
    for n in TORCH_DRAWS:
        wrap(torch, n, "torch." + n)

    class GenProxy:
        def __init__(self, g): self.g = g
        def __getattr__(self, n):
            v = getattr(self.g, n)
            if callable(v):
                def f(*a, **k):
                    EV.append(("np_gen." + n, None)); return v(*a, **k)
                return f
            return v
    G.numpy_rng = GenProxy(G.numpy_rng)


def events_json(ev) -> list:
    out = []
    for tag, arg in ev:
        r, op = tag.split(".", 1)
        if op == "seed":
            out.append(["seed", r, int(arg) if isinstance(arg, int) and 0 <= arg < 2**62 else 2**62])
        else:
            out.append(["draw", r])
    return out


def make_cfg(spec: dict):
    from maze_dataset import MazeDatasetConfig
    from maze_dataset.generation import GENERATORS_MAP
    kw = dict(spec)
    kw["maze_ctor"] = GENERATORS_MAP[kw.pop("maze_ctor", "gen_dfs")]
    if "applied_filters" in kw:
        kw["applied_filters"] = [dict(name=f["name"], args=tuple(f.get("args", ())), kwargs=dict(f.get("kwargs", {}))) for f in kw["applied_filters"]]
    if "endpoint_kwargs" in kw:
        kw["endpoint_kwargs"] = {k: ([tuple(x) for x in v] if isinstance(v, list) else v) for k, v in kw["endpoint_kwargs"].items()}
    return MazeDatasetConfig(**kw)


def sig(ds) -> str:
    h = hashlib.blake2b(digest_size=12)
    h.update(str(len(ds.mazes)).encode())
    for m in ds.mazes:
        h.update(str(m.connection_list.shape).encode()); h.update(m.connection_list.astype(bool).tobytes())
        h.update(str(m.solution.shape).encode()); h.update(m.solution.astype("int64").tobytes())
    return h.hexdigest()


def mazes_json(ds):
    return [dict(connection_list=m.connection_list.astype(int).tolist(), solution=m.solution.tolist()) for m in ds.mazes]


def specs(deep: bool) -> list[dict]:
    F = lambda name, **kw: dict(name=name, kwargs=kw)
    S = [
        dict(name="a", grid_n=4, n_mazes=4),
        dict(name="b", grid_n=4, n_mazes=4, seed=7, maze_ctor_kwargs=dict(randomized_stack=True), endpoint_kwargs=dict(deadend_start=True, deadend_end=True)),
        dict(name="c", grid_n=5, n_mazes=3, maze_ctor_kwargs=dict(do_forks=False), endpoint_kwargs=dict(allowed_start=[[0, 0], [1, 1], [2, 2], [3, 3]])),
        dict(name="d", grid_n=5, n_mazes=4, seed=123456, maze_ctor_kwargs=dict(accessible_cells=12, max_tree_depth=6), applied_filters=[F("path_length", min_length=3)]),
        dict(name="e", grid_n=4, n_mazes=5, maze_ctor="gen_wilson", applied_filters=[F("start_end_distance", min_distance=2), F("truncate_count", max_count=3)]),
        dict(name="f", grid_n=3, n_mazes=6, seed=7, maze_ctor="gen_wilson", endpoint_kwargs=dict(endpoints_not_equal=True)),
        dict(name="g", grid_n=4, n_mazes=4, maze_ctor="gen_percolation", maze_ctor_kwargs=dict(p=0.8)),
        dict(name="h", grid_n=4, n_mazes=5, seed=123456, maze_ctor="gen_dfs_percolation", maze_ctor_kwargs=dict(p=0.3),
             applied_filters=[F("cut_percentile_shortest", percentile=20.0), F("collect_generation_meta")]),
        dict(name="i", grid_n=2, n_mazes=5, seed=7, maze_ctor="gen_dfs_percolation", maze_ctor_kwargs=dict(p=0.9)),
        dict(name="j", grid_n=3, n_mazes=4, maze_ctor="gen_dfs", maze_ctor_kwargs=dict(start_coord=[1, 1]), applied_filters=[F("collect_generation_meta")]),
        # tiny constrained mazes: equal connection structures recur across seeds (anything memoised per maze value would leak between datasets)
        dict(name="n", grid_n=3, n_mazes=12, seed=11, maze_ctor_kwargs=dict(accessible_cells=3)),
        dict(name="o", grid_n=3, n_mazes=12, seed=17, maze_ctor_kwargs=dict(max_tree_depth=2)),
        # seed 0 is a seed like any other
        dict(name="z", grid_n=3, n_mazes=4, seed=0, maze_ctor="gen_dfs"),
        # a fractional argument (resolved against the grid size inside the generator; the request must keep the fraction)
        dict(name="p", grid_n=4, n_mazes=4, seed=5, maze_ctor_kwargs=dict(accessible_cells=0.5)),
        # arguments that mean something else as a float than as the equal integer (1.0 = every cell / full depth, 1 = one cell / depth one;
        # the integer twins are used in histories only: a one-cell maze has no two endpoints and generate raises the documented ValueError)
        dict(name="t", grid_n=4, n_mazes=4, seed=21, maze_ctor="gen_prim", maze_ctor_kwargs=dict(max_tree_depth=5)),
        dict(name="q", grid_n=4, n_mazes=4, seed=3, maze_ctor_kwargs=dict(accessible_cells=1.0)),
        dict(name="r", grid_n=4, n_mazes=4, seed=3, maze_ctor_kwargs=dict(max_tree_depth=1.0)),
    ]
    if deep:
        S += [dict(name="k", grid_n=6, n_mazes=8, seed=99, maze_ctor="gen_wilson", applied_filters=[F("path_length", min_length=4), F("truncate_count", max_count=5)]),
              dict(name="l", grid_n=3, n_mazes=110, seed=5), dict(name="m", grid_n=5, n_mazes=4, seed=0, maze_ctor="gen_percolation", maze_ctor_kwargs=dict(p=0.75))]
    return S


def numeric_twin(spec: dict) -> dict:
    """the same request with every numeric generator argument replaced by the EQUAL number of the other type (1 <-> 1.0, 0 <-> 0.0, 3 -> 3.0):
    equal and equally hashed in Python, but a different request to the library (count vs proportion)"""
    t = dict(spec); kw = dict(t.get("maze_ctor_kwargs", {}))
    for k, v in kw.items():
        if isinstance(v, bool): continue
        if isinstance(v, int): kw[k] = float(v)
        elif isinstance(v, float) and v.is_integer(): kw[k] = int(v)
    t["maze_ctor_kwargs"] = kw
    return t


def perturb(hr: _pyrandom.Random, pool: list[dict], focus: dict | None = None) -> list[str]:
    """a random prior history of RNG and library use; `hr` is a private Random instance (never the global module)"""
    import random, numpy as np, torch
    import maze_dataset.generation.generators as G
    from maze_dataset import MazeDataset
    acts = []
    for _ in range(hr.randint(0, 12)):
        a = hr.choice(["py", "np", "torch", "np_gen", "seed_py", "seed_np", "seed_torch", "generate", "from_config", "construct", "np_state", "failing_call", "edit_views"])
        acts.append(a)
        if a == "py":
            for _ in range(hr.randint(1, 5)): random.random()
        elif a == "np":
            np.random.rand(hr.randint(1, 7)); np.random.randint(0, 10, size=hr.randint(1, 3))
        elif a == "torch":
            torch.rand(hr.randint(1, 4))
        elif a == "np_gen":
            G.numpy_rng.random(hr.randint(1, 4))
        elif a == "seed_py":
            random.seed(hr.randrange(10**6))
        elif a == "seed_np":
            np.random.seed(hr.randrange(10**6))
        elif a == "seed_torch":
            torch.manual_seed(hr.randrange(10**6))
        elif a == "generate":
            s = dict(focus if (focus is not None and hr.random() < 0.5) else hr.choice(pool))     # often: the very kind of dataset that is requested next
            if hr.random() < 0.6:
                s["seed"] = hr.randrange(10**6)     # the same kind of dataset under another seed, and more of it
                if s.get("grid_n", 9) <= 3: s["n_mazes"] = 30
            if hr.random() < 0.3: s = numeric_twin(s)
            try: MazeDataset.generate(make_cfg(s))
            except (ValueError, AssertionError): pass    # a history step may hit the documented "no valid start or end positions" of sparse percolation mazes
        elif a == "from_config":
            s = dict(focus if (focus is not None and hr.random() < 0.5) else hr.choice(pool))
            if hr.random() < 0.6: s["seed"] = hr.randrange(10**6)
            try: MazeDataset.from_config(make_cfg(s), load_local=False, save_local=False, do_download=False)
            except ValueError: pass
        elif a == "construct":
            s = dict(hr.choice(pool)); s["seed"] = hr.randrange(10**6); make_cfg(s)
        elif a == "failing_call":
            # library calls that RAISE and whose exception the caller handles: whatever they were in the middle of must not leak into later
            # generations (flags left switched, half-finished reseeding, ...)
            which = hr.randrange(4)
            try:
                if which == 0:      # filter a hand-built dataset whose generator is not a registered one (its config cannot be reloaded)
                    from maze_dataset import MazeDatasetConfig
                    def _not_registered(grid_shape, **kw):
                        from maze_dataset.generation.generators import LatticeMazeGenerators as LG
                        return LG.gen_dfs(grid_shape)
                    d0 = MazeDataset.generate(make_cfg(dict(name="hb", grid_n=3, n_mazes=3, seed=hr.randrange(10**6))))
                    bad = MazeDataset(MazeDatasetConfig(name="hb", grid_n=3, n_mazes=3, maze_ctor=_not_registered), d0.mazes)
                    bad.filter_by.path_length(min_length=1)
                elif which == 1:    # a config that lists an unknown filter
                    c = make_cfg(dict(name="uf", grid_n=3, n_mazes=3, applied_filters=[dict(name="no_such_filter", kwargs={})]))
                    MazeDataset.from_config(c, load_local=False, save_local=False, do_download=False)
                elif which == 2:    # loading something that is not a dataset
                    MazeDataset.load({"__format__": "MazeDataset", "cfg": {"broken": True}, "mazes": [], "generation_metadata_collected": None})
                else:               # deep copy of a dataset whose config cannot be reloaded
                    import copy as _copy
                    from maze_dataset import MazeDatasetConfig
                    d0 = MazeDataset.generate(make_cfg(dict(name="hc", grid_n=3, n_mazes=2, seed=hr.randrange(10**6))))
                    d0.cfg.applied_filters.append(dict(name="x", kwargs={}))       # a record without "args": reload raises
                    _copy.deepcopy(d0)
            except Exception:
                pass
        elif a == "edit_views":
            # arrays the library hands out for a maze of the requested kind (all cells, the connected component, neighbour lists, the adjacency
            # list) belong to the caller, who reorders and overwrites them in place
            s0 = dict(focus if focus is not None else hr.choice(pool)); s0["seed"] = hr.randrange(10**6); s0["n_mazes"] = 2; s0.pop("applied_filters", None)
            try:
                for m in MazeDataset.generate(make_cfg(s0)).mazes:
                    for f in (lambda: m.get_nodes(), lambda: m.get_connected_component(), lambda: m.get_coord_neighbors(np.array([0, 0])), lambda: m.as_adj_list(),
                              lambda: m.coord_degrees()):
                        try:
                            v = f()
                            if isinstance(v, np.ndarray) and v.size and v.flags.writeable: v[...] = v[::-1].copy(); v += 1
                        except Exception: pass
            except (ValueError, AssertionError): pass
        elif a == "np_state":
            np.random.set_state(np.random.RandomState(hr.randrange(10**6)).get_state())
    return acts


def ser(cfg) -> str:
    return json.dumps(cfg.serialize(), sort_keys=True, default=str)


def manual_filters(ds, filters):
    out = ds
    for f in filters:
        out = getattr(out.filter_by, f["name"])(*f.get("args", ()), **f.get("kwargs", {}))
    return out


def one_run(spec: dict, hseed, pool) -> dict:
    try:
        return _one_run(spec, hseed, pool)
    except Exception as e:      # the code under test raised on a valid configuration: a finding, not an infrastructure error
        import traceback
        return dict(error=f"{type(e).__name__}: {str(e)[:300]}", where=traceback.format_exc()[-600:], acts=[])


def _one_run(spec: dict, hseed, pool) -> dict:
    """construct the request config, run history `hseed`, then generate / from_config with the event trace recorded"""
    from maze_dataset import MazeDataset
    cfg = make_cfg(spec)
    filters_before = [dict(name=f["name"], args=tuple(f["args"]), kwargs=dict(f["kwargs"])) for f in cfg.applied_filters]
    ser_before = ser(cfg)
    acts = perturb(_pyrandom.Random(f"hist:{hseed}"), pool, spec) if hseed is not None else []
    EV.clear()
    gen = MazeDataset.generate(cfg)
    ev_gen = events_json(EV)
    gen_sig_now, gen_n_now, gen_json_now = sig(gen), len(gen), (mazes_json(gen) if len(gen) <= 6 else None)
    if hseed is not None and len(gen.mazes) > 0 and (__import__("zlib").crc32(str(hseed).encode()) % 3 == 0):
        # the caller owns the dataset it was given: it edits it in place (observed above) before asking for the same configuration again
        acts.append("edit_returned_dataset")
        gen.mazes[0].connection_list[...] = ~gen.mazes[0].connection_list
        gen.mazes.reverse(); gen.mazes.pop(); gen.cfg.applied_filters.append(dict(name="verif_probe", args=(), kwargs={}))
    acts += perturb(_pyrandom.Random(f"hist2:{hseed}"), pool, spec)[:3] if hseed is not None else []
    EV.clear()
    fc = MazeDataset.from_config(cfg, load_local=False, save_local=False, do_download=False)
    ev_fc = events_json(EV)
    manual = manual_filters(MazeDataset.generate(cfg), filters_before)
    return dict(acts=acts, gen_sig=gen_sig_now, fc_sig=sig(fc), manual_sig=sig(manual), ev_gen=ev_gen, ev_fc=ev_fc,
                cfg_unchanged=ser(cfg) == ser_before and cfg.applied_filters == filters_before,
                out_cfg_is_copy=(gen.cfg is not cfg) and (fc.cfg is not cfg),
                fc_filters_ok=[f["name"] for f in fc.cfg.applied_filters] == [f["name"] for f in filters_before],
                fc_n=len(fc), fc_cfg_n=int(fc.cfg.n_mazes), gen_n=gen_n_now, seed=int(cfg.seed),
                gen_mazes=gen_json_now)


def check_run(ctx, spec, hseed, r, ref, reqs):
    if "error" in r or "error" in ref:
        ctx.case((json.dumps(spec, sort_keys=True), hseed))
        e = r if "error" in r else ref
        ctx.violate(f"generate / from_config (no cache) raised on the valid configuration {spec}: {e['error']}",
                    dict(spec=spec, history_seed=hseed, error=e["error"], where=e.get("where")), key="generate-raises")
        return
    case = dict(spec=spec, history_seed=hseed, history=r["acts"], reference_gen_sig=ref["gen_sig"], gen_sig=r["gen_sig"],
                reference_fc_sig=ref["fc_sig"], fc_sig=r["fc_sig"])
    ctx.case((json.dumps(spec, sort_keys=True), hseed), nontrivial=bool(r["acts"]))
    ctx.count(f"history_len={min(len(r['acts']), 12) // 3 * 3}+"); ctx.count("gen=" + spec.get("maze_ctor", "gen_dfs"))
    for a in set(r["acts"]): ctx.count("act=" + a)
    if r["gen_sig"] != ref["gen_sig"]:
        ctx.violate(f"generate({spec}) gave different mazes after history {r['acts']} (seed of history {hseed}) than in the reference run",
                    dict(case, mazes=r["gen_mazes"], reference_mazes=ref["gen_mazes"]), key="generate-depends-on-history")
    elif r["fc_sig"] != ref["fc_sig"]:
        ctx.violate(f"from_config({spec}, no cache) gave different mazes after history {r['acts']} than in the reference run", case, key="from-config-depends-on-history")
    if r["fc_sig"] != r["manual_sig"] or not r["fc_filters_ok"] or r["fc_n"] != r["fc_cfg_n"]:
        ctx.violate(f"from_config({spec}, no cache) is not generate + the configured filters in order (sig {r['fc_sig']} vs manual {r['manual_sig']}, "
                    f"filters recorded ok={r['fc_filters_ok']}, len {r['fc_n']} vs cfg.n_mazes {r['fc_cfg_n']})", case, key="from-config-not-generate-plus-filters")
    if not r["cfg_unchanged"] or not r["out_cfg_is_copy"]:
        ctx.violate(f"from_config/generate modified (or aliased) the configuration object passed in: unchanged={r['cfg_unchanged']} copy={r['out_cfg_is_copy']} for {spec}",
                    case, key="request-config-mutated")
    reqs.append((dict(op="C04.trace", events=r["ev_gen"], seed=r["seed"]), "generate", case))
    reqs.append((dict(op="C04.trace", events=r["ev_fc"], seed=r["seed"]), "from_config", case))


def model_check(ctx, reqs):
    replies = ctx.driver.run_parallel([q for q, _, _ in reqs])
    for (q, what, case), m in zip(reqs, replies):
        ctx.traces_validated += 1
        if "error" in m:
            ctx.disagree(f"driver error {m['error']}", case); continue
        ctx.count(f"trace_draws>={min(m['draws'], 200) // 50 * 50}")
        if not m["well_seeded"]:
            ev = q["events"]
            ctx.disagree(f"{what} trace is not well seeded: event {m['first_unseeded']} = {ev[m['first_unseeded']] if m['first_unseeded'] is not None else None} "
                         f"draws from a generator never seeded in this call (spec {case['spec']})", case)
        elif not m["seeds_ok"]:
            ctx.disagree(f"{what} trace seeds with something else than cfg.seed={q['seed']}: {[e for e in q['events'] if e[0] == 'seed'][:6]}", case)
        elif m["seeds"] < 4 or m["draws"] < 1:
            ctx.disagree(f"{what} trace has {m['seeds']} seed events and {m['draws']} draws: taps not effective?", case)
    # the request-config cell: model heap vs. observed alias structure (copy, request untouched)
    h = ctx.driver.run([dict(op="C04.heap", heap=[dict(seed=42, filters=["path_length"], n_mazes=5)], req=0, n_after=3)])[0]
    if h.get("addr") != 1 or (h.get("heap") or [None])[0] != dict(seed=42, filters=["path_length"], n_mazes=5):
        ctx.disagree(f"model heap: request cell changed or no copy allocated: {h}", h)


# ---- other processes -----------------------------------------------------------------------------------------
def _child_sigs(spec_list):
    warnings.filterwarnings("ignore")
    from maze_dataset import MazeDataset
    out = []
    for s in spec_list:
        cfg = make_cfg(s)
        out.append([sig(MazeDataset.generate(cfg)), sig(MazeDataset.from_config(cfg, load_local=False, save_local=False, do_download=False))])
    return out


def _child_sigs_after_history(spec_list, k):
    """in a process that has never generated these datasets: a history that generates the SAME KIND of dataset under other seeds
    (anything memoised per maze value, per config value or per generator would carry over), then the request"""
    warnings.filterwarnings("ignore")
    from maze_dataset import MazeDataset
    out = []
    for s in spec_list:
        hr = _pyrandom.Random(f"childhist:{k}:{s.get('name')}")
        for j in range(3):
            h = dict(s); h["seed"] = hr.randrange(10**6); h["name"] = "other"
            if h.get("grid_n", 9) <= 4: h["n_mazes"] = 30
            if j == 2: h = numeric_twin(h)
            try:
                (MazeDataset.generate(make_cfg(h)) if j % 2 == 0 else MazeDataset.from_config(make_cfg(h), load_local=False, save_local=False, do_download=False))
            except (ValueError, AssertionError):
                pass
        perturb(hr, spec_list, s)
        cfg = make_cfg(s)
        def _sig_or_error(f):
            try: return sig(f())
            except Exception as ex: return f"raised {type(ex).__name__}: {str(ex)[:120]}"
        out.append([_sig_or_error(lambda: MazeDataset.generate(cfg)),
                    _sig_or_error(lambda: MazeDataset.from_config(cfg, load_local=False, save_local=False, do_download=False))])
    return out


def _mp_child(spec):       # runs inside a multiprocessing worker (spawn)
    import common as C
    if str(C.REPO) not in sys.path: sys.path.insert(0, str(C.REPO))
    return _child_sigs([spec])[0]


def fresh_processes(ctx, S, refs, n):
    import common as C
    procs = []
    for k in range(n):
        env = dict(os.environ, PYTHONHASHSEED=str(1 + 7919 * k + ctx.seed), PYTHONDONTWRITEBYTECODE="1", VERIF_REPO=str(C.REPO))
        procs.append((env["PYTHONHASHSEED"], subprocess.Popen([sys.executable, str(Path(__file__).resolve()), "--child", str(C.REPO), json.dumps(S)],
                                                              stdout=subprocess.PIPE, stderr=subprocess.PIPE, text=True, env=env)))
    for hs, p in procs:
        out, err = p.communicate(timeout=1800)
        if p.returncode != 0:
            raise RuntimeError(f"fresh interpreter failed: {err[-800:]}")
        sigs = json.loads(out.strip().split("\n")[-1])
        for s, (g, f), ref in zip(S, sigs, refs):
            ctx.case(("process", json.dumps(s, sort_keys=True), hs)); ctx.count("fresh_process_runs")
            if g != ref["gen_sig"] or f != ref["fc_sig"]:
                ctx.violate(f"a fresh interpreter with PYTHONHASHSEED={hs} generated different mazes for {s}",
                            dict(spec=s, pythonhashseed=hs, gen_sig=g, reference_gen_sig=ref["gen_sig"], fc_sig=f, reference_fc_sig=ref["fc_sig"]),
                            key="generate-depends-on-process")


def fresh_processes_with_history(ctx, S, refs, n):
    import common as C
    procs = []
    for k in range(n):
        env = dict(os.environ, PYTHONHASHSEED=str(3 + 104729 * k + ctx.seed), PYTHONDONTWRITEBYTECODE="1", VERIF_REPO=str(C.REPO))
        procs.append((k, subprocess.Popen([sys.executable, str(Path(__file__).resolve()), "--child-hist", str(C.REPO), json.dumps(S), f"{ctx.seed}:{k}"],
                                          stdout=subprocess.PIPE, stderr=subprocess.PIPE, text=True, env=env)))
    for k, p in procs:
        out, err = p.communicate(timeout=1800)
        if p.returncode != 0:
            raise RuntimeError(f"fresh interpreter (with history) failed: {err[-800:]}")
        sigs = json.loads(out.strip().split("\n")[-1])
        for s, (g, f), ref in zip(S, sigs, refs):
            ctx.case(("process+history", json.dumps(s, sort_keys=True), k)); ctx.count("fresh_process_with_history_runs")
            if g != ref["gen_sig"] or f != ref["fc_sig"]:
                ctx.violate(f"in a fresh interpreter that had first generated other datasets of the same kind (same generator, grid and arguments, other seeds) "
                            f"generate / from_config returned different mazes for {s} than without that history",
                            dict(spec=s, history="3 datasets of the same kind under other seeds (30 mazes each on small grids) + a random history", child=k,
                                 gen_sig=g, reference_gen_sig=ref["gen_sig"], fc_sig=f, reference_fc_sig=ref["fc_sig"]), key="generate-depends-on-history")
                return


def mp_children(ctx, S, refs):
    """serial generate inside processes that are multiprocessing children (a user's Pool, a DataLoader worker)"""
    import multiprocessing as mp
    pool = mp.get_context("spawn").Pool(2)
    try:
        res = pool.map(_mp_child, S[:4])
    finally:
        pool.close(); pool.join()
    for s, (g, f), ref in zip(S[:4], res, refs):
        ctx.case(("mp_child", json.dumps(s, sort_keys=True))); ctx.count("mp_child_runs")
        if g != ref["gen_sig"] or f != ref["fc_sig"]:
            ctx.violate(f"serial generate({s}) inside a multiprocessing child process gave different mazes than in a main process "
                        f"(_maze_gen_init_worker reseeds numpy with seed + worker id whenever current_process()._identity is non-empty)",
                        dict(spec=s, where="multiprocessing.get_context('spawn').Pool(2) worker", gen_sig=g, reference_gen_sig=ref["gen_sig"]),
                        key="serial-generate-in-mp-child-reseeds")
            return


# ---- entry points ------------------------------------------------------------------------------------------------
def _core(ctx, deep, with_model, stop_at_first, n_hist, n_proc):
    warnings.filterwarnings("ignore")
    install_taps()
    S = specs(deep)
    reqs, refs = [], []
    for spec in S:                                   # reference: first run of each config in this process
        refs.append(one_run(spec, None, S))
    for spec, ref in zip(S, refs):
        check_run(ctx, spec, None, ref, ref, reqs)
    if ctx.violations and any("error" in r for r in refs):
        return
    ctx.sample(dict(spec=S[1], trace_head=refs[1]["ev_gen"][:12], n_events=len(refs[1]["ev_gen"]), gen_sig=refs[1]["gen_sig"]))
    for k in range(n_hist):
        for i, (spec, ref) in enumerate(zip(S, refs)):
            hseed = ctx.rng.randrange(10**9)
            r = one_run(spec, hseed, S)
            check_run(ctx, spec, hseed, r, ref, reqs)
            if k == 0 and i < 3:
                ctx.sample(dict(spec=spec, history=r["acts"], gen_sig=r["gen_sig"], reference=ref["gen_sig"]))
            if stop_at_first and ctx.violations:
                return
    fresh_processes(ctx, S, refs, n_proc)
    if not ctx.violations: fresh_processes_with_history(ctx, S, refs, 2 if ctx.quick else 8)
    if stop_at_first and ctx.violations:
        return
    mp_children(ctx, S, refs)
    if with_model:
        model_check(ctx, reqs)


def run(ctx):
    _core(ctx, deep=not ctx.quick, with_model=True, stop_at_first=False, n_hist=30 if ctx.quick else 300, n_proc=4 if ctx.quick else 32)


def search(ctx):
    _core(ctx, deep=True, with_model=False, stop_at_first=True, n_hist=60 if ctx.quick else 500, n_proc=4 if ctx.quick else 16)


def replay(ctx, rp):
    warnings.filterwarnings("ignore")
    install_taps()
    case = rp.get("case", rp)
    spec = case["spec"]
    S = specs(True)
    if "pythonhashseed" in case or case.get("where"):
        refs = [one_run(spec, None, S)]
        if case.get("where"):
            mp_children(ctx, [spec], refs)
        else:
            fresh_processes(ctx, [spec], refs, 4)
        return
    ref = one_run(spec, None, S)
    reqs = []
    r = one_run(spec, case.get("history_seed"), S)
    check_run(ctx, spec, case.get("history_seed"), r, ref, reqs)
    model_check(ctx, reqs)


if __name__ == "__main__" and len(sys.argv) >= 4 and sys.argv[1] == "--child":
    sys.path.insert(0, sys.argv[2])
    print(json.dumps(_child_sigs(json.loads(sys.argv[3]))))
if __name__ == "__main__" and len(sys.argv) >= 5 and sys.argv[1] == "--child-hist":
    sys.path.insert(0, sys.argv[2])
    install_taps() if "install_taps" in globals() else None
    print(json.dumps(_child_sigs_after_history(json.loads(sys.argv[3]), sys.argv[4])))
