import MazeVerif.DriverOps.Util
import MazeVerif.Model.Coll
namespace MZ.Drv.C16
open Lean MZ.Drv MZ.Coll

/-- ops: `C16.collection` {members: [[id,...],...], cfg_counts:[..]} →
    {len, mazes, lengths, n_mazes, items:[getItem i for i < len + 2]} (item = id or null) -/
def handle (op : String) (j : Json) : R Json := do
  match op with
  | "C16.collection" =>
    let members ← (← getArr j "members").mapM asNatList
    let cnts ← getNatList j "cfg_counts"
    let n := len members
    let items := (List.range (n + 2)).map fun i =>
      match getItem members i with
      | some x => jNat x
      | none => Json.null
    let locs := (List.range n).map fun i =>
      let kj := locate (members.map List.length) i
      Json.arr #[jNat kj.1, jNat kj.2]
    pure <| obj [("len", jNat n), ("mazes", jNats (mazes members)),
                 ("lengths", jNats (members.map List.length)), ("n_mazes", jNat (cfgNMazes cnts)),
                 ("items", Json.arr items.toArray), ("locs", Json.arr locs.toArray)]
  | _ => throw s!"unknown op {op}"

end MZ.Drv.C16
