import MazeVerif.Lemmas.AStarGrid
/-! Progress of the A* model: a legal pick always exists while the open set is non-empty (`argminPick`), and a run fed
    with legal picks (a checked list, or any strategy that always answers with a legal minimum) and `rows*cols + 1`
    iterations ends in `.found _` or `.noPath` — never `.illegalPick`, `.outOfPicks`, `.outOfFuel`.

    New definitions only (nothing in `Model/AStar.lean` is changed):
    `Legal`, `argminF`, `argminPick`, `argminStrat`, `PicksLegal`, `stratPicks`. -/
namespace MZ.AStar
open MZ

/-- what `min(open_vtx, key=f_score)` guarantees about its answer — literally the test of `run` -/
abbrev Legal (s : AS) (c : Cell) : Prop := c ∈ s.opn ∧ ∀ v ∈ s.opn, s.f c ≤ s.f v

/-- `min(best :: l, key=f)` the way CPython computes it: keep the first strictly smaller key -/
def argminF (f : Cell → Int) : Cell → List Cell → Cell
  | best, [] => best
  | best, v :: rest => if f v < f best then argminF f v rest else argminF f best rest

/-- a computable legal pick: the first f-minimal element of the open list (`none` iff the open set is empty) -/
def argminPick (s : AS) : Option Cell :=
  match s.opn with
  | [] => none
  | v :: rest => some (argminF s.f v rest)

theorem argminF_spec (f : Cell → Int) : ∀ (l : List Cell) (best : Cell),
    (argminF f best l = best ∨ argminF f best l ∈ l) ∧ f (argminF f best l) ≤ f best ∧
      ∀ v ∈ l, f (argminF f best l) ≤ f v
  | [], best => ⟨Or.inl rfl, Int.le_refl _, fun v hv => by simp at hv⟩
  | x :: rest, best => by
    unfold argminF
    split
    · next hlt =>
      obtain ⟨h1, h2, h3⟩ := argminF_spec f rest x
      refine ⟨Or.inr ?_, by omega, ?_⟩
      · rcases h1 with h1 | h1
        · rw [h1]; simp
        · exact List.mem_cons_of_mem _ h1
      · intro v hv
        rcases List.mem_cons.mp hv with rfl | hv
        · exact h2
        · exact h3 v hv
    · next hge =>
      obtain ⟨h1, h2, h3⟩ := argminF_spec f rest best
      refine ⟨?_, h2, ?_⟩
      · rcases h1 with h1 | h1
        · exact Or.inl h1
        · exact Or.inr (List.mem_cons_of_mem _ h1)
      · intro v hv
        rcases List.mem_cons.mp hv with rfl | hv
        · omega
        · exact h3 v hv

theorem argminPick_isSome {s : AS} (h : s.opn ≠ []) : ∃ c, argminPick s = some c := by
  unfold argminPick
  split
  · next he => exact absurd he h
  · exact ⟨_, rfl⟩

theorem argminPick_none_iff {s : AS} : argminPick s = none ↔ s.opn = [] := by
  unfold argminPick
  split
  · next he => simp [he]
  · next he => simp [he]

theorem argminPick_legal {s : AS} {c : Cell} (h : argminPick s = some c) : Legal s c := by
  unfold argminPick at h
  split at h
  · simp at h
  · next x rest he =>
    simp only [Option.some.injEq] at h
    obtain ⟨h1, h2, h3⟩ := argminF_spec s.f rest x
    rw [h] at h1 h2 h3
    refine ⟨?_, ?_⟩
    · rw [he]
      rcases h1 with h1 | h1
      · rw [h1]; simp
      · exact List.mem_cons_of_mem _ h1
    · intro v hv
      rw [he] at hv
      rcases List.mem_cons.mp hv with rfl | hv
      · exact h2
      · exact h3 v hv

/-- the strategy "first minimum of the open list" as a total function of the state
    (its value on an empty open set is irrelevant: it is never asked there) -/
def argminStrat (s : AS) : Cell := (argminPick s).getD (0, 0)

theorem argminStrat_legal (s : AS) (h : s.opn ≠ []) : Legal s (argminStrat s) := by
  obtain ⟨c, hc⟩ := argminPick_isSome h
  have := argminPick_legal hc
  simpa [argminStrat, hc] using this

/-- every pick of the list is a legal minimum AT THE MOMENT IT IS USED by `run` (picks after the loop has ended — open set
    empty, or the goal picked — are unconstrained). Only legality: says nothing about the length of the list. -/
def PicksLegal (N : Cell → List Cell) (h : Cell → Int) (endc : Cell) : AS → List Cell → Prop
  | _, [] => True
  | s, c :: rest => s.opn ≠ [] → (Legal s c ∧ (c ≠ endc → PicksLegal N h endc (expand N h s c) rest))

/-- the pick list obtained by asking a strategy `n` times along the run -/
def stratPicks (N : Cell → List Cell) (h : Cell → Int) (strat : AS → Cell) : Nat → AS → List Cell
  | 0, _ => []
  | n + 1, s => strat s :: stratPicks N h strat n (expand N h s (strat s))

@[simp] theorem stratPicks_length (N : Cell → List Cell) (h : Cell → Int) (strat : AS → Cell) :
    ∀ (n : Nat) (s : AS), (stratPicks N h strat n s).length = n
  | 0, _ => rfl
  | n + 1, s => by simp [stratPicks, stratPicks_length N h strat n]

theorem stratPicks_legal (N : Cell → List Cell) (h : Cell → Int) (endc : Cell) {strat : AS → Cell}
    (hstrat : ∀ s : AS, s.opn ≠ [] → Legal s (strat s)) :
    ∀ (n : Nat) (s : AS), PicksLegal N h endc s (stratPicks N h strat n s)
  | 0, _ => trivial
  | n + 1, s => fun hne => ⟨hstrat s hne, fun _ => stratPicks_legal N h endc hstrat n _⟩

/-- a non-empty open set while `rows*cols` cells are already closed is impossible -/
theorem closed_lt_of_opn {rows cols : Nat} {s : AS} (inv : GridInv rows cols s) (hne : s.opn ≠ []) :
    s.closed.length + 1 ≤ rows * cols := by
  cases ho : s.opn with
  | nil => exact absurd ho hne
  | cons c rest =>
    have hc : c ∈ s.opn := by rw [ho]; simp
    have hnd : (c :: s.closed).Nodup := List.nodup_cons.mpr ⟨inv.disj c hc, inv.closedNodup⟩
    have hg : ∀ v ∈ c :: s.closed, inGrid rows cols v := by
      intro v hv
      rcases List.mem_cons.mp hv with rfl | hv
      · exact inv.opnGrid _ hc
      · exact inv.closedGrid v hv
    have := (all_of_length hnd hg).1
    simpa using this

/-- progress of the main loop: legal picks, one pick and one unit of fuel per cell not yet closed (plus one unit of fuel
    for the final test of the empty open set) end in `.found` or `.noPath` -/
theorem run_progress {rows cols : Nat} {E : List Edge} {e : Cell} {H0 : Int} : ∀ (fuel : Nat) (s : AS) (picks : List Cell),
    GridInv rows cols s →
    PicksLegal (coordNeighbors rows cols E) (manhattan e) e s picks →
    rows * cols ≤ picks.length + s.closed.length →
    rows * cols + 1 ≤ fuel + s.closed.length →
    (∃ p, run (coordNeighbors rows cols E) (manhattan e) e H0 fuel s picks = .found p) ∨
      run (coordNeighbors rows cols E) (manhattan e) e H0 fuel s picks = .noPath := by
  intro fuel
  induction fuel with
  | zero =>
    intro s picks inv _ _ hf
    have := (all_of_length inv.closedNodup inv.closedGrid).1
    omega
  | succ fuel ih =>
    intro s picks inv hpl hp hf
    unfold run
    split
    · exact Or.inr rfl
    · next hne =>
      have hlt := closed_lt_of_opn inv hne
      split
      · simp only [List.length_nil] at hp; omega
      · next c rest =>
        obtain ⟨hleg, hrest⟩ := hpl hne
        have hl : c ∈ s.opn ∧ ∀ v ∈ s.opn, s.f c ≤ s.f v := hleg
        rw [if_pos hl]
        split
        · exact Or.inl ⟨_, rfl⟩
        · next hce =>
          obtain ⟨inv', hlen⟩ := gridInv_expand (E := E) (e := e) inv hleg.1
          refine ih _ rest inv' (hrest hce) ?_ ?_
          · rw [hlen]; simp only [List.length_cons] at hp; omega
          · rw [hlen]; omega

theorem gridInv_init {rows cols : Nat} {start endc : Cell} (hs : inGrid rows cols start) :
    GridInv rows cols (initState start endc) :=
  ⟨by intro v hv; simp [initState] at hv; subst hv; exact hs, by simp [initState], by simp [initState],
    by simp [initState], by simp [initState]⟩

end MZ.AStar
