import MazeVerif.Model.Tok
import MazeVerif.Generated.TokVocab
/-! Rendering of structured tokens as vocabulary strings (the strings come from `Generated/TokVocab.lean`, i.e. from
    constants.py as it is now), and the inverse used by the driver to read the implementation's output. Core Lean only. -/
namespace MZ.Tok
open MZ.Gen

def Dir.str : Dir → String
  | .north => tokNorth | .south => tokSouth | .east => tokEast | .west => tokWest

def Rel.str : Rel → String
  | .forward => tokForward | .backward => tokBackward | .left => tokLeft | .right => tokRight | .stay => tokStay

/-- the string the real tokenizer emits for a structured token -/
def Tok.str : Tok → String
  | .lp => tokCoordPre | .comma => tokCoordIntra | .rp => tokCoordPost
  | .num n => toString n                                                  -- `str(coord[k])`
  | .ut i j => "(" ++ toString i ++ "," ++ toString j ++ ")"              -- `"".join(["(", str(c[0]), ",", str(c[1]), ")"])`
  | .conn => tokConnector | .wall => tokWall | .endl => tokEndline
  | .card d => d.str | .rel r => r.str
  | .dist d => distFmt d                                                  -- `getattr(VOCAB, f"I_{d:03}")`
  | .pathPre => tokPathPre | .pathIntra => tokPathIntra | .pathPost => tokPathPost
  | .targetPost => tokTargetPost
  | .adjStart => tokAdjStart | .adjEnd => tokAdjEnd | .originStart => tokOriginStart | .originEnd => tokOriginEnd
  | .targetStart => tokTargetStart | .targetEnd => tokTargetEnd | .pathStart => tokPathStart | .pathEnd => tokPathEnd

def fixedToks : List Tok :=
  [.lp, .comma, .rp, .conn, .wall, .endl, .card .north, .card .south, .card .east, .card .west,
   .rel .forward, .rel .backward, .rel .left, .rel .right, .rel .stay, .pathPre, .pathIntra, .pathPost, .targetPost,
   .adjStart, .adjEnd, .originStart, .originEnd, .targetStart, .targetEnd, .pathStart, .pathEnd]

def digitsToNat? (cs : List Char) : Option Nat :=
  if cs.isEmpty then none
  else cs.foldlM (fun acc c => if c.isDigit then some (acc * 10 + (c.toNat - 48)) else none) 0

def splitComma (cs : List Char) : List Char × List Char := (cs.takeWhile (· != ','), (cs.dropWhile (· != ',')).drop 1)

/-- driver-side reader of an implementation token (`none` = not a token the modular tokenizer can emit) -/
def Tok.ofStr (s : String) : Option Tok :=
  match fixedToks.find? (fun t => t.str == s) with
  | some t => some t
  | none =>
    match s.toList with
    | '+' :: ds => (digitsToNat? ds).map .dist
    | '(' :: rest =>
      match rest.reverse with
      | ')' :: mid =>
        let ab := splitComma mid.reverse
        match digitsToNat? ab.1, digitsToNat? ab.2 with
        | some i, some j => some (.ut i j)
        | _, _ => none
      | _ => none
    | cs => (digitsToNat? cs).map .num

end MZ.Tok
