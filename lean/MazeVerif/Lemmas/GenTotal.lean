import MazeVerif.Lemmas.DfsTotal
import MazeVerif.Lemmas.Component
import MazeVerif.Lemmas.Percolation
/-! Totality of the top-level generator models (`Model/Gen.lean`) above explicit fuel bounds. -/
namespace MZ

/-! ### `componentLoop`: more fuel never changes a result -/

theorem componentLoop_mono (N : Cell → List Cell) : ∀ (fuel : Nat) (stack vis V : List Cell),
    componentLoop N fuel stack vis = some V → ∀ fuel', fuel ≤ fuel' → componentLoop N fuel' stack vis = some V
  | 0, _, _, _, h, _, _ => by simp [componentLoop] at h
  | fuel + 1, stack, vis, V, h, 0, hle => by omega
  | fuel + 1, stack, vis, V, h, fuel' + 1, hle => by
    unfold componentLoop at h ⊢
    cases hl : stack.getLast? with
    | none => rw [hl] at h; exact h
    | some cur =>
      rw [hl] at h
      simp only at h ⊢
      exact componentLoop_mono N fuel _ _ V h fuel' (by omega)

/-- fuel bound for `componentFrom` (and therefore for the two percolation generators) -/
def compFuel (rows cols : Nat) : Nat := 5 * (rows * cols) + 2

theorem componentFrom_fuel_indep {rows cols : Nat} (E : List Edge) {c : Cell} (hc : inGrid rows cols c) {fuel fuel' : Nat}
    (hf : compFuel rows cols ≤ fuel) (hf' : compFuel rows cols ≤ fuel') :
    componentFrom rows cols E c fuel = componentFrom rows cols E c fuel' := by
  obtain ⟨V, hV⟩ := componentFrom_total E hc (fuel := compFuel rows cols) (Nat.le_refl _)
  unfold componentFrom at *
  rw [componentLoop_mono _ _ _ _ _ hV fuel hf, componentLoop_mono _ _ _ _ _ hV fuel' hf']

theorem dfsFuel_le_compFuel (rows cols : Nat) : dfsFuel rows cols ≤ compFuel rows cols := by
  unfold dfsFuel compFuel; omega

/-! ### start coordinate -/

/-- a successful start-coordinate step always yields a cell of the grid: a given start outside the grid is rejected
    (the `ValueError` branch), a drawn one lies in `[0, max(rows-1,1)) × [0, max(cols-1,1))` -/
theorem startCoord_in_grid' {rows cols : Nat} (hr : 0 < rows) (hc : 0 < cols) {given draws c rest}
    (h : startCoord rows cols given draws = some (c, rest)) : inGrid rows cols c := by
  unfold startCoord at h
  split at h
  · split at h
    · next hin => simp only [Option.some.injEq, Prod.mk.injEq] at h; obtain ⟨rfl, _⟩ := h; exact hin
    · simp at h
  · unfold randomStart at h
    split at h
    · split at h
      · simp only [Option.some.injEq, Prod.mk.injEq] at h; obtain ⟨rfl, _⟩ := h; simp [inGrid]; omega
      · simp at h
    · simp at h

/-- a given start outside the grid is rejected whatever the draws -/
theorem startCoord_rejected {rows cols : Nat} {given : Option Cell} (hrej : StartRejected rows cols given)
    (draws : List Nat) : startCoord rows cols given draws = none := by
  obtain ⟨c, rfl, hn⟩ := hrej
  simp only [startCoord, hn, if_false]

/-- a successful start-coordinate step means the given start (if any) was inside the grid -/
theorem not_rejected_of_startCoord {rows cols : Nat} {given draws q}
    (h : startCoord rows cols given draws = some q) : ¬ StartRejected rows cols given := by
  intro hrej; rw [startCoord_rejected hrej] at h; simp at h

/-- a given start is used unchanged and consumes no draw -/
theorem startCoord_given {rows cols : Nat} {c : Cell} {draws q}
    (h : startCoord rows cols (some c) draws = some q) : q = (c, draws) ∧ inGrid rows cols c := by
  unfold startCoord at h
  simp only at h
  split at h
  · next hin => simp only [Option.some.injEq] at h; exact ⟨h.symm, hin⟩
  · simp at h

/-- the two (and only two) reasons the start-coordinate step fails: the given start is outside the grid, or no start
    was given and the two start draws are missing / outside `np.random.randint`'s range -/
theorem startCoord_eq_none_iff {rows cols : Nat} {given : Option Cell} {draws : List Nat} :
    startCoord rows cols given draws = none ↔
      StartRejected rows cols given ∨ (given = none ∧ randomStart rows cols draws = none) := by
  constructor
  · intro h
    cases given with
    | none => exact Or.inr ⟨rfl, by simpa [startCoord] using h⟩
    | some c =>
      left
      refine ⟨c, rfl, fun hin => ?_⟩
      simp only [startCoord, hin, if_true] at h
      cases h
  · rintro (hrej | ⟨rfl, h⟩)
    · exact startCoord_rejected hrej draws
    · simpa [startCoord] using h

/-- the all-zero draw list is accepted by the start-coordinate draw (unless a given start is outside the grid), and
    what is left is all-zero and at most two shorter -/
theorem startCoord_zero {rows cols : Nat} {given : Option Cell} (hg : ¬ StartRejected rows cols given) {draws : List Nat}
    (hz : ∀ d ∈ draws, d = 0) (hl : 2 ≤ draws.length) :
    ∃ c rest, startCoord rows cols given draws = some (c, rest) ∧ (∀ d ∈ rest, d = 0) ∧ draws.length ≤ rest.length + 2 := by
  unfold startCoord
  cases given with
  | some c =>
    have hin : inGrid rows cols c := by
      cases (inferInstance : Decidable (inGrid rows cols c)) with
      | isTrue h => exact h
      | isFalse h => exact absurd ⟨c, rfl, h⟩ hg
    exact ⟨c, draws, by simp only [hin, if_true], hz, by omega⟩
  | none =>
    simp only
    match draws, hz, hl with
    | a :: b :: rest, hz, _ =>
      have ha : a = 0 := hz a (by simp)
      have hb : b = 0 := hz b (by simp)
      subst ha hb
      have h1 : 0 < max (rows - 1) 1 ∧ 0 < max (cols - 1) 1 := by omega
      refine ⟨(((0 : Nat) : Int), ((0 : Nat) : Int)), rest, by simp only [randomStart, h1, and_self, if_true], fun d hd => hz d (by simp [hd]), by simp⟩

/-! ### `genDfsTop` / `genPrimTop` -/

theorem genDfsTop_fuel_indep {rows cols : Nat} (hr : 0 < rows) (hc : 0 < cols) {a : Args} {given : Option Cell}
    {draws : List Nat} {fuel fuel' : Nat} 
    (hf : dfsFuel rows cols ≤ fuel) (hf' : dfsFuel rows cols ≤ fuel') :
    genDfsTop rows cols a given draws fuel = genDfsTop rows cols a given draws fuel' := by
  unfold genDfsTop
  cases hst : startCoord rows cols given draws with
  | none => rfl
  | some p =>
    obtain ⟨start, d1⟩ := p
    simp only
    rw [genDfs_fuel_indep (startCoord_in_grid' hr hc hst) hf hf']

/-- above the fuel bound `genDfsTop` fails only for a reason that concerns the draws -/
theorem genDfsTop_none_reason {rows cols : Nat} (hr : 0 < rows) (hc : 0 < cols) {a : Args} {given : Option Cell}
    {draws : List Nat} {fuel : Nat}
    (hf : dfsFuel rows cols ≤ fuel) (h : genDfsTop rows cols a given draws fuel = none) :
    startCoord rows cols given draws = none ∨
    ∃ start d1, startCoord rows cols given draws = some (start, d1) ∧
      (genDfsE rows cols a start d1 fuel = .error .noDraw ∨ genDfsE rows cols a start d1 fuel = .error .drawOutOfRange) := by
  unfold genDfsTop at h
  cases hst : startCoord rows cols given draws with
  | none => exact Or.inl rfl
  | some p =>
    obtain ⟨start, d1⟩ := p
    right
    refine ⟨start, d1, rfl, ?_⟩
    rw [hst] at h
    simp only at h
    have hin := startCoord_in_grid' hr hc hst
    have hne := genDfsE_ne_outOfFuel (a := a) (rng := d1) hin hf
    rw [genDfs_eq_toOption] at h
    cases hE : genDfsE rows cols a start d1 fuel with
    | ok s => rw [hE] at h; simp [Except.toOption] at h
    | error e =>
      rw [hE] at hne
      cases e with
      | outOfFuel => exact absurd rfl hne
      | noDraw => exact Or.inl rfl
      | drawOutOfRange => exact Or.inr rfl

theorem genDfsTop_zero {rows cols : Nat} {a : Args} {given : Option Cell} {draws : List Nat} {fuel : Nat}
    (hr : 0 < rows) (hc : 0 < cols) (hg : ¬ StartRejected rows cols given)
    (hf : dfsFuel rows cols ≤ fuel) (hd : dfsDraws rows cols + 2 ≤ draws.length) (hz : ∀ d ∈ draws, d = 0) :
    ∃ o, genDfsTop rows cols a given draws fuel = some o := by
  obtain ⟨start, d1, hst, hz1, hl1⟩ := startCoord_zero (rows := rows) (cols := cols) hg hz (by omega)
  obtain ⟨s, hs⟩ := genDfs_zero (a := a) (fuel := fuel) (startCoord_in_grid' hr hc hst) hf (by omega) hz1
  unfold genDfsTop
  rw [hst]; simp only; rw [hs]
  exact ⟨_, rfl⟩

/-- a given start outside the grid: `genDfsTop` (and so `genPrimTop`) is the error branch, whatever the other inputs -/
theorem genDfsTop_rejected {rows cols : Nat} {given : Option Cell} (hrej : StartRejected rows cols given)
    (a : Args) (draws : List Nat) (fuel : Nat) : genDfsTop rows cols a given draws fuel = none := by
  simp only [genDfsTop, startCoord_rejected hrej]

theorem genPercolationTop_rejected {rows cols : Nat} {given : Option Cell} (hrej : StartRejected rows cols given)
    (p : Nat × Nat) (draws : List Nat) (rands : List (Nat × Nat)) (fuel : Nat) :
    genPercolationTop rows cols p given draws rands fuel = none := by
  simp only [genPercolationTop, startCoord_rejected hrej]

theorem genDfsPercolationTop_rejected {rows cols : Nat} {given : Option Cell} (hrej : StartRejected rows cols given)
    (p : Nat × Nat) (a : Args) (draws : List Nat) (rands : List (Nat × Nat)) (fuel : Nat) :
    genDfsPercolationTop rows cols p a given draws rands fuel = none := by
  simp only [genDfsPercolationTop, startCoord_rejected hrej]

/-- success of any of the generator models exposes the successful start-coordinate step -/
theorem genDfsTop_start {rows cols : Nat} {a given draws fuel o}
    (h : genDfsTop rows cols a given draws fuel = some o) :
    ∃ d1, startCoord rows cols given draws = some (o.start, d1) := by
  unfold genDfsTop at h
  split at h
  · simp at h
  · next start d1 hst =>
    split at h
    · simp at h
    · simp only [Option.some.injEq] at h; subst h; exact ⟨d1, hst⟩

theorem genPercolationTop_start {rows cols : Nat} {p given draws rands fuel o}
    (h : genPercolationTop rows cols p given draws rands fuel = some o) :
    ∃ d1, startCoord rows cols given draws = some (o.start, d1) := by
  unfold genPercolationTop at h
  split at h
  · simp at h
  · next start d1 hst =>
    split at h
    · simp at h
    · split at h
      · simp at h
      · simp only [Option.some.injEq] at h; subst h; exact ⟨d1, hst⟩

theorem genDfsPercolationTop_start {rows cols : Nat} {p a given draws rands fuel o}
    (h : genDfsPercolationTop rows cols p a given draws rands fuel = some o) :
    ∃ d1, startCoord rows cols given draws = some (o.start, d1) := by
  unfold genDfsPercolationTop at h
  split at h
  · simp at h
  · next start d1 hst =>
    split at h
    · simp at h
    · split at h
      · simp at h
      · simp only at h
        split at h
        · simp at h
        · simp only [Option.some.injEq] at h; subst h; exact ⟨d1, hst⟩

/-! ### percolation generators -/

theorem percolate_isSome {rows cols : Nat} {p : Nat × Nat} {rands : List (Nat × Nat)} :
    (∃ E, percolate rows cols p rands = some E) ↔ rands.length = 2 * rows * cols := by
  unfold percolate
  split
  · next h => exact ⟨fun _ => h, fun _ => ⟨_, rfl⟩⟩
  · next h => exact ⟨fun ⟨E, hE⟩ => by simp at hE, fun h' => absurd h' h⟩

/-- `gen_percolation` returns exactly when it is handed the random numbers it asks for -/
theorem genPercolationTop_isSome {rows cols : Nat} (hr : 0 < rows) (hc : 0 < cols) {p : Nat × Nat} {given : Option Cell}
    {draws : List Nat} {rands : List (Nat × Nat)} {fuel : Nat}
    (hf : compFuel rows cols ≤ fuel) :
    (∃ o, genPercolationTop rows cols p given draws rands fuel = some o) ↔
      (startCoord rows cols given draws ≠ none ∧ rands.length = 2 * rows * cols) := by
  unfold genPercolationTop
  cases hst : startCoord rows cols given draws with
  | none => simp
  | some q =>
    obtain ⟨start, d1⟩ := q
    simp only
    have hin := startCoord_in_grid' hr hc hst
    cases hP : percolate rows cols p rands with
    | none =>
      have := (percolate_isSome (rows := rows) (cols := cols) (p := p) (rands := rands)).not.mp (by simp [hP])
      simp [this]
    | some E =>
      have hlen := (percolate_isSome (rows := rows) (cols := cols) (p := p) (rands := rands)).mp ⟨E, hP⟩
      obtain ⟨V, hV⟩ := componentFrom_total E hin (fuel := fuel) hf
      simp only [hV]
      exact ⟨fun _ => ⟨by simp, hlen⟩, fun _ => ⟨_, rfl⟩⟩

theorem genPercolationTop_fuel_indep {rows cols : Nat} (hr : 0 < rows) (hc : 0 < cols) {p : Nat × Nat} {given : Option Cell}
    {draws : List Nat} {rands : List (Nat × Nat)} {fuel fuel' : Nat}
    (hf : compFuel rows cols ≤ fuel) (hf' : compFuel rows cols ≤ fuel') :
    genPercolationTop rows cols p given draws rands fuel = genPercolationTop rows cols p given draws rands fuel' := by
  unfold genPercolationTop
  cases hst : startCoord rows cols given draws with
  | none => rfl
  | some q =>
    obtain ⟨start, d1⟩ := q
    simp only
    cases hP : percolate rows cols p rands with
    | none => rfl
    | some E =>
      simp only
      rw [componentFrom_fuel_indep E (startCoord_in_grid' hr hc hst) hf hf']

theorem genDfsPercolationTop_fuel_indep {rows cols : Nat} (hr : 0 < rows) (hc : 0 < cols) {p : Nat × Nat} {a : Args}
    {given : Option Cell} {draws : List Nat} {rands : List (Nat × Nat)} {fuel fuel' : Nat}
    (hf : compFuel rows cols ≤ fuel) (hf' : compFuel rows cols ≤ fuel') :
    genDfsPercolationTop rows cols p a given draws rands fuel = genDfsPercolationTop rows cols p a given draws rands fuel' := by
  unfold genDfsPercolationTop
  cases hst : startCoord rows cols given draws with
  | none => rfl
  | some q =>
    obtain ⟨start, d1⟩ := q
    simp only
    have hin := startCoord_in_grid' hr hc hst
    have h1 := dfsFuel_le_compFuel rows cols
    rw [genDfs_fuel_indep (a := a) (rng := d1) hin (fuel := fuel) (fuel' := fuel') (by omega) (by omega)]
    cases genDfs rows cols a start d1 fuel' with
    | none => rfl
    | some s =>
      simp only
      cases hP : percolate rows cols p rands with
      | none => rfl
      | some P =>
        simp only
        rw [componentFrom_fuel_indep _ hin hf hf']

/-- `gen_dfs_percolation` returns exactly when its dfs part returns and the random array has the right size -/
theorem genDfsPercolationTop_isSome {rows cols : Nat} (hr : 0 < rows) (hc : 0 < cols) {p : Nat × Nat} {a : Args}
    {given : Option Cell} {draws : List Nat} {rands : List (Nat × Nat)} {fuel : Nat}
    (hf : compFuel rows cols ≤ fuel) :
    (∃ o, genDfsPercolationTop rows cols p a given draws rands fuel = some o) ↔
      ((∃ o, genDfsTop rows cols a given draws fuel = some o) ∧ rands.length = 2 * rows * cols) := by
  unfold genDfsPercolationTop genDfsTop
  cases hst : startCoord rows cols given draws with
  | none => simp
  | some q =>
    obtain ⟨start, d1⟩ := q
    simp only
    have hin := startCoord_in_grid' hr hc hst
    cases genDfs rows cols a start d1 fuel with
    | none => simp
    | some s =>
      simp only
      cases hP : percolate rows cols p rands with
      | none =>
        have := (percolate_isSome (rows := rows) (cols := cols) (p := p) (rands := rands)).not.mp (by simp [hP])
        simp [this]
      | some P =>
        have hlen := (percolate_isSome (rows := rows) (cols := cols) (p := p) (rands := rands)).mp ⟨P, hP⟩
        obtain ⟨V, hV⟩ := componentFrom_total
          ((allSlots rows cols).filter fun e => s.edges.contains e || P.contains e) hin (fuel := fuel) hf
        simp only [hV]
        exact ⟨fun _ => ⟨⟨_, rfl⟩, hlen⟩, fun _ => ⟨_, rfl⟩⟩

end MZ
