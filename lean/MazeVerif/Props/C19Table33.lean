import MazeVerif.Props.C19Tables
/-! The 3x3 table (192 spanning trees, 7 897 reachable states, 300 draws): about four minutes of compiled evaluation. -/
namespace MZ.WProb

theorem table_3x3 : tableOK 3 3 300 192 eps9 = true := by native_decide

end MZ.WProb
