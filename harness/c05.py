"""C05 — datasets survive serialization and disk round trips unchanged.

Correspondence: the real `MazeDataset._serialize_{full,minimal,minimal_soln_cat}` / `load` / `save` / `read`,
`serialize()` under many thresholds, and `MazeDatasetCollection.serialize/load/save/read`, against the Lean model
`MZ.Serial` (driver ops C05.dataset / C05.dispatch / C05.collection / C05.meta).  The observed contents of the `np.empty`
padding are handed to the model (the theorems quantify over all paddings), every array of the minimal formats is compared
entry by entry, every file round trip goes through a real `.zanj` file in a per-run directory under `.work/`.
Oracle (plain Python, written from the property statement, no model involved): field-by-field comparison of the loaded dataset
with a snapshot of the source taken BEFORE serialization."""
from __future__ import annotations
import copy, json, os, random, shutil, tempfile, warnings, zipfile
from pathlib import Path
import numpy as np

RULE = ("datasets are built by the library's own MazeDataset.generate for every generator in GENERATORS_MAP (grid 2-8 quick / 2-20 thorough, "
        "1-40 mazes, percolation p in {0.3,0.5,0.8}), then about half of the solutions are replaced by forced length-1 / length-2 / other "
        "sub-paths so that solution lengths are ragged; plus hand-built serpentine mazes with solutions longer than 127 rows; metadata "
        "modes: per-maze only / collected only / both (clear_in_mazes=False) / none / first-missing / later-missing (the last three are the "
        "error branches); plus empty datasets and the int8 boundary (grid 128 ok, grid 129 fails). Each dataset goes through the 3 "
        "explicit formats in memory and through a real .zanj file, through save/read under 2-3 thresholds out of "
        "{None,-1,0,1,len-1,len,len+1,100}, and the loaders run under a load-time threshold out of {None,-1,1,100}. Collections: 1-4 "
        "members (some empty) x thresholds, in memory and through a file. non-trivial = a successful round trip of a dataset with >= 1 "
        "maze; distinct = distinct (dataset content, format/threshold route); later additions: MazeDataset.load(ds.serialize()) under every threshold (in memory, next to save/read), collections built by generate / loaded twice, many-maze and sharded datasets, datasets that came back from a load and were rearranged by their owner (reverse, shuffle, swap, thin, in place) before being written again in every format, list-valued generator arguments in hand-written configurations, the same serialized data loaded twice with the first result edited (list level) in between")
ASSUMPTIONS = [
    "domain of the round trip in the minimal formats: the dataset has collected metadata or every maze carries generation_meta; a dataset "
    "with neither is refused by the code's own assertion (modelled and checked as the AssertionError branch, theorem C05_minimal_needs_meta), "
    "an empty dataset is refused by max()/dataset[0] (C05_minimal_empty_fails)",
    "the minimal serializers collect the metadata IN PLACE: the source dataset itself gains one applied_filters record "
    "{'name':'collect_generation_meta','args':(),'kwargs':{}}, loses per-maze generation_meta and gets generation_metadata_collected; "
    "'equal configuration' is therefore checked as: loaded cfg == snapshot-before plus exactly that one record when (and only when) the "
    "source was not collected before, == snapshot-before otherwise; and loaded cfg == source cfg after the call",
    "int8 storage: every solution coordinate < 128 (guard `Storable` in the theorems); solution length < 2^31; each maze's grid equals cfg.grid_n",
    "metadata keys are compared as str(key) (json stringifies them); per-maze generation_meta content is not part of the property",
    "length-0 datasets are outside the quantifier: full format works (and is what collections rely on for empty members), the minimal "
    "format refuses them, the concatenated format loads in memory but the zanj store cannot reload its zero-length arrays from a file",
    "the config's own json round trip is property C18 (hypothesis EnvOK.cfgJson_id); here it is exercised, not proved",
]
TRUSTED = [
    "ZANJ / zipfile / npy store and muutils json_serialize/load_item_recursive are parameters of the model (identity on the tree of arrays); "
    "every file round trip of the check goes through the real ones",
    "the Counter loop of collect_generation_meta is a parameter (`Env.collect`); its result is compared with an independent recount by the oracle",
    "harness/translate_serial.py (format strings, load dispatch table, threshold comparison, dtypes, handler prefixes read from the source with ast)",
]

MODES_OK = ["permaze", "collected", "both"]
MODES_ERR = ["none", "first_none", "later_none"]
FORMATS = [("full", "_serialize_full"), ("minimal", "_serialize_minimal"), ("cat", "_serialize_minimal_soln_cat")]
RECORD = {"name": "collect_generation_meta", "args": [], "kwargs": {}}


def _errkind(e: BaseException) -> str:
    for t in (ValueError, AssertionError, IndexError, KeyError):
        if isinstance(e, t):
            return t.__name__
    return "other"


def _norm(x):
    return json.loads(json.dumps(x, default=str))


# ------------------------------------------------------------------------------------------------ recipes (pure data)

def _enc_meta(meta):
    if meta is None:
        return None
    out = {}
    for k, v in meta.items():
        if isinstance(v, set):
            out[k] = {"t": "set", "v": sorted([int(a) for a in x] for x in v)}
        elif isinstance(v, np.ndarray):
            out[k] = {"t": "arr", "v": v.tolist()}
        elif isinstance(v, (bool, np.bool_)):
            out[k] = {"t": "bool", "v": bool(v)}
        elif isinstance(v, (int, np.integer)):
            out[k] = {"t": "int", "v": int(v)}
        elif isinstance(v, float):
            out[k] = {"t": "float", "v": v}
        elif isinstance(v, str):
            out[k] = {"t": "str", "v": v}
        elif v is None:
            out[k] = {"t": "none", "v": None}
        else:
            out[k] = {"t": "str", "v": repr(v)}
    return out


def _dec_meta(enc):
    if enc is None:
        return None
    out = {}
    for k, e in enc.items():
        t, v = e["t"], e["v"]
        if t == "set":
            out[k] = {tuple(x) for x in v}
        elif t == "arr":
            out[k] = np.array(v)
        else:
            out[k] = v
    return out


def _bits(a) -> str:
    return "".join("1" if b else "0" for b in np.asarray(a, dtype=bool).ravel())


def _unbits(s: str, g: int):
    return np.array([c == "1" for c in s], dtype=bool).reshape(2, g, g)


def _subpaths(rng, cl, sol):
    """a forced short/ragged replacement of a solution that is still a path in the maze"""
    kind = rng.choice(["len1", "len2", "prefix", "keep", "keep"])
    sol = [list(map(int, c)) for c in sol]
    if kind == "len1":
        return [rng.choice(sol)]
    if kind == "len2" and len(sol) >= 2:
        i = rng.randrange(len(sol) - 1)
        return sol[i:i + 2]
    if kind == "prefix" and len(sol) >= 3:
        i = rng.randrange(0, len(sol) - 2)
        j = rng.randrange(i + 2, len(sol) + 1)
        return sol[i:j]
    return sol


def _snake(g: int):
    """serpentine corridor through every cell of a g x g grid: solution of length g*g"""
    cl = np.zeros((2, g, g), dtype=bool)
    sol = []
    for r in range(g):
        cols = range(g) if r % 2 == 0 else range(g - 1, -1, -1)
        for c in cols:
            sol.append([r, c])
    for (r1, c1), (r2, c2) in zip(sol, sol[1:]):
        if r1 == r2:
            cl[1, r1, min(c1, c2)] = True
        else:
            cl[0, min(r1, r2), c1] = True
    return cl, sol


def _hand_meta(g: int):
    return {"func_name": {"t": "str", "v": "hand_snake"}, "grid_shape": {"t": "arr", "v": [g, g]},
            "fully_connected": {"t": "bool", "v": True}, "n_accessible_cells": {"t": "int", "v": g * g}}


def make_recipe(rng: random.Random, tier: str, idx: int) -> dict:
    from maze_dataset import MazeDataset, MazeDatasetConfig
    from maze_dataset.generation.generators import GENERATORS_MAP
    gens = sorted(GENERATORS_MAP)
    quick = tier == "quick"
    special = idx % 20
    if special == 19:       # long solutions (> 127 rows): the dtype of the stored lengths matters
        g = rng.choice([12, 13, 16, 17] if quick else [12, 14, 16, 17, 19, 23])   # 16x16 = 256 cells, 17x17 = 289: one byte is not enough for a length
        cl, sol = _snake(g)
        mazes = []
        for k in range(rng.randint(1, 3)):
            cut = sol if k == 0 else sol[rng.randrange(0, 10): rng.randrange(len(sol) - 10, len(sol) + 1)]
            mazes.append(dict(clist=_bits(cl), sol=cut, meta=_hand_meta(g)))
        return dict(name=f"snake{idx}", gen="gen_dfs", kwargs={}, grid_n=g, seed=idx, mazes=mazes, mode=rng.choice(MODES_OK), tag="snake")
    gen = gens[idx % len(gens)]
    gmax = 8 if quick else 20
    g = rng.choice([2, 3, 3, 4, 5, 6, 7, gmax, rng.randint(2, gmax)])
    n = rng.choice([1, 1, 2, 3, 5, 8, rng.randint(1, 40 if quick or g <= 10 else 12)])
    kwargs = {"p": rng.choice([0.3, 0.5, 0.8])} if "percolation" in gen else {}
    seed = rng.randrange(2 ** 31)
    cfg = MazeDatasetConfig(name=f"d{idx}", grid_n=g, n_mazes=n, maze_ctor=GENERATORS_MAP[gen], maze_ctor_kwargs=kwargs, seed=seed)
    try:
        base_mazes = MazeDataset.generate(cfg).mazes          # the library's own flow
    except ValueError:
        # sparse percolation mazes: generate_random_path fails on a single-cell component (C03's business, not C05's);
        # build the mazes one by one with the real generator and fall back to a one-cell solution
        from maze_dataset import SolvedMaze
        np.random.seed(seed)
        base_mazes = []
        for _ in range(n):
            lm = GENERATORS_MAP[gen](grid_shape=np.array([g, g]), **kwargs)
            try:
                sol = lm.generate_random_path()
            except Exception:
                sol = np.array([[rng.randrange(g), rng.randrange(g)]])
            base_mazes.append(SolvedMaze.from_lattice_maze(lm, sol))
    ragged = rng.random() < 0.7
    mazes = []
    for m in base_mazes:
        sol = _subpaths(rng, m.connection_list, m.solution) if ragged else [list(map(int, c)) for c in m.solution]
        mazes.append(dict(clist=_bits(m.connection_list), sol=sol, meta=_enc_meta(m.generation_meta)))
    if special in (16, 17, 18) and (n >= 2 or special == 16):
        mode = {16: "none", 17: "first_none", 18: "later_none"}[special]
    else:
        mode = MODES_OK[idx % 3] if rng.random() < 0.8 else rng.choice(MODES_OK)
    if gen != "gen_wilson" and rng.random() < 0.3:
        # a hand-written configuration (the dataset is assembled with MazeDataset(cfg, mazes)): a LIST-valued generator argument, the way
        # a user or a JSON file writes a coordinate; it must come back as it was
        kwargs = dict(kwargs, start_coord=[rng.randrange(g), rng.randrange(g)])
    rc = dict(name=f"d{idx}", gen=gen, kwargs=kwargs, grid_n=g, seed=seed, mazes=mazes, mode=mode, tag="generated")
    if mode in ("collected", "both") and rng.random() < 0.35:
        # a dataset put together by hand from an already-collected one (sliced / merged): its config's n_mazes is stale
        rc["cfg_n_delta"] = rng.choice([2, 1, -1] if len(mazes) >= 2 else [2, 1])
    return rc


def materialise(rc: dict):
    """a fresh real MazeDataset from a recipe (fresh arrays, fresh config) in the recipe's metadata mode"""
    from maze_dataset import MazeDataset, MazeDatasetConfig, SolvedMaze
    from maze_dataset.generation.generators import GENERATORS_MAP
    g, mode = rc["grid_n"], rc["mode"]
    cfg = MazeDatasetConfig(name=rc["name"], grid_n=g, n_mazes=len(rc["mazes"]), maze_ctor=GENERATORS_MAP[rc["gen"]],
                            maze_ctor_kwargs=dict(rc["kwargs"]), seed=rc["seed"])
    mazes = []
    for i, m in enumerate(rc["mazes"]):
        meta = _dec_meta(m["meta"])
        if mode == "none" or (mode == "first_none" and i == 0) or (mode == "later_none" and i == len(rc["mazes"]) - 1):
            meta = None
        mg = m.get("g", g)
        mazes.append(SolvedMaze(connection_list=_unbits(m["clist"], mg), solution=np.array(m["sol"]), generation_meta=meta))
    if mode == "empty_collected":
        return MazeDataset(cfg, [], generation_metadata_collected={})
    ds = MazeDataset(cfg, mazes)
    if mode == "collected":
        ds = ds.filter_by.collect_generation_meta()
    elif mode == "both":
        ds = ds.filter_by.collect_generation_meta(clear_in_mazes=False)
    if rc.get("cfg_n_delta") and mode in ("collected", "both"):
        cfg2 = copy.deepcopy(ds.cfg)
        cfg2.n_mazes = len(ds.mazes) + rc["cfg_n_delta"]
        ds = MazeDataset(cfg2, list(ds.mazes), generation_metadata_collected=copy.deepcopy(ds.generation_metadata_collected))
    return ds


# ------------------------------------------------------------------------------------------------ snapshot + oracle

def snapshot(ds) -> dict:
    return dict(
        cfg_json=_norm(ds.cfg.serialize()),
        n_filters=len(ds.cfg.applied_filters),
        mazes=[dict(g=int(m.connection_list.shape[1]), shape=list(m.connection_list.shape), clist=_bits(m.connection_list),
                    sol=[[int(a) for a in c] for c in m.solution], start=[int(a) for a in m.start_pos], end=[int(a) for a in m.end_pos],
                    meta=m.generation_meta is not None) for m in ds.mazes],
        metas=[copy.deepcopy(m.generation_meta) for m in ds.mazes],
        collected=None if ds.generation_metadata_collected is None else {k: dict(v) for k, v in ds.generation_metadata_collected.items()},
    )


def _recount(metas) -> dict:
    """independent reading of what 'collected generation metadata' is: per key, how often each value / coordinate occurred"""
    out: dict = {}
    for meta in metas:
        for k, v in meta.items():
            d = out.setdefault(k, {})
            if isinstance(v, (bool, int, float, str)):
                keys = [v]
            elif isinstance(v, set):
                keys = [tuple(int(a) for a in x) for x in v]
            else:
                a = np.array(v)
                keys = [tuple(int(x) for x in a)] if a.ndim == 1 else [tuple(int(x) for x in row) for row in a]
            for kk in keys:
                d[kk] = d.get(kk, 0) + 1
    return out


def _strdict(d):
    return {str(k): {str(kk): int(c) for kk, c in v.items()} for k, v in d.items()}


def oracle(snap: dict, loaded, collected_by_serializer: bool, source_after=None) -> list[str]:
    """the property statement on one round trip; returns the violated clauses"""
    from maze_dataset import MazeDataset, MazeDatasetConfig
    bad = []
    if not isinstance(loaded, MazeDataset):
        return [f"loaded object is a {type(loaded).__name__}, not a MazeDataset"]
    exp_cfg = copy.deepcopy(snap["cfg_json"])
    if collected_by_serializer:
        exp_cfg["applied_filters"] = list(exp_cfg["applied_filters"]) + [RECORD]
    got_cfg = _norm(loaded.cfg.serialize())
    if got_cfg != exp_cfg:
        diff = sorted(k for k in set(got_cfg) | set(exp_cfg) if got_cfg.get(k) != exp_cfg.get(k))
        bad.append(f"configuration differs in fields {diff}: got {[got_cfg.get(k) for k in diff][:3]} expected {[exp_cfg.get(k) for k in diff][:3]}")
    elif not (loaded.cfg == MazeDatasetConfig.load(exp_cfg)):
        bad.append("loaded cfg != expected cfg under MazeDatasetConfig.__eq__")
    if source_after is not None and not (loaded.cfg == source_after.cfg):
        bad.append("loaded cfg != source dataset's cfg after the call")
    if len(loaded.mazes) != len(snap["mazes"]):
        bad.append(f"number of mazes {len(loaded.mazes)} != {len(snap['mazes'])}")
        return bad
    for i, (m, s) in enumerate(zip(loaded.mazes, snap["mazes"])):
        cl = np.asarray(m.connection_list)
        if list(cl.shape) != s["shape"] or _bits(cl) != s["clist"]:
            bad.append(f"maze {i}: connection_list differs (shape {list(cl.shape)} vs {s['shape']})"); break
        sol = np.asarray(m.solution)
        if sol.ndim != 2 or [[int(a) for a in c] for c in sol] != s["sol"]:
            bad.append(f"maze {i}: solution differs: got {sol.tolist()[:6]}... (len {len(sol)}) expected {s['sol'][:6]}... (len {len(s['sol'])})"); break
        if [int(a) for a in m.start_pos] != s["start"] or [int(a) for a in m.end_pos] != s["end"]:
            bad.append(f"maze {i}: endpoints differ: got {list(m.start_pos)}->{list(m.end_pos)} expected {s['start']}->{s['end']}"); break
    got_meta = loaded.generation_metadata_collected
    if snap["collected"] is not None:
        exp = _strdict(snap["collected"])
        if got_meta is None or _strdict(got_meta) != exp:
            bad.append(f"collected metadata changed: keys {sorted(got_meta or {})} vs {sorted(exp)}" if got_meta is None or set(got_meta) != set(exp)
                       else "collected metadata counts changed: " + str(next((k, got_meta[k], exp[k]) for k in exp if _strdict({k: got_meta[k]}) != {k: exp[k]}))[:300])
    elif collected_by_serializer:
        exp = _strdict(_recount(snap["metas"]))
        if got_meta is None or _strdict(got_meta) != exp:
            bad.append("metadata collected by the serializer does not match an independent recount of the per-maze metadata: "
                       + str(sorted((got_meta or {}).keys())) + " vs " + str(sorted(exp)))
    elif got_meta is not None:
        bad.append("collected metadata appeared from nowhere in the full format")
    return bad


def in_domain(rc: dict, fmt: str) -> bool:
    """is a round trip of this dataset in format `fmt` (full|minimal|cat) claimed by the property / the theorems?"""
    if fmt == "full":
        return True
    if not rc.get("guard_ok", True):
        return False
    if fmt == "minimal":
        return rc["mode"] in MODES_OK and len(rc["mazes"]) > 0
    return (rc["mode"] in MODES_OK and len(rc["mazes"]) > 0) or rc["mode"] == "empty_collected"


def _obs_ds(d, snap) -> dict:
    """observable state of a dataset in the vocabulary of the driver's replies"""
    return dict(grid_n=int(d.cfg.grid_n), filters_added=len(d.cfg.applied_filters) - snap["n_filters"],
                mazes=[dict(g=int(m.connection_list.shape[1]), clist=_bits(m.connection_list), sol=[[int(a) for a in c] for c in m.solution],
                            start=[int(a) for a in m.start_pos], end=[int(a) for a in m.end_pos], meta=m.generation_meta is not None)
                       for m in d.mazes],
                collected=d.generation_metadata_collected is not None)


def _model_ds(o) -> dict:
    return dict(grid_n=o["grid_n"], filters_added=o["filters_added"], mazes=o["mazes"], collected=o["collected"] is not None)


def _file_format(path) -> str:
    with zipfile.ZipFile(path) as z:
        return json.loads(z.read("__zanj__.json"))["__format__"]


class Thr:
    """set_serialize_minimal_threshold(...) restored on exit"""
    def __init__(self, t):
        self.t = t

    def __enter__(self):
        import maze_dataset.dataset.maze_dataset as md
        self.old = md.SERIALIZE_MINIMAL_THRESHOLD
        md.set_serialize_minimal_threshold(self.t)

    def __exit__(self, *a):
        import maze_dataset.dataset.maze_dataset as md
        md.set_serialize_minimal_threshold(self.old)


# ------------------------------------------------------------------------------------------------ one dataset through every route

def eval_recipe(rc: dict, workdir: str, rng: random.Random, routes: dict | None = None) -> dict:
    """returns dict(requests=[...], impl=[...], violations=[(what, case, key)], counts={...}, cases=[(canon, nontrivial)], samples=[...])"""
    from maze_dataset import MazeDataset
    from zanj import ZANJ
    from zanj.loading import get_item_loader
    warnings.filterwarnings("ignore")
    R = dict(requests=[], impl=[], violations=[], counts={}, cases=[], samples=[], notes=[])
    def count(b, k=1): R["counts"][b] = R["counts"].get(b, 0) + k
    def violate(what, extra, key="unlisted"):
        R["violations"].append((what, dict(recipe=rc, **extra), key))
    n = len(rc["mazes"])
    routes = routes or {}
    lthr = routes.get("lthr", rng.choice([None, -1, 1, 100]))
    thrs_all = [None, -1, 0, 1, n - 1, n, n + 1, 100]
    thrs = routes.get("thrs") or rng.sample(thrs_all, 3 if n else 2)
    digest = json.dumps([rc["grid_n"], rc["mode"], [(m["clist"], m["sol"]) for m in rc["mazes"]]], sort_keys=True)
    count(f"gen={rc['gen']}"); count(f"grid={rc['grid_n']}"); count(f"len={'0' if n == 0 else '1' if n == 1 else '2-5' if n <= 5 else '6-20' if n <= 20 else '21+'}")
    count(f"mode={rc['mode']}"); count(f"load_thr={lthr}")
    lens = [len(m["sol"]) for m in rc["mazes"]]
    if lens:
        count("ragged" if len(set(lens)) > 1 else "uniform"); count("has_len1", int(1 in lens)); count("has_len2", int(2 in lens)); count("has_len>=128", int(max(lens) >= 128))
    base = materialise(rc)
    snap0 = snapshot(base)
    pre_collected = snap0["collected"] is not None
    req = dict(op="C05.dataset", grid_n=rc["grid_n"], collected=pre_collected, mazes=[dict(g=m["g"], clist=m["clist"], sol=m["sol"], start=m["start"],
               end=m["end"], meta=m["meta"]) for m in snap0["mazes"]], load_thr=lthr, pad=None)
    impl = {}
    # ---- explicit formats: in memory and through a file
    for fmt, ser in FORMATS:
        ds = materialise(rc)
        snap = snapshot(ds)
        ob = {}
        case = dict(format=fmt, serializer=ser, load_threshold=lthr)
        try:
            data = getattr(ds, ser)()
        except Exception as e:
            ob["ser_err"] = _errkind(e)
            impl[fmt] = ob
            R["cases"].append(((digest, fmt, "mem"), False))
            count(f"{fmt}:ser_err={ob['ser_err']}")
            if in_domain(rc, fmt):
                violate(f"{ser}() raised {type(e).__name__}: {str(e)[:200]} on a dataset inside the property's domain", case)
            continue
        ob["fmt"] = data["__format__"]
        ob["post"] = _obs_ds(ds, snap)
        collected_now = (not pre_collected) and fmt != "full"
        if fmt == "minimal":
            ms, ln = np.asarray(data["maze_solutions"]), np.asarray(data["maze_solution_lengths"])
            ob["payload"] = dict(kind="minimal", g=int(data["maze_connection_lists"].shape[2]), clists=[_bits(c) for c in data["maze_connection_lists"]],
                                 lens=[int(x) for x in ln], sols=[[[int(a) for a in c] for c in row] for row in ms])
            req["pad"] = [[[int(a) for a in c] for c in row[len(m["sol"]):]] for row, m in zip(ms, snap["mazes"])]
        elif fmt == "cat":
            ob["payload"] = dict(kind="cat", g=int(data["maze_connection_lists"].shape[2]), clists=[_bits(c) for c in data["maze_connection_lists"]],
                                 endpoints=[[[int(a) for a in p] for p in e] for e in np.asarray(data["maze_endpoints"])],
                                 lens=[int(x) for x in np.asarray(data["maze_solution_lengths"])],
                                 concat=[[int(a) for a in c] for c in np.asarray(data["maze_solutions_concat"])])
        else:
            ob["payload"] = dict(kind="full", n=len(data["mazes"]))
        # in memory, under the load-time threshold
        with Thr(lthr):
            try:
                loaded = MazeDataset.load(data)
                ob["load"] = {"ok": _obs_ds(loaded, snap)}
                bad = oracle(snap, loaded, collected_now, ds)
                if not bad and len(loaded.mazes) > 0:
                    # the caller edits what it loaded (in place), then loads the SAME serialized data again: the second result must be the
                    # dataset again, not the edited one
                    # (list-level edits only: the arrays of a dataset loaded in memory may be the very arrays of `data` — nothing in the
                    # property says a load must copy them — so overwriting array contents would edit the serialized form itself)
                    loaded.mazes.reverse(); loaded.mazes.pop()
                    loaded.cfg.applied_filters.append(dict(name="verif_probe", args=(), kwargs={}))
                    bad = [f"second load of the same serialized data after the first result was edited in place: {b}" for b in oracle(snap, MazeDataset.load(data), collected_now, ds)]
            except Exception as e:
                ob["load"] = {"err": _errkind(e)}
                bad = [f"MazeDataset.load({ser}()) raised {type(e).__name__}: {str(e)[:200]}"]
        inside = in_domain(rc, fmt)
        R["cases"].append(((digest, fmt, "mem", lthr), inside and n > 0 and not bad))
        if bad and inside:
            violate(f"in-memory round trip through {ser} (load threshold {lthr}): " + "; ".join(bad[:3]), case)
        # through a real file (fresh source, explicit format)
        ds2 = materialise(rc)
        p = os.path.join(workdir, f"x_{fmt}.zanj")
        try:
            ZANJ().save(getattr(ds2, ser)(), p)
            with Thr(lthr):
                rd = MazeDataset.read(p)
            ob["read"] = {"ok": _obs_ds(rd, snap)}
            bad = oracle(snap, rd, collected_now, ds2)
        except Exception as e:
            ob["read"] = {"err": _errkind(e)}
            bad = [f"read of a file written from {ser}() raised {type(e).__name__}: {str(e)[:200]}"]
        finally:
            if os.path.exists(p):
                os.unlink(p)
        if n == 0 and fmt == "cat" and "err" in ob["read"]:
            # the zanj/muutils store cannot reload a zero-length array ("invalid shape"); the store is a trusted parameter of the
            # model and length-0 datasets are outside the property's quantifier -> in-memory only, recorded, not compared
            R["notes"].append(f"empty dataset, concatenated format, through a file: store raised {ob['read']['err']} (zero-length array); in memory it loads")
            del ob["read"]
            bad = []
        R["cases"].append(((digest, fmt, "file", lthr), inside and n > 0 and not bad))
        if bad and inside:
            violate(f"file round trip through {ser} (.zanj, load threshold {lthr}): " + "; ".join(bad[:3]), dict(case, route="file"))
        count(f"{fmt}:{'ok' if not bad else 'load_err'}")
        impl[fmt] = ob
    R["requests"].append(req); R["impl"].append(("dataset", rc, impl))
    # ---- save / read under thresholds; format selection rule
    rows = []
    for t in thrs:
        row = dict(thr=t)
        case = dict(threshold=t, length=n)
        want_minimal = t is not None and n >= t
        with Thr(t):
            ds = materialise(rc)
            snap = snapshot(ds)
            p = os.path.join(workdir, "t.zanj")
            try:
                ds.save(p)
                row["fmt"] = _file_format(p)
                lh = get_item_loader({"__format__": row["fmt"]}, tuple())
                row["handler"] = None if lh is None else lh.uid
                rd = MazeDataset.read(p)
                bad = oracle(snap, rd, (not pre_collected) and row["fmt"] != "MazeDataset", ds)
                if (row["fmt"] != "MazeDataset") != want_minimal:
                    bad.append(f"threshold {t} with {n} mazes wrote format {row['fmt']!r}; the rule is: minimal format iff threshold is not None and len >= threshold")
            except Exception as e:
                row["err"] = _errkind(e)
                bad = [f"save/read under threshold {t} raised {type(e).__name__}: {str(e)[:200]}"]
            finally:
                if os.path.exists(p):
                    os.unlink(p)
            # the same selection in memory: MazeDataset.load(ds.serialize()) — the property's first observation point
            if not bad:
                try:
                    ds_m = materialise(rc); snap_m = snapshot(ds_m)
                    data = ds_m.serialize(); fmt_m = data.get("__format__")
                    rd_m = MazeDataset.load(data)
                    bad = [f"in memory (load(serialize())): {b}" for b in oracle(snap_m, rd_m, (not pre_collected) and fmt_m != "MazeDataset", ds_m)]
                    if (fmt_m != "MazeDataset") != want_minimal:
                        bad.append(f"threshold {t} with {n} mazes: serialize() chose format {fmt_m!r}; the rule is: minimal format iff threshold is not None and len >= threshold")
                    if fmt_m != row.get("fmt"):
                        bad.append(f"serialize() chose format {fmt_m!r} but save() wrote {row.get('fmt')!r} under the same threshold {t}")
                except Exception as e:
                    bad = [f"MazeDataset.load(ds.serialize()) under threshold {t} raised {type(e).__name__}: {str(e)[:200]}"]
        inside = in_domain(rc, "minimal" if want_minimal else "full")
        R["cases"].append(((digest, "thr", t), inside and n > 0 and not bad))
        count(f"thr={'None' if t is None else t if t in (-1, 0, 1, 100) else 'len-1' if t == n - 1 else 'len' if t == n else 'len+1'}")
        if bad and inside:
            violate(f"save/read under set_serialize_minimal_threshold({t}) with {n} mazes: " + "; ".join(bad[:3]), case)
        rows.append(row)
    R["requests"].append(dict(op="C05.dispatch", len=n, thresholds=[r["thr"] for r in rows]))
    # unknown format strings are refused
    try:
        MazeDataset.load({"__format__": "MazeDataset:nonsense"})
        unk = "ok"
    except Exception as e:
        unk = _errkind(e)
    lhc = get_item_loader({"__format__": "MazeDatasetCollection"}, tuple())
    R["impl"].append(("dispatch", rc, dict(rows=rows, unknown=unk, collection_handler=None if lhc is None else lhc.uid)))
    # ---- the collected dict through json
    coll = snap0["collected"]
    if coll is None and rc["mode"] == "permaze" and n:
        d = materialise(rc).filter_by.collect_generation_meta()
        coll = d.generation_metadata_collected
    if coll:
        from muutils.json_serialize import json_serialize
        js = json_serialize(coll)
        R["requests"].append(dict(op="C05.meta", meta=[[k, [[_pykey(kk), int(c)] for kk, c in v.items()]] for k, v in coll.items()]))
        R["impl"].append(("meta", rc, [[k, [[kk, int(c)] for kk, c in v.items()]] for k, v in js.items()]))
        exp = _strdict(coll)
        if _strdict(js) != exp or any(len(js[k]) != len(coll[k]) for k in coll):
            violate("json_serialize(generation_metadata_collected) lost keys or counts", dict(meta=str(coll)[:500]))
    if len(R["samples"]) < 1 and n >= 2 and len(set(lens)) > 1 and "payload" in impl.get("minimal", {}):
        R["samples"].append(dict(grid_n=rc["grid_n"], gen=rc["gen"], mode=rc["mode"], solution_lengths=lens,
                                 stored_lengths=impl["minimal"]["payload"]["lens"], padding_seen=req["pad"][:3], thresholds=rows))
    return R


def _pykey(k):
    if isinstance(k, (bool, np.bool_)): return {"t": "b", "v": bool(k)}
    if isinstance(k, (int, np.integer)): return {"t": "i", "v": int(k)}
    if isinstance(k, float): return {"t": "f", "v": str(k)}
    if isinstance(k, str): return {"t": "s", "v": k}
    if isinstance(k, tuple): return {"t": "t", "v": [int(x) for x in k]}
    return {"t": "s", "v": str(k)}


# ------------------------------------------------------------------------------------------------ collections

def eval_collection(recipes: list[dict], thr, collected: bool, workdir: str) -> dict:
    from maze_dataset.dataset.collected_dataset import MazeDatasetCollection, MazeDatasetCollectionConfig
    R = dict(requests=[], impl=[], violations=[], counts={}, cases=[], samples=[], notes=[])
    def build():
        ds = [materialise(rc) for rc in recipes]
        ccfg = MazeDatasetCollectionConfig(name="coll", maze_dataset_configs=[d.cfg for d in ds])
        return MazeDatasetCollection(ccfg, ds, generation_metadata_collected={"k": {"v": 1}} if collected else None), ds
    lens = [len(rc["mazes"]) for rc in recipes]
    sel = [thr is not None and n >= thr for n in lens]
    inside = all(in_domain(rc, "minimal" if s else "full") for rc, s in zip(recipes, sel))
    case = dict(threshold=thr, member_lengths=lens, member_modes=[rc["mode"] for rc in recipes], members=recipes)
    R["counts"][f"coll:members={len(recipes)}"] = 1
    R["counts"][f"coll:empty_members={sum(1 for n in lens if n == 0)}"] = 1
    R["counts"][f"coll:thr={'None' if thr is None else 'some'}:minimal_members={sum(sel)}"] = 1
    ob = {}
    for route in ("mem", "file"):
        with Thr(thr):
            coll, ds = build()
            snaps = [snapshot(d) for d in ds]
            p = os.path.join(workdir, "c.zanj")
            try:
                if route == "mem":
                    s = coll.serialize()
                    ob["fmt"] = s["__format__"]; ob["member_fmts"] = [m["__format__"] for m in s["maze_datasets"]]
                    ob["post"] = [_obs_ds(d, sn) for d, sn in zip(ds, snaps)]
                    ob["cfg_filters_added"] = [len(c["applied_filters"]) - sn["n_filters"] for c, sn in zip(s["cfg"]["maze_dataset_configs"], snaps)]
                    back = MazeDatasetCollection.load(s)
                else:
                    coll.save(p)
                    back = MazeDatasetCollection.read(p)
                bad = []
                if not isinstance(back, MazeDatasetCollection):
                    bad.append(f"loaded object is a {type(back).__name__}")
                elif len(back.maze_datasets) != len(ds):
                    bad.append(f"{len(back.maze_datasets)} members instead of {len(ds)}")
                else:
                    for k, (b, sn, d, s_) in enumerate(zip(back.maze_datasets, snaps, ds, sel)):
                        bb = oracle(sn, b, s_ and sn["collected"] is None, d)
                        if bb:
                            bad.append(f"member {k}: " + "; ".join(bb[:2])); break
                    if [c.serialize() for c in back.cfg.maze_dataset_configs] != [d.cfg.serialize() for d in back.maze_datasets]:
                        bad.append("collection config's member configs differ from the members' own configs")
                    if (back.generation_metadata_collected is None) != (not collected):
                        bad.append("collection-level collected metadata presence changed")
                if route == "mem":
                    if isinstance(back, MazeDatasetCollection) and len(back.maze_datasets) == len(ds):
                        ob["load"] = {"ok": dict(members=[_obs_ds(b, sn) for b, sn in zip(back.maze_datasets, snaps)],
                                                 cfg_filters_added=[len(c.applied_filters) - sn["n_filters"]
                                                                    for c, sn in zip(back.cfg.maze_dataset_configs, snaps)],
                                                 collected=back.generation_metadata_collected is not None)}
                    else:
                        ob["load"] = {"err": "other"}
            except Exception as e:
                bad = [f"collection {'serialize/load' if route == 'mem' else 'save/read'} raised {type(e).__name__}: {str(e)[:200]}"]
                if route == "mem":
                    if "fmt" in ob: ob["load"] = {"err": _errkind(e)}
                    else: ob["ser_err"] = _errkind(e)
            finally:
                if os.path.exists(p):
                    os.unlink(p)
        R["cases"].append(((json.dumps(case, sort_keys=True, default=str)[:4000], route), inside and sum(lens) > 0 and not bad))
        if bad and inside:
            R["violations"].append((f"collection round trip ({route}) under threshold {thr} with member lengths {lens}: " + "; ".join(bad[:3]), case, "unlisted"))
    members = []
    for rc in recipes:
        d = materialise(rc); sn = snapshot(d)
        members.append(dict(grid_n=rc["grid_n"], collected=sn["collected"] is not None, mazes=sn["mazes"]))
    R["requests"].append(dict(op="C05.collection", members=members, thr=thr, collected=collected))
    R["impl"].append(("collection", case, ob))
    return R


# ------------------------------------------------------------------------------------------------ comparing model and code

def compare(kind, rc, impl, o) -> list[str]:
    if "error" in o:
        return [f"driver error {o['error']}"]
    dis = []
    if kind == "dataset":
        for fmt, _ in FORMATS:
            a, m = impl.get(fmt), o[fmt]
            if a is None:
                continue
            if "ser_err" in a or "ser_err" in m:
                if a.get("ser_err") != m.get("ser_err"):
                    dis.append(f"{fmt}: serializer outcome differs: code {a.get('ser_err', 'ok')} model {m.get('ser_err', 'ok')}")
                continue
            if a["fmt"] != m["fmt"]:
                dis.append(f"{fmt}: format string code {a['fmt']!r} model {m['fmt']!r}")
            if a["post"] != _model_ds(m["post"]):
                dis.append(f"{fmt}: state of the source dataset after the call differs (filters_added/meta/collected): code {_brief(a['post'])} model {_brief(_model_ds(m['post']))}")
            if a["payload"] != m["payload"]:
                ks = [k for k in a["payload"] if a["payload"][k] != m["payload"].get(k)]
                dis.append(f"{fmt}: stored arrays differ in {ks}: code {str([a['payload'][k] for k in ks])[:300]} model {str([m['payload'].get(k) for k in ks])[:300]}")
            for route in ("load", "read"):
                x, y = a.get(route), m[route]
                if x is None:
                    continue
                if ("err" in x) != ("err" in y) or ("err" in x and x["err"] != y["err"]):
                    dis.append(f"{fmt}: {route} outcome differs: code {x.get('err', 'ok')} model {y.get('err', 'ok')}")
                elif "ok" in x and x["ok"] != _model_ds(y["ok"]):
                    dis.append(f"{fmt}: {route} result differs: code {_brief(x['ok'])} model {_brief(_model_ds(y['ok']))}")
    elif kind == "dispatch":
        for r, mr in zip(impl["rows"], o["rows"]):
            if "err" in r:
                continue
            if r["fmt"] != mr["fmt"]:
                dis.append(f"threshold {r['thr']} len {len(rc['mazes'])}: code wrote {r['fmt']!r}, model {mr['fmt']!r} via {mr['serializer']}")
            if r["handler"] != mr["handler"]:
                dis.append(f"zanj handler for {r['fmt']!r}: code {r['handler']} model {mr['handler']}")
        if impl["unknown"] != o["unknown_raises"] or o["unknown_fmt_loader"] is not None:
            dis.append(f"unknown format: code raises {impl['unknown']}, model {o['unknown_raises']}")
        if impl["collection_handler"] != o["collection_handler"]:
            dis.append(f"collection handler: code {impl['collection_handler']} model {o['collection_handler']}")
    elif kind == "collection":
        a = impl
        if "ser_err" in a or "ser_err" in o:
            if a.get("ser_err") != o.get("ser_err"):
                dis.append(f"collection serialize outcome: code {a.get('ser_err', 'ok')} model {o.get('ser_err', 'ok')}")
            return dis
        for k in ("fmt", "member_fmts", "cfg_filters_added"):
            if a[k] != o[k]:
                dis.append(f"collection {k}: code {a[k]} model {o[k]}")
        if a["post"] != [_model_ds(x) for x in o["post"]]:
            dis.append("collection: member states after serialize differ")
        x, y = a["load"], o["load"]
        if ("err" in x) != ("err" in y) or ("err" in x and x["err"] != y["err"]):
            dis.append(f"collection load outcome: code {x.get('err', 'ok')} model {y.get('err', 'ok')}")
        elif "ok" in x:
            ym = dict(members=[_model_ds(z) for z in y["ok"]["members"]], cfg_filters_added=y["ok"]["cfg_filters_added"], collected=y["ok"]["collected"])
            if x["ok"] != ym:
                dis.append("collection load result differs")
    elif kind == "meta":
        if impl != o["json"]:
            dis.append(f"json of the collected dict: code {str(impl)[:200]} model {str(o['json'])[:200]}")
    return dis


def _brief(d):
    return dict(filters_added=d["filters_added"], collected=d["collected"], n=len(d["mazes"]),
                mazes=[(m["g"], len(m["sol"]), m["start"], m["end"], m["meta"]) for m in d["mazes"][:4]])


# ------------------------------------------------------------------------------------------------ plan of one run

def _special_recipes(tier):
    """empty datasets, int8 boundary, maze smaller than the config's grid"""
    out = []
    base = dict(gen="gen_dfs", kwargs={}, seed=1)
    out.append(dict(base, name="empty_none", grid_n=3, mazes=[], mode="none", tag="empty"))
    out.append(dict(base, name="empty_coll", grid_n=3, mazes=[], mode="empty_collected", tag="empty"))
    for g, ok in ((128, True), (129, False)):
        cl = np.zeros((2, g, g), dtype=bool); cl[1, 0, :g - 1] = True
        sol = [[0, c] for c in range(g)]
        out.append(dict(base, name=f"corridor{g}", grid_n=g, mazes=[dict(clist=_bits(cl), sol=sol, meta=_hand_meta(g))], mode="permaze",
                        tag=f"int8-boundary-{g}", guard_ok=ok))
    # many mazes: a store may keep long lists differently from short ones (zanj externalises lists of >= 256 items)
    for n_many in ((256, 300) if tier == "quick" else (255, 256, 257, 300, 1000)):
        cl2 = np.zeros((2, 2, 2), dtype=bool); cl2[1, 0, 0] = True; cl2[0, 0, 1] = True
        sols = [[[0, 0], [0, 1]], [[0, 0], [0, 1], [1, 1]], [[1, 1]], [[0, 1], [0, 0]]]
        out.append(dict(base, name=f"many{n_many}", grid_n=2, mazes=[dict(clist=_bits(cl2), sol=sols[i % 4], meta=_hand_meta(2)) for i in range(n_many)],
                        mode="permaze", tag="many-mazes"))
    cl1 = np.zeros((2, 1, 1), dtype=bool)
    out.append(dict(base, name="g1_in_g3", grid_n=3, mazes=[dict(clist=_bits(cl1), sol=[[0, 0]], meta=_hand_meta(1), g=1)], mode="permaze",
                    tag="grid-mismatch", guard_ok=False))
    return out


def _merge(ctx, R, outs_needed):
    for what, case, key in R["violations"]:
        ctx.violate(what, case, key=key)
    for b, k in R["counts"].items():
        ctx.count(b, k)
    for canon, nt in R["cases"]:
        ctx.case(canon, nontrivial=nt)
    for s in R["samples"]:
        ctx.sample(s, limit=4)
    for nt in R["notes"]:
        if nt not in ctx.notes:
            ctx.notes.append(nt)
    outs_needed.extend(zip(R["requests"], R["impl"]))


def _worker(args):
    seed, tier, idxs, verif_work = args
    warnings.filterwarnings("ignore")
    wd = tempfile.mkdtemp(prefix="C05w_", dir=verif_work)
    out = []
    try:
        for idx in idxs:
            rng = random.Random(f"C05:{seed}:{tier}:{idx}")
            rc = make_recipe(rng, tier, idx)
            out.append(eval_recipe(rc, wd, rng))
    finally:
        shutil.rmtree(wd, ignore_errors=True)
    return out


def _reload_and_rearrange(ctx):
    """second-generation datasets: a dataset that CAME BACK from a load (its mazes may be views into the loader's big arrays) is
    rearranged by its owner — reversed, shuffled, thinned, two swapped, wrapped in a new MazeDataset — and written again in every format,
    in memory and through a file. Judged by the property's oracle against a snapshot taken just before the second write."""
    from maze_dataset import MazeDataset
    wd = str(ctx.workdir)
    done = 0
    for idx in range(400):
        if done >= (6 if ctx.quick else 60) or ctx.violations: break
        rng = random.Random(f"C05:{ctx.seed}:rearrange:{idx}")
        rc = make_recipe(rng, "quick", idx)
        if rc["mode"] not in MODES_OK or not rc.get("guard_ok", True) or len(rc["mazes"]) < 3: continue
        done += 1
        for fmt1, ser1 in FORMATS:
            try:
                first = MazeDataset.load(getattr(materialise(rc), ser1)())
            except Exception:
                continue       # the first trip is judged by eval_recipe
            n = len(first.mazes)
            for how in ("reverse", "shuffle", "swap", "thin", "inplace_reverse"):
                order = list(range(n))
                if how in ("reverse", "inplace_reverse"): order.reverse()
                elif how == "shuffle": rng.shuffle(order)
                elif how == "swap": order[0], order[-1] = order[-1], order[0]
                else: order = order[::2]
                for fmt2, ser2 in FORMATS:
                    for route in ("mem", "file"):
                        again = MazeDataset.load(getattr(materialise(rc), ser1)())       # a fresh loaded dataset per trial
                        if how == "inplace_reverse":
                            again.mazes.reverse(); ds2 = again
                        else:
                            cfg2 = copy.deepcopy(again.cfg); cfg2.n_mazes = len(order)
                            ds2 = MazeDataset(cfg2, [again.mazes[i] for i in order], generation_metadata_collected=copy.deepcopy(again.generation_metadata_collected))
                        snap = snapshot(ds2)
                        by_ser = ds2.generation_metadata_collected is None and fmt2 != "full"      # the minimal writers collect the metadata themselves (and record it)
                        case = dict(rearranged=True, recipe_index=idx, first_format=fmt1, how=how, order=order, second_format=fmt2, route=route, n=n)
                        ctx.case([idx, fmt1, how, fmt2, route], nontrivial=True); ctx.count(f"rearranged:{how}")
                        try:
                            if route == "mem":
                                back = MazeDataset.load(getattr(ds2, ser2)())
                            else:
                                from zanj import ZANJ
                                pth = os.path.join(wd, "re.zanj")
                                if os.path.exists(pth): os.remove(pth)
                                ZANJ().save(getattr(ds2, ser2)(), pth); back = MazeDataset.read(pth)
                            bad = oracle(snap, back, by_ser, ds2)
                        except Exception as e:
                            bad = [f"raised {type(e).__name__}: {str(e)[:160]}"]
                        if bad:
                            ctx.violate(f"a dataset of {n} mazes loaded from the {fmt1} format, rearranged by its owner ({how}: positions {order}) and written again in the "
                                        f"{fmt2} format ({route}) does not come back as it was: " + "; ".join(bad[:3]), case)
                            return


def _collection_routes(ctx):
    """collections the way the LIBRARY builds them — MazeDatasetCollection.generate(cfg) from member configs, and collections that
    were themselves loaded — saved and read back (memory and file), twice in a row, under thresholds that put some members in a
    minimal format. Oracle: member by member the same mazes; the reported count equals the length."""
    from maze_dataset import MazeDatasetConfig
    from maze_dataset.dataset.collected_dataset import MazeDatasetCollection, MazeDatasetCollectionConfig
    def fp(coll):
        return [[(_bits(m.connection_list), [[int(a) for a in c] for c in m.solution]) for m in d.mazes] for d in coll.maze_datasets]
    plans = [((5, 2), 3), ((4, 0, 3), 2), ((100, 2), "default"), ((3, 3), None)] if ctx.tier == "quick" else \
            [((5, 2), 3), ((4, 0, 3), 2), ((100, 2), "default"), ((3, 3), None), ((120, 101), "default"), ((1, 1, 1), 1), ((0, 6), 6)]
    for lens, thr in plans:
        cfgs = [MazeDatasetConfig(name=f"gm{k}", grid_n=2 + k % 2, n_mazes=n, seed=11 + k) for k, n in enumerate(lens)]
        case = dict(collection_route=True, member_counts=list(lens), threshold=thr)
        import contextlib
        ctxm = contextlib.nullcontext() if thr == "default" else Thr(thr)
        with ctxm:
            try:
                coll = MazeDatasetCollection.generate(MazeDatasetCollectionConfig(name="gen", maze_dataset_configs=cfgs), gen_parallel=False)
            except Exception as e:
                ctx.violate(f"MazeDatasetCollection.generate raised {type(e).__name__}: {str(e)[:120]} for member counts {list(lens)}", case); continue
            want = fp(coll)
            cur = coll
            for rnd in (1, 2):
                for route in ("mem", "file"):
                    ctx.case([str(case), rnd, route], nontrivial=sum(lens) > 0); ctx.count(f"collection_generated:{route}")
                    try:
                        if route == "mem":
                            back = MazeDatasetCollection.load(cur.serialize())
                        else:
                            p = os.path.join(str(ctx.workdir), "cg.zanj")
                            if os.path.exists(p): os.remove(p)
                            cur.save(p); back = MazeDatasetCollection.read(p)
                    except Exception as e:
                        ctx.violate(f"round trip {rnd} ({route}) of a collection built by MazeDatasetCollection.generate (member counts {list(lens)}, threshold {thr}) "
                                    f"raised {type(e).__name__}: {str(e)[:160]}", dict(case, round=rnd, route=route)); return
                    if fp(back) != want or len(back) != sum(lens) or int(back.cfg.n_mazes) != sum(lens) or [len(d) for d in back.maze_datasets] != list(lens):
                        ctx.violate(f"round trip {rnd} ({route}) of a generated collection (member counts {list(lens)}, threshold {thr}) changed mazes, lengths or the reported count "
                                    f"(len {len(back)}, n_mazes {back.cfg.n_mazes}, members {[len(d) for d in back.maze_datasets]})", dict(case, round=rnd, route=route)); return
                cur = back     # second round: what was loaded is saved again


def run(ctx):
    warnings.filterwarnings("ignore")
    import common as C
    wd = str(ctx.workdir)
    n = 120 if ctx.quick else 2000
    pairs = []
    results = []
    if ctx.quick:
        for idx in range(n):
            rng = random.Random(f"C05:{ctx.seed}:{ctx.tier}:{idx}")
            results.append(eval_recipe(make_recipe(rng, ctx.tier, idx), wd, rng))
    else:
        from concurrent.futures import ProcessPoolExecutor
        jobs = 14
        chunks = [list(range(k, n, jobs * 4)) for k in range(jobs * 4)]
        with ProcessPoolExecutor(jobs) as ex:
            for part in ex.map(_worker, [(ctx.seed, ctx.tier, ch, str(C.VERIF / ".work")) for ch in chunks]):
                results.extend(part)
    for rc in _special_recipes(ctx.tier):
        rng = random.Random(f"C05:{ctx.seed}:special:{rc['name']}")
        R = eval_recipe(rc, wd, rng, routes=dict(thrs=[None, 1] if rc["mazes"] else [None, 0], lthr=None))
        results.append(R)
        if rc["tag"].startswith("int8-boundary"):
            imp = next(i for k, _, i in R["impl"] if k == "dataset")
            ctx.notes.append(f"{rc['tag']}: minimal load -> {'ok' if 'ok' in imp['minimal'].get('load', {}) else imp['minimal'].get('load', imp['minimal'])}; "
                             f"full load -> {'ok' if 'ok' in imp['full'].get('load', {}) else imp['full'].get('load')} (coordinate 128 is outside the int8 guard)")
    # collections
    crng = random.Random(f"C05:{ctx.seed}:{ctx.tier}:collections")
    for k in range(24 if ctx.quick else 200):
        members = []
        for j in range(crng.randint(1, 4)):
            if crng.random() < 0.25:
                members.append(dict(name=f"c{k}m{j}", gen="gen_dfs", kwargs={}, seed=j, grid_n=crng.randint(2, 5), mazes=[], mode="empty", tag="empty"))
            else:
                rc = make_recipe(crng, "quick", 5 * crng.randrange(0, 3) + crng.randrange(0, 5))   # generated, OK modes only
                rc["name"] = f"c{k}m{j}"; rc.pop("cfg_n_delta", None)
                rc["mazes"] = rc["mazes"][:crng.choice([1, 2, 4, 9])]
                members.append(rc)
        if crng.random() < 0.35 and members and len(members[0]["mazes"]) >= 2:
            # shards of one dataset: members that share name and configuration (only the maze count differs)
            b0 = members[0]; k2 = crng.randrange(1, len(b0["mazes"]))
            members = [dict(b0, mazes=b0["mazes"][:k2]), dict(b0, mazes=b0["mazes"][k2:])] + members[1:]
        lens = [len(m["mazes"]) for m in members]
        thr = crng.choice([None, 1, max(lens) + 1, max(1, min(l for l in lens if l > 0) if any(lens) else 1), 2, 0 if k % 8 == 7 else 3])
        results.append(eval_collection(members, thr, collected=(k % 5 == 0), workdir=wd))
    _collection_routes(ctx)
    if not ctx.violations: _reload_and_rearrange(ctx)
    for R in results:
        _merge(ctx, R, pairs)
    outs = ctx.driver.run_parallel([p[0] for p in pairs])
    for (req, (kind, rc, impl)), o in zip(pairs, outs):
        ctx.traces_validated += 1
        for d in compare(kind, rc, impl, o)[:3]:
            ctx.disagree(d, dict(kind=kind, recipe_or_case=rc if kind != "dataset" else dict(rc, mazes=f"{len(rc['mazes'])} mazes", name=rc["name"])))
    ctx.extra["formats"] = [f for f, _ in FORMATS]


def search(ctx):
    """oracle-only exploration of the real code with the same generators (wider), stops at the first violation"""
    warnings.filterwarnings("ignore")
    _collection_routes(ctx)
    if not ctx.violations: _reload_and_rearrange(ctx)
    if ctx.violations: return
    wd = str(ctx.workdir)
    for idx in range(400 if ctx.quick else 3000):
        rng = random.Random(f"C05:{ctx.seed}:search:{idx}")
        R = eval_recipe(make_recipe(rng, ctx.tier, idx), wd, rng)
        for what, case, key in R["violations"]:
            ctx.violate(what, case, key=key)
        for canon, nt in R["cases"]:
            ctx.case(canon, nontrivial=nt)
        if ctx.violations:
            return
    crng = random.Random(f"C05:{ctx.seed}:search:collections")
    for k in range(40):
        members = [make_recipe(crng, "quick", 5 * crng.randrange(0, 3) + j) for j in range(crng.randint(1, 3))]
        R = eval_collection(members, crng.choice([None, 1, 2]), False, wd)
        for what, case, key in R["violations"]:
            ctx.violate(what, case, key=key)
        if ctx.violations:
            return


def replay(ctx, rp):
    if isinstance(rp.get('case'), dict) and rp['case'].get('collection_route'):
        _collection_routes(ctx); return
    if isinstance(rp.get('case'), dict) and rp['case'].get('rearranged'):
        _reload_and_rearrange(ctx); return
    case = rp.get("case", rp)
    wd = str(ctx.workdir)
    if "members" in case:
        R = eval_collection(case["members"], case.get("threshold"), False, wd)
    else:
        rc = case["recipe"]
        routes = {}
        if "threshold" in case:
            routes["thrs"] = [case["threshold"]]
        if "load_threshold" in case:
            routes["lthr"] = case["load_threshold"]
        R = eval_recipe(rc, wd, random.Random("replay"), routes=routes)
    for what, c, key in R["violations"]:
        ctx.violate(what, c, key=key)
    for canon, nt in R["cases"]:
        ctx.case(canon, nontrivial=nt)
