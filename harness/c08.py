"""C08 — dataset filters select exactly what they document and never disturb their input.

Correspondence: the real `MazeDataset.filter_by.*` / `custom_maze_filter` / `_apply_filters_from_config` vs. the Lean heap
model `MZ.Filt` (driver op `C08.seq`): after EACH operation the complete observable state of every object seen so far
(config cells: `applied_filters`, `n_mazes`; maze objects: arrays, endpoints, solution, generation_meta; dataset objects:
which config cell, which maze objects in which order, collected metadata) is laid out as a heap by `id()` discovery
order and must equal the model heap.  Oracle (plain Python, written from the property statement, not from the model):
`_oracle_step`, `_oracle_from_config`."""
from __future__ import annotations
import copy, itertools, json, warnings
from collections import Counter
import numpy as np

RULE = ("operation sequences of 1..5 filters (all 8 registered filters + custom_maze_filter, positional/keyword/default "
        "arguments, boundary parameters taken from the data: min = median/max/max+1 length, percentile 0/50/100/ties, "
        "max_count 0/len/len+3/negative, thresholds None/0/1/2/5; custom filters followed by further filters, collection "
        "repeated with inplace=False on an already collected dataset; in about one sequence in six a planted history "
        "custom_maze_filter [-> custom_maze_filter] -> collect_generation_meta in place, so that an in-place collection on a "
        "RESULT is judged against every EARLIER dataset of the history) over hand-built datasets of 0..12 SolvedMaze objects on "
        "2x2..4x4 (and non-square / mixed-shape) grids with planted exact duplicates, near duplicates (one flipped connection, "
        "one changed solution coordinate), the same object twice, all-equal lengths, real and fabricated generation_meta "
        "(missing / uncollectable values included); plus config-driven runs (generate + _apply_filters_from_config and the "
        "public from_config) for filter lists of length 0..4; plus every 2-filter sequence over a fixed 6-maze dataset. "
        "non-trivial = a sequence in which at least one filter dropped some but not all mazes or metadata was collected; "
        "distinct = distinct (dataset, op list) description; later additions: non-default input configurations (generator, kwargs, endpoint options, seq_len: a filter must keep them), the direct route MazeDatasetFilters.<name>(ds, ...), 100-160-maze datasets, int8-stored duplicates, in-place edit sequences, far endpoints (distance / length around 127..129 and beyond) on 70/100/128 grids with int8 and int64 coordinates, raising filters")
ASSUMPTIONS = [
    "np.percentile is a parameter of the model: the harness records numpy's own value for the lengths at hand (exact dyadic) and the model truncates it",
    "copy.deepcopy(MazeDataset) = MazeDataset.load(_serialize_full()) reproduces maze arrays and generation_meta values (compared on every step) and stringifies the keys of generation_metadata_collected (JSON; compared as str(key))",
    "basic metadata values are compared through str(value): a dataset whose metadata holds both True and 1 (or 1 and '1') under one key is outside the generator",
    "filter arguments are None/bool/int/float; percentile/thresholds are finite",
]
TRUSTED = ["harness/translate_filters.py (ast) regenerates the filter table (names, decorator kind, parameters, defaults) used by the model",
           "the encoder `_enc_meta` classifies metadata values by Python type exactly as collect_generation_meta's isinstance chain does",
           "numpy's percentile / array comparison, json (inside deepcopy) are external parameters"]

# keys of three defects found with this check and repaired in /repo (known_findings.txt: `fixed: property=C08 …`);
# the scenarios stay in the generator and the oracle names them again should a repair be reverted
KNOWN_KEY_CUSTOM = "custom-filter-record-without-args"
KNOWN_KEY_COLLECT = "collect-noop-returns-input"
KNOWN_KEY_SHARE = "custom-filter-shares-mazes"

# ----------------------------------------------------------------------------------------------------------------
# encoding of real objects for the model / for comparison
# ----------------------------------------------------------------------------------------------------------------

def _enc_lit(v):
    if v is None or isinstance(v, (bool, str)):
        return v
    if isinstance(v, (int, np.integer)):
        return int(v)
    if isinstance(v, (float, np.floating)):
        n, d = float(v).as_integer_ratio()
        return {"f": [n, d]}
    raise TypeError(f"unsupported literal {v!r}")


def _enc_rec(r):
    out = {"name": r["name"], "kwargs": [[k, _enc_lit(v)] for k, v in r["kwargs"].items()]}
    if "args" in r:
        out["args"] = [_enc_lit(a) for a in r["args"]]
    return out


def _enc_metaval(v):
    """classification by Python type, as lines 764-805 of maze_dataset.py do"""
    if isinstance(v, (bool, int, float, str)):
        return {"s": str(v)}
    if isinstance(v, set):
        try:
            return {"set": [[int(x) for x in t] for t in v]}
        except Exception:
            return {"o": 1}
    if isinstance(v, (list, np.ndarray)):
        try:
            a = np.array(v)
        except ValueError:
            return {"o": 1}
        if a.dtype.kind not in "iub":
            return {"o": 1}
        if a.ndim == 1:
            return {"a1": [int(x) for x in a]}
        if a.ndim == 2:
            return {"a2": [[int(x) for x in row] for row in a]} if a.shape[0] > 0 else {"a1": []}
        return {"o": 1}
    return {"o": 1}


def _enc_meta(meta):
    if meta is None:
        return None
    return [[str(k), _enc_metaval(v)] for k, v in meta.items()]


def _canon_meta(mj):
    """comparison form: set elements sorted (iteration order of a Python set is not part of the state)"""
    if mj is None:
        return None
    out = []
    for k, v in mj:
        if "set" in v:
            v = {"set": sorted(v["set"])}
        out.append([k, v])
    return out


def _enc_maze(m, canon=False):
    cl = np.asarray(m.connection_list)
    meta = _enc_meta(m.generation_meta)
    return {"shape": [int(x) for x in cl.shape], "conn": "".join("1" if b else "0" for b in cl.flatten().tolist()),
            "start": [int(x) for x in m.start_pos], "end": [int(x) for x in m.end_pos],
            "sol": [[int(x) for x in row] for row in np.asarray(m.solution)], "meta": _canon_meta(meta) if canon else meta}


def _tupstr(c):
    return "(" + ", ".join(str(x) for x in c) + ("," if len(c) == 1 else "") + ")"


def _canon_gmc_real(g):
    if g is None:
        return None
    return sorted([str(k), sorted([str(vk), int(n)] for vk, n in c.items())] for k, c in g.items())


def _canon_gmc_model(g):
    if g is None:
        return None
    return sorted([k, sorted([(v["a"] if "a" in v else _tupstr(v["t"])), n] for v, n in c)] for k, c in g)


def _gmc_to_model(g):
    """a real generation_metadata_collected (possibly with stringified keys) as model input"""
    if g is None:
        return None
    out = []
    for k, c in g.items():
        ent = []
        for vk, n in c.items():
            ent.append([{"t": [int(x) for x in vk]} if isinstance(vk, tuple) else {"a": str(vk)}, int(n)])
        out.append([str(k), ent])
    return out


# ----------------------------------------------------------------------------------------------------------------
# case descriptions (pure JSON) -> real objects
# ----------------------------------------------------------------------------------------------------------------

def _build_metaval(t, v):
    if t in ("bool", "int", "float", "str"):
        return {"bool": bool, "int": int, "float": float, "str": str}[t](v)
    if t == "list":
        return [list(x) if isinstance(x, list) else x for x in v]
    if t == "set":
        return {tuple(x) for x in v}
    if t == "arr":
        return np.array(v, dtype=np.int64).reshape((-1, 2)) if (isinstance(v, list) and v and isinstance(v[0], list)) else np.array(v, dtype=np.int64)
    if t == "dict":
        return dict(v)
    if t == "none":
        return None
    raise ValueError(t)


def _build_meta(spec):
    if spec is None:
        return None
    return {k: _build_metaval(t, v) for k, t, v in spec}


def _build_maze(ms):
    from maze_dataset import SolvedMaze
    cl = np.array([c == "1" for c in ms["conn"]], dtype=bool).reshape(ms["shape"])
    return SolvedMaze(connection_list=cl, solution=np.array(ms["sol"], dtype=ms.get("sol_dtype", "int64")), generation_meta=_build_meta(ms.get("meta")))


def _build_dataset(case):
    from maze_dataset import MazeDataset, MazeDatasetConfig
    objs = []
    for it in case["items"]:
        objs.append(objs[it["alias"]] if "alias" in it else _build_maze(it))
    c = case["cfg"]
    extra = dict(c.get("extra", {}))
    if "maze_ctor" in extra:
        from maze_dataset.generation.generators import GENERATORS_MAP
        extra["maze_ctor"] = GENERATORS_MAP[extra["maze_ctor"]]
    if "endpoint_kwargs" in extra:
        extra["endpoint_kwargs"] = {k: ([tuple(x) for x in v] if isinstance(v, list) else v) for k, v in extra["endpoint_kwargs"].items()}
    cfg = MazeDatasetConfig(name=c["name"], grid_n=c["grid_n"], n_mazes=len(objs), seed=c.get("seed", 42), **extra)
    return MazeDataset(cfg, objs)


def _lit(v):
    """JSON case literal -> Python value ({"f": x} marks a float)"""
    if isinstance(v, dict):
        return float(v["f"])
    return v


def _call_real(ds, op):
    if op["kind"] == "custom":
        fn = _CUSTOM[op["fname"]]
        return ds.custom_maze_filter(fn, **{k: _lit(v) for k, v in op["kwargs"]})
    args, kw = [_lit(a) for a in op["args"]], {k: _lit(v) for k, v in op["kwargs"]}
    if (len(ds.mazes) + len(op["name"]) + len(args)) % 3 == 0:
        # the direct route: the registered function itself, called on the dataset (what `filter_by.<name>` forwards to)
        from maze_dataset.dataset.maze_dataset import MazeDatasetFilters
        return getattr(MazeDatasetFilters, op["name"])(ds, *args, **kw)
    return getattr(ds.filter_by, op["name"])(*args, **kw)


def lenmod(m, k=1, r=0):
    return len(m.solution) % k == r


def startrow_le(m, x=0):
    return int(m.start_pos[0]) <= x


_CUSTOM = {"lenmod": lenmod, "startrow_le": startrow_le}


def _op_to_model(op):
    enc = lambda v: _enc_lit(_lit(v))
    if op["kind"] == "custom":
        kw = dict((k, _lit(v)) for k, v in op["kwargs"])
        pred = {"lenmod": [kw.get("k", 1), kw.get("r", 0)]} if op["fname"] == "lenmod" else {"startrow_le": kw.get("x", 0)}
        return {"kind": "custom", "fname": op["fname"], "pred": pred, "kwargs": [[k, enc(v)] for k, v in op["kwargs"]]}
    return {"kind": "reg", "name": op["name"], "args": [enc(a) for a in op["args"]], "kwargs": [[k, enc(v)] for k, v in op["kwargs"]]}


def _params(op):
    """the bound parameters of a registered call (defaults from the signature as the real code has it)"""
    import inspect
    from maze_dataset.dataset.maze_dataset import MazeDatasetFilters
    fn = getattr(MazeDatasetFilters, op["name"])
    sig = inspect.signature(fn.__wrapped__ if hasattr(fn, "__wrapped__") else fn)
    names = list(sig.parameters)[1:]
    vals = {n: sig.parameters[n].default for n in names}
    for n, a in zip(names, op["args"]):
        vals[n] = _lit(a)
    for k, v in op["kwargs"]:
        vals[k] = _lit(v)
    return vals


# ----------------------------------------------------------------------------------------------------------------
# the real heap, laid out by discovery order (the allocation discipline of the model)
# ----------------------------------------------------------------------------------------------------------------

class World:
    def __init__(self):
        self.cfgs, self.mazes, self.dsets = [], [], []
        self.ix = {}

    def _addr(self, kind, lst, o):
        key = (kind, id(o))
        if key not in self.ix:
            self.ix[key] = len(lst)
            lst.append(o)      # strong reference: ids are never reused while the world lives
        return self.ix[key]

    def add_dataset(self, ds):
        self._addr("c", self.cfgs, ds.cfg)
        for m in ds.mazes:
            self._addr("m", self.mazes, m)
        return self._addr("d", self.dsets, ds)

    def snapshot(self, canon=True):
        cfgs = [{"base": 0, "n_mazes": int(c.n_mazes), "applied": [_enc_rec(r) for r in c.applied_filters]} for c in self.cfgs]
        mazes = [_enc_maze(m, canon=canon) for m in self.mazes]
        dsets = []
        for d in self.dsets:
            dsets.append({"cfg": self.ix.get(("c", id(d.cfg)), -1), "mazes": [self.ix.get(("m", id(m)), -1) for m in d.mazes],
                          "gmc": _canon_gmc_real(d.generation_metadata_collected) if canon else _gmc_to_model(d.generation_metadata_collected)})
        return {"cfgs": cfgs, "mazes": mazes, "dsets": dsets}


def _err_class(e):
    for c in (AssertionError, IndexError, KeyError, TypeError, ValueError):
        if isinstance(e, c):
            return c.__name__
    return "other"


# ----------------------------------------------------------------------------------------------------------------
# independent oracle (property statement -> plain Python)
# ----------------------------------------------------------------------------------------------------------------

def _fp(m, with_meta=True):
    e = _enc_maze(m, canon=True)
    if not with_meta:
        e = dict(e, meta=None)
    return json.dumps(e, sort_keys=True)


def _cfg_rest(cfg):
    """every configuration field other than applied_filters / n_mazes"""
    return json.dumps([cfg.name, cfg.grid_n, cfg.seed, cfg.seq_len_min, cfg.seq_len_max, cfg.maze_ctor.__name__,
                       cfg.maze_ctor_kwargs, cfg.endpoint_kwargs], default=str, sort_keys=True)


def _snap_ds(ds):
    return dict(obj=ds, cfg=ds.cfg, applied_list=ds.cfg.applied_filters, maze_ids=[id(m) for m in ds.mazes], mazes=list(ds.mazes),
                fps=[_fp(m) for m in ds.mazes], fps_nometa=[_fp(m, False) for m in ds.mazes],
                applied=json.dumps([_enc_rec(r) for r in ds.cfg.applied_filters]), n_mazes=int(ds.cfg.n_mazes),
                cfg_rest=_cfg_rest(ds.cfg),
                gmc=_canon_gmc_real(ds.generation_metadata_collected),
                metas=[copy.deepcopy(m.generation_meta) for m in ds.mazes],
                lens=[len(m.solution) for m in ds.mazes])


def _close(a, b, mdcl, mds):
    ca, cb = np.asarray(a.connection_list), np.asarray(b.connection_list)
    if mdcl is not None and ca.shape == cb.shape and int((ca != cb).sum()) <= mdcl:
        return True
    sa, sb = np.asarray(a.solution), np.asarray(b.solution)
    if mds is not None and sa.shape == sb.shape and int((sa != sb).sum()) <= mds:
        return True
    return False


def _same(a, b):
    ca, cb = np.asarray(a.connection_list), np.asarray(b.connection_list)
    sa, sb = np.asarray(a.solution), np.asarray(b.solution)
    return ca.shape == cb.shape and bool((ca == cb).all()) and sa.shape == sb.shape and bool((sa == sb).all())


def _expected_counts(metas, dims):
    """exact value counts over all mazes: basic values counted as themselves, a coordinate as a tuple, a collection of
    coordinates element-wise; None if some maze has no metadata or an uncountable value"""
    out = {}
    for meta, dim in zip(metas, dims):
        if meta is None:
            return None
        for k, v in meta.items():
            c = out.setdefault(k, Counter())
            if isinstance(v, (bool, int, float, str)):
                c[v] += 1
            elif isinstance(v, set):
                c.update(v)
            elif isinstance(v, (list, np.ndarray)):
                try:
                    a = np.array(v)
                except ValueError:
                    return None
                if a.ndim == 1 and a.shape[0] == dim:
                    c[tuple(a.tolist())] += 1
                elif a.ndim == 2 and a.shape[1] == dim:
                    c.update(tuple(r) for r in a.tolist())
                else:
                    return None
            else:
                return None
    return _canon_gmc_real(out)


def _oracle_select(op, snap):
    """indices of the input a documented rule keeps (None = the rule does not determine it for these arguments),
    and the set of exception classes the statement tolerates for this input (empty = must succeed)"""
    n = len(snap["mazes"])
    ms = snap["mazes"]
    if op["kind"] == "custom":
        fn = _CUSTOM[op["fname"]]
        kw = {k: _lit(v) for k, v in op["kwargs"]}
        return [i for i in range(n) if fn(ms[i], **kw)], set()
    p = _params(op)
    name = op["name"]
    if name == "path_length":
        return [i for i in range(n) if snap["lens"][i] >= p["min_length"]], set()
    if name == "start_end_distance":
        return [i for i in range(n) if sum(abs(int(a) - int(b)) for a, b in zip(ms[i].start_pos, ms[i].end_pos)) >= p["min_distance"]], set()
    if name == "cut_percentile_shortest":
        if n == 0:
            return None, {"IndexError", "ValueError"}       # percentile of nothing: rule undefined
        if not (0 <= p["percentile"] <= 100):
            return None, {"ValueError"}
        cut = int(np.percentile(np.array(snap["lens"]), p["percentile"]))
        return [i for i in range(n) if snap["lens"][i] > cut], set()
    if name == "truncate_count":
        k = p["max_count"]
        if k is None:
            return list(range(n)), set()
        if k < 0:
            return None, set()                               # "first max_count items" says nothing about negative counts
        return list(range(min(n, k))), set()
    if name == "remove_duplicates":
        if n > p["_max_dataset_len_threshold"]:
            return None, {"ValueError"}                      # documented refusal for large datasets
        a, b = p["minimum_difference_connection_list"], p["minimum_difference_solution"]
        return [i for i in range(n) if not any(_close(ms[i], ms[j], a, b) for j in range(i + 1, n))], set()
    if name == "remove_duplicates_fast":
        return [i for i in range(n) if not any(_same(ms[j], ms[i]) for j in range(i))], set()
    if name == "strip_generation_meta":
        return list(range(n)), set()
    if name == "collect_generation_meta":
        if snap["gmc"] is not None:
            return list(range(n)), set()
        dims = [int(np.asarray(m.connection_list).shape[0]) for m in ms]
        if n == 0 or _expected_counts(snap["metas"], dims) is None:
            return list(range(n)), {"IndexError", "AssertionError", "ValueError"}   # nothing / not everything collectable
        if len(set(snap["maze_ids"])) < n and bool(p["clear_in_mazes"]):
            # the SAME maze object twice in the list: clearing it at its first visit leaves nothing to count at the second
            return list(range(n)), {"ValueError"}
        return list(range(n)), set()
    return None, set()


def _oracle_step(ctx, case, step, op, snap, others, res, err):
    """judge one real operation against the property statement; `snap` = input before, `others` = snapshots of every
    dataset seen earlier (incl. the input), `res`/`err` = outcome"""
    def viol(what, key="unlisted"):
        ctx.violate(f"{what}{'' if key == 'unlisted' else ' (key=' + key + ')'} [op {step}: {op.get('name', op.get('fname'))} args={op.get('args')} kwargs={op.get('kwargs')}; "
                    f"input of {len(snap['mazes'])} mazes, lengths {snap['lens']}]", dict(case, failing_step=step), key=key)
    keep, tolerated = _oracle_select(op, snap)
    inplace = False
    if op["kind"] == "reg" and op["name"] == "collect_generation_meta":
        inplace = bool(_params(op)["inplace"])       # the documented in-place mode, nothing else
        if not inplace and err is None and res is snap["obj"] and snap["gmc"] is not None:
            viol("collect_generation_meta(inplace=False) on a dataset whose metadata is already collected returns the INPUT object "
                 "and the wrapper appends its record to the input's configuration", key=KNOWN_KEY_COLLECT)
            return
    if err is not None:
        cls = _err_class(err)
        # a filter that RAISES must leave every dataset, its own input included, exactly as it was
        for o in others:
            d = o["obj"]
            if ([id(m) for m in d.mazes] != o["maze_ids"] or [_fp(m) for m in d.mazes] != o["fps"] or _canon_gmc_real(d.generation_metadata_collected) != o["gmc"]
                    or json.dumps([_enc_rec(r) for r in d.cfg.applied_filters]) != o["applied"] or int(d.cfg.n_mazes) != o["n_mazes"]):
                lost = sum(1 for m, f in zip(d.mazes, o["fps"]) if _fp(m) != f)
                viol(f"the filter raised {cls} but had already modified {'its input' if o is snap else 'an earlier dataset'}: {lost} mazes changed "
                     f"(generation_meta stripped before the failure was noticed)", key="failed-filter-modifies-input")
                return
        if cls in tolerated:
            return
        if "failed to load applied filters" in str(err) and any("args" not in r for r in snap["cfg"].applied_filters):
            viol(f"after custom_maze_filter the dataset cannot be filtered again: {cls}: {str(err)[:120]!r} "
                 f"(the custom record has no 'args' key, every later deepcopy/load of the config fails)", key=KNOWN_KEY_CUSTOM)
        else:
            viol(f"filter raised {cls}: {str(err)[:200]!r} on an input the documented rule covers")
        return
    # ---- selection: exactly the documented sublist, original order
    out_fps = [_fp(m, False) for m in res.mazes]
    if keep is not None:
        want = [snap["fps_nometa"][i] for i in keep]
        if out_fps != want:
            got_idx = _match_indices(out_fps, snap["fps_nometa"])
            viol(f"result mazes are not the documented selection: expected input positions {keep}, got {got_idx if got_idx is not None else 'mazes that are no subsequence of the input'}")
            return
    # ---- input untouched: EVERY dataset of the history (the input and all earlier ones) except the one dataset that is the
    # target of a documented in-place collection keeps its maze list, the contents of its mazes (generation_meta
    # included), its collected metadata and its configuration
    for k, o in enumerate(others):
        d = o["obj"]
        is_input = o is snap
        is_target = inplace and is_input
        who = "the input" if is_input else f"an earlier dataset (#{k} of the history, {len(o['maze_ids'])} mazes)"
        if [id(m) for m in d.mazes] != o["maze_ids"] or len(d) != len(o["maze_ids"]):
            viol(f"the maze list of {who} changed"); return
        if [_fp(m, False) for m in d.mazes] != o["fps_nometa"]:
            viol(f"mazes of {who} were modified"); return
        if not is_target:
            if [_fp(m) for m in d.mazes] != o["fps"]:
                if inplace:
                    n_shared = len(set(o["maze_ids"]) & set(snap["maze_ids"]))
                    n_lost = sum(1 for m, f in zip(d.mazes, o["fps"]) if _fp(m) != f)
                    viol(f"in-place metadata collection on a result changed generation_meta of {n_lost} mazes of {who}, which is not its target"
                         + (f": the target shares {n_shared} maze objects with it (a filter returned its input's maze objects instead of copies)" if n_shared else ""),
                         key=KNOWN_KEY_SHARE if n_shared else "unlisted")
                else:
                    viol(f"generation_meta of mazes of {who} changed although no in-place collection ran")
                return
            if _canon_gmc_real(d.generation_metadata_collected) != o["gmc"]:
                viol(f"collected metadata of {who} changed"); return
        if d.cfg is not o["cfg"]:
            viol("the config object of an existing dataset was replaced"); return
        if not is_target:
            now = json.dumps([_enc_rec(r) for r in d.cfg.applied_filters])
            if now != o["applied"] or int(d.cfg.n_mazes) != o["n_mazes"]:
                viol(f"the configuration of {who} changed: applied_filters {o['applied']} -> {now}, n_mazes {o['n_mazes']} -> {d.cfg.n_mazes}"); return
            if _cfg_rest(d.cfg) != o["cfg_rest"]:
                viol(f"configuration fields other than applied_filters / n_mazes of {who} changed"); return
    if not inplace:
        if res is snap["obj"]:
            viol("the filter returned its input instead of a new dataset"); return
        for o in others:
            if res.cfg is o["cfg"] or res.cfg.applied_filters is o["applied_list"]:
                viol("the result shares its config (or its applied_filters list) with an existing dataset"); return
    else:
        if bool(_params(op)["inplace"]) and res is not snap["obj"]:
            viol("in-place metadata collection returned a different dataset"); return
    # ---- provenance
    before = json.loads(snap["applied"])
    if op["kind"] == "custom":
        rec = {"name": "__custom__:" + op["fname"], "kwargs": [[k, _enc_lit(_lit(v))] for k, v in op["kwargs"]], "args": []}
        if res.cfg.applied_filters and "args" not in res.cfg.applied_filters[-1]:
            viol("custom_maze_filter recorded its application without an 'args' entry: the name-and-arguments record is incomplete "
                 "and every later deepcopy/load of this config (any further filter) raises ValueError", key=KNOWN_KEY_CUSTOM)
            return
    else:
        rec = {"name": op["name"], "kwargs": [[k, _enc_lit(_lit(v))] for k, v in op["kwargs"]], "args": [_enc_lit(_lit(a)) for a in op["args"]]}
    now = [_enc_rec(r) for r in res.cfg.applied_filters]
    if now[:-1] != before or not now or now[-1] != rec:
        viol(f"applied_filters of the result is {now}, expected the input's {before} followed by {rec}"); return
    if not (int(res.cfg.n_mazes) == len(res) == len(res.mazes)):
        viol(f"n_mazes of the result is {res.cfg.n_mazes} but it holds {len(res.mazes)} mazes"); return
    if True:
        if _cfg_rest(res.cfg) != snap["cfg_rest"]:
            viol("configuration fields other than applied_filters / n_mazes differ between input and result"); return
    # ---- metadata collection: exact value counts
    if op["kind"] == "reg" and op["name"] == "collect_generation_meta" and snap["gmc"] is None and not tolerated:
        dims = [int(np.asarray(m.connection_list).shape[0]) for m in snap["mazes"]]
        want = _expected_counts(snap["metas"], dims)
        got = _canon_gmc_real(res.generation_metadata_collected)
        if got != want:
            viol(f"collected metadata is not the exact value count over all mazes: got {got}, expected {want}"); return
        if bool(_params(op)["clear_in_mazes"]) and any(m.generation_meta is not None for m in res.mazes):
            viol("clear_in_mazes=True left generation_meta in a maze"); return
    if op["kind"] == "reg" and op["name"] == "collect_generation_meta" and snap["gmc"] is not None:
        if _canon_gmc_real(res.generation_metadata_collected) != snap["gmc"]:
            viol("collect_generation_meta on an already collected dataset changed the collected metadata"); return
    if op["kind"] == "reg" and op["name"] == "strip_generation_meta" and any(m.generation_meta is not None for m in res.mazes):
        viol("strip_generation_meta left generation_meta in a maze"); return


def _match_indices(out, inp):
    idx, j = [], 0
    for f in out:
        while j < len(inp) and inp[j] != f:
            j += 1
        if j == len(inp):
            return None
        idx.append(j); j += 1
    return idx


# ----------------------------------------------------------------------------------------------------------------
# running one sequence case on the real code
# ----------------------------------------------------------------------------------------------------------------

def _np_entry(lens, q):
    e = {"lengths": [int(x) for x in lens], "q": _enc_lit(q)}
    try:
        v = float(np.percentile(np.array(lens), q))
        if v != v or v in (float("inf"), float("-inf")):
            e["err"] = "ValueError"
        else:
            n, d = v.as_integer_ratio()
            e["val"] = [n, d]
    except Exception as ex:
        e["err"] = _err_class(ex)
    return e


def _run_seq_real(ctx, case, oracle=True, want_model=True):
    """returns (model request or None, list of real per-step observations)"""
    ds = _build_dataset(case)
    w = World()
    w.add_dataset(ds)
    req = None
    if want_model:
        req = {"op": "C08.seq", "mode": "seq", "heap": w.snapshot(canon=False), "start": 0, "ops": [_op_to_model(o) for o in case["ops"]], "np": []}
    obs, known, cur = [], [ds], ds
    nontrivial = False
    for step, op in enumerate(case["ops"]):
        # the state of every dataset seen so far, just before this op
        snaps = [_snap_ds(d) for d in known]
        snap = next(s_ for s_ in snaps if s_["obj"] is cur)
        if op["kind"] == "reg" and op["name"] == "cut_percentile_shortest" and req is not None:
            try:
                req["np"].append(_np_entry(snap["lens"], _params(op)["percentile"]))
            except Exception:
                pass
        res, err = None, None
        try:
            res = _call_real(cur, op)
        except Exception as e:       # the exception is an outcome, compared with the model's error value
            err = e
        ctx.count("op:" + (op.get("name") or "custom"))
        if oracle:
            _oracle_step(ctx, case, step, op, snap, snaps, res, err)
        if err is not None:
            obs.append({"ok": False, "err": _err_class(err)})
            ctx.count("err:" + _err_class(err))
            break
        d = w.add_dataset(res)
        obs.append({"ok": True, "d": d, "heap": w.snapshot(canon=True)})
        if 0 < len(res) < len(snap["mazes"]) or (op.get("name") == "collect_generation_meta" and res.generation_metadata_collected):
            nontrivial = True
        if len(res) == 0 and len(snap["mazes"]) > 0:
            ctx.count("empty-result")
        if not any(d_ is res for d_ in known):
            known.append(res)
        cur = res
    return req, obs, nontrivial


def _compare(ctx, case, req, obs, reply):
    if "error" in reply:
        ctx.disagree(f"driver error: {reply['error']}", case); return
    steps = reply["steps"]
    model_mazes = [dict(m, meta=_canon_meta(m.get("meta"))) for m in req["heap"]["mazes"]]
    for i, (o, s) in enumerate(itertools.zip_longest(obs, steps)):
        if o is None or s is None:
            ctx.disagree(f"step count differs at step {i}: real {'ended' if o is None else o.get('err', 'ok')}, model {'ended' if s is None else s.get('err', 'ok')}", dict(case, step=i)); return
        ctx.traces_validated += 1
        opn = case["ops"][i].get("name") or case["ops"][i].get("fname") if case.get("ops") else "from_config"
        if o["ok"] != s["ok"] or (not o["ok"] and o["err"] != s["err"]):
            ctx.disagree(f"step {i} ({opn}): real {'ok' if o['ok'] else o['err']} vs model {'ok' if s['ok'] else s['err']}", dict(case, step=i)); return
        if not o["ok"]:
            return
        mh = s["heap"]
        model_mazes = model_mazes[:mh["n_mazes_objs"]] + [None] * (mh["n_mazes_objs"] - len(model_mazes))
        for a, mj in mh["mazes"]:
            model_mazes[a] = dict(mj, meta=_canon_meta(mj.get("meta")))
        model = {"cfgs": [dict(c, base=0) for c in mh["cfgs"]], "mazes": model_mazes,
                 "dsets": [{"cfg": d["cfg"], "mazes": d["mazes"], "gmc": _canon_gmc_model(d["gmc"])} for d in mh["dsets"]]}
        real = o["heap"]
        if o["d"] != s["d"]:
            ctx.disagree(f"step {i} ({opn}): result object differs: real dataset #{o['d']} vs model #{s['d']} (aliasing)", dict(case, step=i)); return
        for part in ("dsets", "cfgs", "mazes"):
            if real[part] != model[part]:
                k = next((k for k, (x, y) in enumerate(itertools.zip_longest(real[part], model[part])) if x != y), None)
                rx = real[part][k] if k is not None and k < len(real[part]) else None
                mx = model[part][k] if k is not None and k < len(model[part]) else None
                ctx.disagree(f"step {i} ({opn}): heap differs in {part}[{k}]: real {json.dumps(rx)[:300]} vs model {json.dumps(mx)[:300]}", dict(case, step=i)); return


# ----------------------------------------------------------------------------------------------------------------
# case generation
# ----------------------------------------------------------------------------------------------------------------

def _gen_base_maze(rng, shape, with_real_meta):
    """a solved maze produced by the real generator + real path sampler, as a JSON spec"""
    from maze_dataset import LatticeMazeGenerators
    np.random.seed(rng.randrange(2 ** 31))
    if rng.random() < 0.75:
        lm = LatticeMazeGenerators.gen_dfs(np.array(shape))
    else:
        lm = LatticeMazeGenerators.gen_dfs_percolation(np.array(shape), p=0.3)
    path = np.asarray(lm.generate_random_path())
    spec = {"shape": [2] + list(shape), "conn": "".join("1" if b else "0" for b in lm.connection_list.flatten().tolist()),
            "sol": [[int(x) for x in r] for r in path]}
    if with_real_meta:
        gm = lm.generation_meta or {}
        ms = []
        for k, v in gm.items():
            if isinstance(v, bool): ms.append([k, "bool", v])
            elif isinstance(v, int): ms.append([k, "int", v])
            elif isinstance(v, float): ms.append([k, "float", v])
            elif isinstance(v, str): ms.append([k, "str", v])
            elif isinstance(v, set): ms.append([k, "set", sorted([int(x) for x in t] for t in v)])
            elif isinstance(v, np.ndarray): ms.append([k, "arr", v.tolist()])
        spec["meta"] = ms
    return spec


def _fab_meta(rng, dim_ok=True):
    ms = [["kind", "str", rng.choice(["a", "b", "c"])], ["flag", "bool", rng.random() < 0.5], ["depth", "int", rng.randint(0, 3)]]
    if rng.random() < 0.5: ms.append(["p", "float", rng.choice([0.0, 0.25, 0.5])])
    if rng.random() < 0.6: ms.append(["origin", "list", [rng.randint(0, 1), rng.randint(0, 1)]])
    if rng.random() < 0.6: ms.append(["cells", "set", sorted({(rng.randint(0, 1), rng.randint(0, 1)) for _ in range(rng.randint(0, 3))})])
    if rng.random() < 0.4: ms.append(["trail", "arr", [[rng.randint(0, 1), rng.randint(0, 1)] for _ in range(rng.randint(1, 3))]])
    if rng.random() < 0.4: ms.append(["corner", "arr", [rng.randint(0, 2), rng.randint(0, 2)]])
    if rng.random() < 0.3: ms.append(["steps", "list", [[rng.randint(0, 1), rng.randint(0, 1)] for _ in range(rng.randint(1, 2))]])
    return [list(x) for x in ms]


def _flip_bit(rng, spec):
    s = dict(spec)
    i = rng.randrange(len(s["conn"]))
    s["conn"] = s["conn"][:i] + ("0" if s["conn"][i] == "1" else "1") + s["conn"][i + 1:]
    return s


def _nudge_sol(rng, spec, k=1):
    s = dict(spec)
    sol = [list(r) for r in s["sol"]]
    R, C = s["shape"][1], s["shape"][2]
    for _ in range(k):
        i = rng.randrange(len(sol)); j = rng.randrange(2)
        lim = (R if j == 0 else C)
        sol[i][j] = (sol[i][j] + 1) % lim if lim > 1 else sol[i][j]
    s["sol"] = sol
    return s


def _gen_items(rng):
    mode = rng.choice(["plain", "plain", "dups", "dups", "near", "near", "equal_len", "mixed_shape", "alias", "tiny"])
    shape = rng.choice([(2, 2), (2, 2), (3, 3), (3, 3), (4, 4), (2, 3)])
    metamode = rng.choice(["real", "real", "fab", "fab", "none", "some_none", "bad"])
    n = rng.choice([0, 1, 2, 3, 4, 5, 6, 7, 8]) if mode != "tiny" else rng.choice([0, 1, 2])
    base = [_gen_base_maze(rng, shape, metamode == "real") for _ in range(n)]
    items = [dict(b) for b in base]
    if mode == "equal_len" and items:
        L = min(len(b["sol"]) for b in items)
        for it in items:
            it["sol"] = it["sol"][:L]
    if mode in ("dups", "near") and items:
        for _ in range(rng.randint(1, 4)):
            src = rng.choice(items)
            if mode == "dups" or rng.random() < 0.3:
                new = dict(src)
                if rng.random() < 0.4: new["sol_dtype"] = "int8"      # an exact duplicate BY VALUE stored the way a reloaded minimal-format file stores it
            else:
                r = rng.random()
                new = _flip_bit(rng, src) if r < 0.4 else (_nudge_sol(rng, src, 1) if r < 0.8 else _nudge_sol(rng, _flip_bit(rng, _flip_bit(rng, src)), 2))
            pos = rng.choice([0, len(items) // 2, len(items)])
            items.insert(pos, new)
    if mode == "mixed_shape" and items:
        other = (3, 2) if shape != (3, 2) else (2, 2)
        for _ in range(rng.randint(1, 3)):
            items.insert(rng.randint(0, len(items)), _gen_base_maze(rng, other, metamode == "real"))
    # generation_meta variants
    for k, it in enumerate(items):
        if metamode == "fab": it["meta"] = _fab_meta(rng)
        elif metamode == "none": it["meta"] = None
        elif metamode == "some_none":
            it["meta"] = None if (k > 0 and rng.random() < 0.4) or (k == 0 and rng.random() < 0.15) else _fab_meta(rng)
        elif metamode == "bad":
            it["meta"] = _fab_meta(rng)
            if rng.random() < 0.4:
                it["meta"].append(rng.choice([["weird", "dict", [["a", 1]]], ["triple", "arr", [1, 2, 3]], ["nothing", "none", None],
                                              ["triple2", "list", [0, 1, 2]]]))
    if mode == "alias" and items:
        # the same maze OBJECT at two positions of the list
        for _ in range(rng.randint(1, 2)):
            j = rng.randrange(len(items))
            if "alias_of" in items[j]:
                continue
            items.insert(rng.choice([j + 1, len(items)]), {"alias_of": items[j]})
        for k, it in enumerate(items):
            if "alias_of" in it:
                items[k] = {"alias": next(i for i, x in enumerate(items) if x is it["alias_of"])}
    grid_n = shape[0]
    return items, grid_n, mode, metamode


def _lens_of(items):
    out = []
    for it in items:
        src = items[it["alias"]] if "alias" in it else it
        out.append(len(src["sol"]))
    return out


def _gen_op(rng, lens, grid_n, allow_custom=True):
    n = len(lens)
    sl = sorted(lens) or [1]
    med, mx, mn = sl[len(sl) // 2], sl[-1], sl[0]
    r = rng.random()
    F = lambda x: {"f": float(x)}
    def call(name, pos, kw):
        return {"kind": "reg", "name": name, "args": pos, "kwargs": kw}
    if r < 0.16:
        v = rng.choice([0, 1, mn, med, med + 1, mx, mx + 1, rng.randint(0, mx + 2)])
        return call("path_length", [v], []) if rng.random() < 0.5 else call("path_length", [], [["min_length", v]])
    if r < 0.28:
        v = rng.choice([0, 1, 2, 3, grid_n, 2 * grid_n])
        return call("start_end_distance", [v], []) if rng.random() < 0.5 else call("start_end_distance", [], [["min_distance", v]])
    if r < 0.44:
        c = rng.random()
        if c < 0.15: return call("cut_percentile_shortest", [], [])
        v = rng.choice([0, F(0.0), F(10.0), 25, F(33.3), 50, F(50.0), F(75.5), F(90.0), 100, F(100.0), F(round(rng.uniform(0, 100), 2))])
        if c > 0.97: v = rng.choice([101, F(-1.0)])
        return call("cut_percentile_shortest", [v], []) if rng.random() < 0.6 else call("cut_percentile_shortest", [], [["percentile", v]])
    if r < 0.56:
        v = rng.choice([0, 1, max(0, n - 1), n, n + 3, rng.randint(0, n + 1)])
        if rng.random() < 0.06: v = rng.choice([-1, -2, None])
        return call("truncate_count", [v], []) if rng.random() < 0.6 else call("truncate_count", [], [["max_count", v]])
    if r < 0.70:
        c = rng.random()
        if c < 0.35: return call("remove_duplicates", [], [])
        a, b = rng.choice([None, 0, 1, 2, 5]), rng.choice([None, 0, 1, 2, 5])
        kw = []
        if rng.random() < 0.1: kw.append(["_max_dataset_len_threshold", rng.choice([0, 2, 4])])
        if c < 0.7: return call("remove_duplicates", [a, b], kw)
        return call("remove_duplicates", [], [["minimum_difference_connection_list", a], ["minimum_difference_solution", b]] + kw)
    if r < 0.80:
        return call("remove_duplicates_fast", [], [])
    if r < 0.85:
        return call("strip_generation_meta", [], [])
    if r < 0.92 or not allow_custom:
        kw = []
        if rng.random() < 0.4: kw.append(["clear_in_mazes", rng.random() < 0.5])
        if rng.random() < 0.4: kw.append(["inplace", rng.random() < 0.5])
        if rng.random() < 0.2: kw.append(["allow_fail", rng.random() < 0.5])
        return call("collect_generation_meta", [], kw)
    if rng.random() < 0.5:
        return {"kind": "custom", "fname": "lenmod", "kwargs": [["k", rng.choice([1, 2, 3])], ["r", rng.choice([0, 1])]]}
    return {"kind": "custom", "fname": "startrow_le", "kwargs": [["x", rng.choice([0, 1, 2])]]}


def _gen_custom(rng):
    if rng.random() < 0.5:
        return {"kind": "custom", "fname": "lenmod", "kwargs": [["k", rng.choice([1, 1, 2, 3])], ["r", rng.choice([0, 0, 1])]]}
    return {"kind": "custom", "fname": "startrow_le", "kwargs": [["x", rng.choice([0, 1, 2, 3])]]}


def _plant_history(rng, ops):
    """custom_maze_filter [-> custom_maze_filter] -> in-place collect_generation_meta somewhere in the sequence (<= 5 ops kept):
    the collection runs on a RESULT while the datasets it was derived from are still alive"""
    kw = []
    if rng.random() < 0.5: kw.append(["clear_in_mazes", rng.random() < 0.8])
    if rng.random() < 0.3: kw.append(["inplace", True])
    plant = [_gen_custom(rng)] + ([_gen_custom(rng)] if rng.random() < 0.3 else []) + \
            [{"kind": "reg", "name": "collect_generation_meta", "args": [], "kwargs": kw}]
    pre = ops[:rng.choice([0, 0, 1])]
    post = ops[len(pre):][:max(0, 5 - len(pre) - len(plant))]
    return pre + plant + post


def _gen_case(rng, allow_custom=True):
    items, grid_n, mode, metamode = _gen_items(rng)
    lens = _lens_of(items)
    ops = [_gen_op(rng, lens, grid_n, allow_custom) for _ in range(rng.randint(1, 5))]
    if allow_custom and rng.random() < 0.17:
        ops = _plant_history(rng, ops)
    cfg = {"name": "c08", "grid_n": grid_n, "seed": 42}
    if rng.random() < 0.4:
        # a configuration that is not the default one: a filter's result must keep every field of it (only applied_filters / n_mazes move)
        cfg["extra"] = rng.choice([
            {"maze_ctor": "gen_dfs_percolation", "maze_ctor_kwargs": {"p": 0.25}},
            {"endpoint_kwargs": {"deadend_start": True, "endpoints_not_equal": True}},
            {"endpoint_kwargs": {"allowed_start": [[0, 0], [1, 1]]}, "seq_len_max": 256},
            {"maze_ctor": "gen_wilson", "seq_len_min": 2, "seq_len_max": 1024},
            {"maze_ctor_kwargs": {"do_forks": False, "start_coord": [0, 1]}}])
        cfg["seed"] = rng.choice([42, 0, 7])
    return {"kind": "seq", "cfg": cfg, "items": items, "ops": ops, "mode": mode, "metamode": metamode}


def _pair_cases():
    """every ordered pair of representative filter calls over one fixed dataset with duplicates, near duplicates and ties"""
    a = {"shape": [2, 2, 2], "conn": "01001010", "sol": [[0, 1], [1, 1]], "meta": [["kind", "str", "a"], ["cells", "set", [[0, 0], [0, 1]]]]}
    b = {"shape": [2, 2, 2], "conn": "01001010", "sol": [[1, 1], [0, 1], [0, 0]], "meta": [["kind", "str", "b"], ["cells", "set", [[0, 0]]]]}
    c = {"shape": [2, 2, 2], "conn": "11000010", "sol": [[1, 1], [1, 0]], "meta": [["kind", "str", "a"], ["cells", "set", []]]}
    d = {"shape": [2, 2, 2], "conn": "01001010", "sol": [[0, 0], [0, 1], [1, 1], [1, 0]], "meta": [["kind", "str", "c"], ["cells", "set", [[1, 1]]]]}
    items = [a, b, dict(a), c, d, dict(b, sol=[[1, 1], [0, 1], [0, 1]])]
    F = lambda x: {"f": float(x)}
    calls = [("path_length", [3], []), ("path_length", [], [["min_length", 2]]), ("start_end_distance", [2], []),
             ("cut_percentile_shortest", [], []), ("cut_percentile_shortest", [F(50.0)], []), ("cut_percentile_shortest", [100], []),
             ("truncate_count", [2], []), ("truncate_count", [0], []), ("remove_duplicates", [], []), ("remove_duplicates", [None, 0], []),
             ("remove_duplicates_fast", [], []), ("strip_generation_meta", [], []), ("collect_generation_meta", [], []),
             ("collect_generation_meta", [], [["inplace", False], ["clear_in_mazes", False]])]
    ops = [{"kind": "reg", "name": n, "args": p, "kwargs": k} for n, p, k in calls] + [{"kind": "custom", "fname": "lenmod", "kwargs": [["k", 2], ["r", 0]]}]
    for o1, o2 in itertools.product(ops, repeat=2):
        yield {"kind": "seq", "cfg": {"name": "c08pair", "grid_n": 2, "seed": 42}, "items": [dict(x) for x in items], "ops": [o1, o2], "mode": "pairs", "metamode": "fab"}


def _regression_cases():
    """the three repaired defects (keys custom-filter-record-without-args, collect-noop-returns-input,
    custom-filter-shares-mazes), run on every check"""
    base = next(_pair_cases())
    reg = lambda n, p=(), k=(): {"kind": "reg", "name": n, "args": list(p), "kwargs": [list(x) for x in k]}
    cust = lambda k, r: {"kind": "custom", "fname": "lenmod", "kwargs": [["k", k], ["r", r]]}
    seqs = [
        [cust(2, 0), reg("truncate_count", [3]), cust(1, 0), reg("path_length", [2])],
        [cust(2, 0), reg("remove_duplicates_fast"), reg("cut_percentile_shortest", [{"f": 50.0}])],
        [{"kind": "custom", "fname": "startrow_le", "kwargs": [["x", 1]]}, reg("collect_generation_meta"), reg("strip_generation_meta")],
        [reg("collect_generation_meta"), reg("collect_generation_meta", (), [("inplace", False)]), reg("path_length", [3])],
        [reg("collect_generation_meta"), reg("remove_duplicates_fast"), reg("collect_generation_meta", (), [("inplace", False)]),
         reg("collect_generation_meta")],
        [reg("collect_generation_meta", (), [("inplace", False), ("clear_in_mazes", False)]), reg("collect_generation_meta", [True, False])],
        # custom filter, then the documented in-place collection on the RESULT: the input's mazes must keep their generation_meta
        [cust(1, 0), reg("collect_generation_meta")],
        [cust(2, 0), cust(1, 0), reg("collect_generation_meta", (), [("clear_in_mazes", True)]), reg("collect_generation_meta", (), [("inplace", False)])],
        [reg("truncate_count", [5]), cust(1, 0), reg("collect_generation_meta", [True, True]), reg("path_length", [3]), reg("collect_generation_meta")],
    ]
    for ops in seqs:
        yield dict(base, items=[dict(x) for x in base["items"]], ops=ops, mode="regression")


# ----------------------------------------------------------------------------------------------------------------
# config-driven application
# ----------------------------------------------------------------------------------------------------------------

def _gen_cfg_case(rng):
    grid_n = rng.choice([2, 2, 3, 3, 4])
    n = rng.choice([0, 1, 3, 5, 8, 10, 12])
    lens_guess = [2, 3, 3, 4, 5, 6]
    recs = []
    for _ in range(rng.choice([0, 1, 1, 2, 2, 3, 4])):
        op = _gen_op(rng, lens_guess[: max(1, n)], grid_n, allow_custom=False)
        recs.append({"name": op["name"], "args": op["args"], "kwargs": op["kwargs"]})
    if rng.random() < 0.05:
        recs.append({"name": rng.choice(["no_such_filter", "__custom__:lenmod"]), "args": [], "kwargs": []})
    return {"kind": "from_config", "cfg": {"name": "c08cfg", "grid_n": grid_n, "n_mazes": n, "seed": rng.choice([42, 42, 7, 123])},
            "recs": recs, "ctor": rng.choice(["gen_dfs", "gen_dfs", "gen_dfs_percolation"])}


def _mk_cfg(case, with_filters):
    from maze_dataset import MazeDatasetConfig
    from maze_dataset.generation.generators import GENERATORS_MAP
    c = case["cfg"]
    kw = dict(name=c["name"], grid_n=c["grid_n"], n_mazes=c["n_mazes"], seed=c["seed"], maze_ctor=GENERATORS_MAP[case["ctor"]])
    if case["ctor"] == "gen_dfs_percolation":
        kw["maze_ctor_kwargs"] = dict(p=0.25)
    if with_filters:
        kw["applied_filters"] = [dict(name=r["name"], args=tuple(_lit(a) for a in r["args"]), kwargs={k: _lit(v) for k, v in r["kwargs"]}) for r in case["recs"]]
    return MazeDatasetConfig(**kw)


def _run_cfg_real(ctx, case, oracle=True, want_model=True):
    from maze_dataset import MazeDataset
    ops = [{"kind": "reg", "name": r["name"], "args": r["args"], "kwargs": r["kwargs"]} for r in case["recs"]]
    # ---- A: generate, then the config-driven entry point on the generated dataset (model-comparable)
    req, obs = None, []
    ds0 = MazeDataset.generate(_mk_cfg(case, True))
    w = World(); w.add_dataset(ds0)
    if want_model:
        req = {"op": "C08.seq", "mode": "from_config", "heap": w.snapshot(canon=False), "start": 0, "ops": [], "np": []}
    out, errA = None, None
    try:
        out = ds0._apply_filters_from_config()
    except Exception as e:
        errA = e
    if errA is not None:
        obs.append({"ok": False, "err": _err_class(errA)})
    else:
        # intermediate datasets are garbage: only the start object and the result are observable
        d = w.add_dataset(out)
        obs.append({"ok": True, "d": d, "heap": w.snapshot(canon=True), "final_only": True})
    # ---- by hand, from the same generated mazes (oracle side; also records numpy's percentiles for the model)
    hand, errH = None, None
    cur = MazeDataset.from_config(_mk_cfg(case, False), load_local=False, save_local=False, do_download=False)
    try:
        for op in ops:
            if op["name"] == "cut_percentile_shortest" and req is not None and hasattr(type(cur)._FILTER_NAMESPACE, op["name"]):
                req["np"].append(_np_entry([len(m.solution) for m in cur.mazes], _params(op)["percentile"]))
            cur = _call_real(cur, op)
            ctx.count("cfgop:" + op["name"])
        hand = cur
    except Exception as e:
        errH = e
    # ---- B: the public entry point
    res, errB = None, None
    try:
        res = MazeDataset.from_config(_mk_cfg(case, True), load_local=False, save_local=False, do_download=False)
    except Exception as e:
        errB = e
    if oracle:
        _oracle_from_config(ctx, case, hand, errH, res, errB, out, errA)
    nontrivial = hand is not None and len(case["recs"]) > 0
    return req, obs, nontrivial


def _oracle_from_config(ctx, case, hand, errH, res, errB, out, errA):
    def viol(what):
        ctx.violate(f"{what} [from_config grid_n={case['cfg']['grid_n']} n_mazes={case['cfg']['n_mazes']} seed={case['cfg']['seed']} filters={case['recs']}]", case)
    for label, r, e in (("MazeDataset.from_config", res, errB), ("generate + _apply_filters_from_config", out, errA)):
        if errH is not None:
            if e is None:
                viol(f"applying the filters by hand raises {_err_class(errH)} but {label} returns a dataset")
                return
            continue      # both fail: nothing to compare (class may differ: unknown names are rejected earlier by the config path)
        if e is not None:
            viol(f"{label} raises {_err_class(e)}: {str(e)[:160]!r} although applying the same filters by hand succeeds")
            return
        if [_fp(m) for m in r.mazes] != [_fp(m) for m in hand.mazes]:
            viol(f"{label} holds different mazes than by-hand application ({len(r.mazes)} vs {len(hand.mazes)})")
            return
        a, b = [_enc_rec(x) for x in r.cfg.applied_filters], [_enc_rec(x) for x in hand.cfg.applied_filters]
        want = [{"name": x["name"], "kwargs": [[k, _enc_lit(_lit(v))] for k, v in x["kwargs"]], "args": [_enc_lit(_lit(v)) for v in x["args"]]} for x in case["recs"]]
        if a != b or a != want:
            viol(f"{label} records applied_filters {a}; by hand {b}; configured {want}")
            return
        if not (int(r.cfg.n_mazes) == len(r.mazes) == int(hand.cfg.n_mazes)) and case["recs"]:
            viol(f"{label}: n_mazes {r.cfg.n_mazes} / {len(r.mazes)} mazes, by hand n_mazes {hand.cfg.n_mazes}")
            return
        if _canon_gmc_real(r.generation_metadata_collected) != _canon_gmc_real(hand.generation_metadata_collected):
            viol(f"{label}: collected metadata differs from by-hand application")
            return


def _compare_cfg(ctx, case, req, obs, reply):
    """from_config mode: the model heap also holds the intermediate datasets; compare the start object and the result"""
    if "error" in reply:
        ctx.disagree(f"driver error: {reply['error']}", case); return
    s, o = reply["steps"][0], obs[0]
    ctx.traces_validated += 1
    if o["ok"] != s["ok"] or (not o["ok"] and o["err"] != s["err"]):
        ctx.disagree(f"_apply_filters_from_config: real {'ok' if o['ok'] else o['err']} vs model {'ok' if s['ok'] else s['err']} for {case['recs']}", case); return
    if not o["ok"]:
        return
    bh = reply.get("by_hand")
    if not (isinstance(bh, dict) and bh.get("same_as_from_config")):
        ctx.disagree(f"model: applyFromConfig differs from by-hand runSeq ({bh}) for {case['recs']}", case); return
    mh, real = s["heap"], o["heap"]
    model_mazes = [dict(m, meta=_canon_meta(m.get("meta"))) for m in req["heap"]["mazes"]]
    model_mazes = model_mazes[:mh["n_mazes_objs"]] + [None] * (mh["n_mazes_objs"] - len(model_mazes))
    for a, mj in mh["mazes"]:
        model_mazes[a] = dict(mj, meta=_canon_meta(mj.get("meta")))
    def view(h_cfgs, h_mazes, h_dsets, d, gm):
        ds = h_dsets[d]
        return {"cfg": dict(h_cfgs[ds["cfg"]], base=0), "mazes": [h_mazes[a] for a in ds["mazes"]], "gmc": gm(ds["gmc"])}
    same_obj_real, same_obj_model = (o["d"] == 0), (s["d"] == 0)
    if same_obj_real != same_obj_model:
        ctx.disagree(f"_apply_filters_from_config: result is{'' if same_obj_real else ' not'} the generated dataset object, model says otherwise", case); return
    ident = lambda g: g
    for label, dr, dm in (("generated dataset", 0, 0), ("result", o["d"], s["d"])):
        vr = view(real["cfgs"], real["mazes"], real["dsets"], dr, ident)
        vm = view(mh["cfgs"], model_mazes, mh["dsets"], dm, _canon_gmc_model)
        if vr != vm:
            part = next(k for k in vr if vr[k] != vm[k])
            ctx.disagree(f"_apply_filters_from_config: {label} differs in {part}: real {json.dumps(vr[part])[:300]} vs model {json.dumps(vm[part])[:300]}", case); return
    # alias structure between the two observable objects
    r0, rN = real["dsets"][0], real["dsets"][o["d"]]
    m0, mN = mh["dsets"][0], mh["dsets"][s["d"]]
    if (r0["cfg"] == rN["cfg"]) != (m0["cfg"] == mN["cfg"]) or [a in r0["mazes"] for a in rN["mazes"]] != [a in m0["mazes"] for a in mN["mazes"]]:
        ctx.disagree("_apply_filters_from_config: sharing between generated dataset and result differs from the model", case)


# ----------------------------------------------------------------------------------------------------------------
# entry points
# ----------------------------------------------------------------------------------------------------------------

def _canon_case(case):
    return json.dumps({k: v for k, v in case.items() if k not in ("mode", "metamode")}, sort_keys=True)


def _table_check(ctx):
    """the generated table the model uses must describe the signatures the running code has"""
    import inspect
    from maze_dataset.dataset.maze_dataset import MazeDatasetFilters
    rep = ctx.driver.run([{"op": "C08.table"}])[0]
    real = []
    for name, fn in MazeDatasetFilters.__dict__.items():
        if name.startswith("_") or not callable(fn):
            continue
        sig = inspect.signature(fn.__wrapped__)
        ps = list(sig.parameters.values())[1:]
        real.append([name, [[p.name, None if p.default is inspect._empty else {"d": _enc_lit(p.default)}] for p in ps]])
    model = [[e[0], e[2]] for e in rep]
    ctx.traces_validated += 1
    if real != model:
        ctx.disagree(f"generated filter table differs from the imported signatures: {model} vs {real}", {"table": model})


def _edit_sequences(ctx, n):
    """ONE dataset object filtered, then edited in place by its owner (mazes dropped / reordered / re-added), then filtered again:
    each call is judged by the documented rule on the dataset AS IT IS at the time of the call (anything a filter memoises on its
    input object must not survive an edit of that object). Oracle only: for the model every call starts from a fresh heap."""
    rng = ctx.rng
    for k in range(n):
        items, grid_n, mode, metamode = _gen_items(rng)
        if len(items) < 3: continue
        case = {"kind": "seq", "cfg": {"name": "c08", "grid_n": grid_n, "seed": 42}, "items": items, "ops": [], "mode": mode, "metamode": metamode, "edited_in_place": True}
        ds = _build_dataset(case)
        sel = [o for o in (_gen_op(rng, _lens_of(items), grid_n, allow_custom=False) for _ in range(12))
               if o["name"] in ("path_length", "start_end_distance", "cut_percentile_shortest", "truncate_count", "remove_duplicates", "remove_duplicates_fast")]
        if not sel: continue
        first = sel[0]
        for step in range(3):
            op = first if step != 1 or len(sel) < 2 else sel[1]      # the same filter again after the edit (step 2), another one in between
            case["ops"].append(op)
            snap = _snap_ds(ds)
            res, err = None, None
            try: res = _call_real(ds, op)
            except Exception as e: err = e
            _oracle_step(ctx, case, step, op, snap, [snap], res, err)
            ctx.case(_canon_case(case) + f"#edit{step}", nontrivial=step > 0)
            if ctx.violations: return
            if len(ds.mazes) < 2: break
            r = rng.random()
            if r < 0.45: ds.mazes.pop(rng.randrange(len(ds.mazes)))
            elif r < 0.75: ds.mazes.reverse()
            else: ds.mazes[:] = ds.mazes[1:] + ds.mazes[:1]
        ctx.count("edit_in_place_sequences")


def _large_sequences(ctx, n):
    """datasets of 100..160 mazes (every size threshold of the library is 100): each filter judged like the small ones — exact selection,
    provenance, and every earlier dataset (its mazes WITH their metadata, its config) untouched. Oracle only."""
    rng = ctx.rng
    for k in range(n):
        size = rng.choice([100, 101, 130, 160])
        base = [_gen_base_maze(rng, (2, 2), True) for _ in range(8)]
        items = [dict(rng.choice(base)) for _ in range(size)]
        for it in items:
            if rng.random() < 0.5: it["meta"] = _fab_meta(rng)
        case = {"kind": "seq", "cfg": {"name": "c08large", "grid_n": 2, "seed": 42}, "items": items, "ops": [], "mode": "large", "metamode": "mixed"}
        ops = [{"kind": "reg", "name": "path_length", "args": [rng.choice([0, 1, 2])], "kwargs": []},
               {"kind": "reg", "name": "start_end_distance", "args": [rng.choice([0, 1])], "kwargs": []},
               {"kind": "reg", "name": "truncate_count", "args": [rng.choice([size, size - 1, 120])], "kwargs": []},
               {"kind": "custom", "fname": "lenmod", "kwargs": [["k", 1], ["r", 0]]},
               {"kind": "reg", "name": "strip_generation_meta", "args": [], "kwargs": []}]
        case["ops"] = [rng.choice(ops) for _ in range(rng.randint(1, 3))]
        small = dict(case, items=f"{size} mazes")
        try:
            _run_seq_real(ctx, case, oracle=True, want_model=False)
        except Exception as e:
            ctx.notes.append(f"large sequence stopped: {type(e).__name__}: {str(e)[:100]}")
        ctx.case(json.dumps(dict(large=size, ops=case["ops"], k=k)), nontrivial=True); ctx.count("large_dataset_sequences")
        if ctx.violations:
            for v in ctx.violations:          # keep the replay small
                if isinstance(v.get("case"), dict) and v["case"].get("mode") == "large": v["case"] = dict(v["case"], items=f"{size} mazes of 2x2 built from 8 base mazes", large=True)
            return


def _far_endpoints(ctx, n):
    """mazes whose endpoints are far apart on big grids (Manhattan distance and solution length around 127/128/129 and beyond), with the
    coordinates stored as int8 — the way every dataset comes back from the minimal on-disk formats — and as int64. Oracle only, judged
    with Python integers."""
    rng = ctx.rng
    for k in range(n):
        g = rng.choice([70, 100, 128])
        cl = np.ones((2, g, g), dtype=bool); cl[0, g - 1, :] = False; cl[1, :, g - 1] = False
        conn = "".join("1" if x else "0" for x in cl.reshape(-1))
        items = []
        for want in [100, 126, 127, 128, 129, 130, 138, 2 * (g - 1), rng.randrange(90, 2 * (g - 1))]:
            dr = min(g - 1, (want + 1) // 2); dc = min(g - 1, want - dr)
            a, b = rng.randrange(0, g - dr), rng.randrange(0, g - dc)
            sol = [[a + i, b] for i in range(dr + 1)] + [[a + dr, b + j] for j in range(1, dc + 1)]
            if rng.random() < 0.5: sol.reverse()
            items.append(dict(shape=[2, g, g], conn=conn, sol=sol, sol_dtype=rng.choice(["int8", "int8", "int64"]) if g <= 128 else "int64", meta=None))
        rng.shuffle(items)
        ops = [{"kind": "reg", "name": "start_end_distance", "args": [rng.choice([0, 1, 100, 127, 128, 129, 139])], "kwargs": []},
               {"kind": "reg", "name": "path_length", "args": [rng.choice([0, 101, 128, 129, 130, 140])], "kwargs": []},
               {"kind": "reg", "name": "cut_percentile_shortest", "args": [{"f": rng.choice([10.0, 50.0])}], "kwargs": []},
               {"kind": "reg", "name": "remove_duplicates_fast", "args": [], "kwargs": []}]
        case = {"kind": "seq", "cfg": {"name": "c08far", "grid_n": g, "seed": 42}, "items": items, "ops": [rng.choice(ops) for _ in range(rng.randint(1, 2))], "mode": "far", "metamode": "none"}
        try:
            _run_seq_real(ctx, case, oracle=True, want_model=False)
        except Exception as e:
            ctx.notes.append(f"far-endpoint sequence stopped: {type(e).__name__}: {str(e)[:100]}")
        ctx.case(json.dumps(dict(far=g, ops=case["ops"], k=k)), nontrivial=True); ctx.count("far_endpoint_sequences")
        if ctx.violations:
            for v in ctx.violations:
                if isinstance(v.get("case"), dict) and v["case"].get("mode") == "far":
                    v["case"] = dict(v["case"], items=[dict(it, conn=f"full {g}x{g} lattice") for it in v["case"]["items"]], far=True)
            return


def run(ctx):
    warnings.filterwarnings("ignore")
    cases = []
    n_seq = 150 if ctx.quick else 3000
    n_cfg = 40 if ctx.quick else 600
    corpus = sorted((__import__("pathlib").Path(__file__).parent / "corpus" / "C08").glob("*.json"))
    for p in corpus:
        cases.append(json.loads(p.read_text()))
    pairs = list(_pair_cases())
    if ctx.quick:
        same = [c for c in pairs if c["ops"][0] == c["ops"][1]]        # the same call twice in a row: always
        rest = [c for c in pairs if c["ops"][0] != c["ops"][1]]
        ctx.rng.shuffle(rest); pairs = same + rest[:50]
    cases += list(_regression_cases())
    cases += pairs
    cases += [_gen_case(ctx.rng) for _ in range(n_seq)]
    cases += [_gen_cfg_case(ctx.rng) for _ in range(n_cfg)]
    _table_check(ctx)
    _edit_sequences(ctx, 40 if ctx.quick else 800)
    if not ctx.violations: _large_sequences(ctx, 6 if ctx.quick else 80)
    if not ctx.violations: _far_endpoints(ctx, 6 if ctx.quick else 60)
    reqs, metas = [], []
    for case in cases:
        if case["kind"] == "seq":
            req, obs, nt = _run_seq_real(ctx, case)
            ctx.count(f"data:{case.get('mode')}"); ctx.count(f"meta:{case.get('metamode')}"); ctx.count(f"n={len(case['items'])}"); ctx.count(f"ops={len(case['ops'])}")
        else:
            req, obs, nt = _run_cfg_real(ctx, case)
            ctx.count(f"cfg:filters={len(case['recs'])}")
        ctx.case(_canon_case(case), nontrivial=nt)
        reqs.append(req); metas.append((case, obs))
        if nt and case["kind"] == "seq" and len(case["items"]) <= 4:
            ctx.sample({"items": [{k: v for k, v in it.items() if k != "meta"} for it in case["items"]], "ops": case["ops"],
                        "result_lengths": [len(o["heap"]["dsets"][o["d"]]["mazes"]) if o["ok"] else o["err"] for o in obs]}, limit=4)
    replies = ctx.driver.run_parallel(reqs)
    for (case, obs), req, rep in zip(metas, reqs, replies):
        if case["kind"] == "seq":
            _compare(ctx, case, req, obs, rep)
        else:
            _compare_cfg(ctx, case, req, obs, rep)


def search(ctx):
    """oracle-only, wider exploration of the real code; stops at the first violation"""
    warnings.filterwarnings("ignore")
    _large_sequences(ctx, 20)
    if ctx.violations: return
    _far_endpoints(ctx, 30)
    if ctx.violations: return
    for case in itertools.chain(_regression_cases(), _pair_cases()):
        _run_seq_real(ctx, case, oracle=True, want_model=False)
        ctx.case(_canon_case(case))
        if ctx.violations:
            return
    for k in range(600 if ctx.quick else 6000):
        case = _gen_case(ctx.rng) if k % 4 else _gen_cfg_case(ctx.rng)
        if case["kind"] == "seq":
            _run_seq_real(ctx, case, oracle=True, want_model=False)
        else:
            _run_cfg_real(ctx, case, oracle=True, want_model=False)
        ctx.case(_canon_case(case))
        if ctx.violations:
            return


def replay(ctx, rp):
    warnings.filterwarnings("ignore")
    case = rp.get("case", rp)
    case = {k: v for k, v in case.items() if k not in ("failing_step", "step")}
    if case.get("large"):
        _large_sequences(ctx, 20); return
    if case.get("far"):
        g = case["cfg"]["grid_n"]
        cl = np.ones((2, g, g), dtype=bool); cl[0, g - 1, :] = False; cl[1, :, g - 1] = False
        conn = "".join("1" if x else "0" for x in cl.reshape(-1))
        case = dict(case, items=[dict(it, conn=conn) for it in case["items"]])
        _run_seq_real(ctx, case, oracle=True, want_model=False); return
    if case["kind"] == "seq":
        req, obs, _ = _run_seq_real(ctx, case)
        rep = ctx.driver.run([req])[0]
        _compare(ctx, case, req, obs, rep)
    else:
        req, obs, _ = _run_cfg_real(ctx, case)
        rep = ctx.driver.run([req])[0]
        _compare_cfg(ctx, case, req, obs, rep)
    ctx.case(_canon_case(case))
