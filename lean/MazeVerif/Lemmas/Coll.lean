import MazeVerif.Model.Coll
namespace MZ.Coll
theorem locateFrom_spec {α} (ds : List (List α)) (acc i : Nat) (h : i < (ds.flatten).length) :
    ∃ (hk : (locateFrom (ds.map List.length) acc i).1 < ds.length)
      (hj : (locateFrom (ds.map List.length) acc i).2 < ds[(locateFrom (ds.map List.length) acc i).1].length),
      ds[(locateFrom (ds.map List.length) acc i).1][(locateFrom (ds.map List.length) acc i).2] = ds.flatten[i] := by
  induction ds generalizing acc i with
  | nil => simp at h
  | cons d rest ih =>
    by_cases hd : i < d.length
    · have : locateFrom ((d :: rest).map List.length) acc i = (0, i) := by
        have : ¬ (acc + d.length < acc + i + 1) := by omega
        simp [locateFrom, cum, searchsortedLeft, this]
      simp only [this]
      refine ⟨by simp, by simpa using hd, ?_⟩
      simp [List.getElem_append_left hd]
    · have hd' : d.length ≤ i := Nat.le_of_not_lt hd
      have hlen : i - d.length < rest.flatten.length := by
        simp only [List.flatten_cons, List.length_append] at h; omega
      obtain ⟨hk, hj, heq⟩ := ih (acc + d.length) (i - d.length) hlen
      have key : locateFrom ((d :: rest).map List.length) acc i
          = ((locateFrom (rest.map List.length) (acc + d.length) (i - d.length)).1 + 1,
             (locateFrom (rest.map List.length) (acc + d.length) (i - d.length)).2) := by
        simp only [locateFrom, List.map_cons, cum, searchsortedLeft]
        have e1 : acc + d.length + (i - d.length) + 1 = acc + i + 1 := by omega
        have e2 : acc + d.length + (i - d.length) = acc + i := by omega
        rw [e1, e2]
        have : acc + d.length < acc + i + 1 := by omega
        simp only [this, if_true]
        generalize searchsortedLeft (cum (List.map List.length rest) (acc + d.length)) (acc + i + 1) = k'
        rcases k' with _ | k''
        · simp; omega
        · simp; omega
      simp only [key]
      refine ⟨by simpa using hk, by simpa using hj, ?_⟩
      simp only [List.getElem_cons_succ, List.flatten_cons]
      rw [heq, List.getElem_append_right hd']
end MZ.Coll
