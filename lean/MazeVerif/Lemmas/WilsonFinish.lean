import MazeVerif.Lemmas.DfsMore
/-! `gen_wilson` can always be finished: from every state of the inner loop-erased walk and from every state of the
    outer loop there is a draw list that completes the run (always step to a lattice neighbour that is one step closer,
    in Manhattan distance, to a fixed visited cell). There is no totality theorem for Wilson: a walk that keeps stepping
    back and forth never ends. -/
namespace MZ

def mdist (a b : Cell) : Nat := (a.1 - b.1).natAbs + (a.2 - b.2).natAbs

theorem grid_pos' {rows cols : Nat} {c : Cell} (h : inGrid rows cols c) : 0 < rows ∧ 0 < cols := by
  unfold inGrid at h; omega

theorem mdist_zero {a b : Cell} (h : mdist a b = 0) : a = b := by
  obtain ⟨a1, a2⟩ := a; obtain ⟨b1, b2⟩ := b
  simp only [mdist] at h
  simp only [Prod.mk.injEq]; omega

theorem mdist_le {rows cols : Nat} {a b : Cell} (ha : inGrid rows cols a) (hb : inGrid rows cols b) :
    mdist a b + 2 ≤ rows + cols := by
  simp only [inGrid] at ha hb
  simp only [mdist]; omega

theorem closer {rows cols : Nat} {c v : Cell} (hc : inGrid rows cols c) (hv : inGrid rows cols v) {n : Nat}
    (hd : mdist c v = n + 1) : ∃ nx ∈ gridNbrs rows cols c, mdist nx v = n := by
  obtain ⟨c1, c2⟩ := c; obtain ⟨v1, v2⟩ := v
  simp only [inGrid] at hc hv
  simp only [mdist] at hd
  simp only [gridNbrs, nbrs, List.mem_filter, List.mem_cons, List.not_mem_nil, or_false, decide_eq_true_eq, mdist]
  by_cases h1 : c1 < v1
  · exact ⟨(c1 + 1, c2), ⟨by simp, by simp only [inGrid]; omega⟩, by simp only; omega⟩
  · by_cases h2 : v1 < c1
    · exact ⟨(c1 - 1, c2), ⟨by simp, by simp only [inGrid]; omega⟩, by simp only; omega⟩
    · by_cases h3 : c2 < v2
      · exact ⟨(c1, c2 + 1), ⟨by simp, by simp only [inGrid]; omega⟩, by simp only; omega⟩
      · exact ⟨(c1, c2 - 1), ⟨by simp, by simp only [inGrid]; omega⟩, by simp only; omega⟩

theorem getLast!_take_idxOf {path : List Cell} {nx : Cell} (h : nx ∈ path) :
    (path.take (path.idxOf nx + 1)).getLast! = nx := by
  have hlt : path.idxOf nx < path.length := List.idxOf_lt_length_iff.mpr h
  rw [List.getLast!_eq_getLast?_getD, List.getLast?_eq_getElem?, List.length_take]
  have : min (path.idxOf nx + 1) path.length - 1 = path.idxOf nx := by omega
  rw [this, List.getElem?_take]
  simp [hlt]

theorem head?_take_succ (path : List Cell) (n : Nat) : (path.take (n + 1)).head? = path.head? := by
  cases path <;> simp

theorem head?_snoc {path : List Cell} (h : path ≠ []) (x : Cell) : (path ++ [x]).head? = path.head? := by
  cases path with
  | nil => exact absurd rfl h
  | cons a l => simp

theorem head?_eq_some_of_ne_nil {path : List Cell} (h : path ≠ []) : ∃ u, path.head? = some u := by
  cases path with
  | nil => exact absurd rfl h
  | cons a l => exact ⟨a, rfl⟩

/-- from every state of the inner walk (non-empty path whose tip lies in the grid), `mdist tip v` well-chosen draws end
    it, whatever follows them in the draw list and for every sufficient fuel; the start of the path is kept -/
theorem walk_can_finish {rows cols : Nat} {vis : List Cell} {v : Cell} (hv : v ∈ vis) (hvg : inGrid rows cols v) :
    ∀ (n : Nat) (path : List Cell), path ≠ [] → inGrid rows cols path.getLast! → mdist path.getLast! v = n →
      ∃ (ds : List Nat) (path' : List Cell), ds.length ≤ n ∧ path' ≠ [] ∧ path'.head? = path.head? ∧
        path'.getLast! ∈ vis ∧
        ∀ (rest : List Nat) (fuel : Nat), n + 1 ≤ fuel → walk rows cols vis fuel path (ds ++ rest) = some (path', rest) := by
  intro n
  induction n with
  | zero =>
    intro path hne _ hd
    have hl : path.getLast! ∈ vis := by rw [mdist_zero hd]; exact hv
    refine ⟨[], path, by simp, hne, rfl, hl, ?_⟩
    intro rest fuel hf
    obtain ⟨f, rfl⟩ : ∃ f, fuel = f + 1 := ⟨fuel - 1, by omega⟩
    simp only [walk, hl, if_true, List.nil_append]
  | succ n ih =>
    intro path hne hg hd
    by_cases hl : path.getLast! ∈ vis
    · refine ⟨[], path, by simp, hne, rfl, hl, ?_⟩
      intro rest fuel hf
      obtain ⟨f, rfl⟩ : ∃ f, fuel = f + 1 := ⟨fuel - 1, by omega⟩
      simp only [walk, hl, if_true, List.nil_append]
    · obtain ⟨nx, hnx, hdn⟩ := closer hg hvg hd
      obtain ⟨k, hk⟩ := List.getElem?_of_mem hnx
      have hnxg : inGrid rows cols nx := by
        simp only [gridNbrs, List.mem_filter, decide_eq_true_eq] at hnx; exact hnx.2
      by_cases hin : nx ∈ path
      · have hne' : path.take (path.idxOf nx + 1) ≠ [] := by
          intro h0
          rw [List.take_eq_nil_iff] at h0
          rcases h0 with h0 | h0
          · omega
          · exact hne h0
        have hlast := getLast!_take_idxOf hin
        obtain ⟨ds, path', hlen, hne2, hhead, hlast2, hrun⟩ :=
          ih (path.take (path.idxOf nx + 1)) hne' (by rw [hlast]; exact hnxg) (by rw [hlast]; exact hdn)
        refine ⟨k :: ds, path', by simp; omega, hne2, by rw [hhead, head?_take_succ], hlast2, ?_⟩
        intro rest fuel hf
        obtain ⟨f, rfl⟩ : ∃ f, fuel = f + 1 := ⟨fuel - 1, by omega⟩
        simp only [walk, hl, if_false, List.cons_append, hk, hin, if_true]
        exact hrun rest f (by omega)
      · have hlast := getLast!_snoc path nx
        obtain ⟨ds, path', hlen, hne2, hhead, hlast2, hrun⟩ :=
          ih (path ++ [nx]) (by simp) (by rw [hlast]; exact hnxg) (by rw [hlast]; exact hdn)
        refine ⟨k :: ds, path', by simp; omega, hne2, by rw [hhead, head?_snoc hne], hlast2, ?_⟩
        intro rest fuel hf
        obtain ⟨f, rfl⟩ : ∃ f, fuel = f + 1 := ⟨fuel - 1, by omega⟩
        simp only [walk, hl, if_false, List.cons_append, hk, hin]
        exact hrun rest f (by omega)

/-- cells of the grid not yet visited -/
def unvisited (rows cols : Nat) (vis : List Cell) : List Cell := (cells rows cols).filter (fun c => c ∉ vis)

theorem unvisited_lt {rows cols : Nat} {vis add : List Cell} {u : Cell} (hu : u ∈ unvisited rows cols vis) (ha : u ∈ add) :
    (unvisited rows cols (vis ++ add)).length < (unvisited rows cols vis).length := by
  have e : unvisited rows cols (vis ++ add) = (unvisited rows cols vis).filter (fun c => c ∉ add) := by
    unfold unvisited
    rw [List.filter_filter]
    apply List.filter_congr
    intro x _
    simp only [List.mem_append, not_or, Bool.decide_and, Bool.and_comm]
  rw [e, List.length_filter_lt_length_iff_exists]
  exact ⟨u, hu, by simpa using ha⟩

/-- from every state of the outer loop with at least one visited in-grid cell there is a draw list that completes
    the run, for every fuel above `rows + cols + (number of unvisited cells)` -/
theorem outer_can_finish {rows cols : Nat} : ∀ (m : Nat) (vis : List Cell) (E : List Edge),
    (∃ v ∈ vis, inGrid rows cols v) → (unvisited rows cols vis).length ≤ m →
    ∃ (ds : List Nat) (s' : WSt), ∀ fuel, rows + cols + m ≤ fuel →
      outer rows cols fuel { vis := vis, E := E, rng := ds } = some s' := by
  intro m
  induction m with
  | zero =>
    intro vis E _ hm
    have h0 : (cells rows cols).filter (fun c => c ∉ vis) = [] := List.eq_nil_of_length_eq_zero (by unfold unvisited at hm; omega)
    refine ⟨[], { vis := vis, E := E, rng := [] }, fun fuel hf => ?_⟩
    obtain ⟨v, _, hvg⟩ := ‹∃ v ∈ vis, inGrid rows cols v›
    have := grid_pos' hvg
    obtain ⟨f, rfl⟩ : ∃ f, fuel = f + 1 := ⟨fuel - 1, by omega⟩
    simp only [outer, h0, if_true]
  | succ m ih =>
    intro vis E hv hm
    by_cases h0 : (cells rows cols).filter (fun c => c ∉ vis) = []
    · refine ⟨[], { vis := vis, E := E, rng := [] }, fun fuel hf => ?_⟩
      obtain ⟨f, rfl⟩ : ∃ f, fuel = f + 1 := ⟨fuel - 1, by omega⟩
      simp only [outer, h0, if_true]
    · obtain ⟨v, hvv, hvg⟩ := hv
      obtain ⟨u, rest0, hcons⟩ := List.exists_cons_of_ne_nil h0
      have humem : u ∈ unvisited rows cols vis := by unfold unvisited; rw [hcons]; simp
      have hu : u ∈ cells rows cols ∧ u ∉ vis := by
        simpa [unvisited] using humem
      have hug : inGrid rows cols u := mem_cells.mp hu.1
      obtain ⟨dw, path', hdl, hne', hhead, hlast, hrun⟩ :=
        walk_can_finish hvv hvg (mdist u v) [u] (by simp) (by simpa [List.getLast!] using hug) (by simp [List.getLast!])
      -- the start of the walk joins the visited set
      have hudrop : u ∈ path'.dropLast := by
        cases path' with
        | nil => exact absurd rfl hne'
        | cons a tl =>
          simp only [List.head?_cons, Option.some.injEq] at hhead
          subst hhead
          cases tl with
          | nil => simp [List.getLast!] at hlast; exact absurd hlast hu.2
          | cons b tl' => simp [List.dropLast]
      have hlt := unvisited_lt humem hudrop
      obtain ⟨dr, s', hfin⟩ := ih (vis ++ path'.dropLast) (E ++ pathEdges path')
        ⟨v, List.mem_append_left _ hvv, hvg⟩ (by omega)
      refine ⟨0 :: (dw ++ dr), s', fun fuel hf => ?_⟩
      obtain ⟨f, rfl⟩ : ∃ f, fuel = f + 1 := ⟨fuel - 1, by omega⟩
      have hd := mdist_le hug hvg
      have h00 : ((cells rows cols).filter (fun c => c ∉ vis))[0]? = some u := by rw [hcons]; rfl
      simp only [outer, h0, if_false, h00, hrun dr f (by omega)]
      exact hfin f (by omega)

theorem unvisited_length_le (rows cols : Nat) (vis : List Cell) : (unvisited rows cols vis).length ≤ rows * cols := by
  have := List.length_filter_le (fun c => decide (c ∉ vis)) (cells rows cols)
  rw [length_cells] at this; exact this

/-- from every state in the middle of a run (outer state `vis`/`E` with a visited in-grid cell, walk in progress with
    path `path`): draws `dw` end the walk and draws `dr` then complete the outer loop from the state the walk leaves -/
theorem midrun_can_finish {rows cols : Nat} {vis : List Cell} (E : List Edge) (hv : ∃ v ∈ vis, inGrid rows cols v)
    {path : List Cell} (hne : path ≠ []) (hg : inGrid rows cols path.getLast!) :
    ∃ (dw dr : List Nat) (path' : List Cell) (s' : WSt), ∀ fuel, rows + cols + rows * cols ≤ fuel →
      walk rows cols vis fuel path (dw ++ dr) = some (path', dr) ∧
      outer rows cols fuel { vis := vis ++ path'.dropLast, E := E ++ pathEdges path', rng := dr } = some s' := by
  obtain ⟨v, hvv, hvg⟩ := hv
  obtain ⟨dw, path', _, _, _, _, hrun⟩ := walk_can_finish hvv hvg _ path hne hg rfl
  obtain ⟨dr, s', hfin⟩ := outer_can_finish (rows := rows) (cols := cols) (rows * cols) (vis ++ path'.dropLast)
    (E ++ pathEdges path') ⟨v, List.mem_append_left _ hvv, hvg⟩ (unvisited_length_le _ _ _)
  have hd := mdist_le hg hvg
  exact ⟨dw, dr, path', s', fun fuel hf => ⟨hrun dr fuel (by omega), hfin fuel hf⟩⟩

end MZ
