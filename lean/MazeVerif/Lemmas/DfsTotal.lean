import MazeVerif.Model.DfsErr
import MazeVerif.Lemmas.DfsMeta
/-! Termination of the `gen_dfs` loop model, for all grids, all arguments, all draw lists.

    Potential `mu s = 2*(rows*cols - |visited|) + |stack|`: an `extend` iteration visits one new cell and grows the
    stack by at most one, a `back` iteration shrinks the stack by one, so `mu` drops by at least one per iteration.
    `mu (init …) = 2*rows*cols - 1`, hence `2*rows*cols` units of fuel always suffice. -/
namespace MZ

/-! ### `loopE` refines `loop` -/

theorem popIdx_eq_toOption (a : Args) (s : St) : popIdx a s = (popIdxE a s).toOption := by
  unfold popIdx popIdxE
  split
  · cases s.rng <;> rfl
  · rfl

theorem step_eq_toOption (rows cols : Nat) (a : Args) (s : St) :
    step rows cols a s = (stepE rows cols a s).toOption := by
  unfold step stepE
  rw [popIdx_eq_toOption]
  cases popIdxE a s with
  | error e => rfl
  | ok p =>
    obtain ⟨i, rng1⟩ := p
    simp only [Except.toOption]
    cases s.stack[i]? with
    | none => rfl
    | some cur =>
      simp only
      split
      · cases rng1 with
        | nil => rfl
        | cons k rng2 =>
          simp only
          cases (cands rows cols s.visited cur)[k]? <;> rfl
      · rfl
theorem loop_eq_toOption (rows cols : Nat) (a : Args) : ∀ (fuel : Nat) (s : St),
    loop rows cols a fuel s = (loopE rows cols a fuel s).toOption
  | 0, _ => rfl
  | fuel + 1, s => by
    unfold loop loopE
    split
    · rw [step_eq_toOption]
      cases stepE rows cols a s with
      | error e => rfl
      | ok s' => exact loop_eq_toOption rows cols a fuel s'
    · rfl

theorem genDfs_eq_toOption (rows cols : Nat) (a : Args) (start : Cell) (rng : List Nat) (fuel : Nat) :
    genDfs rows cols a start rng fuel = (genDfsE rows cols a start rng fuel).toOption :=
  loop_eq_toOption rows cols a fuel _

theorem stepE_spec {rows cols a s s'} (h : stepE rows cols a s = .ok s') : Step rows cols a s s' := by
  apply step_spec
  rw [step_eq_toOption, h]; rfl

/-! ### one iteration -/

theorem popIdxE_error {a : Args} {s : St} {e} (h : popIdxE a s = .error e) :
    e = .noDraw ∧ s.rng = [] ∧ a.randStack = true := by
  unfold popIdxE at h
  split at h
  · next hr =>
    split at h
    · simp at h
    · next hrng => simp only [Except.error.injEq] at h; exact ⟨h.symm, hrng, hr⟩
  · simp at h

theorem popIdxE_ok {a : Args} {s : St} {i rng1} (h : popIdxE a s = .ok (i, rng1)) :
    (a.randStack = true ∧ s.rng = i :: rng1) ∨ (a.randStack = false ∧ i = s.stack.length - 1 ∧ rng1 = s.rng) := by
  unfold popIdxE at h
  split at h
  · next hr =>
    split at h
    · next r rs hrng =>
      simp only [Except.ok.injEq, Prod.mk.injEq] at h
      obtain ⟨rfl, rfl⟩ := h
      exact Or.inl ⟨hr, hrng⟩
    · simp at h
  · next hr =>
    simp only [Except.ok.injEq, Prod.mk.injEq] at h
    obtain ⟨rfl, rfl⟩ := h
    exact Or.inr ⟨by simpa using hr, rfl, rfl⟩

theorem stepE_ne_outOfFuel (rows cols : Nat) (a : Args) (s : St) : stepE rows cols a s ≠ .error .outOfFuel := by
  unfold stepE
  cases hp : popIdxE a s with
  | error e => simp only; rw [(popIdxE_error hp).1]; simp
  | ok p =>
    obtain ⟨i, rng1⟩ := p
    simp only
    cases s.stack[i]? with
    | none => simp
    | some cur =>
      simp only
      split
      · cases rng1 with
        | nil => simp
        | cons k rng2 =>
          simp only
          cases (cands rows cols s.visited cur)[k]? <;> simp
      · simp

theorem stepE_rng {rows cols a s s'} (h : stepE rows cols a s = .ok s') : s.rng.length ≤ s'.rng.length + 2 := by
  unfold stepE at h
  cases hp : popIdxE a s with
  | error e => rw [hp] at h; simp at h
  | ok p =>
    obtain ⟨i, rng1⟩ := p
    rw [hp] at h
    simp only at h
    have h1 : s.rng.length ≤ rng1.length + 1 := by
      rcases popIdxE_ok hp with ⟨_, h2⟩ | ⟨_, _, h2⟩
      · rw [h2]; simp
      · rw [h2]; omega
    cases hc : s.stack[i]? with
    | none => rw [hc] at h; simp at h
    | some cur =>
      rw [hc] at h
      simp only at h
      split at h
      · cases rng1 with
        | nil => simp at h
        | cons k rng2 =>
          simp only at h
          cases hk : (cands rows cols s.visited cur)[k]? with
          | none => rw [hk] at h; simp at h
          | some nb =>
            rw [hk] at h
            simp only [Except.ok.injEq] at h
            subst h
            simp only [List.length_cons] at h1 ⊢
            omega
      · simp only [Except.ok.injEq] at h
        subst h
        simp only
        omega

/-- with all draws equal to `0`, a non-empty stack and two draws left, an iteration always succeeds -/
theorem stepE_zero {rows cols a s} (hst : s.stack ≠ []) (hz : ∀ d ∈ s.rng, d = 0) (hl : 2 ≤ s.rng.length) :
    ∃ s', stepE rows cols a s = .ok s' ∧ (∀ d ∈ s'.rng, d = 0) := by
  unfold stepE
  cases hp : popIdxE a s with
  | error e => have := (popIdxE_error hp).2.1; rw [this] at hl; simp at hl
  | ok p =>
    obtain ⟨i, rng1⟩ := p
    simp only
    have hpos : 0 < s.stack.length := List.length_pos_iff.mpr hst
    have h1 : i < s.stack.length ∧ (∀ d ∈ rng1, d = 0) ∧ 1 ≤ rng1.length := by
      rcases popIdxE_ok hp with ⟨_, h2⟩ | ⟨_, h3, h2⟩
      · rw [h2] at hz hl
        have : i = 0 := hz i (by simp)
        refine ⟨by omega, fun d hd => hz d (by simp [hd]), by simp at hl; omega⟩
      · subst h2; exact ⟨by omega, hz, by omega⟩
    obtain ⟨hi, hz1, hl1⟩ := h1
    rw [List.getElem?_eq_getElem hi]
    simp only
    split
    · next hc =>
      cases rng1 with
      | nil => simp at hl1
      | cons k rng2 =>
        simp only
        have hk : k = 0 := hz1 k (by simp)
        subst hk
        have hcl : 0 < (cands rows cols s.visited s.stack[i]).length := List.length_pos_iff.mpr hc.1
        rw [List.getElem?_eq_getElem hcl]
        exact ⟨_, rfl, fun d hd => hz1 d (by simp [hd])⟩
    · exact ⟨_, rfl, hz1⟩

theorem stepE_ne_noDraw {rows cols a s} (hl : 2 ≤ s.rng.length) : stepE rows cols a s ≠ .error .noDraw := by
  unfold stepE
  cases hp : popIdxE a s with
  | error e => have := (popIdxE_error hp).2.1; rw [this] at hl; simp at hl
  | ok p =>
    obtain ⟨i, rng1⟩ := p
    simp only
    have h1 : 1 ≤ rng1.length := by
      rcases popIdxE_ok hp with ⟨_, h2⟩ | ⟨_, _, h2⟩
      · rw [h2] at hl; simp at hl; omega
      · rw [h2]; omega
    cases s.stack[i]? with
    | none => simp
    | some cur =>
      simp only
      split
      · cases rng1 with
        | nil => simp at h1
        | cons k rng2 =>
          simp only
          cases (cands rows cols s.visited cur)[k]? <;> simp
      · simp

/-! ### the potential -/

def mu (rows cols : Nat) (s : St) : Nat := 2 * (rows * cols - s.visited.length) + s.stack.length

theorem mu_init (rows cols : Nat) (start : Cell) (rng : List Nat) (h : 0 < rows * cols) :
    mu rows cols (init start rng) + 1 = 2 * (rows * cols) := by
  simp only [mu, init, List.length_singleton]; omega

theorem mu_step {rows cols a start s s'} (inv : InvT rows cols start s) (h : Step rows cols a s s') :
    mu rows cols s' < mu rows cols s := by
  have inv' := inv.step h
  have hle' := (all_of_length inv'.nodup inv'.grid).1
  cases h with
  | extend i cur nb rng' hcur hnb hdepth =>
    have hi : i < s.stack.length := by
      rcases Nat.lt_or_ge i s.stack.length with h | h
      · exact h
      · rw [List.getElem?_eq_none h] at hcur; simp at hcur
    simp only [List.length_append, List.length_singleton] at hle'
    simp only [mu, List.length_append, List.length_singleton]
    split
    · simp only [List.length_append, List.length_singleton, List.length_eraseIdx, hi, if_true]; omega
    · simp only [List.length_eraseIdx, hi, if_true]; omega
  | back i cur rng' hcur hwhy =>
    have hi : i < s.stack.length := by
      rcases Nat.lt_or_ge i s.stack.length with h | h
      · exact h
      · rw [List.getElem?_eq_none h] at hcur; simp at hcur
    simp only [mu, List.length_eraseIdx, hi, if_true]; omega

/-! ### fuel: never the reason for a failure above the bound, and irrelevant above the bound -/

/-- with more fuel than the potential the run never stops for lack of fuel -/
theorem loopE_ne_outOfFuel {rows cols a start} : ∀ (fuel : Nat) (s : St),
    InvT rows cols start s → mu rows cols s < fuel → loopE rows cols a fuel s ≠ .error .outOfFuel
  | 0, _, _, h => by omega
  | fuel + 1, s, inv, hf => by
    unfold loopE
    split
    · cases hst : stepE rows cols a s with
      | error e =>
        simp only
        intro h; injection h with h; subst h
        exact stepE_ne_outOfFuel rows cols a s hst
      | ok s' =>
        simp only
        have hS := stepE_spec hst
        have := mu_step inv hS
        exact loopE_ne_outOfFuel fuel s' (inv.step hS) (by omega)
    · simp

/-- above the potential the result (value or error) does not depend on the fuel -/
theorem loopE_fuel_indep {rows cols a start} : ∀ (fuel fuel' : Nat) (s : St),
    InvT rows cols start s → mu rows cols s < fuel → mu rows cols s < fuel' →
    loopE rows cols a fuel s = loopE rows cols a fuel' s
  | 0, _, _, _, h, _ => by omega
  | _ + 1, 0, _, _, _, h => by omega
  | fuel + 1, fuel' + 1, s, inv, hf, hf' => by
    unfold loopE
    split
    · cases hst : stepE rows cols a s with
      | error e => rfl
      | ok s' =>
        simp only
        have hS := stepE_spec hst
        have := mu_step inv hS
        exact loopE_fuel_indep fuel fuel' s' (inv.step hS) (by omega) (by omega)
    · rfl

/-! ### draws: at most two per iteration, so `2 * mu` draws are always enough -/

theorem mu_pos {rows cols : Nat} {s : St} (h : s.stack ≠ []) : 0 < mu rows cols s := by
  have := List.length_pos_iff.mpr h
  unfold mu; omega

theorem loopE_ne_noDraw {rows cols a start} : ∀ (fuel : Nat) (s : St),
    InvT rows cols start s → 2 * mu rows cols s ≤ s.rng.length → loopE rows cols a fuel s ≠ .error .noDraw
  | 0, _, _, _ => by simp [loopE]
  | fuel + 1, s, inv, hd => by
    unfold loopE
    split
    · next hc =>
      have hpos := mu_pos (rows := rows) (cols := cols) hc.1
      cases hst : stepE rows cols a s with
      | error e =>
        simp only
        intro h; injection h with h; subst h
        exact stepE_ne_noDraw (by omega) hst
      | ok s' =>
        simp only
        have hS := stepE_spec hst
        have := mu_step inv hS
        have := stepE_rng hst
        exact loopE_ne_noDraw fuel s' (inv.step hS) (by omega)
    · simp

/-- the all-zero draw list is always accepted: index 0 of a non-empty stack / candidate list exists -/
theorem loopE_zero {rows cols a start} : ∀ (fuel : Nat) (s : St),
    InvT rows cols start s → mu rows cols s < fuel → 2 * mu rows cols s ≤ s.rng.length → (∀ d ∈ s.rng, d = 0) →
    ∃ s', loopE rows cols a fuel s = .ok s'
  | 0, _, _, h, _, _ => by omega
  | fuel + 1, s, inv, hf, hd, hz => by
    unfold loopE
    split
    · next hc =>
      have hpos := mu_pos (rows := rows) (cols := cols) hc.1
      obtain ⟨s', hst, hz'⟩ := stepE_zero (rows := rows) (cols := cols) (a := a) hc.1 hz (by omega)
      rw [hst]
      simp only
      have hS := stepE_spec hst
      have := mu_step inv hS
      have := stepE_rng hst
      exact loopE_zero fuel s' (inv.step hS) (by omega) (by omega) hz'
    · exact ⟨s, rfl⟩

/-! ### `genDfs` -/

theorem grid_pos {rows cols : Nat} {c : Cell} (h : inGrid rows cols c) : 0 < rows * cols := by
  unfold inGrid at h
  exact Nat.mul_pos (by omega) (by omega)

/-- fuel bound for `genDfs` on a `rows × cols` grid -/
def dfsFuel (rows cols : Nat) : Nat := 2 * (rows * cols)

/-- number of draws that is always enough for `genDfs` on a `rows × cols` grid -/
def dfsDraws (rows cols : Nat) : Nat := 4 * (rows * cols)

theorem genDfsE_ne_outOfFuel {rows cols : Nat} {a : Args} {start : Cell} {rng : List Nat} {fuel : Nat}
    (hs : inGrid rows cols start) (hf : dfsFuel rows cols ≤ fuel) :
    genDfsE rows cols a start rng fuel ≠ .error .outOfFuel := by
  have hN := grid_pos hs
  have := mu_init rows cols start rng hN
  exact loopE_ne_outOfFuel fuel _ (InvT.init hs) (by unfold dfsFuel at hf; omega)

theorem genDfsE_fuel_indep {rows cols : Nat} {a : Args} {start : Cell} {rng : List Nat} {fuel fuel' : Nat}
    (hs : inGrid rows cols start) (hf : dfsFuel rows cols ≤ fuel) (hf' : dfsFuel rows cols ≤ fuel') :
    genDfsE rows cols a start rng fuel = genDfsE rows cols a start rng fuel' := by
  have hN := grid_pos hs
  have := mu_init rows cols start rng hN
  unfold dfsFuel at hf hf'
  exact loopE_fuel_indep fuel fuel' _ (InvT.init hs) (by omega) (by omega)

theorem genDfs_fuel_indep {rows cols : Nat} {a : Args} {start : Cell} {rng : List Nat} {fuel fuel' : Nat}
    (hs : inGrid rows cols start) (hf : dfsFuel rows cols ≤ fuel) (hf' : dfsFuel rows cols ≤ fuel') :
    genDfs rows cols a start rng fuel = genDfs rows cols a start rng fuel' := by
  rw [genDfs_eq_toOption, genDfs_eq_toOption, genDfsE_fuel_indep hs hf hf']

/-- more fuel never changes a result that exists (any fuel, any state) -/
theorem loop_mono {rows cols a} : ∀ (fuel : Nat) (s s' : St), loop rows cols a fuel s = some s' →
    ∀ fuel', fuel ≤ fuel' → loop rows cols a fuel' s = some s'
  | 0, _, _, h, _, _ => by simp [loop] at h
  | fuel + 1, _, _, _, 0, hle => by omega
  | fuel + 1, s, s', h, fuel' + 1, hle => by
    unfold loop at h ⊢
    by_cases hc : s.stack ≠ [] ∧ s.visited.length < a.nAcc
    · rw [if_pos hc] at h ⊢
      cases hst : step rows cols a s with
      | none => rw [hst] at h; simp at h
      | some s1 =>
        rw [hst] at h
        simp only at h ⊢
        exact loop_mono fuel s1 s' h fuel' (by omega)
    · rw [if_neg hc] at h ⊢; exact h

/-- a result obtained with ANY fuel is the result for every fuel above the bound -/
theorem genDfs_some_fuel {rows cols : Nat} {a : Args} {start : Cell} {rng : List Nat} {fuel fuel' : Nat} {s : St}
    (hs : inGrid rows cols start) (h : genDfs rows cols a start rng fuel = some s) (hf' : dfsFuel rows cols ≤ fuel') :
    genDfs rows cols a start rng fuel' = some s := by
  have h1 : genDfs rows cols a start rng (max fuel fuel') = some s := loop_mono fuel _ _ h _ (Nat.le_max_left _ _)
  rw [genDfs_fuel_indep hs hf' (Nat.le_trans hf' (Nat.le_max_right fuel fuel'))]
  exact h1

theorem genDfsE_ne_noDraw {rows cols : Nat} {a : Args} {start : Cell} {rng : List Nat} {fuel : Nat}
    (hs : inGrid rows cols start) (hd : dfsDraws rows cols ≤ rng.length) :
    genDfsE rows cols a start rng fuel ≠ .error .noDraw := by
  have hN := grid_pos hs
  have := mu_init rows cols start rng hN
  refine loopE_ne_noDraw fuel _ (InvT.init hs) ?_
  unfold dfsDraws at hd
  show 2 * mu rows cols (init start rng) ≤ rng.length
  omega

theorem genDfs_zero {rows cols : Nat} {a : Args} {start : Cell} {rng : List Nat} {fuel : Nat}
    (hs : inGrid rows cols start) (hf : dfsFuel rows cols ≤ fuel) (hd : dfsDraws rows cols ≤ rng.length)
    (hz : ∀ d ∈ rng, d = 0) : ∃ s, genDfs rows cols a start rng fuel = some s := by
  have hN := grid_pos hs
  have := mu_init rows cols start rng hN
  unfold dfsDraws at hd; unfold dfsFuel at hf
  obtain ⟨s, h⟩ := loopE_zero (a := a) fuel _ (InvT.init (rng := rng) hs) (by omega)
    (by show 2 * mu rows cols (init start rng) ≤ rng.length; omega) hz
  exact ⟨s, by rw [genDfs_eq_toOption]; unfold genDfsE; rw [h]; rfl⟩

end MZ
