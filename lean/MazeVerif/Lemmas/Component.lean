import MazeVerif.Lemmas.Views
/-! `coordNeighbors` / `componentFrom` (Model/Component.lean, shared with C12/C03): the neighbour list is the `Adj`-neighbourhood;
    the stack search returns exactly the reachable set and terminates within `5*rows*cols+2` iterations. -/
namespace MZ
open MZ.Views

/-- the shared model `coordNeighbors` (Model/Component.lean) = candidates in mask order, in grid, adjacent -/
theorem coordNeighbors_eq (rows cols : Nat) (E : List Edge) (c : Cell) :
    coordNeighbors rows cols E c = (nbrs c).filter fun n => decide (inGrid rows cols n) && decide (Adj E c n) := by
  unfold coordNeighbors
  apply List.filter_congr
  intro n hn
  congr 1
  simp only [connected, (adj_iff_edgeOf hn)]
  exact List.contains_eq_mem _ _ |>.trans (by simp)

theorem mem_coordNeighbors' {rows cols : Nat} {E : List Edge} {c b : Cell} :
    b ∈ coordNeighbors rows cols E c ↔ b ∈ nbrs c ∧ inGrid rows cols b ∧ edgeOf c b ∈ E := by
  simp only [coordNeighbors, List.mem_filter, Bool.and_eq_true, decide_eq_true_eq, connected, List.contains_iff_mem]

/-- under `WF` the neighbour list is exactly the `Adj`-neighbourhood -/
theorem mem_coordNeighbors {rows cols : Nat} {E : List Edge} (hwf : WF rows cols E) {c b : Cell} :
    b ∈ coordNeighbors rows cols E c ↔ Adj E c b := by
  rw [coordNeighbors_eq]
  simp only [List.mem_filter, Bool.and_eq_true, decide_eq_true_eq]
  constructor
  · exact fun h => h.2.2
  · exact fun h => ⟨adj_nbrs h, (adj_inGrid hwf h).2, h⟩

theorem coordNeighbors_nodup (rows cols : Nat) (E : List Edge) (c : Cell) : (coordNeighbors rows cols E c).Nodup :=
  (nbrs_nodup c).sublist List.filter_sublist

theorem coordNeighbors_length_le (rows cols : Nat) (E : List Edge) (c : Cell) : (coordNeighbors rows cols E c).length ≤ 4 :=
  Nat.le_trans (List.length_filter_le _ _) (by simp [nbrs])

/-- reachability along a neighbour function -/
inductive NReach (N : Cell → List Cell) : Cell → Cell → Prop
  | refl (a) : NReach N a a
  | step {a b c} : NReach N a b → c ∈ N b → NReach N a c

theorem componentLoop_nil (N : Cell → List Cell) (fuel : Nat) (vis : List Cell) :
    componentLoop N (fuel + 1) [] vis = some vis := by
  simp [componentLoop]

theorem componentLoop_step (N : Cell → List Cell) (fuel : Nat) (rest : List Cell) (cur : Cell) (vis : List Cell) :
    componentLoop N (fuel + 1) (rest ++ [cur]) vis =
      componentLoop N fuel (rest ++ (N cur).filter (fun nb => nb ∉ (if cur ∈ vis then vis else vis ++ [cur])))
        (if cur ∈ vis then vis else vis ++ [cur]) := by
  simp [componentLoop]

structure CInv (N : Cell → List Cell) (c : Cell) (stack vis : List Cell) : Prop where
  visR : ∀ x ∈ vis, NReach N c x
  stackR : ∀ x ∈ stack, NReach N c x
  closed : ∀ u ∈ vis, ∀ n ∈ N u, n ∈ vis ∨ n ∈ stack
  root : c ∈ vis ∨ c ∈ stack
  nodup : vis.Nodup

theorem CInv.step {N c rest cur vis} (h : CInv N c (rest ++ [cur]) vis) :
    CInv N c (rest ++ (N cur).filter (fun nb => nb ∉ (if cur ∈ vis then vis else vis ++ [cur])))
      (if cur ∈ vis then vis else vis ++ [cur]) := by
  have hcur : NReach N c cur := h.stackR cur (by simp)
  have mem' : ∀ x, x ∈ (if cur ∈ vis then vis else vis ++ [cur]) ↔ x ∈ vis ∨ x = cur := by
    intro x; by_cases hc : cur ∈ vis
    · simp only [hc, if_true]; constructor
      · exact Or.inl
      · rintro (h1 | rfl); exact h1; exact hc
    · simp only [hc, if_false, List.mem_append, List.mem_singleton]
  refine ⟨?_, ?_, ?_, ?_, ?_⟩
  · intro x hx; rcases (mem' x).1 hx with h1 | rfl
    · exact h.visR x h1
    · exact hcur
  · intro x hx
    rcases List.mem_append.1 hx with h1 | h1
    · exact h.stackR x (List.mem_append_left _ h1)
    · exact .step hcur (List.mem_filter.1 h1).1
  · intro u hu n hn
    by_cases hnv : n ∈ (if cur ∈ vis then vis else vis ++ [cur])
    · exact Or.inl hnv
    · right
      rcases (mem' u).1 hu with h1 | rfl
      · rcases h.closed u h1 n hn with h2 | h2
        · exact absurd ((mem' n).2 (Or.inl h2)) hnv
        · rcases List.mem_append.1 h2 with h3 | h3
          · exact List.mem_append_left _ h3
          · simp only [List.mem_singleton] at h3
            exact absurd ((mem' n).2 (Or.inr h3)) hnv
      · exact List.mem_append_right _ (List.mem_filter.2 ⟨hn, by simpa using hnv⟩)
  · rcases h.root with h1 | h1
    · exact Or.inl ((mem' c).2 (Or.inl h1))
    · rcases List.mem_append.1 h1 with h2 | h2
      · exact Or.inr (List.mem_append_left _ h2)
      · simp only [List.mem_singleton] at h2
        exact Or.inl ((mem' c).2 (Or.inr h2))
  · by_cases hc : cur ∈ vis
    · simp only [hc, if_true]; exact h.nodup
    · simp only [hc, if_false]
      exact List.Nodup.append h.nodup (List.nodup_singleton _) (by simpa using hc)

/-- whatever fuel was given: if the loop returns, it returns exactly the set reachable from the root, without duplicates -/
theorem componentLoop_exact {N : Cell → List Cell} {c : Cell} : ∀ (fuel : Nat) (stack vis V : List Cell),
    CInv N c stack vis → componentLoop N fuel stack vis = some V → (∀ x, x ∈ V ↔ NReach N c x) ∧ V.Nodup
  | 0, _, _, _, _, h => by simp [componentLoop] at h
  | fuel + 1, stack, vis, V, inv, h => by
    rcases List.eq_nil_or_concat stack with rfl | ⟨rest, cur, rfl⟩
    · rw [componentLoop_nil] at h
      simp only [Option.some.injEq] at h; subst h
      refine ⟨fun x => ⟨inv.visR x, fun hx => ?_⟩, inv.nodup⟩
      have hc : c ∈ vis := by simpa using inv.root
      induction hx with
      | refl => exact hc
      | step _ hn ih => simpa using inv.closed _ ih _ hn
    · rw [List.concat_eq_append] at h inv
      rw [componentLoop_step] at h
      exact componentLoop_exact fuel _ _ V inv.step h

theorem CInv.init (N : Cell → List Cell) (c : Cell) : CInv N c [c] [] :=
  ⟨by simp, by simpa using NReach.refl c, by simp, by simp, List.nodup_nil⟩

/-- stack discipline (bottom first, top = last): every unvisited neighbour of a visited stack entry lies above it
    (or satisfies `X`) -/
def StackOK (N : Cell → List Cell) (vis : List Cell) (X : Cell → Prop) : List Cell → Prop
  | [] => True
  | u :: xs => (u ∈ vis → ∀ n ∈ N u, n ∉ vis → n ∈ xs ∨ X n) ∧ StackOK N vis X xs

theorem StackOK.append {N vis X} : ∀ {l1 l2 : List Cell},
    StackOK N vis X (l1 ++ l2) ↔ StackOK N vis (fun n => n ∈ l2 ∨ X n) l1 ∧ StackOK N vis X l2
  | [], l2 => by simp [StackOK]
  | u :: xs, l2 => by
    simp only [List.cons_append, StackOK, StackOK.append (l1 := xs), List.mem_append]
    constructor
    · rintro ⟨h1, h2, h3⟩
      exact ⟨⟨fun hu n hn hv => by rcases h1 hu n hn hv with (h | h) | h <;> simp [h], h2⟩, h3⟩
    · rintro ⟨⟨h1, h2⟩, h3⟩
      exact ⟨fun hu n hn hv => by rcases h1 hu n hn hv with h | h | h <;> simp [h], h2, h3⟩

theorem StackOK.transfer {N vis vis' X Y}
    (h : ∀ u, u ∈ vis' → ∀ n ∈ N u, n ∉ vis' → Y n ∨ (u ∈ vis ∧ n ∉ vis ∧ ¬ X n)) :
    ∀ {l : List Cell}, StackOK N vis X l → StackOK N vis' Y l
  | [], _ => trivial
  | u :: xs, ⟨h1, h2⟩ => by
    refine ⟨fun hu n hn hv => ?_, StackOK.transfer h h2⟩
    rcases h u hu n hn hv with hy | ⟨hu', hv', hx⟩
    · exact Or.inr hy
    · rcases h1 hu' n hn hv' with h3 | h3
      · exact Or.inl h3
      · exact absurd h3 hx

theorem StackOK.of_unvisited {N vis X} : ∀ {l : List Cell}, (∀ u ∈ l, u ∉ vis) → StackOK N vis X l
  | [], _ => trivial
  | u :: xs, h => ⟨fun hu => absurd hu (h u (by simp)), StackOK.of_unvisited fun v hv => h v (by simp [hv])⟩

/-- termination: in a finite universe `U` closed under `N`, with at most `k` neighbours per cell,
    `(k+1)*|U| + 2` iterations always suffice (potential `(k+1)*(#unvisited) + |stack|` strictly decreases) -/
theorem componentLoop_total {N : Cell → List Cell} {U : List Cell} {k : Nat}
    (hk : ∀ u, (N u).length ≤ k) (hN : ∀ u ∈ U, ∀ n ∈ N u, n ∈ U) :
    ∀ (fuel : Nat) (stack vis : List Cell), vis.Nodup → (∀ x ∈ vis, x ∈ U) → (∀ x ∈ stack, x ∈ U) →
      StackOK N vis (fun _ => False) stack →
      (k + 1) * (U.length - vis.length) + stack.length + 1 ≤ fuel → ∃ V, componentLoop N fuel stack vis = some V
  | 0, _, _, _, _, _, _, h => by omega
  | fuel + 1, stack, vis, hnd, hvU, hsU, hok, hf => by
    rcases List.eq_nil_or_concat stack with rfl | ⟨rest, cur, rfl⟩
    · exact ⟨vis, componentLoop_nil N fuel vis⟩
    · rw [List.concat_eq_append] at hsU hok hf ⊢
      rw [componentLoop_step]
      obtain ⟨hokRest, hokCur⟩ := StackOK.append.1 hok
      have hcurU : cur ∈ U := hsU cur (by simp)
      have hrestU : ∀ x ∈ rest, x ∈ U := fun x hx => hsU x (List.mem_append_left _ hx)
      by_cases hc : cur ∈ vis
      · simp only [hc, if_true]
        have hpush : (N cur).filter (fun nb => decide (nb ∉ vis)) = [] := by
          rw [List.filter_eq_nil_iff]
          intro n hn
          simp only [decide_eq_true_eq, Decidable.not_not]
          by_cases hv : n ∈ vis
          · exact hv
          · have := hokCur.1 hc n hn hv
            simp at this
        rw [hpush, List.append_nil]
        apply componentLoop_total hk hN fuel rest vis hnd hvU hrestU
        · refine StackOK.transfer (fun u hu n hn hv => ?_) hokRest
          by_cases hx : n ∈ [cur] ∨ False
          · simp only [List.mem_singleton, or_false] at hx
            subst hx; exact absurd hc hv
          · exact Or.inr ⟨hu, hv, hx⟩
        · simp only [List.length_append, List.length_singleton] at hf; omega
      · simp only [hc, if_false]
        have hnd' : (vis ++ [cur]).Nodup := List.Nodup.append hnd (List.nodup_singleton _) (by simpa using hc)
        have hvU' : ∀ x ∈ vis ++ [cur], x ∈ U := by
          intro x hx
          rcases List.mem_append.1 hx with h1 | h1
          · exact hvU x h1
          · simp only [List.mem_singleton] at h1; subst h1; exact hcurU
        have hlen : (vis ++ [cur]).length ≤ U.length :=
          (List.subperm_of_subset hnd' hvU').length_le
        have hpl : ((N cur).filter (fun nb => decide (nb ∉ vis ++ [cur]))).length ≤ k :=
          Nat.le_trans (List.length_filter_le _ _) (hk cur)
        apply componentLoop_total hk hN fuel _ _ hnd' hvU'
        · intro x hx
          rcases List.mem_append.1 hx with h1 | h1
          · exact hrestU x h1
          · exact hN cur hcurU x (List.mem_filter.1 h1).1
        · rw [StackOK.append]
          refine ⟨StackOK.transfer (fun u hu n hn hv => ?_) hokRest, StackOK.of_unvisited ?_⟩
          · rcases List.mem_append.1 hu with h1 | h1
            · have hv0 : n ∉ vis := fun h2 => hv (List.mem_append_left _ h2)
              by_cases hx : n ∈ [cur] ∨ False
              · simp only [List.mem_singleton, or_false] at hx
                subst hx; exact absurd (by simp) hv
              · exact Or.inr ⟨h1, hv0, hx⟩
            · simp only [List.mem_singleton] at h1; subst h1
              exact Or.inl (Or.inl (List.mem_filter.2 ⟨hn, by simpa using hv⟩))
          · intro u hu
            simpa using (List.mem_filter.1 hu).2
        · simp only [List.length_append, List.length_singleton] at hf hlen ⊢
          have e : U.length - vis.length = (U.length - (vis.length + 1)) + 1 := by omega
          rw [e, Nat.mul_add] at hf
          omega

theorem nreach_iff_reach {rows cols : Nat} {E : List Edge} (hwf : WF rows cols E) {c x : Cell} :
    NReach (coordNeighbors rows cols E) c x ↔ Reach E c x := by
  constructor
  · intro h
    induction h with
    | refl => exact .refl _
    | step _ hn ih => exact .step ih ((mem_coordNeighbors hwf).1 hn)
  · intro h
    induction h with
    | refl => exact .refl _
    | step _ hn ih => exact .step ih ((mem_coordNeighbors hwf).2 hn)

/-- `gen_connected_component_from(c)` returns, as a set, exactly the cells reachable from `c` — for every fuel that lets it return -/
theorem componentFrom_exact {rows cols : Nat} {E : List Edge} (hwf : WF rows cols E) {c : Cell} {fuel : Nat} {V : List Cell}
    (h : componentFrom rows cols E c fuel = some V) : (∀ x, x ∈ V ↔ Reach E c x) ∧ V.Nodup := by
  obtain ⟨h1, h2⟩ := componentLoop_exact fuel [c] [] V (CInv.init _ c) h
  exact ⟨fun x => (h1 x).trans (nreach_iff_reach hwf), h2⟩

/-- and it always returns within `5*rows*cols + 2` iterations (no hypothesis on `E`) -/
theorem componentFrom_total {rows cols : Nat} (E : List Edge) {c : Cell} (hc : inGrid rows cols c) {fuel : Nat}
    (hf : 5 * (rows * cols) + 2 ≤ fuel) : ∃ V, componentFrom rows cols E c fuel = some V := by
  apply componentLoop_total (N := coordNeighbors rows cols E) (U := cells rows cols) (k := 4)
    (coordNeighbors_length_le rows cols E)
    (fun u _ n hn => mem_cells.2 (mem_coordNeighbors'.1 hn).2.1)
    fuel [c] [] List.nodup_nil (by simp) (by simpa using mem_cells.2 hc)
    ⟨fun h => by simp at h, trivial⟩
  simp only [List.length_nil, Nat.sub_zero, length_cells, List.length_singleton]
  omega

end MZ
