import MazeVerif.Model.WilsonProbFast
import MazeVerif.Lemmas.WilsonProb
/-! The key-once iteration `distK` of `Model/WilsonProbFast.lean` carries the same probabilities as `dist`
    (EVERY machine, every key function, every start distribution, every number of draws): both equal the backward
    definition `val`/`unfin`. Consequently the table check evaluated on `lawK` IS the table check on `law`
    (`tableOKK_eq`), so a table closed by evaluating `tableOKK` is a `tableOK` fact like the others. -/
namespace MZ.WProb

variable {σ : Type} (M : Machine σ)

theorem expect_mergeK [DecidableEq σ] (f : σ → Rat) (key : σ → Nat) (d : List (σ × Rat)) :
    expect f (mergeK key d) = expect f d := by
  unfold mergeK
  rw [expect_combine]
  have hp : ((d.map fun x => (key x.1, x)).mergeSort fun a b => decide (a.1 ≤ b.1)).Perm
      (d.map fun x => (key x.1, x)) := List.mergeSort_perm _ _
  have hq := hp.map (fun kx : Nat × (σ × Rat) => kx.2)
  have e : (d.map fun x => (key x.1, x)).map (fun kx : Nat × (σ × Rat) => kx.2) = d := by
    rw [List.map_map]
    exact List.map_id' d
  rw [e] at hq
  exact expect_perm f hq

theorem expect_val_distK [DecidableEq σ] (tgt : σ → Bool) (key : σ → Nat) (d0 : List (σ × Rat)) :
    ∀ n k, expect (val M tgt (n + k)) d0 = expect (val M tgt k) (distK M key d0 n)
  | 0, k => by simp [distK]
  | n + 1, k => by
    have e : n + 1 + k = n + (k + 1) := by omega
    rw [e, expect_val_distK tgt key d0 n (k + 1), expect_val_push]
    simp only [distK]
    rw [expect_mergeK]

theorem expect_unfin_distK [DecidableEq σ] (key : σ → Nat) (d0 : List (σ × Rat)) :
    ∀ n k, expect (unfin M (n + k)) d0 = expect (unfin M k) (distK M key d0 n)
  | 0, k => by simp [distK]
  | n + 1, k => by
    have e : n + 1 + k = n + (k + 1) := by omega
    rw [e, expect_unfin_distK key d0 n (k + 1), expect_unfin_push]
    simp only [distK]
    rw [expect_mergeK]

theorem massFin_eqK [DecidableEq σ] (tgt : σ → Bool) (key : σ → Nat) (d0 : List (σ × Rat)) (n : Nat) :
    massFin M tgt (distK M key d0 n) = expect (val M tgt n) d0 := by
  have := expect_val_distK M tgt key d0 n 0
  simpa [massFin, val] using this.symm

theorem massUnfin_eqK [DecidableEq σ] (key : σ → Nat) (d0 : List (σ × Rat)) (n : Nat) :
    massUnfin M (distK M key d0 n) = expect (unfin M n) d0 := by
  have := expect_unfin_distK M key d0 n 0
  simpa [massUnfin, unfin] using this.symm

/-- the two iterations give every finished target the same mass ... -/
theorem massFin_lawK (rows cols n : Nat) (tgt : WStep.WS → Bool) :
    massFin (wilson rows cols) tgt (lawK rows cols n) = massFin (wilson rows cols) tgt (law rows cols n) := by
  unfold lawK law
  rw [massFin_eqK, massFin_eq]

/-- ... and the same unfinished mass -/
theorem massUnfin_lawK (rows cols n : Nat) :
    massUnfin (wilson rows cols) (lawK rows cols n) = massUnfin (wilson rows cols) (law rows cols n) := by
  unfold lawK law
  rw [massUnfin_eqK, massUnfin_eq]

/-- the table check on the key-once iteration is the table check of `Model/WilsonProb.lean` -/
theorem tableOKK_eq (rows cols n0 N : Nat) (eps : Rat) :
    tableOKK rows cols n0 N eps = tableOK rows cols n0 N eps := by
  unfold tableOKK tableOK
  simp only [massFin_lawK, massUnfin_lawK]

end MZ.WProb
