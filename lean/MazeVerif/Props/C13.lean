import MazeVerif.Lemmas.Views
import MazeVerif.Lemmas.Component
/-! # C13 — all graph queries on a maze agree with its connection structure

A maze is `m : Maze` = `rows`, `cols` and the list `E` of `True` entries `(dim,row,col)` of `connection_list`.
The single semantic notion of "connected neighbours" is `MZ.Adj m.E a b` (Model/Grid.lean; it mentions only stored
entries, not the storage rule). Hypotheses used:
* `InArr rows cols E` — every entry lies in the `[2,rows,cols]` array (what a numpy array is);
* `WF rows cols E` (Model/Grid.lean) — additionally no connection leaves the grid (last row of dim 0 / last column of
  dim 1 clear; what every generator emits, C01).
All theorems are unbounded: every grid size, every entry list, every cell / pair / path / flip vector / shuffle / solution.
Only property theorems and their non-vacuity examples live here; helpers are in Lemmas/Views.lean, Lemmas/Component.lean. -/
namespace MZ.Views
open MZ

/-! ## 1. nodes_connected -/

/-- `nodes_connected(a, b)` never raises and answers `Adj` — for an in-grid `a` and ANY `b` (equal, adjacent, distant,
    and — on a well-formed maze — also out of the grid, where numpy's negative-index wrap is harmless) -/
theorem C13_nodes_connected {m : Maze} {a b : Cell} (ha : inGrid m.rows m.cols a)
    (h : inGrid m.rows m.cols b ∨ WF m.rows m.cols m.E) :
    nodesConnected m a b = .ok (decide (Adj m.E a b)) :=
  nodesConnected_spec ha h

/-! ## 2. get_coord_neighbors -/

/-- the neighbour list of an in-grid cell is the four candidates `c + NEIGHBORS_MASK` (regenerated constant), in mask
    order, filtered by "in the grid and `Adj`" — no hypothesis on the connection structure -/
theorem C13_neighbors {m : Maze} {c : Cell} (hc : inGrid m.rows m.cols c) :
    getCoordNeighbors m c =
      .ok ((Gen.neighborsMask.map fun d => (c.1 + d.1, c.2 + d.2)).filter fun n =>
        decide (inGrid m.rows m.cols n) && decide (Adj m.E c n)) := by
  rw [getCoordNeighbors_spec hc, nbrs_eq_mask]

/-- on a well-formed maze the neighbour list is, as a duplicate-free list, exactly the `Adj`-neighbourhood -/
theorem C13_neighbors_mem {m : Maze} {c : Cell} (hc : inGrid m.rows m.cols c) (hwf : WF m.rows m.cols m.E) :
    ∃ L, getCoordNeighbors m c = .ok L ∧ L.Nodup ∧ ∀ b, b ∈ L ↔ Adj m.E c b := by
  refine ⟨_, getCoordNeighbors_spec hc, (nbrs_nodup c).sublist List.filter_sublist, fun b => ?_⟩
  simp only [List.mem_filter, Bool.and_eq_true, decide_eq_true_eq]
  exact ⟨fun h => h.2.2, fun h => ⟨adj_nbrs h, (adj_inGrid hwf h).2, h⟩⟩

/-! ## 3. coord_degrees -/

/-- the shifted-sum formula counts the `Adj`-neighbours among the four candidates (any array content) -/
theorem C13_degrees_formula {m : Maze} (h : InArr m.rows m.cols m.E) {i j : Nat} (hi : i < m.rows) (hj : j < m.cols) :
    ((coordDegrees m)[i]?.bind (·[j]?)) =
      some ((nbrs ((i : Int), (j : Int))).filter fun n => decide (Adj m.E ((i : Int), (j : Int)) n)).length := by
  rw [coordDegrees_get hi hj, degreeAt_spec h]

/-- on a well-formed maze `coord_degrees()[i,j]` is the length of `get_coord_neighbors((i,j))` -/
theorem C13_degrees {m : Maze} (hwf : WF m.rows m.cols m.E) {i j : Nat} (hi : i < m.rows) (hj : j < m.cols) :
    ∃ L, getCoordNeighbors m ((i : Int), (j : Int)) = .ok L ∧ ((coordDegrees m)[i]?.bind (·[j]?)) = some L.length := by
  have hc : inGrid m.rows m.cols ((i : Int), (j : Int)) := by simp only [inGrid]; omega
  refine ⟨_, getCoordNeighbors_spec hc, ?_⟩
  rw [C13_degrees_formula (WF.inArr hwf) hi hj]
  congr 2
  apply List.filter_congr
  intro n _
  by_cases hadj : Adj m.E ((i : Int), (j : Int)) n
  · simp only [hadj, decide_true, (adj_inGrid hwf hadj).2, Bool.and_self]
  · simp only [hadj, decide_false, Bool.and_false]

/-! ## 4. gen_connected_component_from (shared model `MZ.componentFrom`, Model/Component.lean) -/

/-- the shared neighbour model of Model/Component.lean is the same list as this file's `getCoordNeighbors` -/
theorem C13_neighbors_shared_model {m : Maze} {c : Cell} (hc : inGrid m.rows m.cols c) :
    getCoordNeighbors m c = .ok (coordNeighbors m.rows m.cols m.E c) := by
  rw [getCoordNeighbors_spec hc, coordNeighbors_eq]

/-- whatever fuel lets the stack search return: it returns, as a duplicate-free list, exactly the cells reachable from `c` -/
theorem C13_component {rows cols : Nat} {E : List Edge} (hwf : WF rows cols E) {c : Cell} {fuel : Nat} {V : List Cell}
    (h : componentFrom rows cols E c fuel = some V) : (∀ x, x ∈ V ↔ Reach E c x) ∧ V.Nodup :=
  componentFrom_exact hwf h

/-- and `5*rows*cols + 2` loop iterations always suffice (duplicates on the stack included) -/
theorem C13_component_total {rows cols : Nat} (E : List Edge) {c : Cell} (hc : inGrid rows cols c) {fuel : Nat}
    (hf : componentFuel rows cols ≤ fuel) : ∃ V, componentFrom rows cols E c fuel = some V :=
  componentFrom_total E hc hf

/-! ## 5. is_valid_path -/

/-- `is_valid_path` never raises; it is True exactly for the empty path with `empty_is_valid`, or a non-empty path inside the
    grid whose consecutive cells are `Adj` (so: broken step, repeated cell, jump, out of bounds ⇒ False) -/
theorem C13_valid_path (m : Maze) (p : List Cell) (e : Bool) :
    ∃ r, isValidPath m p e = .ok r ∧
      (r = true ↔ (p = [] ∧ e = true) ∨ (p ≠ [] ∧ (∀ c ∈ p, inGrid m.rows m.cols c) ∧ AdjChain m.E p)) :=
  isValidPath_spec m p e

/-! ## 6. get_nodes -/

/-- `get_nodes()` is the row-major list of all cells: every cell of the grid exactly once -/
theorem C13_nodes (m : Maze) :
    getNodes m = cells m.rows m.cols ∧ (getNodes m).Nodup ∧ (getNodes m).length = m.rows * m.cols ∧
      ∀ c, c ∈ getNodes m ↔ inGrid m.rows m.cols c := by
  rw [getNodes_eq_cells]
  exact ⟨rfl, cells_nodup _ _, length_cells _ _, fun c => mem_cells⟩

/-! ## 7. as_adj_list / connection_list_to_adj_list -/

/-- every flip vector, every final shuffle (`out` any permutation of the pre-shuffle list): each listed pair is a connection,
    and each connection is listed exactly once, in exactly one of its two orientations -/
theorem C13_adj_list {m : Maze} (h : InArr m.rows m.cols m.E) (flips : List Bool) {out : List (Cell × Cell)}
    (hperm : out.Perm (asAdjList m flips)) :
    (∀ p ∈ out, Adj m.E p.1 p.2) ∧ (∀ a b, Adj m.E a b → out.count (a, b) + out.count (b, a) = 1) :=
  asAdjList_spec h flips hperm

/-- unshuffled: the entries in `np.ndindex` order, without duplicates, smaller coordinate first -/
theorem C13_adj_list_unshuffled (m : Maze) :
    asAdjList m [] = (trueEntries m).map pairOf ∧ (asAdjList m []).Nodup ∧
      ∀ p ∈ asAdjList m [], p.2 = (p.1.1 + 1, p.1.2) ∨ p.2 = (p.1.1, p.1.2 + 1) := by
  rw [asAdjList_unshuffled]
  exact ⟨rfl, canonical_nodup m, fun p hp => canonical_oriented hp⟩

/-! ## 8. is_connection -/

/-- the batch edge test on lattice edges of the grid, either orientation: never raises, answers `Adj` edge by edge
    (on non-adjacent pairs the code — and the model — can answer True: `np.sort(axis=1)` quirk, outside the claim) -/
theorem C13_is_connection {m : Maze} {edges : List (Cell × Cell)}
    (h : ∀ p ∈ edges, inGrid m.rows m.cols p.1 ∧ inGrid m.rows m.cols p.2 ∧ p.2 ∈ nbrs p.1) :
    isConnection m edges = .ok (edges.map fun p => decide (Adj m.E p.1 p.2)) :=
  isConnection_spec h

/-! ## 9. from_adj_list -/

/-- rebuilding from the adjacency list (any flips, any shuffle) gives the same size and the same set of `True` entries,
    for a square well-formed maze whose highest index occurs in some connection -/
theorem C13_from_adj_list {n : Nat} {E : List Edge} (hwf : WF n n E) (hmax : MaxIndexOccurs n E) (flips : List Bool)
    {out : List (Cell × Cell)} (hperm : out.Perm (asAdjList ⟨n, n, E⟩ flips)) :
    ∃ m', fromAdjList out = .ok m' ∧ m'.rows = n ∧ m'.cols = n ∧ ∀ e, e ∈ m'.E ↔ e ∈ E :=
  fromAdjList_spec hwf hmax flips hperm

/-! ## 10. lattice_connection_array -/

/-- all lattice edges of the `n × n` grid, smaller coordinate first, each exactly once: `2n(n-1)` of them -/
theorem C13_lattice_edges (n : Nat) :
    (∀ a b, (a, b) ∈ latticeConnectionArray n ↔
        inGrid n n a ∧ inGrid n n b ∧ (b = (a.1, a.2 + 1) ∨ b = (a.1 + 1, a.2))) ∧
      (latticeConnectionArray n).Nodup ∧ (latticeConnectionArray n).length = 2 * (n * (n - 1)) :=
  ⟨fun _ _ => mem_latticeConnectionArray, latticeConnectionArray_nodup n, length_latticeConnectionArray n⟩

/-! ## 11. manhattan_distance -/

theorem C13_manhattan (a b c : Cell) :
    (manhattan a b = 1 ↔ b ∈ nbrs a) ∧ (manhattan a b = 0 ↔ a = b) ∧ manhattan a b = manhattan b a ∧
      manhattan a c ≤ manhattan a b + manhattan b c ∧ (∀ E, Adj E a b → manhattan a b = 1) :=
  ⟨manhattan_eq_one, manhattan_eq_zero, manhattan_comm a b, manhattan_triangle a b c,
    fun _ h => manhattan_eq_one.2 (adj_nbrs h)⟩

/-! ## 12. lattice_max_degrees -/

/-- for `n ≥ 2` the table entry is the number of in-grid lattice neighbours; for every `n` it bounds that number
    (for `n = 1` the code says 2 where the true maximum is 0) and hence every degree of a well-formed `n × n` maze -/
theorem C13_max_degrees {n i j : Nat} (hi : i < n) (hj : j < n) :
    ((latticeMaxDegrees n)[i]?.bind (·[j]?)) = some (maxDegreeAt n i j) ∧
      (2 ≤ n → maxDegreeAt n i j = gridNbrCount n ((i : Int), (j : Int))) ∧
      (∀ E, WF n n E → degreeAt ⟨n, n, E⟩ i j ≤ maxDegreeAt n i j) := by
  refine ⟨by simp [latticeMaxDegrees, hi, hj], fun hn => maxDegreeAt_spec hn hi hj, fun E hwf => ?_⟩
  exact Nat.le_trans (degreeAt_le_grid hwf i j) (maxDegreeAt_ge hi hj)

/-! ## 13. forking points / path-following points -/

/-- both calls succeed on an in-grid solution; index `i` is a forking point exactly when the cell has more than one onward
    choice (`nbrCount > 1` at the two ends, `> 2` inside) or is a forced endpoint; the path-following points are exactly the
    other indices -/
theorem C13_forks_rule {m : Maze} {sol : List Cell} (h : ∀ c ∈ sol, inGrid m.rows m.cols c) (always : Bool) :
    ∃ f g, forkIdxs m sol always = .ok f ∧ followingIdxs m sol = .ok g ∧
      (∀ i, i ∈ f ↔ ∃ c, sol[i]? = some c ∧ isFork m sol.length always i c = true) ∧
      (∀ i, i ∈ g ↔ ∃ c, sol[i]? = some c ∧ isFork m sol.length false i c = false) ∧
      f.Nodup ∧ g.Nodup :=
  forks_spec h always

/-- forks ++ following is a permutation of all indices of the solution: disjoint, nothing lost, nothing repeated -/
theorem C13_forks_partition {m : Maze} {sol : List Cell} (h : ∀ c ∈ sol, inGrid m.rows m.cols c) :
    ∃ f g, forkIdxs m sol false = .ok f ∧ followingIdxs m sol = .ok g ∧ (f ++ g).Perm (List.range sol.length) :=
  forks_partition h

/-- `nbrCount` (used in the fork rule) is the length of `get_coord_neighbors` -/
theorem C13_nbrCount {m : Maze} {c : Cell} (hc : inGrid m.rows m.cols c) :
    ∃ L, getCoordNeighbors m c = .ok L ∧ nbrCount m c = L.length :=
  ⟨_, getCoordNeighbors_spec hc, rfl⟩

/-! ## The full statement -/

/-- C13 in one proposition: every view, every maze, every argument. Proved below (`C13_full_holds`); nothing is partial. -/
def C13_full : Prop :=
  (∀ (m : Maze) (a b : Cell), inGrid m.rows m.cols a → (inGrid m.rows m.cols b ∨ WF m.rows m.cols m.E) →
      nodesConnected m a b = .ok (decide (Adj m.E a b))) ∧
  (∀ (m : Maze) (c : Cell), inGrid m.rows m.cols c → WF m.rows m.cols m.E →
      ∃ L, getCoordNeighbors m c = .ok L ∧ L.Nodup ∧ ∀ b, b ∈ L ↔ Adj m.E c b) ∧
  (∀ (m : Maze) (i j : Nat), WF m.rows m.cols m.E → i < m.rows → j < m.cols →
      ∃ L, getCoordNeighbors m ((i : Int), (j : Int)) = .ok L ∧ ((coordDegrees m)[i]?.bind (·[j]?)) = some L.length) ∧
  (∀ (rows cols : Nat) (E : List Edge) (c : Cell), WF rows cols E → inGrid rows cols c →
      ∃ V, componentFrom rows cols E c (componentFuel rows cols) = some V ∧ V.Nodup ∧ ∀ x, x ∈ V ↔ Reach E c x) ∧
  (∀ (m : Maze) (p : List Cell) (e : Bool), ∃ r, isValidPath m p e = .ok r ∧
      (r = true ↔ (p = [] ∧ e = true) ∨ (p ≠ [] ∧ (∀ c ∈ p, inGrid m.rows m.cols c) ∧ AdjChain m.E p))) ∧
  (∀ (m : Maze), (getNodes m).Nodup ∧ ∀ c, c ∈ getNodes m ↔ inGrid m.rows m.cols c) ∧
  (∀ (m : Maze) (flips : List Bool) (out : List (Cell × Cell)), InArr m.rows m.cols m.E → out.Perm (asAdjList m flips) →
      (∀ p ∈ out, Adj m.E p.1 p.2) ∧ (∀ a b, Adj m.E a b → out.count (a, b) + out.count (b, a) = 1)) ∧
  (∀ (m : Maze) (edges : List (Cell × Cell)),
      (∀ p ∈ edges, inGrid m.rows m.cols p.1 ∧ inGrid m.rows m.cols p.2 ∧ p.2 ∈ nbrs p.1) →
      isConnection m edges = .ok (edges.map fun p => decide (Adj m.E p.1 p.2))) ∧
  (∀ (n : Nat) (E : List Edge) (flips : List Bool) (out : List (Cell × Cell)), WF n n E → MaxIndexOccurs n E →
      out.Perm (asAdjList ⟨n, n, E⟩ flips) →
      ∃ m', fromAdjList out = .ok m' ∧ m'.rows = n ∧ m'.cols = n ∧ ∀ e, e ∈ m'.E ↔ e ∈ E) ∧
  (∀ (m : Maze) (sol : List Cell), (∀ c ∈ sol, inGrid m.rows m.cols c) →
      ∃ f g, forkIdxs m sol false = .ok f ∧ followingIdxs m sol = .ok g ∧ (f ++ g).Perm (List.range sol.length) ∧
        ∀ i, i ∈ f ↔ ∃ c, sol[i]? = some c ∧ isFork m sol.length false i c = true)

theorem C13_full_holds : C13_full := by
  refine ⟨fun m a b ha h => C13_nodes_connected ha h, fun m c hc hwf => C13_neighbors_mem hc hwf,
    fun m i j hwf hi hj => C13_degrees hwf hi hj, ?_, C13_valid_path, fun m => ⟨(C13_nodes m).2.1, (C13_nodes m).2.2.2⟩,
    fun m flips out h hp => C13_adj_list h flips hp, fun m edges h => C13_is_connection h,
    fun n E flips out hwf hmax hp => C13_from_adj_list hwf hmax flips hp, ?_⟩
  · intro rows cols E c hwf hc
    obtain ⟨V, hV⟩ := C13_component_total E hc (Nat.le_refl _)
    exact ⟨V, hV, (C13_component hwf hV).2, (C13_component hwf hV).1⟩
  · intro m sol h
    obtain ⟨f, g, hf, hg, mf, _, nf, ng⟩ := C13_forks_rule h false
    obtain ⟨f', g', hf', hg', hp⟩ := C13_forks_partition h
    rw [hf] at hf'; rw [hg] at hg'
    cases hf'; cases hg'
    exact ⟨f, g, hf, hg, hp, mf⟩

/-! ## Non-vacuity: a concrete 2×3 maze  (0,0)-(1,0), (0,0)-(0,1)-(0,2)-(1,2), (1,0)-(1,1)  exercises every hypothesis -/

def m0 : Maze := ⟨2, 3, [(0, 0, 0), (0, 0, 2), (1, 0, 0), (1, 0, 1), (1, 1, 0)]⟩
/-- a square maze in which the highest index occurs -/
def m1 : Maze := ⟨2, 2, [(0, 0, 1), (1, 0, 0)]⟩

example : WF m0.rows m0.cols m0.E ∧ InArr m0.rows m0.cols m0.E := ⟨by decide, WF.inArr (by decide)⟩
example : nodesConnected m0 (0, 0) (1, 0) = .ok true ∧ nodesConnected m0 (0, 1) (1, 1) = .ok false ∧
    nodesConnected m0 (0, 0) (0, -1) = .ok false ∧ Adj m0.E (0, 0) (1, 0) := by decide
example : getCoordNeighbors m0 (0, 0) = .ok [(0, 1), (1, 0)] := by decide
example : coordDegrees m0 = [[2, 2, 2], [2, 1, 1]] := by decide
example : componentFrom 2 3 m0.E (1, 1) (componentFuel 2 3) = some [(1, 1), (1, 0), (0, 0), (0, 1), (0, 2), (1, 2)] := by decide
example : isValidPath m0 [(1, 1), (1, 0), (0, 0)] false = .ok true ∧ isValidPath m0 [(1, 1), (0, 1)] false = .ok false ∧
    isValidPath m0 [] true = .ok true ∧ isValidPath m0 [(0, 0), (0, -1)] false = .ok false := by decide
example : getNodes m0 = [(0, 0), (0, 1), (0, 2), (1, 0), (1, 1), (1, 2)] := by decide
example : asAdjList m0 [false, true] = [((0, 0), (1, 0)), ((1, 2), (0, 2)), ((0, 0), (0, 1)), ((0, 1), (0, 2)), ((1, 0), (1, 1))] := by decide
example : isConnection m0 [((1, 0), (0, 0)), ((0, 1), (1, 1))] = .ok [true, false] := by decide
example : WF 2 2 m1.E ∧ MaxIndexOccurs 2 m1.E := ⟨by decide, ⟨(0, 0, 1), by decide, by decide⟩⟩
example : (fromAdjList (asAdjList m1 [true, false])).map (fun r => (r.rows, r.E)) = .ok (2, [(0, 0, 1), (1, 0, 0)]) := by decide
example : latticeConnectionArray 2 = [((0, 0), (0, 1)), ((1, 0), (1, 1)), ((0, 0), (1, 0)), ((0, 1), (1, 1))] := by decide
example : manhattan (0, 0) (2, -3) = 5 := by decide
example : latticeMaxDegrees 3 = [[2, 3, 2], [3, 4, 3], [2, 3, 2]] ∧ latticeMaxDegrees 1 = [[2]] := by decide
/-- a T-junction at (0,1) -/
def m2 : Maze := ⟨2, 3, [(0, 0, 1), (1, 0, 0), (1, 0, 1)]⟩
example : forkIdxs m2 [(0, 0), (0, 1), (0, 2)] false = .ok [1] ∧ followingIdxs m2 [(0, 0), (0, 1), (0, 2)] = .ok [0, 2] ∧
    forkIdxs m2 [(0, 0), (0, 1), (0, 2)] true = .ok [0, 1, 2] ∧
    forkIdxs m0 [(1, 1), (1, 0), (0, 0), (0, 1)] false = .ok [3] ∧ followingIdxs m0 [(1, 1), (1, 0), (0, 0), (0, 1)] = .ok [0, 1, 2] := by decide

end MZ.Views
