import MazeVerif.Model.Grid
/-! Model of maze objects as values (C09): `LatticeMaze.__eq__` / `__ne__` / `__hash__`
    (lattice_maze.py:164-177), `SolvedMaze.__hash__` (lattice_maze.py:1185-1193),
    `TargetedLatticeMaze.__post_init__` (lattice_maze.py:1066-1090), `SolvedMaze.__init__`
    (lattice_maze.py:1141-1183) and `MazeDataset.__eq__` (maze_dataset.py:276-280). Core Lean only.

    An ndarray is `(dtype, shape, C-order values)`; `bool` entries are 0/1. Exceptions are values. -/
namespace MZ.MV

inductive Err | ValueError | AssertionError | IndexError | TypeError
  deriving DecidableEq, Repr

/-- numpy array: dtype tag (storage only), shape, values in C order -/
structure Arr where
  dtype : String
  shape : List Nat
  data : List Int
  deriving DecidableEq, Repr

/-- `np.array(list_of_ints)`: 1-D int64 array -/
def arr1 (l : List Int) : Arr := { dtype := "int64", shape := [l.length], data := l }

/-- `np.array_equal(a1, a2)`: `a1.shape == a2.shape and bool((a1 == a2).all())` — values, never dtype -/
def arrayEqual (a b : Arr) : Bool := a.shape == b.shape && a.data == b.data

/-- what comparing one dataclass field yields: a Python bool or an ndarray -/
inductive PyB
  | bool (b : Bool)
  | arr (a : Arr)
  deriving Repr

/-- `bool(x)`: an array with more than one element has no truth value (ValueError) -/
def truth : PyB → Except Err Bool
  | .bool b => .ok b
  | .arr a => match a.data with
    | [] => .ok false
    | [v] => .ok (v != 0)
    | _ :: _ :: _ => .error .ValueError

/-- the comparator of the repaired code: `np.array_equal(getattr(self,f), getattr(other,f))` -/
def cmpArrayEqual (a b : Arr) : PyB := .bool (arrayEqual a b)

/-- the comparator of the dataclass-generated `__eq__` (tuple comparison → `ndarray == ndarray`, elementwise);
    kept only to show what `C09_eq_total` excludes (defect F1) -/
def cmpElementwise (a b : Arr) : PyB :=
  if a.shape == b.shape then
    .arr { dtype := "bool", shape := a.shape, data := List.zipWith (fun x y => if x = y then 1 else 0) a.data b.data }
  else .bool false

inductive Kind | lattice | targeted | solved
  deriving DecidableEq, Repr

/-- the three maze classes; `gmeta` is `generation_meta` (field declared `compare=False`) -/
inductive Maze
  | lattice (conn : Arr) (gmeta : String)
  | targeted (conn start end_ : Arr) (gmeta : String)
  | solved (conn start end_ sol : Arr) (gmeta : String)
  deriving DecidableEq, Repr

def Maze.kind : Maze → Kind
  | .lattice .. => .lattice
  | .targeted .. => .targeted
  | .solved .. => .solved

/-- `[getattr(m, f.name) for f in dataclasses.fields(m) if f.compare]` — declaration order
    `connection_list, (generation_meta: compare=False), start_pos, end_pos, solution` -/
def Maze.cmpFields : Maze → List Arr
  | .lattice c _ => [c]
  | .targeted c s e _ => [c, s, e]
  | .solved c s e sol _ => [c, s, e, sol]

/-- `all(generator)`: stops at the first falsy item; an exception raised while producing an item propagates -/
def pyAll : List (Except Err Bool) → Except Err Bool
  | [] => .ok true
  | .error e :: _ => .error e
  | .ok false :: _ => .ok false
  | .ok true :: xs => pyAll xs

/-- result of a rich-comparison method -/
inductive EqRes
  | notImplemented
  | val (b : Bool)
  deriving DecidableEq, Repr

/-- `LatticeMaze.__eq__(self, other)` for `other` a maze (subclasses inherit it):
    `if other.__class__ is not self.__class__: return NotImplemented`, then `all(cmp(field) ...)` -/
def eqMethod (cmp : Arr → Arr → PyB) (a b : Maze) : Except Err EqRes :=
  if a.kind ≠ b.kind then .ok .notImplemented
  else match pyAll ((List.zip a.cmpFields b.cmpFields).map fun xy => truth (cmp xy.1 xy.2)) with
    | .ok v => .ok (.val v)
    | .error e => .error e

/-- `object.__ne__`: inverts `__eq__` unless that is NotImplemented -/
def neMethod (cmp : Arr → Arr → PyB) (a b : Maze) : Except Err EqRes :=
  match eqMethod cmp a b with
  | .ok (.val v) => .ok (.val (!v))
  | .ok .notImplemented => .ok .notImplemented
  | .error e => .error e

/-- the expression `a == b`: `a.__eq__(b)`, if NotImplemented the reflected `b.__eq__(a)`, if still
    NotImplemented identity — `False` here because objects of different classes are different objects -/
def pyEq (cmp : Arr → Arr → PyB) (a b : Maze) : Except Err Bool :=
  match eqMethod cmp a b with
  | .error e => .error e
  | .ok (.val v) => .ok v
  | .ok .notImplemented => match eqMethod cmp b a with
    | .error e => .error e
    | .ok (.val v) => .ok v
    | .ok .notImplemented => .ok false

/-- the expression `a != b` (same protocol, default `is not` → `True`) -/
def pyNe (cmp : Arr → Arr → PyB) (a b : Maze) : Except Err Bool :=
  match neMethod cmp a b with
  | .error e => .error e
  | .ok (.val v) => .ok v
  | .ok .notImplemented => match neMethod cmp b a with
    | .error e => .error e
    | .ok (.val v) => .ok v
    | .ok .notImplemented => .ok true

/-- `maze == x` for `x` not a maze (int, None, str …): NotImplemented both ways → identity → False -/
def pyEqForeign : Bool := false

/-! ### hashing -/

/-- `np.asarray(a, dtype=np.bool_).tobytes()`: one byte per entry, 1 iff the value is non-zero -/
def boolBytes (a : Arr) : List Nat := a.data.map fun v => if v = 0 then 0 else 1

/-- little-endian two's-complement bytes of one int64 -/
def int64Bytes (v : Int) : List Nat := (List.range 8).map fun k => ((v % 18446744073709551616) / (256 : Int) ^ k % 256).toNat

/-- `np.asarray(a, dtype=np.int64).tobytes()` -/
def i64Bytes (a : Arr) : List Nat := a.data.flatMap int64Bytes

/-- the object handed to the builtin `hash`: a `bytes` or a pair of `bytes` -/
inductive HashKey
  | one (b : List Nat)
  | pair (b1 b2 : List Nat)
  deriving DecidableEq, Repr

/-- `LatticeMaze.__hash__` (inherited by `TargetedLatticeMaze`) and `SolvedMaze.__hash__` -/
def hashKey : Maze → HashKey
  | .lattice c _ => .one (boolBytes c)
  | .targeted c _ _ _ => .one (boolBytes c)
  | .solved c _ _ sol _ => .pair (boolBytes c) (i64Bytes sol)

/-- `hash(m)` with the builtin hash of bytes/tuples as a parameter -/
def hashOf {η} (H : HashKey → η) (m : Maze) : η := H (hashKey m)

/-! ### constructors -/

def idx {α} (l : List α) (i : Nat) : Except Err α :=
  match l[i]? with
  | some x => .ok x
  | none => .error .IndexError

/-- the disjunction of `__post_init__`:
    `p[0] >= gs[0] or p[1] >= gs[1] or p[0] < 0 or p[1] < 0` (short-circuit; missing index → IndexError) -/
def outOfBounds (gs : List Nat) (p : List Int) : Except Err Bool :=
  match idx p 0 with
  | .error e => .error e
  | .ok p0 => match idx gs 0 with
    | .error e => .error e
    | .ok g0 =>
      if p0 ≥ (g0 : Int) then .ok true else
      match idx p 1 with
      | .error e => .error e
      | .ok p1 => match idx gs 1 with
        | .error e => .error e
        | .ok g1 =>
          if p1 ≥ (g1 : Int) then .ok true else
          if p0 < 0 then .ok true else .ok (decide (p1 < 0))

/-- `grid_shape = connection_list.shape[1:]` -/
def gridShape (conn : Arr) : List Nat := conn.shape.drop 1

/-- `TargetedLatticeMaze(connection_list=conn, start_pos=start, end_pos=end_, generation_meta=gmeta)`:
    dataclass `__init__` then `__post_init__` -/
def mkTargeted (conn : Arr) (start end_ : List Int) (gmeta : String) : Except Err Maze :=
  match outOfBounds (gridShape conn) start with
  | .error e => .error e
  | .ok true => .error .ValueError
  | .ok false => match outOfBounds (gridShape conn) end_ with
    | .error e => .error e
    | .ok true => .error .ValueError
    | .ok false => .ok (.targeted conn (arr1 start) (arr1 end_) gmeta)

/-- `(solution.shape[0] > 0) and (solution.shape[1] == 2)` -/
def solutionValid (sol : Arr) : Except Err Bool :=
  match idx sol.shape 0 with
  | .error e => .error e
  | .ok n => if n > 0 then (match idx sol.shape 1 with
      | .error e => .error e
      | .ok k => .ok (k == 2)) else .ok false

/-- first / last row of a 2-D `[n,2]` array -/
def firstRow (sol : Arr) : List Int := sol.data.take 2
def lastRow (sol : Arr) : List Int := sol.data.drop (sol.data.length - 2)

/-- `assert np.array_equal(np.array(given), self.start_pos)` when `given is not None` -/
def assertMatches (given : Option (List Int)) (actual : List Int) : Except Err Unit :=
  match given with
  | none => .ok ()
  | some g => if g = actual then .ok () else .error .AssertionError

/-- `SolvedMaze(connection_list, solution, generation_meta, start_pos, end_pos, allow_invalid)` with
    `sol = np.array(solution)` -/
def mkSolved (conn sol : Arr) (gmeta : String) (startArg endArg : Option (List Int)) (allowInvalid : Bool) :
    Except Err Maze :=
  match solutionValid sol with
  | .error e => .error e
  | .ok false => if allowInvalid then .error .IndexError   -- `np.array(None)[0]` in `__post_init__`
                 else .error .ValueError
  | .ok true =>
    match mkTargeted conn (firstRow sol) (lastRow sol) gmeta with
    | .error e => .error e
    | .ok _ =>
      let m := Maze.solved conn { (arr1 (firstRow sol)) with dtype := sol.dtype } { (arr1 (lastRow sol)) with dtype := sol.dtype } sol gmeta
      if allowInvalid then .ok m else
      match assertMatches startArg (firstRow sol) with
      | .error e => .error e
      | .ok _ => match assertMatches endArg (lastRow sol) with
        | .error e => .error e
        | .ok _ => .ok m

/-! ### datasets -/

/-- Python `list.__eq__`: different lengths → False; otherwise the first pair with `not (x == y)` decides -/
def listEq (cmp : Arr → Arr → PyB) (l1 l2 : List Maze) : Except Err Bool :=
  if l1.length ≠ l2.length then .ok false
  else pyAll ((List.zip l1 l2).map fun xy => pyEq cmp xy.1 xy.2)

/-- a dataset: configuration (any type with its own `==`) and maze list -/
structure DS (κ : Type) where
  cfg : κ
  mazes : List Maze

/-- `MazeDataset.__eq__(self, other)` for `other` a MazeDataset: `self.cfg == other.cfg and self.mazes == other.mazes` -/
def dsEq {κ} (cmp : Arr → Arr → PyB) (cfgEq : κ → κ → Bool) (a b : DS κ) : Except Err Bool :=
  if cfgEq a.cfg b.cfg then listEq cmp a.mazes b.mazes else .ok false

/-! ### de-duplication through a hash container (CPython set/dict lookup: same hash, then `==`) -/

instance instDecEqExcept {α} [DecidableEq α] : DecidableEq (Except Err α)
  | .ok a, .ok b => if h : a = b then isTrue (by rw [h]) else isFalse (fun h' => h (by injection h'))
  | .error a, .error b => if h : a = b then isTrue (by rw [h]) else isFalse (fun h' => h (by injection h'))
  | .ok _, .error _ => isFalse (fun h => by cases h)
  | .error _, .ok _ => isFalse (fun h => by cases h)

/-- `set.add` / `dict.setdefault`: insert unless an equal element with the same hash is present -/
def setAdd {η} [DecidableEq η] (H : HashKey → η) (s : List Maze) (m : Maze) : List Maze :=
  if s.any (fun x => decide (hashOf H x = hashOf H m) && decide (pyEq cmpArrayEqual x m = .ok true)) then s else s ++ [m]

/-- `list(dict.fromkeys(mazes))` / `set(mazes)` in insertion order -/
def dedupe {η} [DecidableEq η] (H : HashKey → η) (ms : List Maze) : List Maze := ms.foldl (setAdd H) []

end MZ.MV
