import MazeVerif.Model.Dfs
import MazeVerif.Model.Wilson
import MazeVerif.Model.Component
/-! Top-level generator models (generators.py:21-48, 200-386): random start coordinate, `gen_prim` alias,
    percolation, dfs+percolation, and the `generation_meta` each generator attaches. Core only.
    Random numbers are explicit: `draws : List Nat` in call order (numpy and python draws interleaved as the code
    makes them), percolation thresholds as exact dyadic rationals `(numerator, denominator)`. -/
namespace MZ

/-- `_random_start_coord(grid_shape, None)`: `np.random.randint(0, np.maximum(grid_shape - 1, 1), size=2)` -/
def randomStart (rows cols : Nat) (draws : List Nat) : Option (Cell × List Nat) :=
  match draws with
  | a :: b :: rest =>
    if a < max (rows - 1) 1 ∧ b < max (cols - 1) 1 then some ((((a : Nat) : Int), ((b : Nat) : Int)), rest) else none
  | _ => none

/-- `_random_start_coord(grid_shape, start_coord)` (generators.py:21-40): a given start is used as it is when it lies
    inside the grid and is REJECTED otherwise (`none` = the `ValueError("start_coord … is outside the grid …")` branch;
    no draw is consumed); without a given start two numbers are drawn. -/
def startCoord (rows cols : Nat) (given : Option Cell) (draws : List Nat) : Option (Cell × List Nat) :=
  match given with
  | some c => if inGrid rows cols c then some (c, draws) else none
  | none => randomStart rows cols draws

/-- the given start coordinate is one the repaired `_random_start_coord` raises `ValueError` for -/
def StartRejected (rows cols : Nat) (given : Option Cell) : Prop :=
  ∃ c, given = some c ∧ ¬ inGrid rows cols c

instance : Decidable (StartRejected rows cols given) :=
  match given with
  | none => isFalse (by rintro ⟨c, h, _⟩; cases h)
  | some c =>
    if h : inGrid rows cols c then isFalse (by rintro ⟨c', h', hn⟩; cases h'; exact hn h)
    else isTrue ⟨c, rfl, h⟩

/-- what `gen_dfs` returns: connection bits + the `generation_meta` fields that depend on the run -/
structure DfsOut where
  edges : List Edge
  start : Cell
  visited : List Cell
  fullyConnected : Bool
  leftover : List Nat

def genDfsTop (rows cols : Nat) (a : Args) (given : Option Cell) (draws : List Nat) (fuel : Nat) : Option DfsOut :=
  match startCoord rows cols given draws with
  | none => none
  | some (start, d1) =>
    match genDfs rows cols a start d1 fuel with
    | none => none
    | some s => some { edges := s.edges, start := start, visited := s.visited,
                       fullyConnected := decide (s.visited.length = rows * cols), leftover := s.rng }

/-- `gen_prim` is `gen_dfs` with `randomized_stack=True` (generators.py:200-220) -/
def genPrimTop (rows cols : Nat) (a : Args) (given : Option Cell) (draws : List Nat) (fuel : Nat) : Option DfsOut :=
  genDfsTop rows cols { a with randStack := true } given draws fuel

/-- `gen_wilson`: random start, then the outer loop -/
def genWilsonTop (rows cols : Nat) (draws : List Nat) (fuel : Nat) : Option WSt :=
  match randomStart rows cols draws with
  | none => none
  | some (start, d1) => genWilson rows cols start d1 fuel

/-- index order of a `(2, rows, cols)` array (`np.random.rand(2, rows, cols)` is consumed in this order) -/
def allSlots (rows cols : Nat) : List Edge :=
  [0, 1].flatMap fun d => (cells rows cols).map fun c => (d, c.1, c.2)

/-- `_fill_edges_with_walls`: clear the last row of dim 0 and the last column of dim 1 -/
def keepSlot (rows cols : Nat) (e : Edge) : Bool :=
  if e.1 = 0 then decide (e.2.1 + 1 < rows) else decide (e.2.2 + 1 < cols)

/-- `np.random.rand(...) < p` with exact rationals: `r < p` iff `r.num * p.den < p.num * r.den` -/
def below (r p : Nat × Nat) : Bool := decide (r.1 * p.2 < p.1 * r.2)

/-- the percolated, wall-filled array as its list of `True` slots (in array order) -/
def percolate (rows cols : Nat) (p : Nat × Nat) (rands : List (Nat × Nat)) : Option (List Edge) :=
  if rands.length = 2 * rows * cols then
    some ((((allSlots rows cols).zip rands).filter fun er => below er.2 p && keepSlot rows cols er.1).map (·.1))
  else none

structure PercOut where
  edges : List Edge
  start : Cell
  visited : List Cell      -- `gen_connected_component_from(start_coord)` (compared as a set)

/-- `gen_percolation` (generators.py:307-346): start first, then the random array -/
def genPercolationTop (rows cols : Nat) (p : Nat × Nat) (given : Option Cell) (draws : List Nat)
    (rands : List (Nat × Nat)) (fuel : Nat) : Option PercOut :=
  match startCoord rows cols given draws with
  | none => none
  | some (start, _) =>
    match percolate rows cols p rands with
    | none => none
    | some E =>
      match componentFrom rows cols E start fuel with
      | none => none
      | some vis => some { edges := E, start := start, visited := vis }

structure DfsPercOut where
  edges : List Edge
  start : Cell
  visited : List Cell
  fullyConnected : Bool
  dfsEdges : List Edge

/-- `gen_dfs_percolation` (generators.py:348-386): start, dfs from it, `logical_or` with a percolated array,
    `visited_cells` recomputed as the component of the start; `fully_connected` is the dfs flag. -/
def genDfsPercolationTop (rows cols : Nat) (p : Nat × Nat) (a : Args) (given : Option Cell) (draws : List Nat)
    (rands : List (Nat × Nat)) (fuel : Nat) : Option DfsPercOut :=
  match startCoord rows cols given draws with
  | none => none
  | some (start, d1) =>
    match genDfs rows cols a start d1 fuel with
    | none => none
    | some s =>
      match percolate rows cols p rands with
      | none => none
      | some P =>
        let E := (allSlots rows cols).filter fun e => s.edges.contains e || P.contains e
        match componentFrom rows cols E start fuel with
        | none => none
        | some vis => some { edges := E, start := start, visited := vis,
                             fullyConnected := decide (s.visited.length = rows * cols), dfsEdges := s.edges }

end MZ
