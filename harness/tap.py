"""RNG taps: record the draws a real run makes, without touching /repo (DESIGN 4.2).
`with Tap() as t:` replaces `numpy.random.{randint,choice,rand}` and the `random` name bound in generators.py with
recording shims that delegate to the real generators; `t.draws` is the list of integer draws in call order,
`t.rands` the list of exact doubles from `np.random.rand` as (num, den), `t.events` everything."""
import random as pyrandom
import numpy as np
import maze_dataset.generation.generators as G


def ratio(x: float):
    n, d = float(x).as_integer_ratio()
    return [int(n), int(d)]


class Tap:
    def __init__(self, script=None, rand_script=None):
        self.events, self.draws, self.rands = [], [], []
        self.rand_script = rand_script   # callable(shape) -> ndarray of doubles in [0,1): adversarial but legal RNG output
        self.script = list(script) if script is not None else None   # scripted python-random choices (exhaustive mode)
        self.arities = []

    def _py(self, n):
        """one draw below n from python's RNG (or from the script)"""
        if self.script is not None:
            k = self.script.pop(0) if self.script else 0
            assert k < n
            self.arities.append(n)
            return k
        return pyrandom.randrange(n)

    def __enter__(self):
        self.orig = dict(randint=np.random.randint, choice=np.random.choice, rand=np.random.rand, pr=G.random)
        tap = self

        class PyR:
            def randint(s, a, b):
                v = a + tap._py(b - a + 1)
                tap.events.append(("py.randint", a, b, v)); tap.draws.append(v - a)
                return v
            def choice(s, seq):
                k = tap._py(len(seq))
                tap.events.append(("py.choice", len(seq), k)); tap.draws.append(k)
                return seq[k]
            def seed(s, *a):
                tap.events.append(("py.seed",) + a)
                return pyrandom.seed(*a)
            def __getattr__(s, name):
                return getattr(pyrandom, name)
        G.random = PyR()

        def randint(low, high=None, size=None, **kw):
            v = tap.orig["randint"](low, high, size=size, **kw)
            vals = [int(x) for x in np.asarray(v).ravel()]
            tap.events.append(("np.randint", np.asarray(low).tolist(), np.asarray(high).tolist(), vals))
            tap.draws.extend(vals)
            return v

        def choice(a, size=None, replace=True, p=None):
            v = tap.orig["choice"](a, size=size, replace=replace, p=p)
            vals = [int(x) for x in np.asarray(v).ravel()]
            tap.events.append(("np.choice", int(a) if np.isscalar(a) else len(a), size, replace, vals))
            tap.draws.extend(vals)
            return v

        def rand(*shape):
            v = tap.orig["rand"](*shape)
            if tap.rand_script is not None:
                v = np.asarray(tap.rand_script(shape), dtype=float).reshape(shape)
                assert ((0 <= v) & (v < 1)).all()
            tap.events.append(("np.rand", list(shape)))
            tap.rands.extend(ratio(x) for x in np.asarray(v).ravel())
            return v

        np.random.randint, np.random.choice, np.random.rand = randint, choice, rand
        return self

    def __exit__(self, *a):
        np.random.randint, np.random.choice, np.random.rand = self.orig["randint"], self.orig["choice"], self.orig["rand"]
        G.random = self.orig["pr"]
