import MazeVerif.Model.TokVocab
/-! `Tok.ofStr` (the driver-side reader of implementation tokens) is a left inverse of `Tok.str` (the rendering of structured
    tokens as vocabulary strings) on ALL structured tokens, with no range guard on coordinates / distances; hence `Tok.str` is
    injective.  Core Lean only (`Nat.toList_repr`, `Nat.isDigit_of_mem_toDigits`, `Nat.ofDigitChars_ten_toDigits`). -/
namespace MZ.Tok
open MZ.Gen

/-- on a list of decimal digits the checking fold of `digitsToNat?` never fails and computes `Nat.ofDigitChars 10` -/
theorem foldlM_digits (cs : List Char) (h : ∀ c ∈ cs, c.isDigit = true) (acc : Nat) :
    cs.foldlM (fun acc c => if c.isDigit then some (acc * 10 + (c.toNat - 48)) else none) acc =
      some (Nat.ofDigitChars 10 cs acc) := by
  induction cs generalizing acc with
  | nil => simp
  | cons c cs ih =>
    have hc : c.isDigit = true := h c (by simp)
    rw [List.foldlM_cons, Nat.ofDigitChars_cons]
    simp only [hc, if_true]
    have : acc * 10 + (c.toNat - 48) = 10 * acc + (c.toNat - '0'.toNat) := by
      have : '0'.toNat = 48 := by decide
      rw [this]; omega
    rw [← this]
    exact ih (fun c' hc' => h c' (by simp [hc'])) _

/-- `digitsToNat?` reads back the decimal digits of every natural number -/
theorem digitsToNat?_toDigits (n : Nat) : digitsToNat? (Nat.toDigits 10 n) = some n := by
  unfold digitsToNat?
  have hne : (Nat.toDigits 10 n).isEmpty = false := by
    cases h : Nat.toDigits 10 n with
    | nil => exact absurd h Nat.toDigits_ne_nil
    | cons _ _ => rfl
  simp only [hne, Bool.false_eq_true, if_false]
  rw [foldlM_digits _ (fun c hc => Nat.isDigit_of_mem_toDigits (by decide) (by decide) hc)]
  rw [Nat.ofDigitChars_ten_toDigits]

/-- first-character test used to separate the fixed token strings from the three numeric token families -/
def headOK : List Char → Bool
  | [] => false
  | c :: cs => c != '+' && !c.isDigit && (c != '(' || cs.isEmpty)

/-- every fixed token string is non-empty, starts with a character that is neither `'+'` nor a digit, and the only one starting with
    `'('` is `"("` itself (checked on the 27 strings generated from constants.py) -/
theorem fixed_head : ∀ t ∈ fixedToks, headOK t.str.toList = true := by decide

/-- the fixed token strings are pairwise distinct: the reader finds each one back -/
theorem find_fixed : ∀ t ∈ fixedToks, fixedToks.find? (fun t' => t'.str == t.str) = some t := by decide

/-- a string whose first character is `'+'` or a digit, or which is `'('` followed by something, is not a fixed token string -/
theorem find_none_of_head {s : String} {c : Char} {cs : List Char} (hs : s.toList = c :: cs)
    (hc : c = '+' ∨ c.isDigit = true ∨ (c = '(' ∧ cs ≠ [])) :
    fixedToks.find? (fun t' => t'.str == s) = none := by
  rw [List.find?_eq_none]
  intro t ht heq
  have h := fixed_head t ht
  have : t.str = s := by simpa using heq
  rw [this, hs] at h
  simp only [headOK, Bool.and_eq_true, Bool.or_eq_true, bne_iff_ne, ne_eq, Bool.not_eq_true', List.isEmpty_iff] at h
  obtain ⟨⟨h1, h2⟩, h3⟩ := h
  rcases hc with hc | hc | ⟨hc, hcs⟩
  · exact h1 hc
  · rw [h2] at hc; cases hc
  · rcases h3 with h3 | h3
    · exact h3 hc
    · exact hcs h3

theorem toDigits_cons (n : Nat) : ∃ c cs, Nat.toDigits 10 n = c :: cs ∧ c.isDigit = true := by
  cases h : Nat.toDigits 10 n with
  | nil => exact absurd h Nat.toDigits_ne_nil
  | cons c cs =>
    exact ⟨c, cs, rfl, Nat.isDigit_of_mem_toDigits (b := 10) (n := n) (by decide) (by decide) (by rw [h]; simp)⟩

theorem comma_not_digit {c : Char} (h : c.isDigit = true) : (c != ',') = true := by
  cases hc : (c != ',') with
  | true => rfl
  | false =>
    have : c = ',' := by simpa using hc
    subst this; revert h; decide

theorem takeWhile_digits (ds rest : List Char) (h : ∀ c ∈ ds, c.isDigit = true) :
    (ds ++ ',' :: rest).takeWhile (· != ',') = ds := by
  induction ds with
  | nil => simp
  | cons c ds ih =>
    have hc := comma_not_digit (h c (by simp))
    rw [List.cons_append, List.takeWhile_cons, hc]
    simp only [if_true]
    rw [ih (fun c' hc' => h c' (by simp [hc']))]

theorem dropWhile_digits (ds rest : List Char) (h : ∀ c ∈ ds, c.isDigit = true) :
    (ds ++ ',' :: rest).dropWhile (· != ',') = ',' :: rest := by
  induction ds with
  | nil => simp
  | cons c ds ih =>
    have hc := comma_not_digit (h c (by simp))
    rw [List.cons_append, List.dropWhile_cons, hc]
    simp only [if_true]
    exact ih (fun c' hc' => h c' (by simp [hc']))

theorem splitComma_digits (ds rest : List Char) (h : ∀ c ∈ ds, c.isDigit = true) :
    splitComma (ds ++ ',' :: rest) = (ds, rest) := by
  unfold splitComma
  rw [takeWhile_digits ds rest h, dropWhile_digits ds rest h]
  rfl

theorem digits_isDigit (n : Nat) : ∀ c ∈ Nat.toDigits 10 n, c.isDigit = true :=
  fun _ hc => Nat.isDigit_of_mem_toDigits (by decide) (by decide) hc

theorem ofStr_fixed {t : Tok} (h : t ∈ fixedToks) : Tok.ofStr t.str = some t := by
  unfold Tok.ofStr; rw [find_fixed t h]

theorem ofStr_num (n : Nat) : Tok.ofStr (Tok.str (.num n)) = some (.num n) := by
  show Tok.ofStr (Nat.repr n) = _
  obtain ⟨c, cs, hcs, hc⟩ := toDigits_cons n
  have hs : (Nat.repr n).toList = c :: cs := by rw [Nat.toList_repr, hcs]
  unfold Tok.ofStr
  rw [find_none_of_head hs (Or.inr (Or.inl hc))]
  simp only
  rw [hs]
  split
  · rename_i heq
    have : c = '+' := (List.cons.inj heq).1
    subst this; exact absurd hc (by decide)
  · rename_i heq
    have : c = '(' := (List.cons.inj heq).1
    subst this; exact absurd hc (by decide)
  · rw [← hcs, digitsToNat?_toDigits]; rfl

theorem ofStr_dist (d : Nat) : Tok.ofStr (Tok.str (.dist d)) = some (.dist d) := by
  show Tok.ofStr ("+" ++ Nat.repr d) = _
  have hs : ("+" ++ Nat.repr d).toList = '+' :: Nat.toDigits 10 d := by
    rw [String.toList_append, Nat.toList_repr]; rfl
  unfold Tok.ofStr
  rw [find_none_of_head hs (Or.inl rfl)]
  simp only
  rw [hs]
  simp only [digitsToNat?_toDigits]
  rfl

theorem ofStr_ut (i j : Nat) : Tok.ofStr (Tok.str (.ut i j)) = some (.ut i j) := by
  show Tok.ofStr ("(" ++ Nat.repr i ++ "," ++ Nat.repr j ++ ")") = _
  have hs : ("(" ++ Nat.repr i ++ "," ++ Nat.repr j ++ ")").toList =
      '(' :: (Nat.toDigits 10 i ++ ',' :: (Nat.toDigits 10 j ++ [')'])) := by
    simp only [String.toList_append, Nat.toList_repr]
    have h1 : "(".toList = ['('] := by decide
    have h2 : ",".toList = [','] := by decide
    have h3 : ")".toList = [')'] := by decide
    rw [h1, h2, h3]; simp
  unfold Tok.ofStr
  rw [find_none_of_head hs (Or.inr (Or.inr ⟨rfl, by simp⟩))]
  simp only
  rw [hs]
  have hrev : (Nat.toDigits 10 i ++ ',' :: (Nat.toDigits 10 j ++ [')'])).reverse =
      ')' :: (Nat.toDigits 10 i ++ ',' :: Nat.toDigits 10 j).reverse := by simp
  simp only [hrev, List.reverse_reverse, splitComma_digits _ _ (digits_isDigit i), digitsToNat?_toDigits]

/-- **the reader inverts the rendering on every structured token** (no range guard: any coordinate, any distance) -/
theorem ofStr_str (t : Tok) : Tok.ofStr t.str = some t := by
  cases t with
  | num n => exact ofStr_num n
  | ut i j => exact ofStr_ut i j
  | dist d => exact ofStr_dist d
  | card d => cases d <;> exact ofStr_fixed (by decide)
  | rel r => cases r <;> exact ofStr_fixed (by decide)
  | _ => exact ofStr_fixed (by decide)

theorem str_injective {a b : Tok} (h : a.str = b.str) : a = b := by
  have := ofStr_str a
  rw [h, ofStr_str b] at this
  exact (Option.some.inj this).symm

/-- reading back a rendered token sequence (what the driver does with the implementation's output) recovers the sequence -/
theorem mapM_ofStr_str (toks : List Tok) : (toks.map Tok.str).mapM Tok.ofStr = some toks := by
  induction toks with
  | nil => rfl
  | cons t ts ih => simp [List.mapM_cons, ofStr_str, ih]

end MZ.Tok
