import MazeVerif.Lemmas.LegacyTokRound
import MazeVerif.Lemmas.LegacyTokLink
/-! # C07 — legacy tokenization round-trips and agrees with its modular equivalent

Model: `MZ.LT` (`Model/LegacyTok.lean`), mirroring `LatticeMaze._as_tokens / from_tokens / from_adj_list`, `token_utils`
(`tokens_between`, `str_is_coord`, `coord_str_to_tuple`, the regex of `coords_string_split_UT` as the scanner `scan`),
`MazeTokenizerModular.from_legacy(mode).to_tokens` and `MazeDataset.as_tokens`. Strings are `List Char`.
The order and orientation of the adjacency entries (shuffled by the code) is the argument `adj`; every theorem quantifies over
all listings that are legal for the maze (`ValidAdj`). All theorems are unbounded: any grid size, any number of digits,
any path length. Only property theorems, their full statement and non-vacuity examples live here. -/
namespace MZ.LT
open MZ.Gen.LT

/-- endpoints inside the grid; a solved maze starts/ends at the first/last path cell (`SolvedMaze.__init__`) -/
def AnyMaze.endsOK : AnyMaze → Prop
  | .lattice _ => True
  | .targeted m s e => inSquare m s = true ∧ inSquare m e = true
  | .solved m s e sol => sol.head? = some s ∧ sol.getLast? = some e ∧ inSquare m s = true ∧ inSquare m e = true

/-- what the constructors of the three maze classes guarantee, plus the property's side condition -/
structure GoodMaze (mz : AnyMaze) : Prop where
  square : mz.base.rows = mz.base.cols
  wf : mz.base.WF
  maxIndex : mz.base.maxIndexOccurs
  ends : mz.endsOK

/-- identical connection structure: same shape and `connection_list[d,r,c]` true for the same `(d,r,c)` -/
def sameLattice (a b : LMaze) : Prop := a.rows = b.rows ∧ a.cols = b.cols ∧ ∀ x, x ∈ a.edges ↔ x ∈ b.edges

/-- same kind, identical connection structure, start, end and solution -/
def AnyMaze.Same : AnyMaze → AnyMaze → Prop
  | .lattice a, .lattice b => sameLattice a b
  | .targeted a s e, .targeted b s' e' => sameLattice a b ∧ s = s' ∧ e = e'
  | .solved a s e p, .solved b s' e' p' => sameLattice a b ∧ s = s' ∧ e = e' ∧ p = p'
  | _, _ => False

/-- the property's stronger wording ("every row and column index occurs in some connection") implies `maxIndexOccurs` -/
def LMaze.everyIndexOccurs (m : LMaze) : Prop :=
  (∀ r, r < m.rows → ∃ e ∈ m.edges, (pairOfEdge e).1.1 = r ∨ (pairOfEdge e).2.1 = r) ∧
  (∀ c, c < m.cols → ∃ e ∈ m.edges, (pairOfEdge e).1.2 = c ∨ (pairOfEdge e).2.2 = c)

/-! ## string level -/

/-- decimal print/parse inverse for **all** naturals (Python `str` / `isdigit` / `int` on ASCII digits) -/
theorem C07_decimal_inverse (n : Nat) : parseNat (showNat n) = n ∧ isDigitStr (showNat n) = true ∧ showNat n ≠ [] :=
  ⟨parse_show n, isDigitStr_showNat n, showNat_ne_nil n⟩

/-- `coord_str_to_tuple_noneable` inverts both coordinate renderings — `"(r,c)"` and the space-joined CTT form `"( r , c )"` —
    for all `r c` (multi-digit included), and more generally any blank padding around the numbers -/
theorem C07_coord_codec (ct : CoordTok) (c : NCell) : coordNoneable (joinSp (coordToks ct c)) = some [c.1, c.2] := by
  have := coordNoneable_src ct (.cell c) (fun s e => by cases e)
  simpa [srcChunk, srcToks] using this

theorem C07_coord_codec_padded (sp1 sp2 sp3 sp4 : Str) (r c : Nat) (h1 : AllSp sp1) (h2 : AllSp sp2) (h3 : AllSp sp3) (h4 : AllSp sp4) :
    coordNoneable (paddedCoord sp1 sp2 sp3 sp4 r c) = some [r, c] := coordNoneable_padded r c h1 h2 h3 h4

/-- the regex scanner undoes `" ".join` on any list of matches-to-be (parenthesised groups without inner `)`, or blank-free words) -/
theorem C07_scanner_join (chunks : List Str) (h : ∀ s ∈ chunks, GoodChunk s) : splitUT (joinSp chunks) = chunks :=
  splitUT_joinSp chunks h

private theorem solid_showNat (n : Nat) : Solid (showNat n) :=
  ⟨showNat_ne_nil n, fun _ hc => isSpace_digit (showNat_digit hc)⟩

private theorem solid_coordToks {ct : CoordTok} {c : NCell} {t : Str} (h : t ∈ coordToks ct c) : Solid t := by
  cases ct with
  | ut =>
    simp only [coordToks, List.mem_singleton] at h
    subst h
    refine ⟨by simp [vcCOORD_PRE], ?_⟩
    intro x hx
    simp only [vcCOORD_PRE, vcCOORD_INTRA, vcCOORD_POST, List.mem_append, List.mem_singleton, List.mem_cons, List.mem_nil_iff, or_false] at hx
    rcases hx with (((rfl | hx) | rfl) | hx) | rfl
    · decide
    · exact isSpace_digit (showNat_digit hx)
    · decide
    · exact isSpace_digit (showNat_digit hx)
    · decide
  | ctt =>
    simp only [coordToks, List.mem_cons, List.mem_nil_iff, or_false] at h
    rcases h with rfl | rfl | rfl | rfl | rfl
    · exact ⟨by decide, by decide⟩
    · exact solid_showNat _
    · exact ⟨by decide, by decide⟩
    · exact solid_showNat _
    · exact ⟨by decide, by decide⟩

private theorem solid_special {t : Str}
    (h : t ∈ [spADJLIST_START, spADJLIST_END, spORIGIN_START, spORIGIN_END, spTARGET_START, spTARGET_END, spPATH_START, spPATH_END,
      spCONNECTOR, spADJACENCY_ENDLINE]) : Solid t := by
  have : ∀ t ∈ [spADJLIST_START, spADJLIST_END, spORIGIN_START, spORIGIN_END, spTARGET_START, spTARGET_END, spPATH_START, spPATH_END,
      spCONNECTOR, spADJACENCY_ENDLINE], t ≠ [] ∧ ∀ c ∈ t, isSpace c = false := by decide
  exact this t h

/-- every token `as_tokens` emits is non-empty and free of whitespace, for every mode, kind, maze and adjacency order -/
theorem C07_emitted_solid (mode : Mode) (mz : AnyMaze) (adj : List (NCell × NCell)) : ∀ t ∈ asTokens mode mz adj, Solid t := by
  intro t ht
  have hadj : ∀ t ∈ adjRegion mode.coordTok adj, Solid t := by
    intro t ht
    obtain ⟨p, _, hp⟩ := List.mem_flatMap.mp ht
    simp only [edgeToks, List.mem_append, List.mem_singleton] at hp
    rcases hp with ((h | h) | h) | h
    · exact solid_coordToks h
    · exact solid_special (by simp [h])
    · exact solid_coordToks h
    · exact solid_special (by simp [h])
  have hpath : ∀ sol : List NCell, ∀ t ∈ sol.flatMap (coordToks mode.coordTok), Solid t := by
    intro sol t ht
    obtain ⟨c, _, hc⟩ := List.mem_flatMap.mp ht
    exact solid_coordToks hc
  cases mz with
  | lattice m =>
    simp only [asTokens, List.mem_append, List.mem_singleton] at ht
    rcases ht with (h | h) | h
    · exact solid_special (by simp [h])
    · exact hadj t h
    · exact solid_special (by simp [h])
  | targeted m s e =>
    simp only [asTokens, List.mem_append, List.mem_singleton] at ht
    rcases ht with (((h | h) | h) | ((h | h) | h)) | ((h | h) | h)
    · exact solid_special (by simp [h])
    · exact hadj t h
    · exact solid_special (by simp [h])
    · exact solid_special (by simp [h])
    · exact solid_coordToks h
    · exact solid_special (by simp [h])
    · exact solid_special (by simp [h])
    · exact solid_coordToks h
    · exact solid_special (by simp [h])
  | solved m s e sol =>
    simp only [asTokens, List.mem_append, List.mem_singleton] at ht
    rcases ht with ((((h | h) | h) | ((h | h) | h)) | ((h | h) | h)) | ((h | h) | h)
    · exact solid_special (by simp [h])
    · exact hadj t h
    · exact solid_special (by simp [h])
    · exact solid_special (by simp [h])
    · exact solid_coordToks h
    · exact solid_special (by simp [h])
    · exact solid_special (by simp [h])
    · exact solid_coordToks h
    · exact solid_special (by simp [h])
    · exact solid_special (by simp [h])
    · exact hpath sol t h
    · exact solid_special (by simp [h])

/-- `" ".join(tokens).split() == tokens` for every emitted token list: passing one space-joined string is the same as passing the list -/
theorem C07_split_join (mode : Mode) (mz : AnyMaze) (adj : List (NCell × NCell)) :
    pySplit (joinSp (asTokens mode mz adj)) = asTokens mode mz adj :=
  pySplit_joinSp _ (C07_emitted_solid mode mz adj)

/-! ## round trip -/

/-- **Round trip, token list.** For the three legacy modes, all three kinds, every maze with `GoodMaze` (square, well formed,
    largest index used, endpoints in the grid, solved mazes start/end at the path ends) of **any** size, and **every** legal
    adjacency order/orientation: `from_tokens(as_tokens(maze))` succeeds and is the same kind with identical connections,
    start, end and solution. `tk` = a legacy tokenizer or a legacy-equivalent modular one. -/
theorem C07_roundtrip_list (mode : Mode) (mz : AnyMaze) (adj : List (NCell × NCell)) (tk : TokSpec) (htk : tk ≠ .modular false)
    (hg : GoodMaze mz) (hv : ValidAdj mz.base adj) :
    ∃ mz', fromTokens tk (asTokens mode mz adj) = .ok mz' ∧ mz'.Same mz := by
  have hft : fromTokens tk (asTokens mode mz adj) = fromTokensAOTP (asTokens mode mz adj) := by
    cases tk with
    | legacy => rfl
    | modular b => cases b with
      | true => rfl
      | false => exact absurd rfl htk
  rw [hft]
  obtain ⟨hsq, hwf, hmax, hends⟩ := hg
  cases mz with
  | lattice m =>
    obtain ⟨es, h, hmem⟩ := fromTokensAOTP_lattice mode.coordTok m adj hsq hwf hmax hv
    exact ⟨_, h, rfl, rfl, hmem⟩
  | targeted m s e =>
    obtain ⟨es, h, hmem⟩ := fromTokensAOTP_targeted mode.coordTok m adj s e hsq hwf hmax hv hends.1 hends.2
    exact ⟨_, h, ⟨rfl, rfl, hmem⟩, rfl, rfl⟩
  | solved m s e sol =>
    obtain ⟨es, h, hmem⟩ := fromTokensAOTP_solved mode.coordTok m adj s e sol hsq hwf hmax hv hends.2.2.1 hends.2.2.2 hends.1 hends.2.1
    exact ⟨_, h, ⟨rfl, rfl, hmem⟩, rfl, rfl, rfl⟩

/-- **Round trip, one space-joined string.** -/
theorem C07_roundtrip_string (mode : Mode) (mz : AnyMaze) (adj : List (NCell × NCell)) (tk : TokSpec) (htk : tk ≠ .modular false)
    (hg : GoodMaze mz) (hv : ValidAdj mz.base adj) :
    ∃ mz', fromTokensStr tk (joinSp (asTokens mode mz adj)) = .ok mz' ∧ mz'.Same mz := by
  unfold fromTokensStr
  rw [C07_split_join]
  exact C07_roundtrip_list mode mz adj tk htk hg hv

/-- tokenizers that are not legacy equivalent are refused (NotImplementedError), whatever the tokens -/
theorem C07_refuses_non_equivalent (toks : List Str) : fromTokens (.modular false) toks = .error .notImplemented := rfl

/-! ## legacy = modular -/

/-- **Same tokens.** `MazeTokenizerModular.from_legacy(mode).to_tokens(maze)` and the legacy `as_tokens` are the same function of
    the adjacency order: for every mode, kind, maze (solved mazes with a non-empty path) and every `adj`. -/
theorem C07_legacy_eq_modular (mode : Mode) (mz : AnyMaze) (adj : List (NCell × NCell))
    (hsol : ∀ m s e sol, mz = .solved m s e sol → sol ≠ []) :
    modularTokens (fromLegacy mode) mz adj = .ok (asTokens mode mz adj) := by
  have hA := inner_adjRegion mode.coordTok adj
  cases mz with
  | lattice m =>
    have := tokensBetween_incl (pre := []) (mid := adjRegion mode.coordTok adj)
      (post := [spORIGIN_START, spORIGIN_END, spTARGET_START, spTARGET_END, spPATH_START, spPATH_END])
      (s := spADJLIST_START) (e := spADJLIST_END) (by decide) (by simp) (by simp) (hA.notMem (by decide))
    simp only [modularTokens, fromLegacy, sequenceTokens, asTokens]
    simpa using this
  | targeted m s e =>
    have ho := inner_coordToks mode.coordTok s
    have ht := inner_coordToks mode.coordTok e
    have := tokensBetween_incl (pre := [])
      (mid := adjRegion mode.coordTok adj ++ spADJLIST_END :: spORIGIN_START :: (coordToks mode.coordTok s ++ spORIGIN_END :: spTARGET_START ::
        coordToks mode.coordTok e))
      (post := [spPATH_START, spPATH_END]) (s := spADJLIST_START) (e := spTARGET_END) (by decide) (by simp) (by simp)
      (by simp only [List.mem_cons, List.mem_append, not_or]
          exact ⟨hA.notMem (by decide), by decide, by decide, ho.notMem (by decide), by decide, by decide, ht.notMem (by decide)⟩)
    have hc : (sequenceTokens (adjRegion mode.coordTok adj) (coordToks mode.coordTok s) (coordToks mode.coordTok e) []).contains spTARGET_END = true := by
      simp [sequenceTokens]
    simp only [modularTokens, fromLegacy, hc, if_true]
    simp only [sequenceTokens, asTokens]
    simpa using this
  | solved m s e sol =>
    cases sol with
    | nil => exact absurd rfl (hsol m s e [] rfl)
    | cons c cs =>
      simp [modularTokens, fromLegacy, pathRegion, sequenceTokens, asTokens]

/-- **Round trip through the modular equivalent**: tokens emitted by `from_legacy(mode)` and parsed back with it -/
theorem C07_modular_roundtrip (mode : Mode) (mz : AnyMaze) (adj : List (NCell × NCell)) (hg : GoodMaze mz) (hv : ValidAdj mz.base adj) :
    ∃ toks mz', modularTokens (fromLegacy mode) mz adj = .ok toks ∧
      fromTokens (.modular true) toks = .ok mz' ∧ mz'.Same mz ∧
      ∃ mz'', fromTokensStr (.modular true) (joinSp toks) = .ok mz'' ∧ mz''.Same mz := by
  have hsol : ∀ m s e sol, mz = .solved m s e sol → sol ≠ [] := by
    intro m s e sol h; subst h
    have := hg.ends.1
    intro hn; subst hn; simp at this
  obtain ⟨mz', h1, h2⟩ := C07_roundtrip_list mode mz adj (.modular true) (by simp) hg hv
  obtain ⟨mz'', h3, h4⟩ := C07_roundtrip_string mode mz adj (.modular true) (by simp) hg hv
  exact ⟨_, mz', C07_legacy_eq_modular mode mz adj hsol, h1, h2, mz'', h3, h4⟩

/-! ## the C07 model of the modular tokenizer is the C06 model at `from_legacy`'s configuration

`modularTokens` above is a specialised model of `MazeTokenizerModular.from_legacy(mode).to_tokens`; property C06 has the general
model `MZ.Tok.toTokens cfg`. The theorems below tie the two (and hence `legacyTokens = asTokens`) to the C06 model, so that
`C07_legacy_eq_modular` is not merely "model against model".

Conversions (Lemmas/LegacyTokLink.lean): `fromLegacyCfg : Mode → Tok.TokCfg` (read off the generated `from_legacy` table, see
`C07_fromLegacyCfg_generated`), `toMazeIn : AnyMaze → Tok.MazeIn` (same `connection_list`, entries `Nat×Int×Int` instead of
`Nat×Nat×Nat`), `render : List Tok.Tok → List Str` (`Tok.str` then `String.toList`). The emission order has the SAME
representation in both models, `List ((Nat×Nat)×(Nat×Nat))` = (leading coord, trailing coord) per emitted edge, so `order' = order`;
only the legality predicates differ (`Tok.ValidOrder`: a permutation of the canonical edge list up to orientation; `ValidAdj`:
the same set of edges up to orientation) — `C07_order_legality`. -/

/-- every listed pair is a connection of the maze (what both legality predicates imply, and all the link needs) -/
def AllConn (mz : AnyMaze) (order : List (NCell × NCell)) : Prop := ∀ e ∈ order, Tok.isConn (toMaze mz.base) e = true

instance (mz : AnyMaze) (order : List (NCell × NCell)) : Decidable (AllConn mz order) := by unfold AllConn; exact inferInstance

/-- an emission order that property C06 calls legal for the configuration `from_legacy(mode)` builds -/
def LegalC06 (mode : Mode) (mz : AnyMaze) (order : List (NCell × NCell)) : Prop :=
  ∃ es, Tok.selEdges (fromLegacyCfg mode).adj.subset (toMazeIn mz).maze = some es ∧
    Tok.ValidOrder (fromLegacyCfg mode).adj.permuter (fromLegacyCfg mode).adj.shuffle es order

private theorem legalC06_iff (mode : Mode) (mz : AnyMaze) (order : List (NCell × NCell)) :
    LegalC06 mode mz order ↔ Tok.ValidOrder .random true (Tok.connEdges (toMaze mz.base) false) order := by
  unfold LegalC06
  rw [toMazeIn_maze]
  constructor
  · rintro ⟨es, h1, h2⟩
    have : es = Tok.connEdges (toMaze mz.base) false := by
      simp only [cfg_adj, legacyAdjCfg, Tok.selEdges, Option.some.injEq] at h1; exact h1.symm
    subst this; exact h2
  · intro h; exact ⟨_, rfl, h⟩

/-- **The configuration is the source's.** For each legacy mode, the run-time value the translator obtained by calling
    `MazeTokenizerModular.from_legacy(TokenizationMode.<mode>)` (generated table `MZ.Gen.Tok.fromLegacy`, re-emitted on every run)
    reads, field by field, as the C06 configuration `fromLegacyCfg mode`:
    `AOTP(UT() | CTT(T,T,T), AdjListCoord(pre=F, post=T, shuffle_d0=T, Ungrouped(1), ConnectionEdges(walls=F), RandomCoords()),
    Unlabeled(post=F), StepSequence(Singles(), (Coord(),), F, F, F))`. -/
theorem C07_fromLegacyCfg_generated (mode : Mode) :
    (MZ.Gen.Tok.fromLegacy.lookup mode.pyName).bind cfgOfVal = some (fromLegacyCfg mode) := fromLegacyCfg_generated mode

/-- **Legality of orders, both ways of saying it.** (1) an order that C06 calls legal for `from_legacy(mode)` lists only
    connections; (2) so does an order that is legal in C07's sense (`ValidAdj`) when `connection_list` has dims 0/1;
    (3) on a well-formed maze, C06-legal implies C07-legal. -/
theorem C07_order_legality (mode : Mode) (mz : AnyMaze) (order : List (NCell × NCell)) :
    (LegalC06 mode mz order → AllConn mz order) ∧
    ((∀ e ∈ mz.base.edges, e.1 = 0 ∨ e.1 = 1) → ValidAdj mz.base order → AllConn mz order) ∧
    (mz.base.WF → LegalC06 mode mz order → ValidAdj mz.base order) :=
  ⟨fun h => isConn_of_validOrder ((legalC06_iff mode mz order).1 h),
   fun hd hv => isConn_of_validAdj hd hv,
   fun hwf h => validAdj_of_validOrder hwf ((legalC06_iff mode mz order).1 h)⟩

/-- **Region by region**: adjacency list, origin, target and path regions of the two models agree (rendered C06 tokens =
    C07 strings); the path regions also fail together (empty path: `solution[0]` IndexError). -/
theorem C07_modular_model_regions (mode : Mode) (mz : AnyMaze) (order : List (NCell × NCell)) (hconn : AllConn mz order) :
    (Tok.adjToks (fromLegacyCfg mode).adj (fromLegacyCfg mode).ct (toMaze mz.base) order).map render
        = some (adjRegion (fromLegacy mode) order) ∧
    (∀ s, render (Tok.coordToks (fromLegacyCfg mode).ct s) = coordToks (fromLegacy mode) s) ∧
    (∀ e, render (Tok.targetToks (fromLegacyCfg mode).prompt (fromLegacyCfg mode).ct e) = coordToks (fromLegacy mode) e) ∧
    (∀ sol, (Tok.pathToks (fromLegacyCfg mode).path (fromLegacyCfg mode).ct (toMaze mz.base) sol).map render
        = (pathRegion (fromLegacy mode) sol).toOption) :=
  ⟨adj_region_agrees mode mz.base order hconn, origin_region_agrees mode, target_region_agrees mode,
   path_region_agrees mode (toMaze mz.base)⟩

/-- **The two models of `from_legacy(mode).to_tokens(maze)` agree.** For every mode, every maze of the three kinds (any size, any
    path, the empty one included: both fail) and every order that lists only connections — in particular every legal order, in
    either sense (`C07_order_legality`) — the C06 model at `fromLegacyCfg mode`, rendered to strings, is the C07 model
    `modularTokens`; errors of the latter correspond to `none` of the former. Same `order` on both sides. -/
theorem C07_modular_model_agrees (mode : Mode) (mz : AnyMaze) (order : List (NCell × NCell)) (hconn : AllConn mz order) :
    (Tok.toTokens (fromLegacyCfg mode) (toMazeIn mz) order).map render = (modularTokens (fromLegacy mode) mz order).toOption := by
  by_cases hsol : ∀ m s e sol, mz = .solved m s e sol → sol ≠ []
  · rw [toTokens_fromLegacy_asTokens mode mz order hconn hsol, C07_legacy_eq_modular mode mz order hsol]; rfl
  · have : ∃ m s e, mz = .solved m s e [] := by
      cases mz with
      | lattice m => exact absurd (fun _ _ _ _ h => by cases h) hsol
      | targeted m s e => exact absurd (fun _ _ _ _ h => by cases h) hsol
      | solved m s e sol =>
        cases sol with
        | nil => exact ⟨m, s, e, rfl⟩
        | cons c cs => exact absurd (fun _ _ _ _ h => by cases h; simp) hsol
    obtain ⟨m, s, e, rfl⟩ := this
    rw [toTokens_fromLegacy_empty]
    rfl

/-- … for the orders C06 calls legal -/
theorem C07_modular_model_agrees_legalC06 (mode : Mode) (mz : AnyMaze) (order : List (NCell × NCell)) (h : LegalC06 mode mz order) :
    (Tok.toTokens (fromLegacyCfg mode) (toMazeIn mz) order).map render = (modularTokens (fromLegacy mode) mz order).toOption :=
  C07_modular_model_agrees mode mz order ((C07_order_legality mode mz order).1 h)

/-- … for the adjacency listings C07 calls legal -/
theorem C07_modular_model_agrees_validAdj (mode : Mode) (mz : AnyMaze) (adj : List (NCell × NCell))
    (hd : ∀ e ∈ mz.base.edges, e.1 = 0 ∨ e.1 = 1) (hv : ValidAdj mz.base adj) :
    (Tok.toTokens (fromLegacyCfg mode) (toMazeIn mz) adj).map render = (modularTokens (fromLegacy mode) mz adj).toOption :=
  C07_modular_model_agrees mode mz adj ((C07_order_legality mode mz adj).2.1 hd hv)

/-- **Legacy tokens = rendering of the C06 model's tokens.** `maze.as_tokens(legacy mode)` is, string for string, what property
    C06's model of `MazeTokenizerModular` emits at `from_legacy(mode)`'s configuration, for the same order (solved mazes with a
    non-empty path). -/
theorem C07_legacy_eq_modular_C06 (mode : Mode) (mz : AnyMaze) (order : List (NCell × NCell)) (hconn : AllConn mz order)
    (hsol : ∀ m s e sol, mz = .solved m s e sol → sol ≠ []) :
    (Tok.toTokens (fromLegacyCfg mode) (toMazeIn mz) order).map render = some (asTokens mode mz order) := by
  rw [C07_modular_model_agrees mode mz order hconn, C07_legacy_eq_modular mode mz order hsol]; rfl

/-- **Round trip through the C06 model.** For a `GoodMaze` and any order C06 calls legal: the C06 model yields tokens, they render to
    the legacy token list, and `from_tokens` (legacy or legacy-equivalent modular tokenizer) parses the rendering back to the same
    maze. -/
theorem C07_roundtrip_C06 (mode : Mode) (mz : AnyMaze) (order : List (NCell × NCell)) (tk : TokSpec) (htk : tk ≠ .modular false)
    (hg : GoodMaze mz) (h : LegalC06 mode mz order) :
    ∃ toks mz', Tok.toTokens (fromLegacyCfg mode) (toMazeIn mz) order = some toks ∧ render toks = asTokens mode mz order ∧
      fromTokens tk (render toks) = .ok mz' ∧ mz'.Same mz := by
  have hsol : ∀ m s e sol, mz = .solved m s e sol → sol ≠ [] := by
    intro m s e sol h; subst h
    have := hg.ends.1
    intro hn; subst hn; simp at this
  have hl := C07_legacy_eq_modular_C06 mode mz order ((C07_order_legality mode mz order).1 h) hsol
  have hv := (C07_order_legality mode mz order).2.2 hg.wf h
  obtain ⟨mz', h1, h2⟩ := C07_roundtrip_list mode mz order tk htk hg hv
  cases ht : Tok.toTokens (fromLegacyCfg mode) (toMazeIn mz) order with
  | none => rw [ht] at hl; cases hl
  | some toks =>
    rw [ht] at hl
    have hr : render toks = asTokens mode mz order := by simpa using hl
    exact ⟨toks, mz', rfl, hr, by rw [hr]; exact h1, h2⟩

/-! ## the side condition is necessary -/

/-- a 3×3 maze whose last row and column are isolated: well formed, square, but `maxIndexOccurs` fails … -/
def counterMaze : LMaze := ⟨3, 3, [(0, 0, 0), (1, 0, 0), (1, 1, 0)]⟩
def counterAdj : List (NCell × NCell) := [((0, 0), (1, 0)), ((0, 1), (0, 0)), ((1, 0), (1, 1))]

/-- … and it does **not** round-trip: the parse succeeds but yields a 2×2 grid (in every mode). The harness replays this on the code. -/
theorem C07_counter :
    counterMaze.WF ∧ counterMaze.rows = counterMaze.cols ∧ ValidAdj counterMaze counterAdj ∧ ¬ counterMaze.maxIndexOccurs ∧
    ∀ mode, ∃ m', fromTokens .legacy (asTokens mode (.lattice counterMaze) counterAdj) = .ok (.lattice m') ∧ m'.rows = 2 ∧
      ¬ (AnyMaze.lattice m').Same (.lattice counterMaze) := by
  refine ⟨by decide, rfl, by decide, by decide, ?_⟩
  intro mode
  cases mode
  · exact ⟨⟨2, 2, [(0, 0, 0), (1, 0, 0), (1, 1, 0)]⟩, by decide, rfl, by intro h; exact absurd h.1 (by decide)⟩
  · exact ⟨⟨2, 2, [(0, 0, 0), (1, 0, 0), (1, 1, 0)]⟩, by decide, rfl, by intro h; exact absurd h.1 (by decide)⟩
  · exact ⟨⟨2, 2, [(0, 0, 0), (1, 0, 0), (1, 1, 0)]⟩, by decide, rfl, by intro h; exact absurd h.1 (by decide)⟩

private theorem exists_max : ∀ (adj : List (NCell × NCell)), adj ≠ [] →
    ∃ p ∈ adj, p.1.1 = maxIdx adj ∨ p.1.2 = maxIdx adj ∨ p.2.1 = maxIdx adj ∨ p.2.2 = maxIdx adj
  | [], h => absurd rfl h
  | p :: ps, _ => by
    by_cases hps : ps = []
    · subst hps; refine ⟨p, by simp, ?_⟩; simp only [maxIdx]; omega
    · by_cases hbig : maxIdx ps ≤ max (max p.1.1 p.1.2) (max p.2.1 p.2.2)
      · refine ⟨p, by simp, ?_⟩; simp only [maxIdx]; omega
      · obtain ⟨q, hq, hq'⟩ := exists_max ps hps
        refine ⟨q, by simp [hq], ?_⟩
        have : maxIdx (p :: ps) = maxIdx ps := by simp only [maxIdx]; omega
        rw [this]; exact hq'

/-- in general: without `maxIndexOccurs` no well-formed square maze round-trips (the inferred grid is too small) -/
theorem C07_maxIndex_necessary (mode : Mode) (m : LMaze) (adj : List (NCell × NCell)) (hsq : m.rows = m.cols) (hwf : m.WF)
    (hv : ValidAdj m adj) (hno : ¬ m.maxIndexOccurs) (m' : AnyMaze)
    (h : fromTokens .legacy (asTokens mode (.lattice m) adj) = .ok m') : ¬ m'.Same (.lattice m) := by
  intro hs
  -- the parse result's grid side is `maxIdx adj + 1` whenever it succeeds; compare with `m.rows`
  have hA := inner_adjRegion mode.coordTok adj
  have e : asTokens mode (.lattice m) adj = spADJLIST_START :: (adjRegion mode.coordTok adj ++ spADJLIST_END :: []) := by simp [asTokens]
  rw [e] at h
  have hne : adj ≠ [] := by
    intro hn; subst hn
    have hc : fromTokens .legacy (spADJLIST_START :: (adjRegion mode.coordTok [] ++ spADJLIST_END :: [])) = .error .assertionError := by
      simp only [adjRegion, List.flatMap_nil, List.nil_append]; decide
    rw [hc] at h; cases h
  have hA' : tokensBetween (spADJLIST_START :: (adjRegion mode.coordTok adj ++ spADJLIST_END :: [])) spADJLIST_START spADJLIST_END false false
      = .ok (adjRegion mode.coordTok adj) := by
    have := tokensBetween_mid (pre := []) (mid := adjRegion mode.coordTok adj) (post := []) (s := spADJLIST_START) (e := spADJLIST_END)
      (by decide) (by simp) (by simp) (hA.notMem (by decide)) (adjRegion_ne_nil _ hne)
    simpa using this
  have h3 : toAdjArray (adj.map fun p => (Item.coord [p.1.1, p.1.2], Item.coord [p.2.1, p.2.2])) = .ok adj := by
    unfold toAdjArray
    have : (adj.map fun p => (Item.coord [p.1.1, p.1.2], Item.coord [p.2.1, p.2.2])).isEmpty = false := by
      cases adj with
      | nil => exact absurd rfl hne
      | cons _ _ => rfl
    rw [this]; simp only [Bool.false_eq_true, if_false]; exact pairsOfItems_adj adj
  have f1 : isTargetedToks (spADJLIST_START :: (adjRegion mode.coordTok adj ++ spADJLIST_END :: [])) = false := by
    apply isTargetedToks_false
    simp only [List.mem_cons, List.mem_append, List.mem_nil_iff, or_false, not_or]
    exact ⟨by decide, hA.notMem (by decide), by decide⟩
  have f2 : hasPathToks (spADJLIST_START :: (adjRegion mode.coordTok adj ++ spADJLIST_END :: [])) = false := by
    apply hasPathToks_false
    simp only [List.mem_cons, List.mem_append, List.mem_nil_iff, or_false, not_or]
    exact ⟨by decide, hA.notMem (by decide), by decide⟩
  simp only [fromTokens, fromTokensAOTP, latticeOfTokens, adjToksOf, if_true, hA', splitList_adjRegion, groupsToCoords_adj, h3,
    Except.bind, fromAdjList, f1, f2, Bool.false_eq_true, if_false] at h
  cases hes : adjEdges adj with
  | error x => rw [hes] at h; simp [Except.map] at h
  | ok es =>
    rw [hes] at h
    simp only [Except.map, Except.ok.injEq] at h
    subst h
    have hrows : maxIdx adj + 1 = m.rows := hs.1
    -- some listed pair attains the maximum, so its edge uses the largest index
    apply hno
    have hex := exists_max adj hne
    obtain ⟨p, hp, hpm⟩ := hex
    obtain ⟨e, he, hpe⟩ := hv.1 p hp
    have w := hwf e he
    refine ⟨e, he, ?_⟩
    obtain ⟨d, r, c⟩ := e
    simp only [pairOfEdge] at w ⊢
    rcases hpe with rfl | rfl <;> simp only [pairOfEdge, swapPair] at hpm <;> omega

private theorem everyIndex_implies_max (m : LMaze) (hpos : 0 < m.rows) (hwf : m.WF) (h : m.everyIndexOccurs) : m.maxIndexOccurs := by
  obtain ⟨e, he, hr⟩ := h.1 (m.rows - 1) (by omega)
  have w := hwf e he
  refine ⟨e, he, Or.inl ?_⟩
  obtain ⟨d, r, c⟩ := e
  simp only [pairOfEdge] at hr w ⊢
  obtain ⟨hd, hw1, hw2⟩ := w
  omega

/-- the property's wording of the side condition (every row and column index occurs in a connection) is covered -/
theorem C07_everyIndex_suffices (m : LMaze) (hpos : 0 < m.rows) (hwf : m.WF) (h : m.everyIndexOccurs) : m.maxIndexOccurs :=
  everyIndex_implies_max m hpos hwf h

/-! ## dataset level -/

/-- `MazeDataset.as_tokens(tok, limit, join)` is the per-maze tokenization of `mazes[:limit]`, in order; with `join` each entry is the
    space-joined string of the same tokens. For every dataset, every `limit : int | None` (negative limits included), every per-maze
    tokenization function. -/
theorem C07_dataset_tokens {α} (tok : α → List Str) (mazes : List α) (limit : Option Int) :
    (datasetTokens tok mazes limit).length = (sliceLimit mazes limit).length ∧
    (∀ i (h : i < (sliceLimit mazes limit).length),
        (datasetTokens tok mazes limit)[i]? = some (tok ((sliceLimit mazes limit)[i])) ∧
        (datasetTokensJoined tok mazes limit)[i]? = some (joinSp (tok ((sliceLimit mazes limit)[i])))) ∧
    (sliceLimit mazes limit <+: mazes) ∧
    (limit = none → sliceLimit mazes limit = mazes) ∧
    (∀ k : Nat, limit = some (k : Int) → (sliceLimit mazes limit).length = min k mazes.length) ∧
    (∀ k : Nat, limit = some (-(k : Int)) → 0 < k → (sliceLimit mazes limit).length = mazes.length - k) := by
  refine ⟨by simp [datasetTokens], ?_, ?_, ?_, ?_, ?_⟩
  · intro i h
    simp [datasetTokens, datasetTokensJoined, h]
  · cases limit with
    | none => exact List.prefix_refl _
    | some k =>
      simp only [sliceLimit]
      split <;> exact List.take_prefix _ _
  · intro h; subst h; rfl
  · intro k h; subst h
    simp [sliceLimit]
  · intro k h hk; subst h
    have : ¬ (-(k : Int) ≥ 0) := by omega
    simp only [sliceLimit, this, if_false, List.length_take, Int.neg_neg, Int.toNat_natCast]
    omega

/-! ## full statement -/

/-- Full statement of C07 in the model (proved below). -/
def C07_full : Prop :=
  (∀ (mode : Mode) (mz : AnyMaze) (adj : List (NCell × NCell)) (tk : TokSpec), tk ≠ .modular false → GoodMaze mz → ValidAdj mz.base adj →
      (∃ mz', fromTokens tk (asTokens mode mz adj) = .ok mz' ∧ mz'.Same mz) ∧
      (∃ mz', fromTokensStr tk (joinSp (asTokens mode mz adj)) = .ok mz' ∧ mz'.Same mz) ∧
      modularTokens (fromLegacy mode) mz adj = .ok (asTokens mode mz adj)) ∧
  (∀ (α : Type) (tok : α → List Str) (mazes : List α) (limit : Option Int),
      datasetTokens tok mazes limit = (sliceLimit mazes limit).map tok ∧
      datasetTokensJoined tok mazes limit = (sliceLimit mazes limit).map (fun m => joinSp (tok m)) ∧
      sliceLimit mazes limit <+: mazes)

theorem C07_full_holds : C07_full := by
  refine ⟨?_, ?_⟩
  · intro mode mz adj tk htk hg hv
    refine ⟨C07_roundtrip_list mode mz adj tk htk hg hv, C07_roundtrip_string mode mz adj tk htk hg hv, ?_⟩
    apply C07_legacy_eq_modular
    intro m s e sol h; subst h
    have := hg.ends.1
    intro hn; subst hn; simp at this
  · intro α tok mazes limit
    refine ⟨rfl, by simp [datasetTokensJoined, datasetTokens], (C07_dataset_tokens tok mazes limit).2.2.1⟩

/-! ## the model's scanner stands for this regular expression (re-emitted from the source on every run) -/
example : utSplitRegex = "\\([^)]*\\)|\\S+" := rfl

/-! ## non-vacuity: concrete non-trivial instances -/

/-- a 2×2 spanning tree, solved, with a three-cell path; listed in a shuffled order with one flipped entry -/
def exMaze : LMaze := ⟨2, 2, [(0, 0, 0), (1, 0, 0), (0, 0, 1)]⟩
def exAdj : List (NCell × NCell) := [((0, 1), (0, 0)), ((0, 1), (1, 1)), ((0, 0), (1, 0))]
def exSolved : AnyMaze := .solved exMaze (1, 0) (0, 1) [(1, 0), (0, 0), (0, 1)]

example : GoodMaze exSolved ∧ ValidAdj exSolved.base exAdj :=
  ⟨⟨rfl, by decide, by decide, ⟨rfl, rfl, rfl, rfl⟩⟩, by decide⟩
example : fromTokens .legacy (asTokens .cttIndexed exSolved exAdj)
    = .ok (.solved ⟨2, 2, [(1, 0, 0), (0, 0, 1), (0, 0, 0)]⟩ (1, 0) (0, 1) [(1, 0), (0, 0), (0, 1)]) := by decide
example : fromTokensStr (.modular true) (joinSp (asTokens .utUniform exSolved exAdj))
    = .ok (.solved ⟨2, 2, [(1, 0, 0), (0, 0, 1), (0, 0, 0)]⟩ (1, 0) (0, 1) [(1, 0), (0, 0), (0, 1)]) := by decide
example : (asTokens .utUniform exSolved exAdj).length = 25 ∧ (asTokens .cttIndexed exSolved exAdj).length = 69 := by decide
example : modularTokens (fromLegacy .cttIndexed) exSolved exAdj = .ok (asTokens .cttIndexed exSolved exAdj) := by decide
/-- the link to the C06 model on the same instance: `exAdj` is legal in C06's sense (a permutation of the canonical edge list up to
    orientation, one entry flipped), and in C07's; the C06 model renders to the legacy tokens -/
example : LegalC06 .cttIndexed exSolved exAdj ∧ AllConn exSolved exAdj ∧ exSolved.base.WF :=
  ⟨⟨_, rfl, Tok.validOrderB_iff.1 (by decide)⟩, by decide, by decide⟩
example : (Tok.toTokens (fromLegacyCfg .cttIndexed) (toMazeIn exSolved) exAdj).map render = some (asTokens .cttIndexed exSolved exAdj) :=
  C07_legacy_eq_modular_C06 _ _ _ (by decide) (by intro m s e sol h; cases h; simp)
example : (Tok.toTokens (fromLegacyCfg .utUniform) (toMazeIn exSolved) exAdj).map (·.length) = some 25 := by decide
example : fromLegacyCfg .utRasterized = fromLegacyCfg .utUniform ∧ fromLegacyCfg .cttIndexed ≠ fromLegacyCfg .utUniform := by decide
/-- `AllConn` is needed: on a pair that is not a connection (an illegal order) the general model emits the wall token, the
    specialised one the connector — the two models differ exactly outside the legal orders -/
example : ¬ AllConn exSolved [((1, 0), (1, 1))] ∧
    (Tok.toTokens (fromLegacyCfg .utUniform) (toMazeIn (.lattice exMaze)) [((1, 0), (1, 1))]).map (·.map Tok.Tok.str)
      = some ["<ADJLIST_START>", "(1,0)", "<XX>", "(1,1)", ";", "<ADJLIST_END>"] ∧
    (modularTokens (fromLegacy .utUniform) (.lattice exMaze) [((1, 0), (1, 1))]).toOption
      = some ["<ADJLIST_START>".toList, "(1,0)".toList, "<-->".toList, "(1,1)".toList, ";".toList, "<ADJLIST_END>".toList] := by
  refine ⟨by decide, by decide, by decide⟩
/-- both models fail on an empty path -/
example : Tok.toTokens (fromLegacyCfg .utUniform) (toMazeIn (.solved exMaze (0, 0) (0, 0) [])) exAdj = none ∧
    modularTokens (fromLegacy .utUniform) (.solved exMaze (0, 0) (0, 0) []) exAdj = .error .indexError := ⟨by decide, by decide⟩
/-- multi-digit coordinates through the string level -/
example : coordNoneable "( 12 , 107 )".toList = some [12, 107] ∧ coordNoneable "(12,107)".toList = some [12, 107] ∧
    coordNoneable "<-->".toList = none ∧ coordNoneable "((1,2))".toList = some [1, 2] ∧ coordNoneable "(1,2,3)".toList = some [1, 2, 3] := by
  decide
example : splitUT "(1,2) <--> ( 3 , 4 ) ; <A>(x (9".toList
    = ["(1,2)".toList, "<-->".toList, "( 3 , 4 )".toList, ";".toList, "<A>(x".toList, "(9".toList] := by decide
example : parseNat (showNat 120) = 120 := (C07_decimal_inverse 120).1
example : sliceLimit [10, 11, 12, 13] (some (-1)) = [10, 11, 12] ∧ sliceLimit [10, 11, 12, 13] (some 2) = [10, 11] ∧
    sliceLimit [10, 11, 12, 13] (some 9) = [10, 11, 12, 13] := by decide
example : fromTokens (.modular false) (asTokens .utUniform exSolved exAdj) = .error .notImplemented := rfl
/-- error branches are reachable: a path without endpoints, an empty token list, a three-token edge with a wrong connector -/
example : fromTokensAOTP [spADJLIST_START, "(0,0)".toList, spCONNECTOR, "(0,1)".toList, spADJACENCY_ENDLINE, spADJLIST_END, spPATH_START, spPATH_END]
    = .error .assertionError := by decide
example : fromTokensAOTP [] = .error .indexError := rfl

end MZ.LT
