import MazeVerif.Lemmas.RngTrace
/-! # C04 — serial dataset generation is a pure function of the configuration

Model: `MZ.Rng` — programs are interaction trees over RNG events (`seed r s`, `draw r`) on the four generators
the library can reach; the RNG implementation (`Impl`) and the RNG states are arbitrary. `generateProg` has the
shape of serial `MazeDataset.generate` (re-seed python/numpy/torch from `cfg.seed` via `load(serialize(cfg))`, then
`n` times the per-maze generator, then `np.random.seed`), `fromConfigProg` adds the recorded filters.

PARTIAL by nature: the theorems say that a program which seeds before it draws computes the same result from
EVERY RNG state, after EVERY prior history, for EVERY RNG implementation. That the real Python code is such a
program — i.e. that everything between two RNG events is deterministic (no dependence on `set`/`dict` order of
hashed strings, time, pid, process kind) and that all randomness goes through the four generators — is NOT provable
here; harness/c04.py tests it: it records the seed/draw event trace of the real `generate` / `from_config`, checks it
with `wsTrace` (proved below to accept every trace of a well-seeded program), and compares outputs bit for bit under
many prior histories and in fresh interpreters with different `PYTHONHASHSEED`. -/
namespace MZ.Rng

/-- Full statement over the model: for every seed, maze count, per-maze generator that touches only the three
    generators `set_reproducibility` seeds, every filter list, every prior history `hist` (any program at all: draws
    on any generator, other generations, other re-seedings), every RNG implementation and any two RNG states:
    `from_config` after `hist` returns exactly the filters folded over what `generate` returns from any other state. -/
def C04_full : Prop :=
  ∀ (μ β : Type) (seed n : Nat) (g : Prog μ) (filters : List (List μ → List μ)) (hist : Prog β),
    UsesOnly seeded3 g →
    ∀ (I : Impl) (σ σ' : States I),
      (run (bind hist (fun _ => fromConfigProg seed n g filters)) σ).1
        = filters.foldl (fun acc f => f acc) (run (generateProg seed n g) σ').1

/-- PURE: a program that seeds every generator before drawing from it returns the same value from all RNG states,
    for every RNG implementation (and emits the same event trace). -/
theorem C04_pure {α} (p : Prog α) (h : WellSeeded p) (I : Impl) (σ σ' : States I) :
    (run p σ).1 = (run p σ').1 ∧ trace p σ = trace p σ' :=
  run_agree p _ σ σ' h (by intro r hr; cases hr)

/-- AFTER ANY HISTORY: whatever ran before (any program `hist`), a well-seeded program returns what it returns
    from any other state. -/
theorem C04_after_any_history {α β} (hist : Prog β) (q : Prog α) (h : WellSeeded q) (I : Impl) (σ σ' : States I) :
    (run (bind hist (fun _ => q)) σ).1 = (run q σ').1 := by
  rw [run_bind]
  exact (C04_pure q h I _ σ').1

/-- the shape of serial `generate` is well seeded whenever the per-maze generator only touches python `random`,
    numpy's global RNG and torch's global RNG — for all seeds, counts and generators. -/
theorem C04_generate_wellseeded {μ} (seed n : Nat) (g : Prog μ) (hg : UsesOnly seeded3 g) :
    WellSeeded (generateProg seed n g) := by
  unfold WellSeeded generateProg setReproducibility
  simp only [WS]
  have hsd : ∀ r, seeded3 r = true →
      (fun r' => if r' = RngId.torch then true else if r' = RngId.np then true else if r' = RngId.py then true else false) r = true := by
    intro r hr; cases r <;> simp_all [seeded3]
  refine WS_bind _ _ _ (WS_repeatGen g _ (WS_of_usesOnly g seeded3 _ hsd hg) n) (fun ms => ?_)
  simp only [WS]

/-- `generate` is a function of (seed, n, generator) alone -/
theorem C04_generate_pure {μ} (seed n : Nat) (g : Prog μ) (hg : UsesOnly seeded3 g) (I : Impl) (σ σ' : States I) :
    (run (generateProg seed n g) σ).1 = (run (generateProg seed n g) σ').1 :=
  (C04_pure _ (C04_generate_wellseeded seed n g hg) I σ σ').1

/-- `from_config` without cache = the recorded filters, in order, over what `generate` gives — from any state -/
theorem C04_from_config {μ} (seed n : Nat) (g : Prog μ) (filters : List (List μ → List μ)) (hg : UsesOnly seeded3 g)
    (I : Impl) (σ σ' : States I) :
    (run (fromConfigProg seed n g filters) σ).1 = filters.foldl (fun acc f => f acc) (run (generateProg seed n g) σ').1 := by
  unfold fromConfigProg
  rw [run_bind]
  simp only [run]
  rw [C04_generate_pure seed n g hg I σ σ']

/-- what the harness checks on a recorded trace is necessary: every run of a well-seeded program has a trace that
    `wsTrace` accepts -/
theorem C04_trace_sound {α} (p : Prog α) (h : WellSeeded p) (I : Impl) (σ : States I) :
    wsTrace (fun _ => false) (trace p σ) = true :=
  wsTrace_of_WS p _ σ h

/-- the configuration object passed in is not modified: `from_config` works on a copy cell; every cell that existed
    before (the request's in particular) is unchanged, and the dataset's cell is a new one. -/
theorem C04_request_cfg_untouched (heap : List CfgCell) (req nAfter : Nat) (heap' : List CfgCell) (addr : Nat)
    (h : fromConfigHeap heap req nAfter = some (heap', addr)) :
    addr = heap.length ∧ addr ≠ req ∧ (∀ i, i < heap.length → heap'[i]? = heap[i]?) ∧ heap'[req]? = heap[req]? := by
  unfold fromConfigHeap at h
  cases hc : heap[req]? with
  | none => simp [hc] at h
  | some c =>
    simp only [hc, Option.some.injEq, Prod.mk.injEq] at h
    obtain ⟨h1, h2⟩ := h
    have hreq : req < heap.length := by
      rcases Nat.lt_or_ge req heap.length with h | h
      · exact h
      · rw [List.getElem?_eq_none h] at hc; cases hc
    have key : ∀ i, i < heap.length → heap'[i]? = heap[i]? := by
      intro i hi
      rw [← h1]
      have hne : heap.length ≠ i := by omega
      rw [List.getElem?_set_ne hne, List.getElem?_set_ne hne, List.getElem?_append_left hi]
    exact ⟨h2.symm, by omega, key, (key req hreq).trans hc⟩

theorem C04_full_holds : C04_full := by
  intro μ β seed n g filters hist hg I σ σ'
  rw [run_bind]
  exact C04_from_config seed n g filters hg I _ σ'

/-! ## non-vacuity -/

/-- a toy RNG: state = counter, `seed s` = s, a draw returns `state + request` and increments -/
private def toy : Impl := ⟨Nat, fun s => s, fun st req => (st + req, st + 1)⟩
private def st (n : Nat) : States toy := fun _ => n
/-- a per-maze generator drawing from numpy and python `random`, branching on the drawn value -/
private def g2 : Prog Nat := .draw .np 10 (fun a => if a % 2 = 0 then .draw .py 3 (fun b => .ret (a + b)) else .ret a)
/-- a generator that uses the never-reseeded module-level `numpy_rng` -/
private def gBad : Prog Nat := .draw .npGen 0 (fun a => .ret a)

-- C04_pure / C04_generate_wellseeded / C04_generate_pure: two very different prior RNG states, same 3 mazes
example : (run (I := toy) (generateProg 42 3 g2) (st 0)).1 = (run (I := toy) (generateProg 42 3 g2) (st 1000)).1 := by decide
example : (run (I := toy) (generateProg 42 3 g2) (st 0)).1 = [97, 53, 100] := by decide
example : UsesOnly seeded3 g2 := by
  refine ⟨rfl, fun a => ?_⟩
  by_cases h : a % 2 = 0 <;> simp [h, UsesOnly, seeded3]
-- C04_after_any_history: a history that draws from everything
example : (run (I := toy) (bind gBad (fun _ => bind g2 (fun _ => generateProg 42 3 g2))) (st 7)).1 = [97, 53, 100] := by decide
-- C04_from_config: filters applied in order
example : (run (I := toy) (fromConfigProg 42 3 g2 [List.filter (· > 60), List.map (· + 1)]) (st 5)).1 = [98, 101] := by decide
-- C04_trace_sound: the recorded trace of that run is accepted; the trace of the `numpy_rng` generator is rejected
example : wsTrace (fun _ => false) (trace (I := toy) (generateProg 42 2 g2) (st 0)) = true := by decide
example : wsTrace (fun _ => false) (trace (I := toy) (generateProg 42 2 gBad) (st 0)) = false ∧
    firstUnseeded (fun _ => false) (trace (I := toy) (generateProg 42 2 gBad) (st 0)) 0 = some 3 := by decide
-- the hypothesis matters: with the never-reseeded generator the output DOES depend on the prior state
example : (run (I := toy) (generateProg 42 2 gBad) (st 0)).1 ≠ (run (I := toy) (generateProg 42 2 gBad) (st 9)).1 := by decide
-- C04_request_cfg_untouched
example : fromConfigHeap [⟨42, ["path_length"], 5⟩] 0 3 = some ([⟨42, ["path_length"], 5⟩, ⟨42, ["path_length"], 3⟩], 1) := by decide
example : C04_full := C04_full_holds

end MZ.Rng
