import MazeVerif.Lemmas.DfsFinal
/-! scratch prototype: C12 statements about gen_dfs metadata, for ALL argument values -/
namespace MZ

theorem loop_invT {rows cols a start} : ∀ (fuel : Nat) (s s' : St),
    InvT rows cols start s → loop rows cols a fuel s = some s' →
    InvT rows cols start s' ∧ s'.visited.length ≤ max 1 (max s.visited.length a.nAcc) := by
  intro fuel
  induction fuel with
  | zero => intro s s' _ h; simp [loop] at h
  | succ fuel ih =>
    intro s s' hT h
    unfold loop at h
    split at h
    · next hcond =>
      split at h
      · next s1 hstep =>
        have hS := step_spec hstep
        obtain ⟨h1, h2⟩ := ih s1 s' (hT.step hS) h
        refine ⟨h1, ?_⟩
        have : s1.visited.length ≤ s.visited.length + 1 := by
          cases hS with
          | extend => simp
          | back => simp
        omega
      · simp at h
    · simp only [Option.some.injEq] at h; subst h
      exact ⟨hT, by omega⟩

/-- both endpoints of an adjacency are endpoints of a stored edge -/
theorem adj_ends {E : List Edge} {a b : Cell} (h : Adj E a b) :
    ∃ e ∈ E, (ends e = (a, b) ∨ ends e = (b, a)) := by
  obtain ⟨a1, a2⟩ := a
  obtain ⟨b1, b2⟩ := b
  rcases h with ⟨h1, h2⟩ | ⟨h1, h2⟩ | ⟨h1, h2⟩ | ⟨h1, h2⟩
  · exact ⟨_, h2, Or.inl (by simp [ends] at h1 ⊢; omega)⟩
  · exact ⟨_, h2, Or.inr (by simp [ends] at h1 ⊢; omega)⟩
  · exact ⟨_, h2, Or.inl (by simp [ends] at h1 ⊢; omega)⟩
  · exact ⟨_, h2, Or.inr (by simp [ends] at h1 ⊢; omega)⟩

/-- C12: `visited_cells` is exactly the set of cells reachable from `start_coord` — for every argument combination -/
theorem genDfs_visited_exact {rows cols a start rng fuel s} (hs : inGrid rows cols start)
    (h : genDfs rows cols a start rng fuel = some s) (t : Cell) :
    t ∈ s.visited ↔ Reach s.edges start t := by
  obtain ⟨hT, _⟩ := loop_invT fuel _ _ (InvT.init hs) h
  constructor
  · exact hT.reach t
  · intro hr
    induction hr with
    | refl => exact hT.hstart
    | step _ hadj _ =>
      obtain ⟨e, he, hends⟩ := adj_ends hadj
      have := hT.eends e he
      rcases hends with h1 | h1 <;> rw [h1] at this
      · exact this.2
      · exact this.1

/-- C12: never more cells than requested (but always the start cell) -/
theorem genDfs_count_le {rows cols a start rng fuel s} (hs : inGrid rows cols start)
    (h : genDfs rows cols a start rng fuel = some s) : s.visited.length ≤ max 1 a.nAcc := by
  have := (loop_invT fuel _ _ (InvT.init hs) h).2
  simp only [init, List.length_cons, List.length_nil] at this; omega

/-- C12: the `fully_connected` flag (`len(visited) == n_total`) is set exactly when every cell reaches every other -/
theorem genDfs_flag_iff {rows cols a start rng fuel s} (hs : inGrid rows cols start)
    (h : genDfs rows cols a start rng fuel = some s) :
    s.visited.length = rows * cols ↔
      ∀ u v, inGrid rows cols u → inGrid rows cols v → Reach s.edges u v := by
  obtain ⟨hT, _⟩ := loop_invT fuel _ _ (InvT.init hs) h
  have hlen := all_of_length hT.nodup hT.grid
  constructor
  · intro heq u v hu hv
    have hu' := hT.reach u (hlen.2 (by omega) u hu)
    have hv' := hT.reach v (hlen.2 (by omega) v hv)
    exact hu'.symm.trans hv'
  · intro hall
    have hmem : ∀ t, inGrid rows cols t → t ∈ s.visited :=
      fun t ht => (genDfs_visited_exact hs h t).mpr (hall start t hs ht)
    have hc := List.subperm_of_subset (l₁ := cells rows cols) (l₂ := s.visited) (cells_nodup rows cols)
      (fun c hc => hmem c (mem_cells.mp hc))
    have := hc.length_le; simp [length_cells] at this
    have := hlen.1; omega

end MZ
