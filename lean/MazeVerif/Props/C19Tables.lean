import MazeVerif.Model.WilsonProb
/-! The exact probability tables of C19 for the small grids, closed by evaluating the executable model with compiled
    code (`native_decide`: adds the axioms `Lean.ofReduceBool` / `Lean.trustCompiler`, named in the trusted base).
    `C19Tables.lean`, `C19Table33.lean` and `C19Table24.lean` are the ONLY files of the library in which `native_decide` may appear.
    Each line says: the grid has exactly `N` spanning trees (duplicate-free list), and the exact law of the step
    machine after `n0` draws gives each of them a probability in `[1/N - 10⁻⁹, 1/N]` and leaves at most `10⁻⁹`
    unfinished. -/
namespace MZ.WProb

def eps9 : Rat := 1 / 10 ^ 9

theorem table_2x2 : tableOK 2 2 80 4 eps9 = true := by native_decide
theorem table_2x3 : tableOK 2 3 200 15 eps9 = true := by native_decide
theorem table_3x2 : tableOK 3 2 200 15 eps9 = true := by native_decide

end MZ.WProb
