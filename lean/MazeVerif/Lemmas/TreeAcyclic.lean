import MazeVerif.Lemmas.TreeBridge
import MazeVerif.Lemmas.DfsMore
/-! "No cycle" in Mathlib's sense (`SimpleGraph.IsAcyclic` of `graphOf E`) carried through both generators. -/
namespace MZ
open List SimpleGraph

/-- tree on the visited set whose graph is acyclic -/
def ATree (rows cols : Nat) (start : Cell) (vis : List Cell) (E : List Edge) : Prop :=
  TreeOn rows cols start vis E ∧ (graphOf E).IsAcyclic

theorem ATree.leaf {rows cols start vis E} (h : ATree rows cols start vis E) {cur nb : Cell}
    (hcur : cur ∈ vis) (hn : nb ∈ nbrs cur) (hnv : nb ∉ vis) (hg : inGrid rows cols nb) :
    ATree rows cols start (vis ++ [nb]) (E ++ [edgeOf cur nb]) :=
  ⟨h.1.leaf hcur hn hnv hg, acyc_leaf h.1 h.2 hcur hn hnv⟩

theorem ATree.perm {rows cols start vis vis' E E'} (h : ATree rows cols start vis E)
    (pv : vis ~ vis') (pe : E ~ E') : ATree rows cols start vis' E' :=
  ⟨h.1.perm pv pe, by rw [← graphOf_congr (fun e => pe.mem_iff)]; exact h.2⟩

theorem ATree.attach {rows cols start} : ∀ (path : List Cell) {vis E},
    ATree rows cols start vis E → path ≠ [] → Chain path → path.Nodup →
    (∀ c ∈ path, inGrid rows cols c) → (∀ c ∈ path.dropLast, c ∉ vis) → path.getLast! ∈ vis →
    ATree rows cols start (vis ++ path.dropLast) (E ++ pathEdges path)
  | [], _, _, _, hne, _, _, _, _, _ => absurd rfl hne
  | [p], vis, E, h, _, _, _, _, _, _ => by simpa [pathEdges] using h
  | a :: b :: rest, vis, E, h, _, hch, hnd, hg, hfresh, hlast => by
    have hnd' := List.nodup_cons.mp hnd
    have ih := ATree.attach (b :: rest) h (by simp) hch.2 hnd'.2
      (fun c hc => hg c (List.mem_cons_of_mem _ hc))
      (fun c hc => hfresh c (by
        simp only [List.dropLast_cons_cons, List.mem_cons]; exact Or.inr hc))
      (by simpa [List.getLast!] using hlast)
    have hb : b ∈ vis ++ (b :: rest).dropLast := by
      rcases rest with _ | ⟨c, rest'⟩
      · simp [List.getLast!] at hlast; simp [hlast]
      · simp
    have ha_notin : a ∉ vis ++ (b :: rest).dropLast := by
      simp only [List.mem_append, not_or]
      refine ⟨hfresh a (by simp), ?_⟩
      intro hmem
      exact hnd'.1 (List.dropLast_subset _ hmem)
    have hleaf := ih.leaf hb (nbrs_symm hch.1) ha_notin (hg a (by simp))
    rw [← edgeOf_comm hch.1] at hleaf
    refine hleaf.perm ?_ ?_
    · rw [List.dropLast_cons_cons, List.append_assoc]
      exact List.Perm.append_left _ (List.perm_append_singleton _ _)
    · simp only [pathEdges]
      rw [List.append_assoc]
      exact List.Perm.append_left _ (List.perm_append_singleton _ _)

theorem outer_invA {rows cols start} : ∀ (fuel : Nat) (s s' : WSt),
    ATree rows cols start s.vis s.E → outer rows cols fuel s = some s' →
    ATree rows cols start s'.vis s'.E := by
  intro fuel
  induction fuel with
  | zero => intro s s' _ h; simp [outer] at h
  | succ fuel ih =>
    intro s s' hT h
    unfold outer at h
    simp only at h
    split at h
    · simp only [Option.some.injEq] at h; subst h; exact hT
    · split at h
      · simp at h
      · split at h
        · simp at h
        · next u hu =>
          split at h
          · simp at h
          · next path rng2 hw =>
            have hum := List.mem_of_getElem? hu
            simp only [List.mem_filter, decide_eq_true_eq] at hum
            have hwi : WI rows cols s.vis [u] :=
              ⟨by simp, by simp [Chain], by simp, by intro c hc; simp at hc; subst hc; exact mem_cells.mp hum.1, by simp⟩
            obtain ⟨hwi', hlast⟩ := walk_inv fuel _ _ _ _ hwi hw
            exact ih _ _ (hT.attach path hwi'.ne hwi'.chain hwi'.nodup hwi'.grid hwi'.fresh hlast) h

theorem genWilson_acyclic {rows cols : Nat} {start : Cell} {rng : List Nat} {fuel : Nat} {s : WSt}
    (hs : inGrid rows cols start) (h : genWilson rows cols start rng fuel = some s) :
    (graphOf s.E).IsAcyclic := by
  have h0 : ATree rows cols start [start] [] :=
    ⟨⟨by simp, by intro c hc; simp at hc; subst hc; exact hs, by simp, by simp, by simp, by simp,
     by intro c hc; simp at hc; subst hc; exact .refl _, by simp⟩, acyc_nil⟩
  exact (outer_invA fuel _ _ h0 h).2

/-! ### DFS: every argument combination yields an acyclic graph -/

theorem InvT.treeOn {rows cols start s} (h : InvT rows cols start s) : TreeOn rows cols start s.visited s.edges :=
  ⟨h.nodup, h.grid, h.len, h.enodup, h.edim, h.eends, h.reach, h.hstart⟩

theorem dfs_step_acyclic {rows cols a start s s'} (inv : InvT rows cols start s)
    (hac : (graphOf s.edges).IsAcyclic) (h : Step rows cols a s s') : (graphOf s'.edges).IsAcyclic := by
  cases h with
  | extend i cur nb rng' hcur hnb hd =>
    have hm := mem_cands.mp hnb
    exact acyc_leaf inv.treeOn hac (inv.sub _ (List.mem_of_getElem? hcur)) hm.1 hm.2.1
  | back => exact hac

theorem loop_acyclic {rows cols a start} : ∀ (fuel : Nat) (s s' : St),
    InvT rows cols start s → (graphOf s.edges).IsAcyclic → loop rows cols a fuel s = some s' →
    (graphOf s'.edges).IsAcyclic := by
  intro fuel
  induction fuel with
  | zero => intro s s' _ _ h; simp [loop] at h
  | succ fuel ih =>
    intro s s' hT hac h
    unfold loop at h
    split at h
    · split at h
      · next s1 hstep =>
        have hS := step_spec hstep
        exact ih s1 s' (hT.step hS) (dfs_step_acyclic hT hac hS) h
      · simp at h
    · simp only [Option.some.injEq] at h; subst h; exact hac

theorem genDfs_acyclic {rows cols a start rng fuel s} (hs : inGrid rows cols start)
    (h : genDfs rows cols a start rng fuel = some s) : (graphOf s.edges).IsAcyclic :=
  loop_acyclic fuel _ _ (InvT.init hs) (by simpa [MZ.init] using acyc_nil) h

end MZ
