import MazeVerif.Lemmas.PixelsRead
/-! The solution re-ordering walk of `from_pixels`: on a chordless simple path it retraces the path, and a
    shortest path is simple and chordless. -/
namespace MZ.Pix

theorem filter_eq_singleton {l : List Cell} {P : Cell → Bool} {a : Cell} (hn : l.Nodup)
    (h : ∀ c, c ∈ l ∧ P c = true ↔ c = a) : l.filter P = [a] :=
  eq_singleton_of_nodup (hn.filter _) (fun x => by rw [List.mem_filter]; exact h x)

/-- the walk retraces `cur :: suf` whenever at every position the filtered neighbour list is exactly the next cell -/
theorem walk_spec (nb : Cell → List Cell) (raw : List Cell) (stop : Cell) :
    ∀ (suf done : List Cell) (cur : Cell) (fuel : Nat), suf.length < fuel →
      (cur :: suf).getLast (by simp) = stop → (cur :: suf).Nodup →
      (∀ A x y B, cur :: suf = A ++ x :: y :: B →
        (nb x).filter (fun c => decide (c ∈ raw) && !decide (c ∈ done ++ A ++ [x])) = [y]) →
      walk nb raw stop fuel done cur = .ok (done ++ cur :: suf)
  | [], done, cur, fuel, hf, hl, _, _ => by
    obtain ⟨f, rfl⟩ : ∃ f, fuel = f + 1 := ⟨fuel - 1, by simp at hf; omega⟩
    simp only [List.getLast_singleton] at hl
    simp only [walk, hl, if_true]
  | y :: suf, done, cur, fuel, hf, hl, hn, hstep => by
    obtain ⟨f, rfl⟩ : ∃ f, fuel = f + 1 := ⟨fuel - 1, by simp at hf; omega⟩
    have hne : cur ≠ stop := by
      intro h
      have hmem : stop ∈ y :: suf := by
        have : (y :: suf).getLast (by simp) = stop := by simpa [List.getLast_cons] using hl
        exact this ▸ List.getLast_mem _
      rw [List.nodup_cons] at hn
      exact hn.1 (h ▸ hmem)
    have h0 := hstep [] cur y suf rfl
    simp only [List.append_nil] at h0
    have ih := walk_spec nb raw stop suf (done ++ [cur]) y f (by simp at hf ⊢; omega)
      (by simpa [List.getLast_cons] using hl) (List.nodup_cons.1 hn).2
      (fun A x y' B hsplit => by
        have := hstep (cur :: A) x y' B (by rw [hsplit]; rfl)
        simpa [List.append_assoc] using this)
    simp only [walk, hne, if_false, h0, ih, List.append_assoc, List.singleton_append]

/-! ## simple chordless paths -/
/-- no connection between non-consecutive cells of the path (looking forward) -/
def Chordless (E : List Edge) (p : List Cell) : Prop :=
  ∀ A x y B c, p = A ++ x :: y :: B → c ∈ B → ¬ Adj E x c

theorem PathIn.right {E : List Edge} : ∀ {A B : List Cell}, PathIn E (A ++ B) → PathIn E B
  | [], _, h => h
  | [a], [], _ => trivial
  | [a], b :: B, h => h.2
  | a :: a' :: A, B, h => PathIn.right (A := a' :: A) h.2

theorem PathIn.left {E : List Edge} : ∀ {A B : List Cell}, PathIn E (A ++ B) → PathIn E A
  | [], _, _ => trivial
  | [a], _, _ => trivial
  | a :: a' :: A, B, h => ⟨h.1, PathIn.left (A := a' :: A) h.2⟩

theorem PathIn.glue {E : List Edge} : ∀ {A : List Cell} {x : Cell} {B : List Cell}, PathIn E (A ++ [x]) → PathIn E (x :: B) →
    PathIn E (A ++ x :: B)
  | [], _, _, _, h => h
  | [a], _, _, h1, h2 => ⟨h1.1, h2⟩
  | a :: a' :: A, _, _, h1, h2 => ⟨h1.1, PathIn.glue (A := a' :: A) h1.2 h2⟩

theorem PathIn.adj_at {E : List Edge} {A : List Cell} {x y : Cell} {B : List Cell} (h : PathIn E (A ++ x :: y :: B)) : Adj E x y :=
  (PathIn.right (A := A) h).1

theorem edgeOf_of_adj {E : List Edge} {a b : Cell} (h : Adj E a b) : edgeOf a b ∈ E := by
  obtain ⟨a1, a2⟩ := a
  obtain ⟨b1, b2⟩ := b
  rcases h with ⟨h, he⟩ | ⟨h, he⟩ | ⟨h, he⟩ | ⟨h, he⟩ <;> simp only [Prod.mk.injEq] at h he
  · rw [h.1, h.2, edgeOf_down]; exact he
  · have := edgeOf_up (b1 + 1) b2
    rw [Int.add_sub_cancel] at this
    rw [h.1, h.2, this]; exact he
  · rw [h.1, h.2, edgeOf_right]; exact he
  · have := edgeOf_left b1 (b2 + 1)
    rw [Int.add_sub_cancel] at this
    rw [h.1, h.2, this]; exact he

/-- `p` is a path in `E` and no path in `E` with the same endpoints is shorter -/
def IsShortest (E : List Edge) (p : List Cell) : Prop :=
  PathIn E p ∧ ∀ q, PathIn E q → q.head? = p.head? → q.getLast? = p.getLast? → p.length ≤ q.length

theorem nodup_of_splits {p : List Cell} (h : ∀ A x M, p = A ++ x :: M → x ∉ M) : p.Nodup := by
  induction p with
  | nil => exact List.nodup_nil
  | cons a p ih =>
    rw [List.nodup_cons]
    exact ⟨h [] a p rfl, ih (fun A x M hsplit => h (a :: A) x M (by rw [hsplit]; rfl))⟩

theorem IsShortest.nodup {E : List Edge} {p : List Cell} (h : IsShortest E p) : p.Nodup := by
  apply nodup_of_splits
  intro A x M hsplit hx
  obtain ⟨M1, M2, rfl⟩ := List.append_of_mem hx
  have hp := h.1
  rw [hsplit] at hp
  have hq : PathIn E (A ++ x :: M2) := by
    apply PathIn.glue
    · have : A ++ x :: (M1 ++ x :: M2) = (A ++ [x]) ++ (M1 ++ x :: M2) := by simp
      rw [this] at hp; exact hp.left
    · have : A ++ x :: (M1 ++ x :: M2) = (A ++ x :: M1) ++ (x :: M2) := by simp
      rw [this] at hp; exact hp.right
  have := h.2 _ hq (by rw [hsplit]; cases A <;> simp) (by
      rw [hsplit, List.getLast?_append_of_ne_nil _ (by simp), List.getLast?_append_of_ne_nil _ (by simp),
        ← List.cons_append, List.getLast?_append_of_ne_nil _ (by simp)])
  rw [hsplit] at this
  simp at this
  omega

theorem IsShortest.chordless {E : List Edge} {p : List Cell} (h : IsShortest E p) : Chordless E p := by
  intro A x y B c hsplit hc hadj
  obtain ⟨B1, B2, rfl⟩ := List.append_of_mem hc
  have hp := h.1
  rw [hsplit] at hp
  have hq : PathIn E (A ++ x :: c :: B2) := by
    apply PathIn.glue
    · have : A ++ x :: y :: (B1 ++ c :: B2) = (A ++ [x]) ++ (y :: (B1 ++ c :: B2)) := by simp
      rw [this] at hp; exact hp.left
    · refine ⟨hadj, ?_⟩
      have : A ++ x :: y :: (B1 ++ c :: B2) = (A ++ x :: y :: B1) ++ (c :: B2) := by simp
      rw [this] at hp; exact hp.right
  have := h.2 _ hq (by rw [hsplit]; cases A <;> simp) (by
      rw [hsplit, List.getLast?_append_of_ne_nil _ (by simp), List.getLast?_append_of_ne_nil _ (by simp)]
      show (c :: B2).getLast? = ((x :: y :: B1) ++ c :: B2).getLast?
      rw [List.getLast?_append_of_ne_nil _ (by simp)])
  rw [hsplit] at this
  simp at this
  omega

end MZ.Pix
