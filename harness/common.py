"""Shared machinery of the /verif checks (runs under /venv/bin/python with /repo importable).

Pipeline of one check run (see DESIGN.md sections 2, 3, 10):
  translate -> lake build (lib target of the property + driver exe) -> hygiene grep -> axiom audit
  -> correspondence (model vs. real code, via the compiled Lean driver) + spec oracles on the real outputs
  -> on any broken obligation/correspondence: failing-input search against the real code
  -> evidence file, VIOLATION / KNOWN-FINDING lines, exit code.
"""
from __future__ import annotations
import fcntl, hashlib, json, os, random, re, shutil, subprocess, sys, time, traceback
from dataclasses import dataclass, field
from pathlib import Path

VERIF = Path(__file__).resolve().parent.parent
REPO = Path(os.environ.get("VERIF_REPO", "/repo"))
LEAN = VERIF / "lean"
if str(REPO) != "/repo":
    # a run against a scratch worktree (seeded-change testing) gets its own copy of the Lean project (sources + build output), so that
    # the files re-emitted from THAT tree, the rebuilt theorems and the driver binary never mix with runs against /repo or other worktrees
    LEAN = VERIF / ".work" / ("lean_" + hashlib.sha1(str(REPO).encode()).hexdigest()[:10])
DRIVER = LEAN / ".lake" / "build" / "bin" / "mzdriver"


def prepare_scratch_lean():
    """called ONCE by run.py at the start of a run against a scratch worktree: fresh copy of the Lean project"""
    if str(REPO) != "/repo":
        LEAN.parent.mkdir(parents=True, exist_ok=True)
        subprocess.run(["rsync", "-a", "--delete", str(VERIF / "lean") + "/", str(LEAN) + "/"], check=True)
ALLOWED_AXIOMS = {"propext", "Classical.choice", "Quot.sound"}
# theorem-name-prefix -> extra axioms accepted there (named in DESIGN.md trusted base)
EXTRA_AXIOMS: dict[str, str] = {
    "C19_uniform_": r"MZ\.WProb\.table_\dx\d\._native\.native_decide\.ax_\w+|Lean\.ofReduceBool|Lean\.trustCompiler",
    "C19_full_partial_holds": r"MZ\.WProb\.table_\dx\d\._native\.native_decide\.ax_\w+|Lean\.ofReduceBool|Lean\.trustCompiler",
    "C19_full_partial8_holds": r"MZ\.WProb\.table_\dx\d\._native\.native_decide\.ax_\w+|Lean\.ofReduceBool|Lean\.trustCompiler",
    "C19_every_tree_appears_": r"MZ\.WProb\.table_\dx\d\._native\.native_decide\.ax_\w+|Lean\.ofReduceBool|Lean\.trustCompiler"}
FORBIDDEN = re.compile(r"\b(sorry|admit|native_decide|bv_decide|implemented_by|unsafe)\b|^axiom\s|maxHeartbeats\s+0\b")
# files where `native_decide` is allowed (named in the trusted base)
NATIVE_DECIDE_OK: set[str] = {"C19Tables.lean", "C19Table33.lean", "C19Table24.lean", "C19Table25.lean"}


def sh(cmd, cwd=None, timeout=None, env=None):
    p = subprocess.run(cmd, cwd=cwd, capture_output=True, text=True, timeout=timeout, env=env)
    return p.returncode, p.stdout, p.stderr


class BuildLock:
    def __enter__(self):
        (VERIF / ".work").mkdir(exist_ok=True)
        self.f = open(VERIF / ".work" / "build.lock", "w")
        fcntl.flock(self.f, fcntl.LOCK_EX)
        return self

    def __exit__(self, *a):
        fcntl.flock(self.f, fcntl.LOCK_UN)
        self.f.close()


def translate() -> tuple[bool, str]:
    """re-emit lean/MazeVerif/Generated/*.lean from /repo's current source"""
    tr = VERIF / "harness" / "translate.py"
    if not tr.exists():
        return True, "no translator"
    try:
        rc, out, err = sh([sys.executable, str(tr)], cwd=VERIF, timeout=180, env=dict(os.environ, VERIF_LEAN_DIR=str(LEAN)))
    except subprocess.TimeoutExpired:
        # (seconds on the unchanged tree) the source can no longer be read the way the translator reads it, e.g. a lazily
        # enumerated space became eager: the generated part of the model cannot be refreshed -> a broken obligation, then the search
        return False, "the translator did not finish within 180 s on the current source (it takes about 3 s on the tree it was written for)"
    return rc == 0, out + err


def lake_build(targets: list[str]) -> tuple[bool, str]:
    rc, out, err = sh(["lake", "build", *targets], cwd=LEAN, timeout=3600)
    return rc == 0, out + err


def strip_comments(src: str) -> str:
    # remove nested block comments and line comments (doc comments included)
    out, i, depth, n = [], 0, 0, len(src)
    while i < n:
        if src.startswith("/-", i):
            depth += 1; i += 2; continue
        if depth and src.startswith("-/", i):
            depth -= 1; i += 2; continue
        if depth:
            if src[i] == "\n": out.append("\n")
            i += 1; continue
        if src.startswith("--", i):
            while i < n and src[i] != "\n": i += 1
            continue
        out.append(src[i]); i += 1
    return "".join(out)


def hygiene() -> list[str]:
    """forbidden constructs outside comments anywhere in the Lean sources"""
    hits = []
    for p in sorted(LEAN.rglob("*.lean")):
        if ".lake" in p.parts:
            continue
        code = strip_comments(p.read_text())
        for ln, line in enumerate(code.split("\n"), 1):
            m = FORBIDDEN.search(line)
            if m:
                if "native_decide" in m.group(0) and p.name in NATIVE_DECIDE_OK:
                    continue
                hits.append(f"{p.relative_to(LEAN)}:{ln}: {line.strip()[:120]}")
    return hits


def props_file(pid: str) -> Path:
    return LEAN / "MazeVerif" / "Props" / f"{pid}.lean"


def registry(pid: str) -> tuple[list[str], int]:
    """property theorems (fully qualified) and number of non-vacuity examples in Props/<pid>.lean"""
    src = strip_comments(props_file(pid).read_text())
    ns, names, examples = [], [], 0
    for line in src.split("\n"):
        m = re.match(r"\s*namespace\s+(\S+)", line)
        if m: ns.append(m.group(1)); continue
        m = re.match(r"\s*end\s+(\S+)", line)
        if m and ns and ns[-1] == m.group(1): ns.pop(); continue
        m = re.match(r"\s*(?:@\[[^\]]*\]\s*)?(private\s+|protected\s+)?theorem\s+(\S+)", line)
        if m and not m.group(1):
            names.append(".".join(ns + [m.group(2)]))
        if re.match(r"\s*example\b", line):
            examples += 1
    return names, examples


def leancheck(pid: str) -> tuple[bool, str, int]:
    """thorough tier: the toolchain's independent re-checker replays the compiled declarations of Props/Cxx and of every module of this
    library it imports (transitively) through the kernel once more"""
    seen, todo = [], [f"MazeVerif.Props.{pid}"]
    while todo:
        m = todo.pop()
        if m in seen: continue
        f = LEAN / (m.replace(".", "/") + ".lean")
        if not f.exists(): continue
        seen.append(m)
        for line in f.read_text().splitlines():
            mm = re.match(r"\s*import\s+(MazeVerif\.[\w.]+)", line)
            if mm: todo.append(mm.group(1))
    rc, out, err = sh(["lake", "env", "leanchecker", *seen], cwd=LEAN, timeout=3600)
    return rc == 0, (out + err)[-1500:], len(seen)


def audit(pid: str, workdir: Path) -> dict:
    """`#print axioms` for every property theorem; returns {name: [axioms]} and failures"""
    names, examples = registry(pid)
    mod = f"MazeVerif.Props.{pid}"
    f = workdir / f"Audit_{pid}.lean"
    f.write_text(f"import {mod}\n" + "".join(f"#print axioms {n}\n" for n in names))
    rc, out, err = sh(["lake", "env", "lean", str(f)], cwd=LEAN, timeout=1800)
    txt = out + err
    res, bad = {}, []
    for n in names:
        m = re.search(r"'" + re.escape(n) + r"' (does not depend on any axioms|depends on axioms: \[([^\]]*)\])", txt)
        if not m:
            bad.append(f"{n}: no axiom report"); continue
        axs = [a.strip() for a in (m.group(2) or "").replace("\n", " ").split(",") if a.strip()]
        res[n] = axs
        extra = set(axs) - ALLOWED_AXIOMS
        for pref, ok in EXTRA_AXIOMS.items():
            if n.split(".")[-1].startswith(pref):
                extra = {a for a in extra if not re.fullmatch(ok, a)}
        if extra:
            bad.append(f"{n}: unexpected axioms {sorted(extra)}")
    return dict(names=names, examples=examples, axioms=res, bad=bad, rc=rc, log=txt[-4000:] if (rc or bad) else "")


class Driver:
    """batch interface to the compiled Lean model driver"""
    def __init__(self, workdir: Path):
        self.workdir = workdir
        self.n = 0

    def run(self, requests: list[dict], timeout=3600) -> list[dict]:
        if not requests:
            return []
        self.n += 1
        inp = self.workdir / f"req_{self.n}.jsonl"
        with open(inp, "w") as f:
            for r in requests:
                f.write(json.dumps(r, separators=(",", ":")) + "\n")
        with open(inp) as fin:
            p = subprocess.run([str(DRIVER)], stdin=fin, capture_output=True, text=True, timeout=timeout)
        lines = [l for l in p.stdout.split("\n") if l.strip()]
        if len(lines) != len(requests):
            raise RuntimeError(f"driver answered {len(lines)} of {len(requests)} requests; rc={p.returncode}; stderr={p.stderr[-2000:]}")
        inp.unlink()
        return [json.loads(l) for l in lines]

    def run_parallel(self, requests: list[dict], jobs=16, timeout=3600) -> list[dict]:
        if len(requests) < 2000 or jobs <= 1:
            return self.run(requests, timeout)
        from concurrent.futures import ThreadPoolExecutor
        chunk = (len(requests) + jobs - 1) // jobs
        parts = [requests[i:i + chunk] for i in range(0, len(requests), chunk)]
        drivers = [Driver(self.workdir) for _ in parts]
        for k, d in enumerate(drivers): d.n = 1000 * (k + 1) + self.n
        with ThreadPoolExecutor(jobs) as ex:
            outs = list(ex.map(lambda a: a[0].run(a[1], timeout), zip(drivers, parts)))
        return [x for o in outs for x in o]


def load_known_findings() -> list[dict]:
    out = []
    p = VERIF / "known_findings.txt"
    if p.exists():
        for line in p.read_text().split("\n"):
            line = line.strip()
            if not line or line.startswith("#"):
                continue
            m = re.match(r"(finding|fixed):\s+property=(\S+)\s+(?:key=(\S+)\s+)?(.*)", line)
            if m:
                out.append(dict(kind=m.group(1), property=m.group(2), key=m.group(3), text=m.group(4)))
    return out


@dataclass
class Ctx:
    pid: str
    tier: str
    seed: int
    workdir: Path
    driver: Driver
    rng: random.Random
    t0: float = field(default_factory=time.time)
    # results accumulated by the property module
    evaluations: int = 0
    nontrivial: set = field(default_factory=set)
    samples: list = field(default_factory=list)
    histogram: dict = field(default_factory=dict)
    traces_validated: int = 0
    disagreements: list = field(default_factory=list)   # model vs implementation differ (correspondence broken)
    violations: list = field(default_factory=list)      # concrete failing inputs on the REAL code: dicts with key 'key' (finding key) and 'what'
    notes: list = field(default_factory=list)
    exhaustive: bool = False
    extra: dict = field(default_factory=dict)

    @property
    def quick(self): return self.tier == "quick"

    def count(self, bucket: str, k: int = 1):
        self.histogram[bucket] = self.histogram.get(bucket, 0) + k

    def case(self, canon, nontrivial: bool = True):
        """register one evaluated case; `canon` any hashable/JSON-able canonical form"""
        self.evaluations += 1
        if nontrivial:
            h = hashlib.blake2b(json.dumps(canon, sort_keys=True, default=str).encode(), digest_size=8).digest()
            self.nontrivial.add(h)

    def sample(self, obj, limit=5):
        if len(self.samples) < limit:
            self.samples.append(obj)

    def disagree(self, what: str, case):
        self.disagreements.append(dict(what=what, case=case))

    def violate(self, what: str, case, key: str = "unlisted"):
        self.violations.append(dict(what=what, case=case, key=key))


def write_replay(pid: str, name: str, obj) -> Path:
    d = VERIF / "replays" / pid
    d.mkdir(parents=True, exist_ok=True)
    p = d / name
    p.write_text(json.dumps(obj, indent=1, default=str))
    return p


def jsonable(x):
    try:
        import numpy as np
        if isinstance(x, np.ndarray): return x.tolist()
        if isinstance(x, (np.integer,)): return int(x)
        if isinstance(x, (np.floating,)): return float(x)
        if isinstance(x, (np.bool_,)): return bool(x)
    except ImportError:
        pass
    if isinstance(x, dict): return {str(k): jsonable(v) for k, v in x.items()}
    if isinstance(x, (list, tuple, set, frozenset)): return [jsonable(v) for v in x]
    return x
