import MazeVerif.Generated.CacheCfg
import MazeVerif.Generated.Constants
/-! Model of the decision logic of `GPTDataset.from_config` (dataset.py:217-314), of
    `_apply_filters_from_config` (dataset.py:375-412) and of the config comparison it relies on
    (`SerializableDataclass.diff(of_serialized=True)` over the dataclass fields with `compare=True`,
    `maze_dataset.py:92-93`: `n_mazes` is `compare=False`).

    Everything the runtime answers is a PARAMETER (`World`): what reading the cache file gives
    (`ReadOutcome`: absent / raises / a dataset / some other object), what `download` does, what `generate`
    and each filter return, whether the low-level write of `save` is cut short.  The model is the code's own
    logic around those answers.  Core Lean only. -/
namespace MZ.Cache

/-- one entry of `cfg.applied_filters`: `dict(name=…, args=(…), kwargs={…})`, values as canonical JSON text,
    kwargs sorted by key (the harness canonicalises) -/
structure FilterRec where
  name : String
  args : List String
  kwargs : List (String × String)
  deriving DecidableEq, Repr

/-- a `MazeDatasetConfig`: every dataclass field other than `applied_filters` as (field name, canonical JSON text
    of its serialized value), and the filter records -/
structure Cfg where
  fields : List (String × String)
  filters : List FilterRec
  deriving DecidableEq, Repr

/-- a dataset: its config and its mazes (payload type `μ` abstract: theorems are parametric in it) -/
structure DS (μ : Type) where
  cfg : Cfg
  mazes : μ

/-- names of the dataclass fields with `compare=True` (generated from the source) -/
def comparedFields : List String :=
  MZ.Gen.cfgFields.filterMap fun p => if p.2 then some p.1 else none

/-- all dataclass field names (generated from the source) -/
def allFields : List String := MZ.Gen.cfgFields.map (·.1)

/-- does field `f` differ between two configs (serialized values compared; `applied_filters` structurally) -/
def fieldDiffers (a b : Cfg) (f : String) : Bool :=
  if f = "applied_filters" then !(decide (a.filters = b.filters))
  else !(decide (a.fields.lookup f = b.fields.lookup f))

/-- `cfg.diff(other, of_serialized=True)`: the keys of the returned dict (muutils: loop over
    `dataclasses.fields`, `if not field.compare: continue`, compare serialized values) -/
def diff (a b : Cfg) : List String := comparedFields.filter (fieldDiffers a b)

def toFilterRec (t : String × List String × List (String × String)) : FilterRec := ⟨t.1, t.2.1, t.2.2⟩

/-- the keys the diff must consist of for the allowance (`set(cfg_diff.keys()) == {"applied_filters"}`,
    dataset.py:288-290), generated from the source -/
def allowanceKeys : List String := MZ.Gen.metaAllowanceKeys

/-- the trailing record of the allowance (`other == self + [{"name": "collect_generation_meta", …}]`,
    dataset.py:291-300), generated from the source; `none` if the test is gone -/
def allowanceRec : Option FilterRec := MZ.Gen.metaAllowanceRecord.map toFilterRec

/-- the allowance: the diff is exactly `applied_filters`, and the dataset's filter list is the request's list
    followed by one `collect_generation_meta()` record (what saving in a minimal format appends in place) -/
def metaAllowed (req out : Cfg) : Bool :=
  match allowanceRec with
  | none => false
  | some r =>
    (diff req out).all (allowanceKeys.contains ·) && allowanceKeys.all ((diff req out).contains ·) &&
    decide (out.filters = req.filters ++ [r])

structure Flags where
  doGenerate : Bool
  loadLocal : Bool
  saveLocal : Bool
  doDownload : Bool
  exceptOnMismatch : Bool
  allowMetaMismatch : Bool
  deriving DecidableEq, Repr

/-- the parameter defaults of `from_config`, looked up in the generated table (`none` if a name vanished) -/
def defaultFlags? : Option Flags := do
  let g := fun k => MZ.Gen.fromConfigDefaults.lookup k
  pure ⟨← g "do_generate", ← g "load_local", ← g "save_local", ← g "do_download",
        ← g "except_on_config_mismatch", ← g "allow_generation_metadata_filter_mismatch"⟩

/-- what `dataset_path.exists()` + `cls.read(dataset_path)` answer -/
inductive ReadOutcome (μ : Type) where
  | absent                 -- no file under the requested name
  | raises                 -- `read` raised (any `Exception`): swallowed at dataset.py:262-266
  | okDs (d : DS μ)        -- `read` returned a dataset
  | okOther                -- `read` returned an object that is not a dataset of this config class

inductive DownloadOutcome (μ : Type) where
  | notImplemented         -- `NotImplementedError`: swallowed (dataset.py:271-274); what `MazeDataset.download` does
  | okDs (d : DS μ)
  | raises                 -- any other exception propagates

inductive Err where
  | noWayToLoad            -- ValueError, dataset.py:253-256
  | downloadRaised
  | generateRaised
  | unknownFilter (name : String)   -- ValueError, dataset.py:387-396
  | filterRaised (name : String)
  | filterInfoMismatch     -- FilterInfoMismatchError, `_check_filter_equality`
  | failedToLoad           -- ValueError, dataset.py:281-282
  | notADataset            -- AttributeError / ValueError("Instances must be of the same type")
  | configMismatch (fields : List String)   -- ValueError, dataset.py:303
  | saveInterrupted        -- the write of `output.save` was cut (OSError / crash)
  deriving DecidableEq, Repr

/-- the runtime's answers -/
structure World (μ : Type) where
  read : ReadOutcome μ
  download : DownloadOutcome μ
  gen : Cfg → Option (DS μ)                            -- `cls.generate(cfg)`; `none` = raised
  known : String → Bool                                -- `filter_name in _FILTER_NAMESPACE.__dict__`
  applyFilter : FilterRec → DS μ → Option (DS μ)       -- a registered filter wrapper (appends its record, updates n_mazes)
  len : μ → Nat
  collected : DS μ → Bool                              -- `generation_metadata_collected is not None`
  strip : μ → μ                                        -- `clear_in_mazes`: drop per-maze generation_meta (lists/solutions untouched)
  saveCut : Option (ReadOutcome μ)                     -- `some junk`: the save is interrupted and leaves `junk` on disk

/-- `update_self_config`: `cfg.n_mazes = len(self.mazes)` -/
def setField (fs : List (String × String)) (k v : String) : List (String × String) :=
  fs.map fun p => if p.1 = k then (k, v) else p

def updateSelfConfig {μ} (len : μ → Nat) (d : DS μ) : DS μ :=
  { d with cfg := { d.cfg with fields := setField d.cfg.fields "n_mazes" (toString (len d.mazes)) } }

/-- the loop of `_apply_filters_from_config` (dataset.py:384-402) -/
def filterLoop {μ} (w : World μ) : List FilterRec → DS μ → Except Err (DS μ)
  | [], out => .ok out
  | fi :: rest, out =>
    if w.known fi.name then
      match w.applyFilter fi out with
      | some out' => filterLoop w rest out'
      | none => .error (.filterRaised fi.name)
    else .error (.unknownFilter fi.name)

/-- `_apply_filters_from_config`: clear the list, re-apply each recorded filter, `update_self_config`,
    `_check_filter_equality(old, new)` -/
def applyFiltersFromConfig {μ} (w : World μ) (d : DS μ) : Except Err (DS μ) :=
  let old := d.cfg.filters
  match filterLoop w old { d with cfg := { d.cfg with filters := [] } } with
  | .error e => .error e
  | .ok out =>
    let out := updateSelfConfig w.len out
    if out.cfg.filters = old then .ok out else .error .filterInfoMismatch

/-- the record `register_dataset_filter`'s wrapper appends for `collect_generation_meta()` called without arguments -/
def cgmRec : FilterRec := ⟨"collect_generation_meta", [], []⟩

/-- `serialize` takes the `_serialize_minimal` branch AND has to collect the metadata itself
    (maze_dataset.py:438-442, 457-458): `len(self) >= SERIALIZE_MINIMAL_THRESHOLD and generation_metadata_collected is None` -/
def minimalSave {μ} (w : World μ) (d : DS μ) : Bool :=
  (match MZ.Gen.serializeMinimalThreshold with
   | none => false
   | some t => decide (t ≤ (w.len d.mazes : Int))) && !w.collected d

/-- what `output.save(path)` writes — and, because `collect_generation_meta(inplace=True)` mutates `self`, what the
    dataset object handed back to the caller looks like afterwards: in the minimal branch the filter record is
    appended to the config and the per-maze metadata is stripped -/
def saveImage {μ} (w : World μ) (d : DS μ) : DS μ :=
  if minimalSave w d then
    updateSelfConfig w.len ⟨⟨d.cfg.fields, d.cfg.filters ++ [cgmRec]⟩, w.strip d.mazes⟩
  else d

/-- the value bound to `output` -/
inductive Obj (μ : Type) where
  | ds (d : DS μ)
  | other

structure Res (μ : Type) where
  out : DS μ
  didLoadLocal : Bool
  generated : Bool
  warned : Bool        -- `warnings.warn("config mismatch")` instead of raising (except_on_config_mismatch=False)
  saved : Bool

structure Outcome (μ : Type) where
  res : Except Err (Res μ)
  fileAfter : ReadOutcome μ      -- what a later `exists()+read` of the same name answers

/-- "check and save" (dataset.py:280-313) -/
def checkAndSave {μ} (fl : Flags) (w : World μ) (cfg : Cfg) (output : Option (Obj μ)) (didLoad generated : Bool) : Outcome μ :=
  match output with
  | none => ⟨.error .failedToLoad, w.read⟩
  | some .other => ⟨.error .notADataset, w.read⟩
  | some (.ds d) =>
    let df := diff cfg d.cfg
    let mismatch := !df.isEmpty
    if mismatch && fl.exceptOnMismatch && !(fl.allowMetaMismatch && metaAllowed cfg d.cfg) then
      ⟨.error (.configMismatch df), w.read⟩
    else
      let warned := mismatch && !fl.exceptOnMismatch
      if fl.saveLocal && !didLoad then
        match w.saveCut with
        | some junk => ⟨.error .saveInterrupted, junk⟩
        | none =>
          let d' := saveImage w d        -- `save` mutates `output` in place in the minimal branch
          ⟨.ok ⟨d', didLoad, generated, warned, true⟩, .okDs d'⟩   -- ZANJ: read ∘ save = id (trusted, C05)
      else ⟨.ok ⟨d, didLoad, generated, warned, false⟩, w.read⟩

/-- "try loading" (dataset.py:260-266): the object bound to `output` after the local-load attempt;
    `did_load_local` is `isSome` of it -/
def tryLoad {μ} (fl : Flags) (w : World μ) : Option (Obj μ) :=
  if fl.loadLocal then
    match w.read with
    | .absent => none
    | .raises => none          -- `except Exception`: swallowed
    | .okDs d => some (.ds d)
    | .okOther => some .other
  else none

/-- `if do_download and output is None` (dataset.py:268-274) -/
def tryDownload {μ} (fl : Flags) (w : World μ) (loaded : Option (Obj μ)) : Except Err (Option (Obj μ)) :=
  if fl.doDownload && loaded.isNone then
    match w.download with
    | .notImplemented => .ok none
    | .okDs d => .ok (some (.ds d))
    | .raises => .error .downloadRaised
  else .ok loaded

/-- `if do_generate and output is None` (dataset.py:276-280) followed by "check and save" -/
def genCheckSave {μ} (fl : Flags) (w : World μ) (cfg : Cfg) (o : Option (Obj μ)) (didLoad : Bool) : Outcome μ :=
  if fl.doGenerate && o.isNone then
    match w.gen cfg with
    | none => ⟨.error .generateRaised, w.read⟩
    | some d =>
      match applyFiltersFromConfig w d with
      | .error e => ⟨.error e, w.read⟩
      | .ok d' => checkAndSave fl w cfg (some (.ds d')) didLoad true
  else checkAndSave fl w cfg o didLoad false

/-- `from_config` (dataset.py:217-314) -/
def fromConfig {μ} (fl : Flags) (w : World μ) (cfg : Cfg) : Outcome μ :=
  if !(fl.loadLocal || fl.doDownload || fl.doGenerate) then ⟨.error .noWayToLoad, w.read⟩ else
  let loaded := tryLoad fl w
  match tryDownload fl w loaded with
  | .error e => ⟨.error e, w.read⟩
  | .ok o => genCheckSave fl w cfg o loaded.isSome

/-! ## fault sequences: a cache file that suffers arbitrary faults between (possibly interrupted) requests -/

inductive Step (μ : Type) where
  | fault (f : ReadOutcome μ)                 -- anything happens to the file
  | call (cut : Option (ReadOutcome μ))       -- a `from_config` request; `some junk`: its save (if any) is cut

/-- run a step list; returns the outcome of every `call`, in order, and the final file state -/
def runSteps {μ} (fl : Flags) (w : World μ) (cfg : Cfg) : List (Step μ) → ReadOutcome μ → List (Outcome μ) × ReadOutcome μ
  | [], file => ([], file)
  | .fault f :: rest, _ => runSteps fl w cfg rest f
  | .call cut :: rest, file =>
    let o := fromConfig fl { w with read := file, saveCut := cut } cfg
    let r := runSteps fl w cfg rest o.fileAfter
    (o :: r.1, r.2)

end MZ.Cache
