import MazeVerif.Model.Plot
import Mathlib.Tactic.SplitIfs
import Mathlib.Tactic.Ring
/-! Helper lemmas for C20: pointwise form of the drawing loop of `_lattice_maze_to_img`, disjointness of the
    `ul × ul` squares the cells write into, and the resulting "only the own cell matters" fold lemma. -/
namespace MZ.Plot

variable {α : Type}

/-- what `drawCell` does to a single pixel, as a function of the pixel's old value -/
def drawCellPx (ul : Nat) (s : Setup α) (rc : Nat × Nat) (y x : Nat) (old : Px α) : Px α :=
  let row := rc.1
  let col := rc.2
  let p1 := if row * ul + 1 ≤ y ∧ y < (row + 1) * ul + s.hack ∧ col * ul + 1 ≤ x ∧ x < (col + 1) * ul + s.hack
    then s.nodeVal row col else old
  let p2 := if s.processed 0 row col = false ∧ ((row + 1) * ul ≤ y ∧ y < (row + 1) * ul + 1 ∧ col * ul + 1 ≤ x ∧ x < (col + 1) * ul)
    then s.connVal row col else p1
  let p3 := if s.processed 1 row col = false ∧ (row * ul + 1 ≤ y ∧ y < (row + 1) * ul ∧ (col + 1) * ul ≤ x ∧ x < (col + 1) * ul + 1)
    then s.connVal row col else p2
  p3

theorem drawCell_apply (ul : Nat) (s : Setup α) (img : Img α) (rc : Nat × Nat) (y x : Nat) :
    drawCell ul s img rc y x = drawCellPx ul s rc y x (img y x) := by
  unfold drawCell drawCellPx setRect
  cases h0 : s.processed 0 rc.1 rc.2 <;> cases h1 : s.processed 1 rc.1 rc.2 <;> simp [h0, h1]

/-- the `ul × ul` square of pixels a cell may write to (for `hack ≤ 1`) -/
def InSquare (ul : Nat) (rc : Nat × Nat) (y x : Nat) : Prop :=
  rc.1 * ul + 1 ≤ y ∧ y ≤ (rc.1 + 1) * ul ∧ rc.2 * ul + 1 ≤ x ∧ x ≤ (rc.2 + 1) * ul

theorem drawCellPx_outside (ul : Nat) (s : Setup α) (hs : s.hack ≤ 1) (rc : Nat × Nat) (y x : Nat) (old : Px α)
    (h : ¬ InSquare ul rc y x) : drawCellPx ul s rc y x old = old := by
  unfold drawCellPx
  unfold InSquare at h
  simp only [Nat.add_mul, Nat.one_mul] at h ⊢
  split_ifs <;> first | rfl | (exfalso; omega)

theorem drawCellPx_idem (ul : Nat) (s : Setup α) (rc : Nat × Nat) (y x : Nat) (old : Px α) :
    drawCellPx ul s rc y x (drawCellPx ul s rc y x old) = drawCellPx ul s rc y x old := by
  unfold drawCellPx
  simp only
  split_ifs <;> rfl

private theorem mul_gap (ul : Nat) {a b : Nat} (h : a < b) : a * ul + ul ≤ b * ul := by
  have := Nat.mul_le_mul_right ul h
  simpa [Nat.add_mul] using this

/-- the squares of different cells are disjoint -/
theorem InSquare_unique {ul : Nat} {rc rc' : Nat × Nat} {y x : Nat}
    (h : InSquare ul rc y x) (h' : InSquare ul rc' y x) : rc = rc' := by
  obtain ⟨r, c⟩ := rc
  obtain ⟨r', c'⟩ := rc'
  unfold InSquare at h h'
  simp only [Nat.add_mul, Nat.one_mul] at h h'
  have hr : r = r' := by
    rcases Nat.lt_trichotomy r r' with hlt | heq | hgt
    · have := mul_gap ul hlt; omega
    · exact heq
    · have := mul_gap ul hgt; omega
  have hc : c = c' := by
    rcases Nat.lt_trichotomy c c' with hlt | heq | hgt
    · have := mul_gap ul hlt; omega
    · exact heq
    · have := mul_gap ul hgt; omega
  rw [hr, hc]

theorem mem_cellsN {rows cols : Nat} {rc : Nat × Nat} : rc ∈ cellsN rows cols ↔ rc.1 < rows ∧ rc.2 < cols := by
  obtain ⟨r, c⟩ := rc
  simp only [cellsN, List.mem_flatMap, List.mem_range, List.mem_map, Prod.mk.injEq]
  constructor
  · rintro ⟨a, ha, b, hb, rfl, rfl⟩; exact ⟨ha, hb⟩
  · rintro ⟨ha, hb⟩; exact ⟨r, ha, c, hb, rfl, rfl⟩

/-- fold of the drawing loop seen at one pixel lying in the square of `rc0` -/
theorem foldl_drawCell_at (ul : Nat) (s : Setup α) (hs : s.hack ≤ 1) (rc0 : Nat × Nat) (y x : Nat)
    (h0 : InSquare ul rc0 y x) :
    ∀ (cs : List (Nat × Nat)) (img : Img α),
      (cs.foldl (drawCell ul s) img) y x = if rc0 ∈ cs then drawCellPx ul s rc0 y x (img y x) else img y x
  | [], img => by simp
  | rc :: rest, img => by
    rw [List.foldl_cons, foldl_drawCell_at ul s hs rc0 y x h0 rest (drawCell ul s img rc), drawCell_apply]
    by_cases hrc : rc = rc0
    · subst hrc
      simp only [List.mem_cons, true_or, if_true, drawCellPx_idem]
      split_ifs <;> rfl
    · have hout : ¬ InSquare ul rc y x := fun h => hrc (InSquare_unique h h0)
      rw [drawCellPx_outside ul s hs rc y x _ hout]
      have : (rc0 ∈ rc :: rest) ↔ rc0 ∈ rest := by
        simp only [List.mem_cons]; constructor
        · rintro (h | h); exact absurd h.symm hrc; exact h
        · exact Or.inr
      simp only [this]

/-- a pixel outside every square keeps the background -/
theorem foldl_drawCell_outside (ul : Nat) (s : Setup α) (hs : s.hack ≤ 1) (y x : Nat) :
    ∀ (cs : List (Nat × Nat)) (img : Img α), (∀ rc ∈ cs, ¬ InSquare ul rc y x) →
      (cs.foldl (drawCell ul s) img) y x = img y x
  | [], _, _ => rfl
  | rc :: rest, img, h => by
    rw [List.foldl_cons, foldl_drawCell_outside ul s hs y x rest _ (fun r hr => h r (List.mem_cons_of_mem _ hr)),
      drawCell_apply, drawCellPx_outside ul s hs rc y x _ (h rc (List.mem_cons_self ..))]


/-! ### value of the own drawing step on the block, the two strips and the corner of the cell's square -/

theorem drawCellPx_block (ul : Nat) (s : Setup α) (r c y x : Nat) (old : Px α)
    (hy : r * ul + 1 ≤ y ∧ y < (r + 1) * ul) (hx : c * ul + 1 ≤ x ∧ x < (c + 1) * ul) :
    drawCellPx ul s (r, c) y x old = s.nodeVal r c := by
  unfold drawCellPx
  simp only [Nat.add_mul, Nat.one_mul] at hy hx ⊢
  split_ifs <;> first | rfl | (exfalso; omega)

theorem drawCellPx_down (ul : Nat) (s : Setup α) (hs : s.hack ≤ 1) (r c x : Nat) (old : Px α)
    (hx : c * ul + 1 ≤ x ∧ x < (c + 1) * ul) :
    drawCellPx ul s (r, c) ((r + 1) * ul) x old =
      if s.processed 0 r c = false then s.connVal r c else if s.hack = 1 then s.nodeVal r c else old := by
  unfold drawCellPx
  simp only [Nat.add_mul, Nat.one_mul] at hx ⊢
  split_ifs <;> first | rfl | (exfalso; omega) | (exfalso; simp_all)

theorem drawCellPx_right (ul : Nat) (s : Setup α) (hs : s.hack ≤ 1) (r c y : Nat) (old : Px α)
    (hy : r * ul + 1 ≤ y ∧ y < (r + 1) * ul) :
    drawCellPx ul s (r, c) y ((c + 1) * ul) old =
      if s.processed 1 r c = false then s.connVal r c else if s.hack = 1 then s.nodeVal r c else old := by
  unfold drawCellPx
  simp only [Nat.add_mul, Nat.one_mul] at hy ⊢
  split_ifs <;> first | rfl | (exfalso; omega) | (exfalso; simp_all)

theorem drawCellPx_corner (ul : Nat) (s : Setup α) (hs : s.hack ≤ 1) (hul : 1 ≤ ul) (r c : Nat) (old : Px α) :
    drawCellPx ul s (r, c) ((r + 1) * ul) ((c + 1) * ul) old = if s.hack = 1 then s.nodeVal r c else old := by
  unfold drawCellPx
  simp only [Nat.add_mul, Nat.one_mul]
  split_ifs <;> first | rfl | (exfalso; omega)

/-! ### adjacency of vertical / horizontal lattice neighbours is the stored bit -/

theorem connB_iff (E : List Edge) (d r c : Nat) : connB E d r c = true ↔ (d, (r : Int), (c : Int)) ∈ E := by
  simp [connB]

theorem adj_down_iff (E : List Edge) (r c : Nat) :
    Adj E ((r : Int), (c : Int)) ((r : Int) + 1, (c : Int)) ↔ connB E 0 r c = true := by
  rw [connB_iff]
  unfold Adj
  simp only [Prod.mk.injEq]
  constructor
  · rintro (⟨_, h⟩ | ⟨⟨h, _⟩, _⟩ | ⟨⟨_, h⟩, _⟩ | ⟨⟨_, h⟩, _⟩)
    · exact h
    · omega
    · omega
    · omega
  · intro h; exact Or.inl ⟨by simp, h⟩

theorem adj_right_iff (E : List Edge) (r c : Nat) :
    Adj E ((r : Int), (c : Int)) ((r : Int), (c : Int) + 1) ↔ connB E 1 r c = true := by
  rw [connB_iff]
  unfold Adj
  simp only [Prod.mk.injEq]
  constructor
  · rintro (⟨⟨h, _⟩, _⟩ | ⟨⟨h, _⟩, _⟩ | ⟨_, h⟩ | ⟨⟨_, h⟩, _⟩)
    · omega
    · omega
    · exact h
    · omega
  · intro h; exact Or.inr (Or.inr (Or.inl ⟨by simp, h⟩))


/-! ### paths -/

theorem dropLast_getElem? {β} (l : List β) (k : Nat) (a b : β) (ha : l[k]? = some a) (hb : l[k+1]? = some b) :
    l.dropLast[k]? = some a := by
  have hk : k + 1 < l.length := by
    rcases Nat.lt_or_ge (k+1) l.length with h | h
    · exact h
    · rw [List.getElem?_eq_none h] at hb; cases hb
  rw [List.getElem?_dropLast]
  simp only [ha]
  have : k < l.length - 1 := by omega
  simp [this]

theorem diffs_getElem? (l : List Int) (k : Nat) (a b : Int) (ha : l[k]? = some a) (hb : l[k+1]? = some b) :
    (diffs l)[k]? = some (b - a) := by
  unfold diffs
  rw [List.getElem?_zipWith, List.getElem?_tail, hb, dropLast_getElem? l k a b ha hb]

theorem diffs_length (l : List Int) : (diffs l).length = l.length - 1 := by
  unfold diffs; simp

theorem linesOf_append (a b : List Artist) : linesOf (a ++ b) = linesOf a ++ linesOf b := by
  induction a with
  | nil => rfl
  | cons x xs ih => cases x <;> simp [linesOf, ih]

theorem quiversOf_append (a b : List Artist) : quiversOf (a ++ b) = quiversOf a ++ quiversOf b := by
  induction a with
  | nil => rfl
  | cons x xs ih => cases x <;> simp [quiversOf, ih]

/-- a pixel index `j` whose extent `[j-½, j+½]` contains the centre coordinate `ul·(r+½)` lies strictly inside the block of `r` -/
theorem centre_bounds (ul r j : Nat) (hul : 2 ≤ ul)
    (h : 2 * (j : Int) - 1 ≤ (ul : Int) * (2 * (r : Int) + 1) ∧ (ul : Int) * (2 * (r : Int) + 1) ≤ 2 * (j : Int) + 1) :
    r * ul + 1 ≤ j ∧ j < (r + 1) * ul := by
  have e : (ul : Int) * (2 * (r : Int) + 1) = 2 * ((r * ul : Nat) : Int) + (ul : Int) := by push_cast; ring
  rw [e] at h
  simp only [Nat.add_mul, Nat.one_mul]
  omega

/-- the centre is the midpoint of the block's extent `[r·ul+1-½, (r+1)·ul-1+½]` (all doubled) -/
theorem centre_midpoint (ul r : Nat) (hul : 1 ≤ ul) :
    2 * ((ul : Int) * (2 * (r : Int) + 1)) = (2 * ((r * ul + 1 : Nat) : Int) - 1) + (2 * (((r + 1) * ul - 1 : Nat) : Int) + 1) := by
  have h1 : (r + 1) * ul ≥ 1 := by simp only [Nat.add_mul, Nat.one_mul]; omega
  have e : (((r + 1) * ul - 1 : Nat) : Int) = ((r : Int) + 1) * (ul : Int) - 1 := by
    rw [Int.ofNat_sub h1]; push_cast; ring
  rw [e]; push_cast; ring

/-! ### ASCII -/

theorem bwPixel_val (rows cols : Nat) (E : List Edge) (y x : Nat) :
    bwPixel rows cols E y x = .wall ∨ bwPixel rows cols E y x = .open_ := by
  unfold bwPixel; split_ifs <;> simp

theorem paintCells_val : ∀ (l : List Cell) (g : CGrid) (y x : Nat), paintCells g l y x = g y x ∨ paintCells g l y x = .path
  | [], _, _, _ => Or.inl rfl
  | c :: r, g, y, x => by
    rcases paintCells_val r (setCellPx g c .path) y x with h | h
    · rw [paintCells, h]; unfold setCellPx; split_ifs
      · exact Or.inr rfl
      · exact Or.inl rfl
    · exact Or.inr (by rw [paintCells, h])

theorem paintBetween_val : ∀ (l : List Cell) (g g' : CGrid), paintBetween g l = .ok g' →
    ∀ y x, g' y x = g y x ∨ g' y x = .path
  | [], g, g', h, y, x => by simp only [paintBetween, Except.ok.injEq] at h; subst h; exact Or.inl rfl
  | [_], g, g', h, y, x => by simp only [paintBetween, Except.ok.injEq] at h; subst h; exact Or.inl rfl
  | a :: b :: r, g, g', h, y, x => by
    rw [paintBetween] at h
    split_ifs at h with hab
    rcases paintBetween_val (b :: r) _ g' h y x with h1 | h1
    · rw [h1]; unfold setBetweenPx; split_ifs
      · exact Or.inr rfl
      · exact Or.inl rfl
    · exact Or.inr h1

theorem asAsciiFn_plain (rows cols : Nat) (E : List Edge) (ss : Bool) :
    asAsciiFn (.plain rows cols E) true ss = .ok (bwPixel rows cols E) := by
  unfold asAsciiFn asPixels
  simp only [Bool.not_true, Bool.false_eq_true, and_false, if_false, MazeObj.rows, MazeObj.cols, MazeObj.edges]
  show Except.ok _ = Except.ok _
  congr 1
  funext y x
  split_ifs <;> simp_all

/-- `as_ascii`'s choice of character class from the painted pixel `p` (both flags on) -/
def pickTT (p base : Col) : Col := if p = .start ∨ p = .end_ then p else if p = .path then p else base

/-- shape of a successful `as_ascii(True, True)` of a solved maze -/
theorem asAsciiFn_solved_ok (rows cols : Nat) (E : List Edge) (a : Cell) (rest : List Cell) (f : CGrid)
    (h : asAsciiFn (.solved rows cols E (a :: rest)) true true = .ok f) :
    ∃ g1, paintBetween (paintCells (bwPixel rows cols E) (a :: rest)) (a :: rest) = .ok g1 ∧
      ∀ y x, f y x = pickTT (setCellPx (setCellPx g1 a .start) ((a :: rest).getLast (List.cons_ne_nil _ _)) .end_ y x)
        (bwPixel rows cols E y x) := by
  unfold asAsciiFn asPixels at h
  simp only [Bool.not_true, Bool.false_eq_true, and_false, if_false, MazeObj.rows, MazeObj.cols, MazeObj.edges] at h
  by_cases hall : ((a :: rest).all fun c => decide (inGrid rows cols c)) = true
  · rw [if_pos hall] at h
    cases hpb : paintBetween (paintCells (bwPixel rows cols E) (a :: rest)) (a :: rest) with
    | error err =>
      simp only [hpb, bind, Except.bind, pure, Except.pure, if_true] at h
      cases h
    | ok g1 =>
      simp only [hpb, bind, Except.bind, pure, Except.pure, if_true, Except.ok.injEq] at h
      subst h
      exact ⟨g1, rfl, fun y x => by simp [pickTT]⟩
  · rw [if_neg hall] at h
    simp only [bind, Except.bind] at h
    cases h

theorem asAsciiFn_targeted_ok (rows cols : Nat) (E : List Edge) (s e : Cell) :
    ∃ f, asAsciiFn (.targeted rows cols E s e) true true = .ok f ∧
      ∀ y x, f y x = pickTT (setCellPx (setCellPx (bwPixel rows cols E) s .start) e .end_ y x) (bwPixel rows cols E y x) := by
  refine ⟨_, rfl, fun y x => ?_⟩
  simp [pickTT, MazeObj.rows, MazeObj.cols, MazeObj.edges]

theorem pick_offpath (isE isS : Prop) [Decidable isE] [Decidable isS] (g b : Col)
    (hb : b = .wall ∨ b = .open_) (hg : g = b ∨ g = .path)
    (hne : pickTT (if isE then .end_ else if isS then .start else g) b ≠ .path) :
    pickTT (if isE then .end_ else if isS then .start else g) b = pickTT (if isE then .end_ else if isS then .start else b) b := by
  by_cases h1 : isE
  · simp only [h1, if_true]
  · by_cases h2 : isS
    · simp only [h1, h2, if_true, if_false]
    · simp only [h1, h2, if_false] at hne ⊢
      rcases hg with rfl | rfl
      · rfl
      · exact absurd (by simp [pickTT]) hne


/-- consecutive cells are lattice neighbours (what `as_pixels` asserts while painting a solution) -/
def adjChain : List Cell → Bool
  | [] => true
  | [_] => true
  | a :: b :: r => adjacent a b && adjChain (b :: r)

theorem paintBetween_ok : ∀ (l : List Cell) (g : CGrid), adjChain l = true → ∃ g', paintBetween g l = .ok g'
  | [], g, _ => ⟨g, rfl⟩
  | [_], g, _ => ⟨g, rfl⟩
  | a :: b :: r, g, h => by
    simp only [adjChain, Bool.and_eq_true] at h
    rw [paintBetween, if_pos h.1]
    exact paintBetween_ok (b :: r) _ h.2

theorem asAsciiFn_solved_total (rows cols : Nat) (E : List Edge) (a : Cell) (rest : List Cell)
    (hall : ∀ c ∈ a :: rest, inGrid rows cols c) (hch : adjChain (a :: rest) = true) :
    ∃ f, asAsciiFn (.solved rows cols E (a :: rest)) true true = .ok f := by
  obtain ⟨g', hg'⟩ := paintBetween_ok (a :: rest) (paintCells (bwPixel rows cols E) (a :: rest)) hch
  have hall' : ((a :: rest).all fun c => decide (inGrid rows cols c)) = true := by
    rw [List.all_eq_true]; intro c hc; exact decide_eq_true (hall c hc)
  unfold asAsciiFn asPixels
  simp only [Bool.not_true, Bool.false_eq_true, and_false, if_false, MazeObj.rows, MazeObj.cols, MazeObj.edges]
  rw [if_pos hall']
  simp only [hg', bind, Except.bind, pure, Except.pure, if_true]
  exact ⟨_, rfl⟩

theorem setup_hack_le (E : List Edge) (nv : Option (Nat → Nat → α)) : (setup E nv).hack ≤ 1 := by
  cases nv <;> simp [setup]

/-- the final image at a pixel of the square of an in-grid cell: one application of the cell's own drawing step
    to the background -/
theorem pixels_in_square (rows cols : Nat) (E : List Edge) (ul : Nat) (nv : Option (Nat → Nat → α))
    (r c : Nat) (hr : r < rows) (hc : c < cols) (y x : Nat) (h : InSquare ul (r, c) y x) :
    pixels rows cols E ul nv y x = drawCellPx ul (setup E nv) (r, c) y x .wall := by
  unfold pixels latticeMazeToImg
  simp only
  rw [foldl_drawCell_at ul _ (setup_hack_le E nv) (r, c) y x h]
  have : (r, c) ∈ cellsN rows cols := mem_cellsN.mpr ⟨hr, hc⟩
  simp only [this, if_true]

/-- row 0 and column 0 of the image are never written -/
theorem pixels_frame (rows cols : Nat) (E : List Edge) (ul : Nat) (nv : Option (Nat → Nat → α)) (y x : Nat)
    (h : y = 0 ∨ x = 0) : pixels rows cols E ul nv y x = .wall := by
  unfold pixels latticeMazeToImg
  simp only
  rw [foldl_drawCell_outside ul _ (setup_hack_le E nv)]
  intro rc _ hsq
  unfold InSquare at hsq
  omega

end MZ.Plot
