import MazeVerif.Lemmas.Wilson
import MazeVerif.Model.WilsonStep
import MazeVerif.Model.Gen
/-! Refinement: the flat Wilson step machine (`Model/WilsonStep.lean`, bitmask states, one step per draw) is simulated
    by the nested-loop model (`Model/Wilson.lean`, `walk`/`outer` over lists of cells), for ALL grid sizes.
    Cell index `i` ↔ cell `(i / cols, i % cols)`; bit `b` ↔ connection `(b / n, (b % n) / cols, (b % n) % cols)`. -/
namespace MZ.WRef
open MZ MZ.WStep

/-- the cell with row-major index `i` -/
def cellOf (cols i : Nat) : Cell := (((i / cols : Nat) : Int), ((i % cols : Nat) : Int))

/-- the connection stored at bit `b` of an edge mask -/
def edgeOfBit (rows cols b : Nat) : Edge :=
  (b / (rows * cols), (((b % (rows * cols)) / cols : Nat) : Int), (((b % (rows * cols)) % cols : Nat) : Int))

theorem cellOf_inj {cols i j : Nat} (h : cellOf cols i = cellOf cols j) : i = j := by
  simp only [cellOf, Prod.mk.injEq] at h
  obtain ⟨h1, h2⟩ := h
  have h1' : i / cols = j / cols := by omega
  have h2' : i % cols = j % cols := by omega
  have e1 := Nat.div_add_mod i cols
  have e2 := Nat.div_add_mod j cols
  rw [h1', h2'] at e1
  omega

theorem div_mk {cols r c : Nat} (hc : c < cols) : (r * cols + c) / cols = r := by
  rw [Nat.add_comm, Nat.add_mul_div_right _ _ (by omega), Nat.div_eq_of_lt hc]; omega

theorem mod_mk {cols r c : Nat} (hc : c < cols) : (r * cols + c) % cols = c := by
  rw [Nat.add_comm, Nat.add_mul_mod_self_right, Nat.mod_eq_of_lt hc]

theorem cellOf_mk {cols r c : Nat} (hc : c < cols) : cellOf cols (r * cols + c) = ((r : Int), (c : Int)) := by
  simp only [cellOf, div_mk hc, mod_mk hc]

theorem idx_decomp (cols i : Nat) : i = (i / cols) * cols + i % cols := by
  have := Nat.div_add_mod i cols
  rw [Nat.mul_comm] at this; omega

theorem div_lt_rows {rows cols i : Nat} (h : i < rows * cols) : i / cols < rows :=
  Nat.div_lt_of_lt_mul (by rw [Nat.mul_comm]; exact h)

theorem mk_lt {rows cols r c : Nat} (hr : r < rows) (hc : c < cols) : r * cols + c < rows * cols := by
  have : (r + 1) * cols ≤ rows * cols := Nat.mul_le_mul_right _ hr
  rw [Nat.add_mul] at this; omega

theorem cellOf_inGrid {rows cols i : Nat} (hc : 0 < cols) (h : i < rows * cols) : inGrid rows cols (cellOf cols i) := by
  have h1 := div_lt_rows h
  have h2 := Nat.mod_lt i hc
  simp only [inGrid, cellOf]
  generalize i / cols = q at *
  generalize i % cols = t at *
  omega

theorem inGrid_cellOf {rows cols : Nat} {c : Cell} (h : inGrid rows cols c) :
    ∃ i, i < rows * cols ∧ cellOf cols i = c := by
  obtain ⟨a, b⟩ := c
  simp only [inGrid] at h
  refine ⟨a.toNat * cols + b.toNat, mk_lt (by omega) (by omega), ?_⟩
  rw [cellOf_mk (by omega)]
  simp only [Prod.mk.injEq]; omega

/-! ### neighbours -/

theorem filter4 {α : Type} (p : α → Bool) (a b c d : α) :
    [a, b, c, d].filter p = (if p a then [a] else []) ++ (if p b then [b] else []) ++ (if p c then [c] else []) ++
      (if p d then [d] else []) := by
  cases h1 : p a <;> cases h2 : p b <;> cases h3 : p c <;> cases h4 : p d <;> simp [h1, h2, h3, h4]

theorem nbrsOf_map {rows cols r c : Nat} (hr : r < rows) (hc : c < cols) :
    (nbrsOf rows cols (r * cols + c)).map (cellOf cols) = gridNbrs rows cols ((r : Int), (c : Int)) := by
  simp only [nbrsOf, gridNbrs, nbrs, div_mk hc, mod_mk hc, filter4, List.map_append]
  congr 1
  congr 1
  congr 1
  · by_cases h : c + 1 < cols
    · have e : r * cols + c + 1 = r * cols + (c + 1) := by omega
      have g : inGrid rows cols ((r : Int), (c : Int) + 1) := by simp only [inGrid]; omega
      simp only [h, g, decide_true, if_true, List.map_cons, List.map_nil, e, cellOf_mk h]
      simp
    · have g : ¬ inGrid rows cols ((r : Int), (c : Int) + 1) := by simp only [inGrid]; omega
      simp only [h, g, decide_false, if_false, List.map_nil]; simp
  · by_cases h : 1 ≤ c
    · have e : r * cols + c - 1 = r * cols + (c - 1) := by omega
      have g : inGrid rows cols ((r : Int), (c : Int) - 1) := by simp only [inGrid]; omega
      have hc' : c - 1 < cols := by omega
      simp only [h, g, decide_true, if_true, List.map_cons, List.map_nil, e, cellOf_mk hc']
      simp only [List.cons.injEq, Prod.mk.injEq, and_true, true_and]; omega
    · have g : ¬ inGrid rows cols ((r : Int), (c : Int) - 1) := by simp only [inGrid]; omega
      simp only [h, g, decide_false, if_false, List.map_nil]; simp
  · by_cases h : r + 1 < rows
    · have e : r * cols + c + cols = (r + 1) * cols + c := by rw [Nat.add_mul]; omega
      have g : inGrid rows cols ((r : Int) + 1, (c : Int)) := by simp only [inGrid]; omega
      simp only [h, g, decide_true, if_true, List.map_cons, List.map_nil, e, cellOf_mk hc]
      simp
    · have g : ¬ inGrid rows cols ((r : Int) + 1, (c : Int)) := by simp only [inGrid]; omega
      simp only [h, g, decide_false, if_false, List.map_nil]; simp
  · by_cases h : 1 ≤ r
    · have e : r * cols + c - cols = (r - 1) * cols + c := by
        obtain ⟨r', rfl⟩ : ∃ r', r = r' + 1 := ⟨r - 1, by omega⟩
        rw [Nat.add_mul]; simp only [Nat.add_sub_cancel]; omega
      have g : inGrid rows cols ((r : Int) - 1, (c : Int)) := by simp only [inGrid]; omega
      simp only [h, g, decide_true, if_true, List.map_cons, List.map_nil, e, cellOf_mk hc]
      simp only [List.cons.injEq, Prod.mk.injEq, and_true]; omega
    · have g : ¬ inGrid rows cols ((r : Int) - 1, (c : Int)) := by simp only [inGrid]; omega
      simp only [h, g, decide_false, if_false, List.map_nil]; simp

theorem nbrsOf_map' {rows cols i : Nat} (hc : 0 < cols) (h : i < rows * cols) :
    (nbrsOf rows cols i).map (cellOf cols) = gridNbrs rows cols (cellOf cols i) := by
  have := nbrsOf_map (rows := rows) (cols := cols) (div_lt_rows h) (Nat.mod_lt i hc)
  rw [← idx_decomp] at this
  exact this

/-! ### the cell list -/

theorem cells_eq_map (rows cols : Nat) : cells rows cols = (List.range (rows * cols)).map (cellOf cols) := by
  induction rows with
  | zero => simp [cells]
  | succ r ih =>
    have hsplit : (r + 1) * cols = r * cols + cols := by rw [Nat.add_mul]; omega
    unfold cells at ih ⊢
    rw [List.range_succ, List.flatMap_append, ih, hsplit, List.range_add, List.map_append]
    congr 1
    simp only [List.flatMap_cons, List.flatMap_nil, List.append_nil, List.map_map]
    apply List.map_congr_left
    intro j hj
    simp only [List.mem_range] at hj
    simp only [Function.comp, cellOf_mk hj]

theorem unvisited_map {rows cols : Nat} {v : Nat} {vis : List Cell}
    (hv : ∀ i, i < rows * cols → (bit v i = true ↔ cellOf cols i ∈ vis)) :
    (unvisited rows cols v).map (cellOf cols) = (cells rows cols).filter (fun c => c ∉ vis) := by
  rw [cells_eq_map, List.filter_map, unvisited]
  congr 1
  apply List.filter_congr
  intro i hi
  simp only [List.mem_range] at hi
  have := hv i hi
  simp only [Function.comp]
  cases hb : bit v i
  · have : cellOf cols i ∉ vis := fun h => by rw [this.mpr h] at hb; cases hb
    simp [this]
  · have : cellOf cols i ∈ vis := this.mp hb
    simp [this]

theorem mem_unvisited {rows cols v u : Nat} (h : u ∈ unvisited rows cols v) : u < rows * cols ∧ bit v u = false := by
  simp only [unvisited, List.mem_filter, List.mem_range, Bool.not_eq_true'] at h
  exact h

theorem mem_nbrsOf_lt {rows cols i j : Nat} (hc : 0 < cols) (hi : i < rows * cols) (h : j ∈ nbrsOf rows cols i) :
    j < rows * cols ∧ cellOf cols j ∈ nbrs (cellOf cols i) := by
  have hm : cellOf cols j ∈ (nbrsOf rows cols i).map (cellOf cols) := List.mem_map_of_mem h
  rw [nbrsOf_map' hc hi] at hm
  simp only [gridNbrs, List.mem_filter, decide_eq_true_eq] at hm
  refine ⟨?_, hm.1⟩
  obtain ⟨k, hk, hk'⟩ := inGrid_cellOf hm.2
  rw [← cellOf_inj hk']; exact hk

/-! ### bit masks -/

theorem bit_set (m x i : Nat) : bit (m ||| (1 <<< x)) i = true ↔ bit m i = true ∨ i = x := by
  simp only [bit, Nat.testBit_or, Nat.one_shiftLeft, Nat.testBit_two_pow, Bool.or_eq_true, decide_eq_true_eq]
  constructor
  · rintro (h | h)
    · exact Or.inl h
    · exact Or.inr h.symm
  · rintro (h | h)
    · exact Or.inl h
    · exact Or.inr h.symm

theorem bit_single (x i : Nat) : bit (1 <<< x) i = true ↔ i = x := by
  simp only [bit, Nat.one_shiftLeft, Nat.testBit_two_pow, decide_eq_true_eq]
  exact ⟨fun h => h.symm, fun h => h.symm⟩

theorem bit_zero (i : Nat) : bit 0 i = false := by simp [bit]

theorem mem_edgesOfMask {rows cols m : Nat} {e : Edge} :
    e ∈ edgesOfMask rows cols m ↔ ∃ b, b < 2 * rows * cols ∧ bit m b = true ∧ e = edgeOfBit rows cols b := by
  simp only [edgesOfMask, List.mem_filterMap, List.mem_range, edgeOfBit]
  constructor
  · rintro ⟨b, hb, h⟩
    split at h
    · next hbit => simp only [Option.some.injEq] at h; exact ⟨b, hb, hbit, h.symm⟩
    · simp at h
  · rintro ⟨b, hb, hbit, rfl⟩
    exact ⟨b, hb, by simp only [hbit, if_true]⟩

theorem edgesOfMask_zero (rows cols : Nat) (e : Edge) : ¬ e ∈ edgesOfMask rows cols 0 := by
  rw [mem_edgesOfMask]; rintro ⟨b, _, hb, _⟩; rw [bit_zero] at hb; cases hb

theorem mem_edgesOfMask_set {rows cols m x : Nat} (hx : x < 2 * rows * cols) {e : Edge} :
    e ∈ edgesOfMask rows cols (m ||| (1 <<< x)) ↔ e ∈ edgesOfMask rows cols m ∨ e = edgeOfBit rows cols x := by
  simp only [mem_edgesOfMask, bit_set]
  constructor
  · rintro ⟨b, hb, h | h, rfl⟩
    · exact Or.inl ⟨b, hb, h, rfl⟩
    · subst h; exact Or.inr rfl
  · rintro (⟨b, hb, h, rfl⟩ | rfl)
    · exact ⟨b, hb, Or.inl h, rfl⟩
    · exact ⟨x, hx, Or.inr rfl, rfl⟩

theorem edgeBit_comm (rows cols a b : Nat) : edgeBit rows cols a b = edgeBit rows cols b a := by
  simp only [edgeBit, Nat.min_comm, Nat.max_comm]

theorem edgeBit_horiz {rows cols r c : Nat} (hr : r < rows) (hc : c + 1 < cols) :
    edgeBit rows cols (r * cols + c) (r * cols + (c + 1)) < 2 * rows * cols ∧
    edgeOfBit rows cols (edgeBit rows cols (r * cols + c) (r * cols + (c + 1))) = (1, (r : Int), (c : Int)) := by
  have h1 : min (r * cols + c) (r * cols + (c + 1)) = r * cols + c := by omega
  have h2 : max (r * cols + c) (r * cols + (c + 1)) = r * cols + (c + 1) := by omega
  have hc' : c < cols := by omega
  have hlt : r * cols + c < rows * cols := mk_lt hr hc'
  have hn : 0 < rows * cols := by omega
  simp only [edgeBit, h1, h2, div_mk hc, div_mk hc', if_true]
  refine ⟨by rw [Nat.mul_assoc]; omega, ?_⟩
  simp only [edgeOfBit, Nat.add_div_left _ hn, Nat.add_mod_left, Nat.mod_eq_of_lt hlt, Nat.div_eq_of_lt hlt,
    div_mk hc', mod_mk hc']

theorem edgeBit_vert {rows cols r c : Nat} (hr : r + 1 < rows) (hc : c < cols) :
    edgeBit rows cols (r * cols + c) ((r + 1) * cols + c) < 2 * rows * cols ∧
    edgeOfBit rows cols (edgeBit rows cols (r * cols + c) ((r + 1) * cols + c)) = (0, (r : Int), (c : Int)) := by
  have e : (r + 1) * cols + c = r * cols + c + cols := by rw [Nat.add_mul]; omega
  have h1 : min (r * cols + c) ((r + 1) * cols + c) = r * cols + c := by omega
  have h2 : max (r * cols + c) ((r + 1) * cols + c) = (r + 1) * cols + c := by omega
  have hlt : r * cols + c < rows * cols := mk_lt (by omega) hc
  have hne : ¬ r = r + 1 := by omega
  simp only [edgeBit, h1, h2, div_mk hc, hne, if_false]
  refine ⟨by rw [Nat.mul_assoc]; omega, ?_⟩
  simp only [edgeOfBit, Nat.mod_eq_of_lt hlt, Nat.div_eq_of_lt hlt, div_mk hc, mod_mk hc]

theorem edgeBit_spec_mk {rows cols r c r' c' : Nat} (hr : r < rows) (hc : c < cols) (hr' : r' < rows) (hc' : c' < cols)
    (hn : (((r' : Nat) : Int), ((c' : Nat) : Int)) ∈ nbrs (((r : Nat) : Int), ((c : Nat) : Int))) :
    edgeBit rows cols (r * cols + c) (r' * cols + c') < 2 * rows * cols ∧
    edgeOfBit rows cols (edgeBit rows cols (r * cols + c) (r' * cols + c')) =
      edgeOf (((r : Nat) : Int), ((c : Nat) : Int)) (((r' : Nat) : Int), ((c' : Nat) : Int)) := by
  simp only [nbrs, List.mem_cons, Prod.mk.injEq, List.not_mem_nil, or_false] at hn
  rcases hn with ⟨h1, h2⟩ | ⟨h1, h2⟩ | ⟨h1, h2⟩ | ⟨h1, h2⟩
  · obtain rfl : r' = r := by omega
    obtain rfl : c' = c + 1 := by omega
    have := edgeBit_horiz (rows := rows) hr hc'
    rw [this.2]
    refine ⟨this.1, ?_⟩
    have := edgeOf_right (r' : Int) (c : Int)
    simpa using this.symm
  · obtain rfl : r' = r := by omega
    obtain ⟨c0, rfl⟩ : ∃ c0, c = c0 + 1 := ⟨c - 1, by omega⟩
    obtain rfl : c' = c0 := by omega
    have := edgeBit_horiz (rows := rows) hr hc
    rw [edgeBit_comm, this.2]
    refine ⟨this.1, ?_⟩
    have := edgeOf_left (r' : Int) ((c' : Int) + 1)
    simpa using this.symm
  · obtain rfl : c' = c := by omega
    obtain rfl : r' = r + 1 := by omega
    have := edgeBit_vert (cols := cols) hr' hc
    rw [this.2]
    refine ⟨this.1, ?_⟩
    have := edgeOf_down (r : Int) (c' : Int)
    simpa using this.symm
  · obtain rfl : c' = c := by omega
    obtain ⟨r0, rfl⟩ : ∃ r0, r = r0 + 1 := ⟨r - 1, by omega⟩
    obtain rfl : r' = r0 := by omega
    have := edgeBit_vert (cols := cols) hr hc
    rw [edgeBit_comm, this.2]
    refine ⟨this.1, ?_⟩
    have := edgeOf_up ((r' : Int) + 1) (c' : Int)
    simpa using this.symm

/-- the bit the machine sets for a step between lattice neighbours is the connection `edgeOf` stores -/
theorem edgeBit_spec {rows cols a b : Nat} (hc : 0 < cols) (ha : a < rows * cols) (hb : b < rows * cols)
    (hn : cellOf cols b ∈ nbrs (cellOf cols a)) :
    edgeBit rows cols a b < 2 * rows * cols ∧
    edgeOfBit rows cols (edgeBit rows cols a b) = edgeOf (cellOf cols a) (cellOf cols b) := by
  have := edgeBit_spec_mk (rows := rows) (cols := cols) (div_lt_rows ha) (Nat.mod_lt a hc) (div_lt_rows hb)
    (Nat.mod_lt b hc) hn
  rw [← idx_decomp, ← idx_decomp] at this
  exact this

/-! ### list facts -/

theorem idxOf_map_inj {α β : Type} [BEq α] [LawfulBEq α] [BEq β] [LawfulBEq β] {f : α → β}
    (hf : ∀ a b, f a = f b → a = b) (x : α) : ∀ l : List α, (l.map f).idxOf (f x) = l.idxOf x
  | [] => by simp
  | a :: l => by
    simp only [List.map_cons, List.idxOf_cons, idxOf_map_inj hf x l]
    by_cases h : a = x
    · subst h; simp only [beq_self_eq_true, cond_true]
    · have h' : ¬ f a = f x := fun e => h (hf _ _ e)
      have e1 : (a == x) = false := beq_false_of_ne h
      have e2 : (f a == f x) = false := beq_false_of_ne h'
      simp only [e1, e2, cond_false]

theorem mem_map_cellOf {cols : Nat} {x : Nat} {l : List Nat} : cellOf cols x ∈ l.map (cellOf cols) ↔ x ∈ l := by
  simp only [List.mem_map]
  exact ⟨fun ⟨y, hy, e⟩ => cellOf_inj e ▸ hy, fun h => ⟨x, h, rfl⟩⟩

theorem getLast?_take_idxOf {α : Type} [BEq α] [LawfulBEq α] {x : α} {l : List α} (h : x ∈ l) :
    (l.take (l.idxOf x + 1)).getLast? = some x := by
  have hlt : l.idxOf x < l.length := List.idxOf_lt_length_iff.mpr h
  rw [List.getLast?_take]
  simp only [Nat.add_one_ne_zero, if_false, Nat.add_sub_cancel]
  rw [List.getElem?_eq_getElem hlt, List.getElem_idxOf hlt]
  rfl

theorem getLast!_map {cols : Nat} {l : List Nat} {cur : Nat} (h : l.getLast? = some cur) :
    (l.map (cellOf cols)).getLast! = cellOf cols cur := by
  rw [List.getLast!_eq_getLast?_getD, List.getLast?_map, h]; rfl

/-! ### fuel monotonicity of the nested model -/

theorem walk_mono_succ {rows cols : Nat} {vis : List Cell} : ∀ (f : Nat) (path : List Cell) (rng : List Nat) r,
    walk rows cols vis f path rng = some r → walk rows cols vis (f + 1) path rng = some r := by
  intro f
  induction f with
  | zero => intro path rng r h; simp [walk] at h
  | succ f ih =>
    intro path rng r h
    unfold walk at h
    unfold walk
    by_cases hv : path.getLast! ∈ vis
    · simp only [hv, if_true] at h ⊢; exact h
    · simp only [hv, if_false] at h ⊢
      generalize gridNbrs rows cols path.getLast! = G at h ⊢
      cases rng with
      | nil => simp at h
      | cons k rng' =>
        simp only at h ⊢
        cases hk : G[k]? with
        | none => simp [hk] at h
        | some nx =>
          simp only [hk] at h ⊢
          by_cases hin : nx ∈ path
          · simp only [hin, if_true] at h ⊢; exact ih _ _ _ h
          · simp only [hin, if_false] at h ⊢; exact ih _ _ _ h

theorem walk_mono {rows cols : Nat} {vis : List Cell} {f f' : Nat} (hle : f ≤ f') {path rng r}
    (h : walk rows cols vis f path rng = some r) : walk rows cols vis f' path rng = some r := by
  induction hle with
  | refl => exact h
  | step _ ih => exact walk_mono_succ _ _ _ _ ih

theorem outer_mono_succ {rows cols : Nat} : ∀ (f : Nat) (s : WSt) r,
    outer rows cols f s = some r → outer rows cols (f + 1) s = some r := by
  intro f
  induction f with
  | zero => intro s r h; simp [outer] at h
  | succ f ih =>
    intro s r h
    unfold outer at h
    unfold outer
    simp only at h ⊢
    generalize (cells rows cols).filter (fun c => c ∉ s.vis) = U at h ⊢
    by_cases hu : U = []
    · simp only [hu, if_true] at h ⊢; exact h
    · simp only [hu, if_false] at h ⊢
      cases hr : s.rng with
      | nil => simp [hr] at h
      | cons k rng1 =>
        simp only [hr] at h ⊢
        cases hk : U[k]? with
        | none => simp [hk] at h
        | some u =>
          simp only [hk] at h ⊢
          cases hw : walk rows cols s.vis f [u] rng1 with
          | none => simp [hw] at h
          | some pr =>
            obtain ⟨path, rng2⟩ := pr
            simp only [hw] at h
            simp only [walk_mono_succ _ _ _ _ hw]
            exact ih _ _ h

theorem outer_mono {rows cols : Nat} {f f' : Nat} (hle : f ≤ f') {s r}
    (h : outer rows cols f s = some r) : outer rows cols f' s = some r := by
  induction hle with
  | refl => exact h
  | step _ ih => exact outer_mono_succ _ _ _ ih

/-! ### writing a finished walk into the maze -/

theorem attach_spec {rows cols : Nat} (hc : 0 < cols) : ∀ (path : List Nat) (vis edges : Nat),
    (∀ i ∈ path, i < rows * cols) → Chain (path.map (cellOf cols)) →
    (∀ i, bit (attachGo rows cols vis edges path).1 i = true ↔ bit vis i = true ∨ i ∈ path.dropLast) ∧
    (∀ e, e ∈ edgesOfMask rows cols (attachGo rows cols vis edges path).2 ↔
      e ∈ edgesOfMask rows cols edges ∨ e ∈ pathEdges (path.map (cellOf cols))) ∧
    ((∀ i, bit edges i = true → i < 2 * rows * cols) →
      ∀ i, bit (attachGo rows cols vis edges path).2 i = true → i < 2 * rows * cols)
  | [], vis, edges, _, _ => by simp [attachGo, pathEdges]
  | [a], vis, edges, _, _ => by simp [attachGo, pathEdges]
  | a :: b :: rest, vis, edges, hlt, hch => by
    have ha : a < rows * cols := hlt a (by simp)
    have hb : b < rows * cols := hlt b (by simp)
    have hch' : cellOf cols b ∈ nbrs (cellOf cols a) ∧ Chain ((b :: rest).map (cellOf cols)) := by
      simpa [Chain] using hch
    obtain ⟨hbit, hedge⟩ := edgeBit_spec hc ha hb hch'.1
    obtain ⟨ih1, ih2, ih3⟩ := attach_spec hc (b :: rest) (vis ||| (1 <<< a)) (edges ||| (1 <<< edgeBit rows cols a b))
      (fun i hi => hlt i (List.mem_cons_of_mem _ hi)) hch'.2
    have hun : attachGo rows cols vis edges (a :: b :: rest) =
        attachGo rows cols (vis ||| (1 <<< a)) (edges ||| (1 <<< edgeBit rows cols a b)) (b :: rest) := by
      simp only [attachGo]
    rw [hun]
    refine ⟨?_, ?_, ?_⟩
    · intro i
      rw [ih1, bit_set, List.dropLast_cons_cons, List.mem_cons]
      constructor
      · rintro ((h | h) | h)
        · exact Or.inl h
        · exact Or.inr (Or.inl h)
        · exact Or.inr (Or.inr h)
      · rintro (h | h | h)
        · exact Or.inl (Or.inl h)
        · exact Or.inl (Or.inr h)
        · exact Or.inr h
    · intro e
      rw [ih2, mem_edgesOfMask_set hbit, hedge]
      simp only [List.map_cons, pathEdges, List.mem_cons]
      constructor
      · rintro ((h | h) | h)
        · exact Or.inl h
        · exact Or.inr (Or.inl h)
        · exact Or.inr (Or.inr h)
      · rintro (h | h | h)
        · exact Or.inl (Or.inl h)
        · exact Or.inl (Or.inr h)
        · exact Or.inr h
    · intro hb0
      apply ih3
      intro i hi
      rcases (bit_set _ _ _).mp hi with hi | rfl
      · exact hb0 i hi
      · exact hbit

/-! ### the simulation relation -/

/-- machine state `s` represents the nested model's `visited` list `vis`, connection list `E`, and (through
    `cellOf`) the current walk -/
structure Rel (rows cols : Nat) (s : WS) (vis : List Cell) (E : List Edge) : Prop where
  vis : ∀ i, i < rows * cols → (bit s.vis i = true ↔ cellOf cols i ∈ vis)
  edges : ∀ e, e ∈ E ↔ e ∈ edgesOfMask rows cols s.edges
  lt : ∀ i ∈ s.path, i < rows * cols
  chain : Chain (s.path.map (cellOf cols))
  ebound : ∀ i, bit s.edges i = true → i < 2 * rows * cols

theorem settle_unvisited {rows cols : Nat} {s : WS} {last : Nat} (h : s.path.getLast? = some last)
    (hb : bit s.vis last = false) : settle rows cols s = s := by
  simp only [settle, h, hb, Bool.false_eq_true, if_false]

theorem settle_visited {rows cols : Nat} (hc : 0 < cols) {s : WS} {vis : List Cell} {E : List Edge} {last : Nat}
    (hR : Rel rows cols s vis E) (h : s.path.getLast? = some last) (hb : bit s.vis last = true) :
    (settle rows cols s).path = [] ∧
    Rel rows cols (settle rows cols s) (vis ++ (s.path.map (cellOf cols)).dropLast)
      (E ++ pathEdges (s.path.map (cellOf cols))) := by
  obtain ⟨a1, a2, a3⟩ := attach_spec (rows := rows) hc s.path s.vis s.edges hR.lt hR.chain
  simp only [settle, h, hb, if_true]
  refine ⟨trivial, ?_, ?_, by simp, by simp [Chain], a3 hR.ebound⟩
  · intro i hi
    simp only
    rw [a1, List.mem_append, hR.vis i hi, ← List.map_dropLast, mem_map_cellOf]
  · intro e
    simp only
    rw [a2, List.mem_append, hR.edges]

theorem getLast?_mem' {α : Type} {l : List α} {x : α} (h : l.getLast? = some x) : x ∈ l :=
  List.mem_of_getLast? h

/-- one draw inside a walk: the machine's path update is the nested model's loop-erasing step -/
theorem walk_step {rows cols : Nat} (hc : 0 < cols) {s : WS} {vis : List Cell} {E : List Edge} {cur k nx : Nat}
    (hR : Rel rows cols s vis E) (hcur : s.path.getLast? = some cur) (hb : bit s.vis cur = false)
    (hnx : (nbrsOf rows cols cur)[k]? = some nx) :
    (∀ f rest', walk rows cols vis (f + 1) (s.path.map (cellOf cols)) (k :: rest') =
      walk rows cols vis f
        ((if s.path.contains nx then s.path.take (s.path.idxOf nx + 1) else s.path ++ [nx]).map (cellOf cols)) rest') ∧
    (if s.path.contains nx then s.path.take (s.path.idxOf nx + 1) else s.path ++ [nx]).getLast? = some nx ∧
    nx < rows * cols ∧
    Rel rows cols { s with path := if s.path.contains nx then s.path.take (s.path.idxOf nx + 1) else s.path ++ [nx] }
      vis E := by
  have hcurm : cur ∈ s.path := getLast?_mem' hcur
  have hcurlt : cur < rows * cols := hR.lt cur hcurm
  have hlast : (s.path.map (cellOf cols)).getLast! = cellOf cols cur := getLast!_map hcur
  have hnv : cellOf cols cur ∉ vis := by
    intro h; rw [(hR.vis cur hcurlt).mpr h] at hb; cases hb
  obtain ⟨hnxlt, hnxn⟩ := mem_nbrsOf_lt hc hcurlt (List.mem_of_getElem? hnx)
  have hg : (gridNbrs rows cols (cellOf cols cur))[k]? = some (cellOf cols nx) := by
    rw [← nbrsOf_map' hc hcurlt, List.getElem?_map, hnx]; rfl
  have hne : s.path.map (cellOf cols) ≠ [] := by
    intro h; rw [List.map_eq_nil_iff] at h; rw [h] at hcurm; cases hcurm
  by_cases hin : nx ∈ s.path
  · have hcont : s.path.contains nx = true := List.contains_iff_mem.mpr hin
    have hin' : cellOf cols nx ∈ s.path.map (cellOf cols) := mem_map_cellOf.mpr hin
    simp only [hcont, if_true]
    refine ⟨?_, getLast?_take_idxOf hin, hnxlt, hR.vis, hR.edges, ?_, ?_, hR.ebound⟩
    · intro f rest'
      conv => lhs; unfold walk
      simp only [hlast, hnv, if_false, hg, hin', if_true]
      rw [idxOf_map_inj (fun a b => cellOf_inj) nx s.path, List.map_take]
    · intro i hi; exact hR.lt i (List.mem_of_mem_take hi)
    · simp only [List.map_take]; exact hR.chain.take _
  · have hcont : s.path.contains nx = false := by
      cases h : s.path.contains nx
      · rfl
      · exact absurd (List.contains_iff_mem.mp h) hin
    have hin' : cellOf cols nx ∉ s.path.map (cellOf cols) := fun h => hin (mem_map_cellOf.mp h)
    simp only [hcont, Bool.false_eq_true, if_false]
    refine ⟨?_, List.getLast?_concat, hnxlt, hR.vis, hR.edges, ?_, ?_, hR.ebound⟩
    · intro f rest'
      conv => lhs; unfold walk
      simp only [hlast, hnv, if_false, hg, hin', List.map_append, List.map_cons, List.map_nil]
    · intro i hi
      simp only [List.mem_append, List.mem_cons, List.not_mem_nil, or_false] at hi
      rcases hi with hi | rfl
      · exact hR.lt i hi
      · exact hnxlt
    · simp only [List.map_append, List.map_cons, List.map_nil]
      exact Chain.snoc hne hR.chain (by rw [hlast]; exact hnxn)

/-- what the nested run must deliver: same leftover draws, same connection set as the machine's final state -/
def Done (rows cols : Nat) (t : WS) (rest : List Nat) (w : WSt) : Prop :=
  w.rng = rest ∧ (∀ e, e ∈ w.E ↔ e ∈ edgesOfMask rows cols t.edges) ∧
    ∀ i, bit t.edges i = true → i < 2 * rows * cols

theorem finished_outer {rows cols : Nat} {s : WS} {vis : List Cell} {E : List Edge} (hR : Rel rows cols s vis E)
    (hf : finished rows cols s = true) (draws : List Nat) :
    outer rows cols 1 { vis := vis, E := E, rng := draws } = some { vis := vis, E := E, rng := draws } := by
  simp only [finished, Bool.and_eq_true, List.isEmpty_iff] at hf
  have hu := unvisited_map (rows := rows) (cols := cols) hR.vis
  rw [hf.2, List.map_nil] at hu
  unfold outer
  simp only [← hu, if_true]

theorem finished_path {rows cols : Nat} {s : WS} (hf : finished rows cols s = true) : s.path = [] := by
  simp only [finished, Bool.and_eq_true, List.isEmpty_iff] at hf
  exact hf.1

/-- the simulation: every completed machine run from a state representing `(vis, E)` is matched by the nested model -/
theorem sim {rows cols : Nat} (hc : 0 < cols) : ∀ (fuel : Nat) (s : WS) (draws : List Nat) (t : WS) (rest : List Nat)
    (vis : List Cell) (E : List Edge), Rel rows cols s vis E → runFrom rows cols s draws fuel = some (t, rest) →
    (s.path = [] → ∃ f w, outer rows cols f { vis := vis, E := E, rng := draws } = some w ∧ Done rows cols t rest w) ∧
    (∀ cur, s.path.getLast? = some cur → bit s.vis cur = false →
      ∃ f path' draws', walk rows cols vis f (s.path.map (cellOf cols)) draws = some (path', draws') ∧
        ∃ f2 w, outer rows cols f2 { vis := vis ++ path'.dropLast, E := E ++ pathEdges path', rng := draws' } = some w ∧
          Done rows cols t rest w) := by
  intro fuel
  induction fuel with
  | zero =>
    intro s draws t rest vis E hR h
    simp only [runFrom] at h
    split at h
    · next hf =>
      simp only [Option.some.injEq, Prod.mk.injEq] at h
      obtain ⟨rfl, rfl⟩ := h
      refine ⟨fun _ => ⟨1, _, finished_outer hR hf draws, rfl, hR.edges, hR.ebound⟩, ?_⟩
      intro cur hcur; rw [finished_path hf] at hcur; cases hcur
    · cases h
  | succ fuel ih =>
    intro s draws t rest vis E hR h
    cases hf : finished rows cols s
    case true =>
      unfold runFrom at h
      simp only [hf, if_true, Option.some.injEq, Prod.mk.injEq] at h
      obtain ⟨rfl, rfl⟩ := h
      refine ⟨fun _ => ⟨1, _, finished_outer hR hf draws, rfl, hR.edges, hR.ebound⟩, ?_⟩
      intro cur hcur; rw [finished_path hf] at hcur; cases hcur
    case false =>
      unfold runFrom at h
      simp only [hf, Bool.false_eq_true, if_false] at h
      cases draws with
      | nil => cases h
      | cons k rest' =>
        simp only at h
        split at h
        · next hk =>
          constructor
          · -- between walks: the draw selects the start of the next walk
            intro hp
            have hgl : s.path.getLast? = none := by rw [hp]; rfl
            have har : arity rows cols s = (unvisited rows cols s.vis).length := by simp only [arity, hgl]
            rw [har] at hk
            have hu : (unvisited rows cols s.vis)[k]? = some ((unvisited rows cols s.vis)[k]) :=
              List.getElem?_eq_getElem hk
            generalize (unvisited rows cols s.vis)[k] = u at hu
            obtain ⟨hult, hub⟩ := mem_unvisited (List.mem_of_getElem? hu)
            have hnext : next rows cols s k = { s with path := [u] } := by
              simp only [next, hgl, hu]
              exact settle_unvisited (s := { s with path := [u] }) (last := u) rfl hub
            rw [hnext] at h
            have hR1 : Rel rows cols { s with path := [u] } vis E :=
              ⟨hR.vis, hR.edges, by intro i hi; simp only [List.mem_singleton] at hi; subst hi; exact hult,
               by simp [Chain], hR.ebound⟩
            obtain ⟨f, path', draws', hw, f2, w, ho, hd⟩ := (ih _ _ _ _ _ _ hR1 h).2 u rfl hub
            refine ⟨max f f2 + 1, w, ?_, hd⟩
            have hum := unvisited_map (rows := rows) (cols := cols) hR.vis
            have hk' : ((cells rows cols).filter (fun c => c ∉ vis))[k]? = some (cellOf cols u) := by
              rw [← hum, List.getElem?_map, hu]; rfl
            have hne : (cells rows cols).filter (fun c => c ∉ vis) ≠ [] := by
              intro h0; rw [h0] at hk'; cases hk'
            unfold outer
            simp only [hne, if_false, hk']
            have hw' := walk_mono (Nat.le_max_left f f2) hw
            simp only [List.map_cons, List.map_nil] at hw'
            simp only [hw']
            exact outer_mono (Nat.le_max_right f f2) ho
          · -- inside a walk
            intro cur hcur hb
            have har : arity rows cols s = (nbrsOf rows cols cur).length := by simp only [arity, hcur]
            rw [har] at hk
            have hnx : (nbrsOf rows cols cur)[k]? = some ((nbrsOf rows cols cur)[k]) := List.getElem?_eq_getElem hk
            generalize (nbrsOf rows cols cur)[k] = nx at hnx
            obtain ⟨hwalk, hlast, hnxlt, hR1⟩ := walk_step hc hR hcur hb hnx
            have hnext : next rows cols s k = settle rows cols
                { s with path := if s.path.contains nx then s.path.take (s.path.idxOf nx + 1) else s.path ++ [nx] } := by
              simp only [next, hcur, hnx]
            rw [hnext] at h
            generalize hp : (if s.path.contains nx then s.path.take (s.path.idxOf nx + 1) else s.path ++ [nx]) = p
              at hwalk hlast hR1 h
            cases hbn : bit s.vis nx with
            | true =>
              -- the walk has reached the tree: it is written out
              obtain ⟨hpe, hR2⟩ := settle_visited (s := { s with path := p }) hc hR1 hlast hbn
              obtain ⟨f2, w, ho, hd⟩ := (ih _ _ _ _ _ _ hR2 h).1 hpe
              refine ⟨2, p.map (cellOf cols), rest', ?_, f2, w, ho, hd⟩
              rw [hwalk]
              unfold walk
              have : (p.map (cellOf cols)).getLast! ∈ vis := by
                rw [getLast!_map hlast]; exact (hR.vis nx hnxlt).mp hbn
              simp only [this, if_true]
            | false =>
              rw [settle_unvisited (s := { s with path := p }) hlast hbn] at h
              obtain ⟨f, path', draws', hw, rest2⟩ := (ih _ _ _ _ _ _ hR1 h).2 nx hlast hbn
              exact ⟨f + 1, path', draws', by rw [hwalk]; exact hw, rest2⟩
        · cases h

/-! ### duplicate-freeness of the decoded connection list -/

theorem edgeOfBit_inj {rows cols b b' : Nat} (h : edgeOfBit rows cols b = edgeOfBit rows cols b') : b = b' := by
  simp only [edgeOfBit, Prod.mk.injEq] at h
  obtain ⟨h1, h2, h3⟩ := h
  have hm : b % (rows * cols) = b' % (rows * cols) :=
    cellOf_inj (cols := cols) (by simp only [cellOf, Prod.mk.injEq]; exact ⟨h2, h3⟩)
  have e1 := Nat.div_add_mod b (rows * cols)
  have e2 := Nat.div_add_mod b' (rows * cols)
  rw [h1, hm] at e1
  omega

theorem edgesOfMask_nodup (rows cols m : Nat) : (edgesOfMask rows cols m).Nodup := by
  unfold edgesOfMask
  apply List.Nodup.filterMap _ List.nodup_range
  intro b b' e h1 h2
  have k1 : e = edgeOfBit rows cols b := by
    split at h1
    · simp only [Option.mem_def, Option.some.injEq] at h1; exact h1.symm
    · cases h1
  have k2 : e = edgeOfBit rows cols b' := by
    split at h2
    · simp only [Option.mem_def, Option.some.injEq] at h2; exact h2.symm
    · cases h2
  exact edgeOfBit_inj (k1.symm.trans k2)

/-! ### the refinement theorem -/

theorem rel_start {rows cols a b : Nat} (hb : b < cols) :
    Rel rows cols { vis := 1 <<< (a * cols + b), edges := 0, path := [] } [(((a : Nat) : Int), ((b : Nat) : Int))] [] := by
  refine ⟨?_, ?_, by simp, by simp [Chain], by intro i hi; rw [bit_zero] at hi; cases hi⟩
  · intro i _
    simp only [bit_single, List.mem_singleton, ← cellOf_mk hb]
    exact ⟨fun h => by rw [h], cellOf_inj⟩
  · intro e
    simp only [List.not_mem_nil, false_iff]
    exact edgesOfMask_zero rows cols e

/-- **Refinement.** Every completed run of the step machine (`WStep.run`: two draws for the start cell, then one
    machine step per draw) is matched by a completed run of the nested-loop model `genWilsonTop` on the SAME draw
    list (with some fuel), leaving the same unread draws and producing the same connections: the same set, and —
    both lists being duplicate-free — the same number of them (so `w.E` is a permutation of the decoded mask).
    The returned mask has no bit outside the `2*rows*cols` connection slots. -/
theorem wstep_refines_nested {rows cols : Nat} (hr : 0 < rows) (hc : 0 < cols) {draws : List Nat} {fuel : Nat}
    {s : WS} {rest : List Nat} (h : run rows cols draws fuel = some (s, rest)) :
    ∃ fuel' w, genWilsonTop rows cols draws fuel' = some w ∧ w.rng = rest ∧
      (∀ e, e ∈ w.E ↔ e ∈ edgesOfMask rows cols s.edges) ∧
      w.E.Perm (edgesOfMask rows cols s.edges) ∧
      w.E.length = (edgesOfMask rows cols s.edges).length ∧
      s.edges < 2 ^ (2 * rows * cols) := by
  unfold run at h
  split at h
  · next a b rest0 =>
    split at h
    · next hab =>
      have hb : b < cols := by omega
      obtain ⟨f, w, ho, hrng, hE, hEB⟩ := (sim hc fuel _ _ _ _ _ _ (rel_start (rows := rows) (a := a) hb) h).1 rfl
      have hrs : randomStart rows cols (a :: b :: rest0) = some ((((a : Nat) : Int), ((b : Nat) : Int)), rest0) := by
        simp only [randomStart, hab, and_self, if_true]
      have hg : genWilsonTop rows cols (a :: b :: rest0) f = some w := by
        simp only [genWilsonTop, hrs, genWilson]; exact ho
      have hin : inGrid rows cols (((a : Nat) : Int), ((b : Nat) : Int)) := by
        simp only [inGrid]; omega
      have hnd : w.E.Nodup := (genWilson_spanning (start := (((a : Nat) : Int), ((b : Nat) : Int))) hin ho).2.1
      have hperm : w.E.Perm (edgesOfMask rows cols s.edges) :=
        (List.perm_ext_iff_of_nodup hnd (edgesOfMask_nodup _ _ _)).mpr hE
      have hlt : s.edges < 2 ^ (2 * rows * cols) := by
        apply Nat.lt_pow_two_of_testBit
        intro i hi
        cases hbi : s.edges.testBit i
        · rfl
        · have := hEB i hbi; omega
      exact ⟨f, w, hg, hrng, hE, hperm, hperm.length_eq, hlt⟩
    · cases h
  · cases h

end MZ.WRef
