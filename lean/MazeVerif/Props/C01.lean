import MazeVerif.Lemmas.TreeAcyclic
import MazeVerif.Lemmas.Percolation
import MazeVerif.Lemmas.GenTie
import MazeVerif.Lemmas.GenTotal
import MazeVerif.Lemmas.WilsonFinish
/-! # C01 — generators emit well-formed lattice graphs; DFS and Wilson emit spanning trees

Models: `Model/Dfs.lean` (`gen_dfs` loop), `Model/Wilson.lean` (`gen_wilson`), `Model/Gen.lean` (start coordinate,
`gen_prim` alias, percolation, dfs+percolation). Every theorem quantifies over ALL draw lists (= every RNG state the
generator can be entered with), all fuel values, all grid shapes and EVERY `start_coord` argument (`given`);
"the run returns" is `= some …`. A given start outside the grid is rejected by `_random_start_coord` (ValueError) = the
model's `none` (`C01_start_rejected`), so no theorem needs an in-grid hypothesis on `given`: success of the run implies it
(`C01_start_in_grid_of_success`). -/
namespace MZ
open SimpleGraph

/-- spanning tree of the `rows × cols` grid: well formed, duplicate-free, `rows*cols-1` connections, every cell
    reachable from every other, no cycle (Mathlib's `IsAcyclic` of the graph on cells induced by the stored edges) -/
def SpanningTree (rows cols : Nat) (E : List Edge) : Prop :=
  WF rows cols E ∧ E.Nodup ∧ E.length + 1 = rows * cols ∧
  (∀ a b, inGrid rows cols a → inGrid rows cols b → Reach E a b) ∧ (graphOf E).IsAcyclic

/-- arguments under which `gen_dfs` is unconstrained: forks on, depth bound not binding, no cell limit
    (the defaults `accessible_cells=None`, `max_tree_depth=None`, `do_forks=True` are an instance: `defaultArgs`) -/
def Unconstrained (rows cols : Nat) (a : Args) : Prop :=
  a.doForks = true ∧ 2 * ((rows * cols : Nat) : Int) ≤ a.maxDepth ∧ rows * cols ≤ a.nAcc

/-- full statement of C01 (kept visible); proved as `C01_full_holds` -/
def C01_full : Prop :=
  ∀ (rows cols : Nat), 0 < rows → 0 < cols →
    -- (1) every generator, all arguments, all random choices: well formed
    (∀ a given draws fuel o, genDfsTop rows cols a given draws fuel = some o → WF rows cols o.edges) ∧
    (∀ draws fuel s, genWilsonTop rows cols draws fuel = some s → WF rows cols s.E) ∧
    (∀ p given draws rands fuel o, genPercolationTop rows cols p given draws rands fuel = some o → WF rows cols o.edges) ∧
    (∀ p a given draws rands fuel o,
        genDfsPercolationTop rows cols p a given draws rands fuel = some o → WF rows cols o.edges) ∧
    -- (2) default / unconstrained dfs (plain or randomized stack = prim alias) and wilson: spanning trees
    (∀ a given draws fuel o, Unconstrained rows cols a →
        genDfsTop rows cols a given draws fuel = some o → SpanningTree rows cols o.edges) ∧
    (∀ a given draws fuel o, Unconstrained rows cols a →
        genPrimTop rows cols a given draws fuel = some o → SpanningTree rows cols o.edges) ∧
    (∀ draws fuel s, genWilsonTop rows cols draws fuel = some s → SpanningTree rows cols s.E) ∧
    -- (3) percolation extremes
    (∀ pd rands E, percolate rows cols (0, pd) rands = some E → E = []) ∧
    (∀ pn rands E, 0 < pn → (∀ r ∈ rands, r.1 < r.2) → percolate rows cols (pn, pn) rands = some E →
        ∀ e, e ∈ E ↔ (e.1 = 0 ∧ inGrid rows cols (e.2.1, e.2.2) ∧ e.2.1 + 1 < rows) ∨
                     (e.1 = 1 ∧ inGrid rows cols (e.2.1, e.2.2) ∧ e.2.2 + 1 < cols)) ∧
    -- (4) a `start_coord` outside the grid is never "accepted generator arguments": every generator taking one is in
    --     its error branch (the `ValueError` of `_random_start_coord`), for all other arguments and all random choices
    (∀ given, StartRejected rows cols given →
        (∀ a draws fuel, genDfsTop rows cols a given draws fuel = none ∧ genPrimTop rows cols a given draws fuel = none) ∧
        (∀ p draws rands fuel, genPercolationTop rows cols p given draws rands fuel = none) ∧
        (∀ p a draws rands fuel, genDfsPercolationTop rows cols p a given draws rands fuel = none))

/-- `_random_start_coord` always lands inside the grid -/
theorem C01_start_in_grid {rows cols : Nat} (hr : 0 < rows) (hc : 0 < cols) {draws c rest}
    (h : randomStart rows cols draws = some (c, rest)) : inGrid rows cols c := by
  unfold randomStart at h
  split at h
  · split at h
    · next hlt => simp only [Option.some.injEq, Prod.mk.injEq] at h; obtain ⟨rfl, _⟩ := h; simp [inGrid]; omega
    · simp at h
  · simp at h

private theorem startCoord_in_grid {rows cols : Nat} (hr : 0 < rows) (hc : 0 < cols) {given draws c rest}
    (h : startCoord rows cols given draws = some (c, rest)) : inGrid rows cols c :=
  startCoord_in_grid' hr hc h

/-- a given `start_coord` outside the grid (negative, or ≥ the shape in some coordinate): every generator model that
    takes a start coordinate returns `none` — the `ValueError` branch of the repaired `_random_start_coord` — for all
    other arguments, all draws, all fuel. (Before the repair the real code returned a maze with a connection leaving
    the grid; see known_findings.txt, key start-coord-outside-grid.) -/
theorem C01_start_rejected {rows cols : Nat} {given : Option Cell} (hrej : StartRejected rows cols given) :
    (∀ draws, startCoord rows cols given draws = none) ∧
    (∀ a draws fuel, genDfsTop rows cols a given draws fuel = none) ∧
    (∀ a draws fuel, genPrimTop rows cols a given draws fuel = none) ∧
    (∀ p draws rands fuel, genPercolationTop rows cols p given draws rands fuel = none) ∧
    (∀ p a draws rands fuel, genDfsPercolationTop rows cols p a given draws rands fuel = none) :=
  ⟨startCoord_rejected hrej, genDfsTop_rejected hrej, fun _ => genDfsTop_rejected hrej _,
   genPercolationTop_rejected hrej, genDfsPercolationTop_rejected hrej⟩

/-- what a successful start-coordinate step says: the start lies in the grid; a given start was in the grid, is the
    start, and consumed no draw -/
private theorem start_facts {rows cols : Nat} (hr : 0 < rows) (hc : 0 < cols) {given draws start d1}
    (h : startCoord rows cols given draws = some (start, d1)) :
    inGrid rows cols start ∧ ¬ StartRejected rows cols given ∧ ∀ c, given = some c → inGrid rows cols c ∧ start = c := by
  refine ⟨startCoord_in_grid' hr hc h, not_rejected_of_startCoord h, ?_⟩
  rintro c rfl
  obtain ⟨hq, hin⟩ := startCoord_given h
  simp only [Prod.mk.injEq] at hq
  exact ⟨hin, hq.1⟩

/-- success of ANY generator run implies that the start coordinate it used (and recorded in `generation_meta`) lies
    in the grid, and that a given `start_coord` was inside the grid and is the one used. This is what used to be the
    hypothesis `hg` of every dfs/percolation theorem; it is now a consequence of `… = some o`. -/
theorem C01_start_in_grid_of_success {rows cols : Nat} (hr : 0 < rows) (hc : 0 < cols) {given : Option Cell} :
    (∀ {a draws fuel o}, genDfsTop rows cols a given draws fuel = some o →
      inGrid rows cols o.start ∧ ¬ StartRejected rows cols given ∧ ∀ c, given = some c → inGrid rows cols c ∧ o.start = c) ∧
    (∀ {a draws fuel o}, genPrimTop rows cols a given draws fuel = some o →
      inGrid rows cols o.start ∧ ¬ StartRejected rows cols given ∧ ∀ c, given = some c → inGrid rows cols c ∧ o.start = c) ∧
    (∀ {p draws rands fuel o}, genPercolationTop rows cols p given draws rands fuel = some o →
      inGrid rows cols o.start ∧ ¬ StartRejected rows cols given ∧ ∀ c, given = some c → inGrid rows cols c ∧ o.start = c) ∧
    (∀ {p a draws rands fuel o}, genDfsPercolationTop rows cols p a given draws rands fuel = some o →
      inGrid rows cols o.start ∧ ¬ StartRejected rows cols given ∧ ∀ c, given = some c → inGrid rows cols c ∧ o.start = c) := by
  refine ⟨fun h => ?_, fun h => ?_, fun h => ?_, fun h => ?_⟩
  · obtain ⟨d1, hst⟩ := genDfsTop_start h; exact start_facts hr hc hst
  · obtain ⟨d1, hst⟩ := genDfsTop_start h; exact start_facts hr hc hst
  · obtain ⟨d1, hst⟩ := genPercolationTop_start h; exact start_facts hr hc hst
  · obtain ⟨d1, hst⟩ := genDfsPercolationTop_start h; exact start_facts hr hc hst

/-- gen_dfs / gen_prim, EVERY argument combination, every draw list: shape respected, no connection leaves the grid,
    no connection stored twice, and the connections form a tree on the visited cells (one edge per new cell, acyclic). -/
theorem C01_dfs_wf {rows cols : Nat} (hr : 0 < rows) (hc : 0 < cols) {a given draws fuel o}
    (h : genDfsTop rows cols a given draws fuel = some o) :
    WF rows cols o.edges ∧ o.edges.Nodup ∧ o.edges.length + 1 = o.visited.length ∧ (graphOf o.edges).IsAcyclic := by
  unfold genDfsTop at h
  split at h
  · simp at h
  · next start d1 hst =>
    split at h
    · simp at h
    · next s hs =>
      simp only [Option.some.injEq] at h; subst h
      have hin := startCoord_in_grid hr hc hst
      obtain ⟨hT, _⟩ := loop_invT fuel _ _ (InvT.init hin) hs
      exact ⟨fun e he => ⟨hT.edim e he, hT.grid _ (hT.eends e he).1, hT.grid _ (hT.eends e he).2⟩,
        hT.enodup, hT.len, genDfs_acyclic hin hs⟩

/-- default (more generally: unconstrained) gen_dfs, plain or randomized stack, ANY `start_coord` argument (given or
    random — a run from a given start outside the grid does not return, `C01_start_rejected`), every draw list and
    fuel: a spanning tree of the whole grid. -/
theorem C01_dfs_spanning {rows cols : Nat} (hr : 0 < rows) (hc : 0 < cols) {a given draws fuel o}
    (ha : Unconstrained rows cols a)
    (h : genDfsTop rows cols a given draws fuel = some o) : SpanningTree rows cols o.edges := by
  have hwf := C01_dfs_wf hr hc h
  unfold genDfsTop at h
  split at h
  · simp at h
  · next start d1 hst =>
    split at h
    · simp at h
    · next s hs =>
      simp only [Option.some.injEq] at h; subst h
      have hin := startCoord_in_grid hr hc hst
      have hcnt := genDfs_count_eq hin ha.1 ha.2.1 hs
      have hfull : s.visited.length = rows * cols := by
        have := ha.2.2
        have h1 : 1 ≤ rows * cols := Nat.mul_pos hr hc
        rw [hcnt]; omega
      refine ⟨hwf.1, hwf.2.1, by have := hwf.2.2.1; simp only at this; rw [hfull] at this; exact this, ?_, hwf.2.2.2⟩
      exact (genDfs_flag_iff hin hs).mp hfull

/-- the default arguments are unconstrained (so `C01_dfs_spanning` covers `gen_dfs(grid)` and `gen_prim(grid)`) -/
theorem C01_default_unconstrained (rows cols : Nat) (rs : Bool) : Unconstrained rows cols (defaultArgs rows cols rs) :=
  ⟨rfl, by simp [defaultArgs], by simp [defaultArgs]⟩

theorem C01_prim_spanning {rows cols : Nat} (hr : 0 < rows) (hc : 0 < cols) {a given draws fuel o}
    (ha : Unconstrained rows cols a)
    (h : genPrimTop rows cols a given draws fuel = some o) : SpanningTree rows cols o.edges :=
  C01_dfs_spanning hr hc (a := { a with randStack := true }) ⟨ha.1, ha.2.1, ha.2.2⟩ h

/-- gen_wilson, every draw list and fuel: a spanning tree of the whole grid -/
theorem C01_wilson_spanning {rows cols : Nat} (hr : 0 < rows) (hc : 0 < cols) {draws fuel s}
    (h : genWilsonTop rows cols draws fuel = some s) : SpanningTree rows cols s.E := by
  unfold genWilsonTop at h
  split at h
  · simp at h
  · next start d1 hst =>
    have hin := C01_start_in_grid hr hc hst
    obtain ⟨hall, hnd, hlen, hwf⟩ := genWilson_spanning hin h
    exact ⟨hwf, hnd, hlen, fun a b ha hb => (hall a ha).2.symm.trans (hall b hb).2, genWilson_acyclic hin h⟩

/-- percolation, any `p`, any random array: well formed and duplicate-free -/
theorem C01_percolation_wf {rows cols : Nat} {p given draws rands fuel o}
    (h : genPercolationTop rows cols p given draws rands fuel = some o) : WF rows cols o.edges ∧ o.edges.Nodup := by
  unfold genPercolationTop at h
  split at h
  · simp at h
  · split at h
    · simp at h
    · next E hE =>
      split at h
      · simp at h
      · simp only [Option.some.injEq] at h; subst h
        exact ⟨percolate_wf hE, percolate_nodup hE⟩

theorem C01_percolation_p0 {rows cols : Nat} {pd rands E} (h : percolate rows cols (0, pd) rands = some E) : E = [] :=
  percolate_p0 h

/-- `p = 1`, all random numbers in `[0,1)`: every lattice edge of the grid and nothing else, each once -/
theorem C01_percolation_p1 {rows cols : Nat} {pn rands E} (hp : 0 < pn) (hr : ∀ r ∈ rands, r.1 < r.2)
    (h : percolate rows cols (pn, pn) rands = some E) :
    E.Nodup ∧ ∀ e, e ∈ E ↔ (e.1 = 0 ∧ inGrid rows cols (e.2.1, e.2.2) ∧ e.2.1 + 1 < rows) ∨
                          (e.1 = 1 ∧ inGrid rows cols (e.2.1, e.2.2) ∧ e.2.2 + 1 < cols) := by
  refine ⟨percolate_nodup h, fun e => ?_⟩
  rw [percolate_p1 hp hr h]; exact mem_latticeEdges

/-- dfs + percolation, all arguments: well formed, duplicate-free, and it contains the dfs tree -/
theorem C01_dfsperc_wf {rows cols : Nat} (hr : 0 < rows) (hc : 0 < cols) {p a given draws rands fuel o}
    (h : genDfsPercolationTop rows cols p a given draws rands fuel = some o) :
    WF rows cols o.edges ∧ o.edges.Nodup ∧ ∀ e ∈ o.dfsEdges, e ∈ o.edges := by
  unfold genDfsPercolationTop at h
  split at h
  · simp at h
  · next start d1 hst =>
    split at h
    · simp at h
    · next s hs =>
      split at h
      · simp at h
      · next P hP =>
        simp only at h
        split at h
        · simp at h
        · simp only [Option.some.injEq] at h; subst h
          have hin := startCoord_in_grid hr hc hst
          obtain ⟨hT, _⟩ := loop_invT fuel _ _ (InvT.init hin) hs
          have hdfs : WF rows cols s.edges :=
            fun e he => ⟨hT.edim e he, hT.grid _ (hT.eends e he).1, hT.grid _ (hT.eends e he).2⟩
          refine ⟨?_, (allSlots_nodup rows cols).filter _, ?_⟩
          · intro e he
            simp only [List.mem_filter, Bool.or_eq_true, List.contains_iff_mem] at he
            rcases he.2 with h1 | h1
            · exact hdfs e h1
            · exact percolate_wf hP e h1
          · intro e he
            simp only [List.mem_filter, Bool.or_eq_true, List.contains_iff_mem]
            refine ⟨?_, Or.inl he⟩
            obtain ⟨hd, h1, h2⟩ := hdfs e he
            obtain ⟨d, i, j⟩ := e
            rw [mem_allSlots]; refine ⟨hd, ?_⟩
            rcases hd with hd | hd <;> simp only at hd <;> subst hd <;> simpa [ends] using h1

theorem C01_full_holds : C01_full := by
  intro rows cols hr hc
  refine ⟨fun a given draws fuel o h => (C01_dfs_wf hr hc h).1,
    fun draws fuel s h => (C01_wilson_spanning hr hc h).1,
    fun p given draws rands fuel o h => (C01_percolation_wf h).1,
    fun p a given draws rands fuel o h => (C01_dfsperc_wf hr hc h).1,
    fun a given draws fuel o ha h => C01_dfs_spanning hr hc ha h,
    fun a given draws fuel o ha h => C01_prim_spanning hr hc ha h,
    fun draws fuel s h => C01_wilson_spanning hr hc h,
    fun pd rands E h => percolate_p0 h,
    fun pn rands E hp hr' h => (C01_percolation_p1 hp hr' h).2,
    fun given hrej => ⟨fun a draws fuel => ⟨(C01_start_rejected hrej).2.1 a draws fuel, (C01_start_rejected hrej).2.2.1 a draws fuel⟩,
      (C01_start_rejected hrej).2.2.2.1, (C01_start_rejected hrej).2.2.2.2⟩⟩

/-! ## non-vacuity: the hypotheses are met by concrete completed runs -/
example : (genDfsTop 2 3 (defaultArgs 2 3 false) none [0, 1, 0, 0, 0, 0, 0] 50).map (·.edges.length) = some 5 := by decide
example : (genDfsTop 2 2 (defaultArgs 2 2 true) (some (1, 1)) [0, 0, 0, 0, 1, 0] 50).map (·.visited.length) = some 4 := by decide
example : (genWilsonTop 2 2 [0, 0, 0, 0, 1, 1, 0, 1, 0] 50).map (·.E.length) = some 3 := by decide
example : percolate 2 2 (1, 1) [(0,2),(1,2),(0,2),(1,2),(0,2),(1,2),(0,2),(1,2)] = some [(0,0,0),(0,0,1),(1,0,0),(1,1,0)] := by decide
example : Unconstrained 3 4 (defaultArgs 3 4 true) := C01_default_unconstrained 3 4 true
-- a given start inside the grid is used; the reproduced defect input `gen_dfs((3,3), start_coord=(3,0))` and its
-- relatives (negative / column out of range) are the error branch for every generator
example : (genDfsTop 3 3 (defaultArgs 3 3 false) (some (2, 0)) (List.replicate 36 0) 18).map (fun o => (o.start, o.edges.length))
    = some ((2, 0), 8) := by decide
example : StartRejected 3 3 (some (3, 0)) ∧ StartRejected 3 3 (some (-1, 0)) ∧ StartRejected 3 3 (some (0, 3)) ∧
    ¬ StartRejected 3 3 (some (2, 2)) ∧ ¬ StartRejected 3 3 none := by decide
example : genDfsTop 3 3 (defaultArgs 3 3 false) (some (3, 0)) (List.replicate 36 0) 18 = none ∧
    genPrimTop 3 3 (defaultArgs 3 3 true) (some (0, -1)) (List.replicate 36 0) 18 = none ∧
    genPercolationTop 2 2 (1, 2) (some (2, 0)) [] [(0,2),(1,2),(0,2),(1,2),(1,2),(1,2),(1,2),(1,2)] 22 = none ∧
    genDfsPercolationTop 2 2 (1, 2) (defaultArgs 2 2 false) (some (5, 5)) (List.replicate 18 0)
      [(0,2),(1,2),(0,2),(1,2),(0,2),(1,2),(0,2),(1,2)] 22 = none := by decide
example : (genPercolationTop 2 2 (1, 2) (some (1, 1)) [] [(0,2),(1,2),(0,2),(1,2),(1,2),(1,2),(1,2),(1,2)] 22).map (·.start)
    = some (1, 1) := by decide

/-! ## Termination (totality) of the generator models

The models return `none` for four reasons: a given `start_coord` outside the grid (`StartRejected` — the ValueError of
`_random_start_coord`, a genuine error branch of the code), the iteration budget (`fuel`, a device of the model only), a
missing draw, or a draw that does not index the list it selects from. `genDfsE` (`Model/DfsErr.lean`) is `genDfs` with the reason
named (`C01_dfs_model_refines`). Bounds: `dfsFuel rows cols = 2*rows*cols` iterations and `dfsDraws rows cols =
4*rows*cols` draws for the dfs loop (potential `2*(rows*cols - |visited|) + |stack|` drops every iteration, at most two
draws per iteration), `compFuel rows cols = 5*rows*cols + 2` for `componentFrom`. All grids, all `Args`, all draw lists. -/

/-- full termination statement (kept visible); proved as `C01_total_full_holds` -/
def C01_total_full : Prop :=
  ∀ (rows cols : Nat), 0 < rows → 0 < cols →
    -- (1) dfs loop, any in-grid start: fuel is never the reason for a failure and is irrelevant above the bound;
    --     with `dfsDraws` draws the only possible failure is an out-of-range draw; the all-zero draws are accepted
    (∀ a start draws fuel fuel', inGrid rows cols start → dfsFuel rows cols ≤ fuel → dfsFuel rows cols ≤ fuel' →
        genDfsE rows cols a start draws fuel ≠ .error .outOfFuel ∧
        genDfs rows cols a start draws fuel = genDfs rows cols a start draws fuel') ∧
    (∀ a start draws fuel, inGrid rows cols start → dfsFuel rows cols ≤ fuel → dfsDraws rows cols ≤ draws.length →
        genDfs rows cols a start draws fuel = none → genDfsE rows cols a start draws fuel = .error .drawOutOfRange) ∧
    (∀ a start draws fuel, inGrid rows cols start → dfsFuel rows cols ≤ fuel → dfsDraws rows cols ≤ draws.length →
        (∀ d ∈ draws, d = 0) → ∃ s, genDfs rows cols a start draws fuel = some s) ∧
    -- (2) gen_dfs / gen_prim with the start-coordinate step, EVERY `given`: fuel-free above the bound; with all-zero
    --     draws the run returns UNLESS the given start is outside the grid (then `none`, the ValueError branch)
    (∀ a given draws fuel fuel',
        dfsFuel rows cols ≤ fuel → dfsFuel rows cols ≤ fuel' →
        genDfsTop rows cols a given draws fuel = genDfsTop rows cols a given draws fuel' ∧
        genPrimTop rows cols a given draws fuel = genPrimTop rows cols a given draws fuel') ∧
    (∀ a given draws fuel, dfsFuel rows cols ≤ fuel → dfsDraws rows cols + 2 ≤ draws.length → (∀ d ∈ draws, d = 0) →
        ((∃ o, genDfsTop rows cols a given draws fuel = some o) ↔ ¬ StartRejected rows cols given) ∧
        ((∃ o, genPrimTop rows cols a given draws fuel = some o) ↔ ¬ StartRejected rows cols given)) ∧
    -- (3) component search and the two percolation generators: they return iff the given start (if any) is in the
    --     grid and they are handed the numbers they ask for
    (∀ E c fuel, inGrid rows cols c → compFuel rows cols ≤ fuel → ∃ V, componentFrom rows cols E c fuel = some V) ∧
    (∀ p given draws rands fuel, compFuel rows cols ≤ fuel →
        ((∃ o, genPercolationTop rows cols p given draws rands fuel = some o) ↔
          (¬ StartRejected rows cols given ∧ (given = none → randomStart rows cols draws ≠ none) ∧
            rands.length = 2 * rows * cols))) ∧
    (∀ p a given draws rands fuel, compFuel rows cols ≤ fuel →
        ((∃ o, genDfsPercolationTop rows cols p a given draws rands fuel = some o) ↔
          ((∃ o, genDfsTop rows cols a given draws fuel = some o) ∧ rands.length = 2 * rows * cols))) ∧
    -- (4) wilson: no totality (a walk may oscillate for ever), but every run can be finished
    (∀ start, inGrid rows cols start →
        ∃ draws s, ∀ fuel, rows + cols + rows * cols ≤ fuel → genWilson rows cols start draws fuel = some s)

/-- `genDfsE` is `genDfs` with the reason of a failure named: same runs, same results -/
theorem C01_dfs_model_refines (rows cols : Nat) (a : Args) (start : Cell) (draws : List Nat) (fuel : Nat) :
    genDfs rows cols a start draws fuel = (genDfsE rows cols a start draws fuel).toOption :=
  genDfs_eq_toOption rows cols a start draws fuel

/-- TERMINATION of the gen_dfs loop: for every grid, every argument combination, every in-grid start and EVERY draw
    list, `2*rows*cols` iterations are enough — the run never stops for lack of fuel, and above the bound neither the
    result nor the kind of failure depends on the fuel. -/
theorem C01_dfs_total {rows cols : Nat} {a : Args} {start : Cell} (hs : inGrid rows cols start) (draws : List Nat)
    {fuel fuel' : Nat} (hf : dfsFuel rows cols ≤ fuel) (hf' : dfsFuel rows cols ≤ fuel') :
    genDfsE rows cols a start draws fuel ≠ .error .outOfFuel ∧
    genDfsE rows cols a start draws fuel = genDfsE rows cols a start draws fuel' ∧
    genDfs rows cols a start draws fuel = genDfs rows cols a start draws fuel' :=
  ⟨genDfsE_ne_outOfFuel hs hf, genDfsE_fuel_indep hs hf hf', genDfs_fuel_indep hs hf hf'⟩

/-- a result obtained with ANY fuel is the result for every fuel above the bound: every "if the run returns `some`"
    theorem of this file speaks about the one canonical run -/
theorem C01_dfs_result_fuel_free {rows cols : Nat} {a : Args} {start : Cell} (hs : inGrid rows cols start)
    {draws : List Nat} {fuel fuel' : Nat} {s : St} (h : genDfs rows cols a start draws fuel = some s)
    (hf' : dfsFuel rows cols ≤ fuel') : genDfs rows cols a start draws fuel' = some s :=
  genDfs_some_fuel hs h hf'

/-- the loop consumes at most two draws per iteration: `4*rows*cols` draws never run out, for any fuel -/
theorem C01_dfs_draws_suffice {rows cols : Nat} {a : Args} {start : Cell} (hs : inGrid rows cols start) {draws : List Nat}
    (hd : dfsDraws rows cols ≤ draws.length) (fuel : Nat) :
    genDfsE rows cols a start draws fuel ≠ .error .noDraw :=
  genDfsE_ne_noDraw hs hd

/-- with enough fuel and enough draws, the ONLY way the dfs model returns `none` is a draw outside the range the loop
    asks for at that moment (`stack[i]` with `i ≥ len(stack)`, or `cands[k]` with `k ≥ len(cands)`) -/
theorem C01_dfs_fails_only_out_of_range {rows cols : Nat} {a : Args} {start : Cell} (hs : inGrid rows cols start)
    {draws : List Nat} {fuel : Nat} (hf : dfsFuel rows cols ≤ fuel) (hd : dfsDraws rows cols ≤ draws.length)
    (h : genDfs rows cols a start draws fuel = none) :
    genDfsE rows cols a start draws fuel = .error .drawOutOfRange := by
  have h1 := genDfsE_ne_outOfFuel (a := a) (rng := draws) hs hf
  have h2 := genDfsE_ne_noDraw (a := a) (fuel := fuel) hs hd
  rw [genDfs_eq_toOption] at h
  cases hE : genDfsE rows cols a start draws fuel with
  | ok s => rw [hE] at h; simp [Except.toOption] at h
  | error e =>
    rw [hE] at h1 h2
    cases e with
    | outOfFuel => exact absurd rfl h1
    | noDraw => exact absurd rfl h2
    | drawOutOfRange => rfl

/-- accepted draw lists exist for every grid and every argument combination: all draws `0`, at least `4*rows*cols` -/
theorem C01_dfs_accepts_zero_draws {rows cols : Nat} {a : Args} {start : Cell} (hs : inGrid rows cols start)
    {draws : List Nat} {fuel : Nat} (hf : dfsFuel rows cols ≤ fuel) (hd : dfsDraws rows cols ≤ draws.length)
    (hz : ∀ d ∈ draws, d = 0) : ∃ s, genDfs rows cols a start draws fuel = some s :=
  genDfs_zero hs hf hd hz

/-- gen_dfs with its start-coordinate step, EVERY `given`: fuel-independent above the bound, and a `none` above the
    bound is either the rejected start (given start outside the grid = ValueError) or about the draws (start draw
    refused / draw list exhausted / draw out of range), never about fuel -/
theorem C01_dfsTop_total {rows cols : Nat} (hr : 0 < rows) (hc : 0 < cols) {a : Args} {given : Option Cell}
    (draws : List Nat) {fuel fuel' : Nat}
    (hf : dfsFuel rows cols ≤ fuel) (hf' : dfsFuel rows cols ≤ fuel') :
    genDfsTop rows cols a given draws fuel = genDfsTop rows cols a given draws fuel' ∧
    (genDfsTop rows cols a given draws fuel = none →
      StartRejected rows cols given ∨ (given = none ∧ randomStart rows cols draws = none) ∨
      ∃ start d1, startCoord rows cols given draws = some (start, d1) ∧
        (genDfsE rows cols a start d1 fuel = .error .noDraw ∨ genDfsE rows cols a start d1 fuel = .error .drawOutOfRange)) := by
  refine ⟨genDfsTop_fuel_indep hr hc hf hf', fun h => ?_⟩
  rcases genDfsTop_none_reason hr hc hf h with h1 | h1
  · rcases startCoord_eq_none_iff.mp h1 with h2 | h2
    · exact Or.inl h2
    · exact Or.inr (Or.inl h2)
  · exact Or.inr (Or.inr h1)

/-- all draws `0`, enough of them, enough fuel: gen_dfs returns for every argument combination UNLESS the given start
    is outside the grid — then (and only then) it is the error branch -/
theorem C01_dfsTop_accepts_zero_draws {rows cols : Nat} (hr : 0 < rows) (hc : 0 < cols) {a : Args} {given : Option Cell}
    {draws : List Nat} {fuel : Nat}
    (hf : dfsFuel rows cols ≤ fuel) (hd : dfsDraws rows cols + 2 ≤ draws.length) (hz : ∀ d ∈ draws, d = 0) :
    (∃ o, genDfsTop rows cols a given draws fuel = some o) ↔ ¬ StartRejected rows cols given :=
  ⟨fun ⟨o, ho⟩ hrej => by rw [genDfsTop_rejected hrej] at ho; simp at ho,
   fun hg => genDfsTop_zero hr hc hg hf hd hz⟩

/-- the same for gen_prim (randomized stack) -/
theorem C01_prim_total {rows cols : Nat} (hr : 0 < rows) (hc : 0 < cols) {a : Args} {given : Option Cell}
    (draws : List Nat) {fuel fuel' : Nat}
    (hf : dfsFuel rows cols ≤ fuel) (hf' : dfsFuel rows cols ≤ fuel') :
    genPrimTop rows cols a given draws fuel = genPrimTop rows cols a given draws fuel' :=
  genDfsTop_fuel_indep hr hc hf hf'

theorem C01_prim_accepts_zero_draws {rows cols : Nat} (hr : 0 < rows) (hc : 0 < cols) {a : Args} {given : Option Cell}
    {draws : List Nat} {fuel : Nat}
    (hf : dfsFuel rows cols ≤ fuel) (hd : dfsDraws rows cols + 2 ≤ draws.length) (hz : ∀ d ∈ draws, d = 0) :
    (∃ o, genPrimTop rows cols a given draws fuel = some o) ↔ ¬ StartRejected rows cols given :=
  C01_dfsTop_accepts_zero_draws hr hc (a := { a with randStack := true }) hf hd hz

/-- `gen_connected_component_from`: always returns within `5*rows*cols + 2` iterations, whatever the connection list,
    and above the bound the result does not depend on the fuel -/
theorem C01_component_total {rows cols : Nat} (E : List Edge) {c : Cell} (hc : inGrid rows cols c) {fuel fuel' : Nat}
    (hf : compFuel rows cols ≤ fuel) (hf' : compFuel rows cols ≤ fuel') :
    (∃ V, componentFrom rows cols E c fuel = some V) ∧
    componentFrom rows cols E c fuel = componentFrom rows cols E c fuel' :=
  ⟨componentFrom_total E hc hf, componentFrom_fuel_indep E hc hf hf'⟩

/-- gen_percolation returns exactly when the given start (if any) is inside the grid and it gets the random numbers
    it asks for (an accepted start draw when no start is given, and a `2 × rows × cols` array); a given start outside
    the grid is `none` = ValueError; fuel above the bound is irrelevant -/
theorem C01_percolation_total {rows cols : Nat} (hr : 0 < rows) (hc : 0 < cols) {p : Nat × Nat} {given : Option Cell}
    (draws : List Nat) (rands : List (Nat × Nat)) {fuel fuel' : Nat}
    (hf : compFuel rows cols ≤ fuel) (hf' : compFuel rows cols ≤ fuel') :
    ((∃ o, genPercolationTop rows cols p given draws rands fuel = some o) ↔
      (¬ StartRejected rows cols given ∧ (given = none → randomStart rows cols draws ≠ none) ∧
        rands.length = 2 * rows * cols)) ∧
    genPercolationTop rows cols p given draws rands fuel = genPercolationTop rows cols p given draws rands fuel' := by
  refine ⟨?_, genPercolationTop_fuel_indep hr hc hf hf'⟩
  rw [genPercolationTop_isSome hr hc hf, ne_eq, startCoord_eq_none_iff, not_or, not_and, and_assoc]

/-- gen_dfs_percolation returns exactly when its dfs part returns (in particular: the given start is inside the grid,
    `C01_start_in_grid_of_success`) and the random array has the right size -/
theorem C01_dfsperc_total {rows cols : Nat} (hr : 0 < rows) (hc : 0 < cols) {p : Nat × Nat} {a : Args} {given : Option Cell}
    (draws : List Nat) (rands : List (Nat × Nat)) {fuel fuel' : Nat}
    (hf : compFuel rows cols ≤ fuel) (hf' : compFuel rows cols ≤ fuel') :
    ((∃ o, genDfsPercolationTop rows cols p a given draws rands fuel = some o) ↔
      ((∃ o, genDfsTop rows cols a given draws fuel = some o) ∧ rands.length = 2 * rows * cols)) ∧
    genDfsPercolationTop rows cols p a given draws rands fuel = genDfsPercolationTop rows cols p a given draws rands fuel' :=
  ⟨genDfsPercolationTop_isSome hr hc hf, genDfsPercolationTop_fuel_indep hr hc hf hf'⟩

/-- all-zero draws and a random array of the right size: gen_dfs_percolation returns UNLESS the given start is
    outside the grid (then `none`) -/
theorem C01_dfsperc_accepts_zero_draws {rows cols : Nat} (hr : 0 < rows) (hc : 0 < cols) {p : Nat × Nat} {a : Args}
    {given : Option Cell} {draws : List Nat} {rands : List (Nat × Nat)}
    {fuel : Nat} (hf : compFuel rows cols ≤ fuel) (hd : dfsDraws rows cols + 2 ≤ draws.length) (hz : ∀ d ∈ draws, d = 0)
    (hrn : rands.length = 2 * rows * cols) :
    (∃ o, genDfsPercolationTop rows cols p a given draws rands fuel = some o) ↔ ¬ StartRejected rows cols given := by
  rw [genDfsPercolationTop_isSome hr hc hf,
    C01_dfsTop_accepts_zero_draws hr hc (Nat.le_trans (dfsFuel_le_compFuel rows cols) hf) hd hz]
  exact ⟨fun h => h.1, fun h => ⟨h, hrn⟩⟩

/-- inner loop-erased walk of gen_wilson: from EVERY state (non-empty path, tip in the grid, some visited in-grid
    cell `v`) at most `mdist tip v` suitable draws end the walk, whatever follows them in the draw list -/
theorem C01_wilson_walk_can_finish {rows cols : Nat} {vis : List Cell} {v : Cell} (hv : v ∈ vis) (hvg : inGrid rows cols v)
    {path : List Cell} (hne : path ≠ []) (hg : inGrid rows cols path.getLast!) :
    ∃ (ds : List Nat) (path' : List Cell), ds.length ≤ mdist path.getLast! v ∧ path'.getLast! ∈ vis ∧
      ∀ (rest : List Nat) (fuel : Nat), mdist path.getLast! v + 1 ≤ fuel →
        walk rows cols vis fuel path (ds ++ rest) = some (path', rest) := by
  obtain ⟨ds, path', h1, _, _, h2, h3⟩ := walk_can_finish hv hvg _ path hne hg rfl
  exact ⟨ds, path', h1, h2, h3⟩

/-- outer loop of gen_wilson: from EVERY state with a visited in-grid cell there is a draw list that completes the run -/
theorem C01_wilson_outer_can_finish {rows cols : Nat} (vis : List Cell) (E : List Edge)
    (hv : ∃ v ∈ vis, inGrid rows cols v) :
    ∃ (ds : List Nat) (s' : WSt), ∀ fuel, rows + cols + (unvisited rows cols vis).length ≤ fuel →
      outer rows cols fuel { vis := vis, E := E, rng := ds } = some s' :=
  outer_can_finish _ vis E hv (Nat.le_refl _)

/-- in the middle of a run (a walk in progress inside the outer loop): some draws end the walk and some more complete
    the outer loop from the state the walk leaves -/
theorem C01_wilson_midrun_can_finish {rows cols : Nat} {vis : List Cell} (E : List Edge)
    (hv : ∃ v ∈ vis, inGrid rows cols v) {path : List Cell} (hne : path ≠ []) (hg : inGrid rows cols path.getLast!) :
    ∃ (dw dr : List Nat) (path' : List Cell) (s' : WSt), ∀ fuel, rows + cols + rows * cols ≤ fuel →
      walk rows cols vis fuel path (dw ++ dr) = some (path', dr) ∧
      outer rows cols fuel { vis := vis ++ path'.dropLast, E := E ++ pathEdges path', rng := dr } = some s' :=
  midrun_can_finish E hv hne hg

/-- gen_wilson has non-terminating draw sequences, so it has no totality theorem; but for every grid and every in-grid
    start there IS a draw list that finishes the run (and by `C01_wilson_spanning` the result is a spanning tree) -/
theorem C01_wilson_can_finish {rows cols : Nat} {start : Cell} (hs : inGrid rows cols start) :
    ∃ (draws : List Nat) (s : WSt), ∀ fuel, rows + cols + rows * cols ≤ fuel →
      genWilson rows cols start draws fuel = some s := by
  obtain ⟨ds, s', h⟩ := outer_can_finish (rows := rows) (cols := cols) (rows * cols) [start] []
    ⟨start, by simp, hs⟩ (by
      exact unvisited_length_le rows cols [start])
  exact ⟨ds, s', fun fuel hf => h fuel hf⟩

/-- the same with the start-coordinate draw in front -/
theorem C01_wilsonTop_can_finish {rows cols : Nat} (hr : 0 < rows) (hc : 0 < cols) :
    ∃ (draws : List Nat) (s : WSt), ∀ fuel, rows + cols + rows * cols ≤ fuel →
      genWilsonTop rows cols draws fuel = some s := by
  have hs : inGrid rows cols (((0 : Nat) : Int), ((0 : Nat) : Int)) := by simp [inGrid]; omega
  obtain ⟨ds, s, h⟩ := C01_wilson_can_finish hs
  refine ⟨0 :: 0 :: ds, s, fun fuel hf => ?_⟩
  have h1 : 0 < max (rows - 1) 1 ∧ 0 < max (cols - 1) 1 := by omega
  simp only [genWilsonTop, randomStart, h1, and_self, if_true]
  exact h fuel hf

theorem C01_total_full_holds : C01_total_full := by
  intro rows cols hr hc
  refine ⟨fun a start draws fuel fuel' hs hf hf' => ⟨(C01_dfs_total hs draws hf hf').1, (C01_dfs_total hs draws hf hf').2.2⟩,
    fun a start draws fuel hs hf hd h => C01_dfs_fails_only_out_of_range hs hf hd h,
    fun a start draws fuel hs hf hd hz => C01_dfs_accepts_zero_draws hs hf hd hz,
    fun a given draws fuel fuel' hf hf' => ⟨(C01_dfsTop_total hr hc draws hf hf').1, C01_prim_total hr hc draws hf hf'⟩,
    fun a given draws fuel hf hd hz => ⟨C01_dfsTop_accepts_zero_draws hr hc hf hd hz, C01_prim_accepts_zero_draws hr hc hf hd hz⟩,
    fun E c fuel hcg hf => (C01_component_total E hcg hf hf).1,
    fun p given draws rands fuel hf => (C01_percolation_total hr hc draws rands hf hf).1,
    fun p a given draws rands fuel hf => (C01_dfsperc_total hr hc draws rands hf hf).1,
    fun start hs => C01_wilson_can_finish hs⟩

/-! ### non-vacuity of the termination theorems -/
-- fuel does matter below the bound (2x2, no cell limit: 5 iterations are too few); the bound `2*rows*cols` is attained on 1x1
example : (match genDfsE 2 2 ⟨5, 100, true, false⟩ (0, 0) (List.replicate 16 0) 5 with
    | .error e => some e | .ok _ => none) = some RunErr.outOfFuel := by decide
example : (match genDfsE 1 1 ⟨5, 100, true, false⟩ (0, 0) [] 1 with
    | .error e => some e | .ok _ => none) = some RunErr.outOfFuel := by decide
example : (genDfs 1 1 ⟨5, 100, true, false⟩ (0, 0) [] 2).map (·.visited) = some [(0, 0)] := by decide
example : (genDfs 2 2 ⟨5, 100, true, false⟩ (0, 0) (List.replicate 16 0) 8).map (·.visited.length) = some 4 := by decide
example : dfsFuel 2 2 = 8 ∧ dfsDraws 2 2 = 16 ∧ compFuel 2 2 = 22 := by decide
-- the three failure kinds all occur
example : (match genDfsE 2 2 (defaultArgs 2 2 false) (0, 0) [0] 8 with
    | .error e => some e | .ok _ => none) = some RunErr.noDraw := by decide
example : (match genDfsE 2 2 (defaultArgs 2 2 false) (0, 0) (List.replicate 16 7) 8 with
    | .error e => some e | .ok _ => none) = some RunErr.drawOutOfRange := by decide
-- zero draws, randomized stack, random start
example : (genPrimTop 2 3 (defaultArgs 2 3 true) none (List.replicate 26 0) 12).map (·.visited.length) = some 6 := by decide
example : (genDfsTop 2 3 ⟨4, 3, false, false⟩ (some (1, 2)) (List.replicate 26 0) 12).map (·.visited.length) = some 2 := by decide
example : (componentFrom 2 2 [(0, 0, 0), (1, 0, 0)] (0, 0) 22).map (·.length) = some 3 := by decide
example : (genPercolationTop 2 2 (1, 2) none [0, 0] [(0,2),(1,2),(0,2),(1,2),(1,2),(1,2),(1,2),(1,2)] 22).map (·.visited) = some [(0, 0), (1, 0)] := by decide
example : (genDfsPercolationTop 2 2 (1, 2) (defaultArgs 2 2 false) none (List.replicate 18 0)
    [(0,2),(1,2),(0,2),(1,2),(0,2),(1,2),(0,2),(1,2)] 22).map (·.visited.length) = some 4 := by decide
-- a wilson walk state two steps away from the visited cell, and a whole run
example : walk 3 3 [(0, 0)] 3 [(1, 1)] [3, 1, 9] = some ([(1, 1), (0, 1), (0, 0)], [9]) := by decide
-- a non-terminating draw sequence exists (so there is no totality theorem): stepping right/left for ever on 1x3
example : ∀ fuel ∈ List.range 12, walk 1 3 [(0, 0)] fuel [(0, 2)] ((List.replicate 12 [0, 0]).flatten) = none := by decide
example : (genDfs 2 3 (defaultArgs 2 3 false) (0, 0) (List.replicate 24 0) 3) = none ∧
    (genDfs 2 3 (defaultArgs 2 3 false) (0, 0) (List.replicate 24 0) 12).map (·.visited.length) = some 6 := by decide
example : (genWilson 2 2 (0, 0) [0, 1, 0, 1, 0, 1] 8).map (·.E.length) = some 3 := by decide

end MZ
