import MazeVerif.Lemmas.PixelsWalk
/-! `from_pixels` applied to an image that satisfies the per-pixel specification of `as_pixels`. -/
namespace MZ.Pix

/-- the connection list read back from the black/white grid of `E` (the `True` entries of the array, in array order) -/
def canonEdges (rows cols : Nat) (E : List Edge) : List Edge := readEdges (asPixelsBW rows cols E) rows cols

theorem mem_canonEdges {rows cols : Nat} {E : List Edge} (hE : InArr rows cols E) (e : Edge) :
    e ∈ canonEdges rows cols E ↔ e ∈ E := mem_readEdges_bw hE e

/-- an image whose pixels are those of the picture of `m` -/
structure Shows (img : Img RGB) (m : Maze) (se ss : Bool) : Prop where
  h : img.h = 2 * m.rows + 1
  w : img.w = 2 * m.cols + 1
  px : ∀ x y, img.px x y = specPx m se ss x y

theorem Shows.readEdges {img : Img RGB} {m : Maze} {se ss : Bool} (hs : Shows img m se ss) (hv : Valid m) (hp : SolPath m)
    (hE : InArr m.rows m.cols m.edges) :
    readEdges (img.map fun c => !decide (c = cWall)) (img.h / 2) (img.w / 2) = canonEdges m.rows m.cols m.edges := by
  have e1 : img.h / 2 = m.rows := by rw [hs.h]; omega
  have e2 : img.w / 2 = m.cols := by rw [hs.w]; omega
  rw [e1, e2]
  apply readEdges_congr
  intro x y
  have := spec_ne_wall_iff m se ss hv hp hE x y
  simp only [Img.map, hs.px]
  cases hb : (asPixelsBW m.rows m.cols m.edges).px x y
  · rw [hb] at this
    have : specPx m se ss x y = cWall := by
      by_cases h : specPx m se ss x y = cWall
      · exact h
      · exact absurd (this.1 h) (by simp)
    simp [this]
  · rw [hb] at this
    have := this.2 rfl
    simp [this]

theorem Shows.odd {img : Img RGB} {m : Maze} {se ss : Bool} (hs : Shows img m se ss) : img.h % 2 = 1 ∧ img.w % 2 = 1 := by
  rw [hs.h, hs.w]; omega

/-! ### lattice -/
theorem fromPixels_lattice {img : Img RGB} {m : Maze} {se ss : Bool} (hs : Shows img m se ss) (hv : Valid m) (hp : SolPath m)
    (hE : InArr m.rows m.cols m.edges) :
    fromPixels .lattice img = .ok (.lattice m.rows m.cols (canonEdges m.rows m.cols m.edges)) := by
  have e1 : img.h / 2 = m.rows := by rw [hs.h]; omega
  have e2 : img.w / 2 = m.cols := by rw [hs.w]; omega
  have hr := hs.readEdges hv hp hE
  rw [e1, e2] at hr
  unfold fromPixels
  simp only [Kind.rank, Nat.zero_le, not_true_eq_false, if_false, hs.odd, and_self, e1, e2, hr]

/-! ### targeted -/
theorem positions_targeted {r c : Nat} {E : List Edge} {s e : Cell} {ss : Bool} {img : Img RGB}
    (hs : Shows img (.targeted r c E s e) true ss) (hv : Valid (.targeted r c E s e)) (hne : s ≠ e) :
    positions img cStart = [s] ∧ positions img cEnd = [e] ∧ positions img cPath = [] := by
  have key : ∀ a, inGrid r c a → img.px (pixOf a).1 (pixOf a).2 = if a = e then cEnd else if a = s then cStart else cOpen :=
    fun a ha => by rw [hs.px]; exact specPx_targeted_cell hv.1 hv.2 ss ha
  refine ⟨eq_singleton_of_nodup (positions_nodup _ _) (fun a => ?_), eq_singleton_of_nodup (positions_nodup _ _) (fun a => ?_), ?_⟩
  · rw [mem_positions img hs.h hs.w]
    constructor
    · rintro ⟨ha, h⟩
      rw [key a ha] at h
      by_cases h1 : a = e
      · simp [h1, cEnd, cStart] at h
      · by_cases h2 : a = s
        · exact h2
        · simp [h1, h2, cOpen, cStart] at h
    · rintro rfl
      refine ⟨hv.1, ?_⟩
      rw [key a hv.1]; simp [hne]
  · rw [mem_positions img hs.h hs.w]
    constructor
    · rintro ⟨ha, h⟩
      rw [key a ha] at h
      by_cases h1 : a = e
      · exact h1
      · by_cases h2 : a = s
        · subst h2; simp [hne, cEnd, cStart] at h
        · simp [h1, h2, cOpen, cEnd] at h
    · rintro rfl
      refine ⟨hv.2, ?_⟩
      rw [key a hv.2]; simp
  · rw [List.eq_nil_iff_forall_not_mem]
    intro a
    rw [mem_positions img hs.h hs.w]
    rintro ⟨ha, h⟩
    rw [key a ha] at h
    by_cases h1 : a = e
    · simp [h1, cEnd, cPath] at h
    · by_cases h2 : a = s
      · subst h2; simp [hne, cPath, cStart] at h
      · simp [h1, h2, cOpen, cPath] at h

theorem spec_targeted_ne_path {r c : Nat} {E : List Edge} {s e : Cell} (se ss : Bool) (x y : Nat) :
    specPx (.targeted r c E s e) se ss x y ≠ cPath := by
  simp only [specPx, basePx]
  repeat' split
  all_goals decide

theorem detect_targeted {r c : Nat} {E : List Edge} {s e : Cell} {ss : Bool} {img : Img RGB}
    (hs : Shows img (.targeted r c E s e) true ss) (hv : Valid (.targeted r c E s e)) :
    detectType img = .targeted := by
  have h1 : colorIn img cEnd = true := by
    apply colorIn_of_px img cEnd (x := (pixOf e).1) (y := (pixOf e).2)
    · rw [hs.h]; have := hv.2; simp only [pixOf, inGrid, Maze.rows] at *; omega
    · rw [hs.w]; have := hv.2; simp only [pixOf, inGrid, Maze.cols] at *; omega
    · rw [hs.px, specPx_targeted_cell hv.1 hv.2 ss hv.2]; simp
  have h2 : colorIn img cPath = false := colorIn_false _ _ (fun x y _ _ => by rw [hs.px]; exact spec_targeted_ne_path _ _ _ _)
  simp only [detectType, h1, h2, Bool.or_true, if_true, Bool.false_eq_true, if_false]

theorem fromPixels_targeted {r c : Nat} {E : List Edge} {s e : Cell} {ss : Bool} {img : Img RGB}
    (hs : Shows img (.targeted r c E s e) true ss) (hv : Valid (.targeted r c E s e)) (hE : InArr r c E) (hne : s ≠ e) :
    fromPixels .targeted img = .ok (.targeted r c (canonEdges r c E) s e) := by
  have e1 : img.h / 2 = r := by rw [hs.h]; simp only [Maze.rows]; omega
  have e2 : img.w / 2 = c := by rw [hs.w]; simp only [Maze.cols]; omega
  obtain ⟨p1, p2, _⟩ := positions_targeted hs hv hne
  have hr := hs.readEdges hv trivial hE
  rw [e1, e2] at hr
  unfold fromPixels
  simp only [detect_targeted hs hv, Kind.rank, Nat.le_refl, not_true_eq_false, if_false, hs.odd, and_self, hr, e1, e2, p1, p2]
  rfl

/-! ### solved -/
section solved
variable {r c : Nat} {E : List Edge} {s : Cell} {rest : List Cell} {img : Img RGB}

theorem getLast_mem_rest (hne : rest ≠ []) : (s :: rest).getLast (by simp) ∈ rest := by
  rw [List.getLast_cons hne]; exact List.getLast_mem _

theorem solved_cell_px (hs : Shows img (.solved r c E s rest) true true) (hv : Valid (.solved r c E s rest)) {a : Cell}
    (ha : inGrid r c a) :
    img.px (pixOf a).1 (pixOf a).2 =
      if a = (s :: rest).getLast (by simp) then cEnd else if a = s then cStart else if a ∈ s :: rest then cPath else cOpen := by
  rw [hs.px]; exact specPx_solved_cell hv.1 hv.2 ha

theorem positions_solved (hs : Shows img (.solved r c E s rest) true true) (hv : Valid (.solved r c E s rest))
    (hnd : (s :: rest).Nodup) (hne : rest ≠ []) :
    positions img cStart = [s] ∧ positions img cEnd = [(s :: rest).getLast (by simp)] ∧
    ∀ a, a ∈ positions img cPath ↔ a ∈ rest ∧ a ≠ (s :: rest).getLast (by simp) := by
  have hse : s ≠ (s :: rest).getLast (by simp) := fun h => (List.nodup_cons.1 hnd).1 (h ▸ getLast_mem_rest hne)
  have hsin : inGrid r c s := hv.1 s (by simp)
  have hein := getLast_inGrid hv.1
  refine ⟨eq_singleton_of_nodup (positions_nodup _ _) (fun a => ?_), eq_singleton_of_nodup (positions_nodup _ _) (fun a => ?_),
    fun a => ?_⟩
  · rw [mem_positions img hs.h hs.w]
    constructor
    · rintro ⟨ha, h⟩
      rw [solved_cell_px hs hv ha] at h
      by_cases h1 : a = (s :: rest).getLast (by simp)
      · simp [h1, cEnd, cStart] at h
      · by_cases h2 : a = s
        · exact h2
        · by_cases h3 : a ∈ s :: rest <;> simp [h1, h2, h3, cOpen, cStart, cPath] at h
    · rintro rfl
      refine ⟨hsin, ?_⟩
      rw [solved_cell_px hs hv hsin]; simp [hse]
  · rw [mem_positions img hs.h hs.w]
    constructor
    · rintro ⟨ha, h⟩
      rw [solved_cell_px hs hv ha] at h
      by_cases h1 : a = (s :: rest).getLast (by simp)
      · exact h1
      · by_cases h2 : a = s
        · subst h2; simp [h1, cEnd, cStart] at h
        · by_cases h3 : a ∈ s :: rest <;> simp [h1, h2, h3, cOpen, cEnd, cPath] at h
    · rintro rfl
      refine ⟨hein, ?_⟩
      rw [solved_cell_px hs hv hein]; simp
  · rw [mem_positions img hs.h hs.w]
    constructor
    · rintro ⟨ha, h⟩
      rw [solved_cell_px hs hv ha] at h
      by_cases h1 : a = (s :: rest).getLast (by simp)
      · simp [h1, cEnd, cPath] at h
      · by_cases h2 : a = s
        · subst h2; simp [h1, cPath, cStart] at h
        · by_cases h3 : a ∈ s :: rest
          · exact ⟨by simpa [h2] using h3, h1⟩
          · simp [h1, h2, h3, cOpen, cPath] at h
    · rintro ⟨ha, h1⟩
      have h2 : a ≠ s := fun h => (List.nodup_cons.1 hnd).1 (h ▸ ha)
      have hin : inGrid r c a := hv.1 a (by simp [ha])
      refine ⟨hin, ?_⟩
      rw [solved_cell_px hs hv hin]; simp [h1, h2, ha]

theorem detect_solved (hs : Shows img (.solved r c E s rest) true true) (hv : Valid (.solved r c E s rest)) (hne : rest ≠ []) :
    detectType img = .solved := by
  have hein := getLast_inGrid hv.1
  have h1 : colorIn img cEnd = true := by
    apply colorIn_of_px img cEnd (x := (pixOf ((s :: rest).getLast (by simp))).1) (y := (pixOf ((s :: rest).getLast (by simp))).2)
    · rw [hs.h]; simp only [pixOf, inGrid, Maze.rows] at *; omega
    · rw [hs.w]; simp only [pixOf, inGrid, Maze.cols] at *; omega
    · rw [solved_cell_px hs hv hein]; simp
  have h2 : colorIn img cPath = true := by
    obtain ⟨y, rest', rfl⟩ := List.exists_cons_of_ne_nil hne
    have hsin : inGrid r c s := hv.1 s (by simp)
    have hyin : inGrid r c y := hv.1 y (by simp)
    have hny : y ∈ nbrs s := hv.2.1
    have hpar := mid_parity hsin hyin hny
    apply colorIn_of_px img cPath (x := (midOf s y).1) (y := (midOf s y).2)
    · rw [hs.h]; obtain ⟨a1, a2, a3, a4⟩ := hsin; obtain ⟨b1, b2, b3, b4⟩ := hyin
      simp only [midOf, Maze.rows]; omega
    · rw [hs.w]; obtain ⟨a1, a2, a3, a4⟩ := hsin; obtain ⟨b1, b2, b3, b4⟩ := hyin
      simp only [midOf, Maze.cols]; omega
    · rw [hs.px]
      have n1 : ¬ ((midOf s y).1, (midOf s y).2) = pixOf ((s :: y :: rest').getLast (by simp)) := by
        intro h; apply hpar; have := pixOf_parity ((s :: y :: rest').getLast (by simp)); rw [← h] at this; exact this
      have n2 : ¬ ((midOf s y).1, (midOf s y).2) = pixOf s := by
        intro h; apply hpar; have := pixOf_parity s; rw [← h] at this; exact this
      have n3 : ((midOf s y).1, (midOf s y).2) ∈ betweenPix (s :: y :: rest') := by simp [betweenPix]
      simp only [specPx, if_true, n1, n2, n3, if_false]
  simp only [detectType, h1, h2, Bool.or_true, if_true]

theorem l1_of_nbr {a b : Cell} (h : b ∈ nbrs a) : l1 a b = 1 := by
  simp only [nbrs, List.mem_cons, List.not_mem_nil, or_false] at h
  rcases h with rfl | rfl | rfl | rfl <;> simp only [l1] <;> omega

theorem fromPixels_solved (hs : Shows img (.solved r c E s rest) true true) (hv : Valid (.solved r c E s rest))
    (hp : PathIn E (s :: rest)) (hE : InArr r c E) (hnd : (s :: rest).Nodup) (hch : Chordless E (s :: rest)) (hne : rest ≠ []) :
    fromPixels .solved img = .ok (.solved r c (canonEdges r c E) s rest) := by
  have e1 : img.h / 2 = r := by rw [hs.h]; simp only [Maze.rows]; omega
  have e2 : img.w / 2 = c := by rw [hs.w]; simp only [Maze.cols]; omega
  obtain ⟨p1, p2, p3⟩ := positions_solved hs hv hnd hne
  have hr := hs.readEdges hv hp hE
  rw [e1, e2] at hr
  simp only [Maze.rows, Maze.cols, Maze.edges] at hr
  have hlast := getLast_mem_rest (s := s) hne
  -- membership in the raw list
  have hraw : ∀ a, a ∈ positions img cPath ++ [(s :: rest).getLast (by simp)] ↔ a ∈ rest := by
    intro a
    rw [List.mem_append, p3, List.mem_singleton]
    constructor
    · rintro (⟨h, _⟩ | rfl)
      · exact h
      · exact hlast
    · intro h
      by_cases h1 : a = (s :: rest).getLast (by simp)
      · exact Or.inr h1
      · exact Or.inl ⟨h, h1⟩
  -- the first guard
  have hguard : ¬ (positions img cPath = [] ∧ l1 s ((s :: rest).getLast (by simp)) ≠ 1) := by
    rintro ⟨h1, h2⟩
    obtain ⟨y, rest', rfl⟩ := List.exists_cons_of_ne_nil hne
    cases rest' with
    | nil => exact h2 (by simpa using l1_of_nbr hv.2.1)
    | cons z t =>
      have : y ∈ positions img cPath := by
        rw [p3]
        refine ⟨by simp, ?_⟩
        intro h
        have hn := (List.nodup_cons.1 hnd).2
        rw [List.nodup_cons] at hn
        apply hn.1
        rw [h, List.getLast_cons (by simp), List.getLast_cons (by simp)]
        exact List.getLast_mem _
      rw [h1] at this; simp at this
  -- fuel
  have hfuel : rest.length < (positions img cPath ++ [(s :: rest).getLast (by simp)]).length + 1 := by
    have := (List.subperm_of_subset (List.nodup_cons.1 hnd).2 (fun a ha => (hraw a).2 ha)).length_le
    omega
  -- the walk
  have hwalk := walk_spec (connNbrs r c (canonEdges r c E)) (positions img cPath ++ [(s :: rest).getLast (by simp)])
    ((s :: rest).getLast (by simp)) rest [] s _ hfuel rfl hnd (by
      intro A x y B hsplit
      have hxin : x ∈ s :: rest := by rw [hsplit]; simp
      have hyin : y ∈ s :: rest := by rw [hsplit]; simp
      have hadj : Adj E x y := PathIn.adj_at (hsplit ▸ hp)
      have hnd' : (A ++ x :: y :: B).Nodup := hsplit ▸ hnd
      have hyrest : y ∈ rest := by
        cases A with
        | nil => simp only [List.nil_append, List.cons.injEq] at hsplit; rw [hsplit.2]; simp
        | cons a A' => simp only [List.cons_append, List.cons.injEq] at hsplit; rw [hsplit.2]; simp
      unfold connNbrs
      rw [List.filter_filter]
      apply filter_eq_singleton (nbrs_nodup x)
      intro n
      simp only [Bool.and_eq_true, decide_eq_true_eq, Bool.not_eq_true', decide_eq_false_iff_not, List.nil_append, hraw,
        mem_canonEdges hE]
      constructor
      · rintro ⟨hn, ⟨hnrest, hnot⟩, hgrid, hedge⟩
        have hnadj : Adj E x n := adj_edgeOf hn hedge
        have hnp : n ∈ A ++ x :: y :: B := hsplit ▸ (List.mem_cons_of_mem s hnrest)
        have : n ∈ y :: B := by
          simp only [List.mem_append, List.mem_cons, List.not_mem_nil, or_false] at hnp hnot ⊢
          rcases hnp with h | h | h | h
          · exact absurd (Or.inl h) hnot
          · exact absurd (Or.inr h) hnot
          · exact Or.inl h
          · exact Or.inr h
        rcases List.mem_cons.1 this with h | h
        · exact h
        · exact absurd hnadj (hch A x y B n hsplit h)
      · rintro rfl
        refine ⟨adj_nbr hadj, ⟨hyrest, ?_⟩, hv.1 n hyin, edgeOf_of_adj hadj⟩
        intro hmem
        have : n ∈ A ++ [x] := hmem
        rw [show A ++ x :: n :: B = (A ++ [x]) ++ n :: B by simp] at hnd'
        exact (List.nodup_append.1 hnd').2.2 n this n (by simp) rfl)
  unfold fromPixels
  simp only [detect_solved hs hv hne, Kind.rank, Nat.le_refl, not_true_eq_false, if_false, hs.odd, and_self, hr, e1, e2, p1, p2]
  simp only [orderSolution, hguard, if_false, hwalk, List.nil_append]

end solved

end MZ.Pix
