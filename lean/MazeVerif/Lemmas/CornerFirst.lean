import MazeVerif.Model.Vocab
import Batteries.Data.List.Perm
/-! Lemmas about `ndindex` and `cornerFirst` (property C14): the stable sort by the non-injective Python key equals the sort
    by the total key `(python key, x)`, and `cornerFirst n` is a prefix of `cornerFirst (n+1)` for every `n`. Core only. -/
namespace MZ.Vocab
open List

/-- lexicographic strict order on pairs = the order of `np.ndindex` -/
def lexLt (a b : P) : Prop := a.1 < b.1 ∨ (a.1 = b.1 ∧ a.2 < b.2)

theorem keyLe_iff {a b : P} : keyLe a b = true ↔ keyLeP a b := by simp [keyLe]
theorem totLe_iff {a b : P} : totLe a b = true ↔ totLeP a b := by simp [totLe]

theorem keyLe_total (a b : P) : (keyLe a b || keyLe b a) = true := by
  simp only [Bool.or_eq_true, keyLe_iff]; unfold keyLeP; omega
theorem keyLe_trans (a b c : P) : keyLe a b = true → keyLe b c = true → keyLe a c = true := by
  simp only [keyLe_iff]; unfold keyLeP; omega

theorem totLe_total (a b : P) : (totLe a b || totLe b a) = true := by
  simp only [Bool.or_eq_true, totLe_iff]; unfold totLeP; omega
theorem totLe_trans (a b c : P) : totLe a b = true → totLe b c = true → totLe a c = true := by
  simp only [totLe_iff]; unfold totLeP; omega
theorem totLe_antisymm {a b : P} (h1 : totLe a b = true) (h2 : totLe b a = true) : a = b := by
  rw [totLe_iff] at h1 h2
  unfold totLeP at h1 h2
  have h : a.1 = b.1 ∧ a.2 = b.2 := by omega
  exact Prod.ext h.1 h.2

/-- the total order refines the python key and, on ties, agrees with the input order -/
theorem totLeP_of_key {a b : P} (h : keyLeP a b) (ht : keyLeP b a → ¬ lexLt b a) : totLeP a b := by
  unfold keyLeP at h ht; unfold lexLt at ht; unfold totLeP; omega

/-! ### ndindex -/

theorem mem_ndindex {n : Nat} {x : P} : x ∈ ndindex n ↔ x.1 < n ∧ x.2 < n := by
  obtain ⟨a, b⟩ := x
  simp [ndindex]

theorem sum_replicate_const (n c : Nat) : ((List.range n).map (fun _ => c)).sum = n * c := by
  induction n with
  | zero => simp
  | succ k ih => rw [List.range_succ, List.map_append, List.sum_append, ih]; simp [Nat.succ_mul]

theorem length_ndindex (n : Nat) : (ndindex n).length = n * n := by
  simp [ndindex, List.length_flatMap, sum_replicate_const]

theorem pairwise_lexLt_ndindex (n : Nat) : (ndindex n).Pairwise lexLt := by
  unfold ndindex
  rw [List.pairwise_flatMap]
  refine ⟨fun i _ => ?_, ?_⟩
  · rw [List.pairwise_map]
    exact (List.pairwise_lt_range (n := n)).imp (fun {a b} h => Or.inr ⟨rfl, h⟩)
  · refine (List.pairwise_lt_range (n := n)).imp (fun {a b} h => ?_)
    intro x hx y hy
    simp only [List.mem_map, List.mem_range] at hx hy
    obtain ⟨_, _, rfl⟩ := hx
    obtain ⟨_, _, rfl⟩ := hy
    exact Or.inl h

theorem lexLt_irrefl (a : P) : ¬ lexLt a a := by unfold lexLt; omega
theorem lexLt_asymm {a b : P} : lexLt a b → ¬ lexLt b a := by unfold lexLt; omega
theorem lexLt_or_eq (a b : P) : lexLt a b ∨ a = b ∨ lexLt b a := by
  unfold lexLt
  by_cases h : a = b
  · exact Or.inr (Or.inl h)
  · have : ¬ (a.1 = b.1 ∧ a.2 = b.2) := fun h' => h (Prod.ext h'.1 h'.2)
    omega

theorem nodup_ndindex (n : Nat) : (ndindex n).Nodup :=
  (pairwise_lexLt_ndindex n).imp (fun {a b} h (e : a = b) => lexLt_irrefl a (by rw [← e] at h; exact h))

/-! ### generic list facts -/

/-- in a strictly sorted list two members appear in their sorted order -/
theorem pair_sublist_of_sorted {α} {R : α → α → Prop} (hasymm : ∀ a b, R a b → ¬ R b a) :
    ∀ {l : List α} {a b : α}, l.Pairwise R → a ∈ l → b ∈ l → R a b → [a, b] <+ l
  | [], _, _, _, ha, _, _ => by cases ha
  | x :: xs, a, b, hp, ha, hb, hab => by
    have hp' := List.pairwise_cons.mp hp
    by_cases hxa : x = a
    · subst hxa
      have hb' : b ∈ xs := by
        rcases List.mem_cons.mp hb with h | h
        · subst h; exact absurd hab (hasymm _ _ hab)
        · exact h
      exact List.Sublist.cons_cons _ (List.singleton_sublist.mpr hb')
    · have ha' : a ∈ xs := by
        rcases List.mem_cons.mp ha with h | h
        · exact absurd h.symm hxa
        · exact h
      have hb' : b ∈ xs := by
        rcases List.mem_cons.mp hb with h | h
        · subst h; exact absurd hab (hasymm _ _ (hp'.1 a ha'))
        · exact h
      exact List.Sublist.cons _ (pair_sublist_of_sorted hasymm hp'.2 ha' hb' hab)

/-- a duplicate-free list cannot contain two elements in both orders -/
theorem eq_of_pair_sublists {α} : ∀ {l : List α} {a b : α}, l.Nodup → [a, b] <+ l → [b, a] <+ l → a = b
  | [], _, _, _, h, _ => by cases h
  | x :: xs, a, b, hn, h1, h2 => by
    have hn' := List.nodup_cons.mp hn
    cases h1 with
    | cons _ h1' =>
      cases h2 with
      | cons _ h2' => exact eq_of_pair_sublists hn'.2 h1' h2'
      | cons_cons _ h2' =>
        -- x = b, and b occurs again in xs
        have : x ∈ xs := (List.Sublist.subset h1') (by simp)
        exact absurd this hn'.1
    | cons_cons _ h1' =>
      cases h2 with
      | cons _ h2' =>
        have : x ∈ xs := (List.Sublist.subset h2') (by simp)
        exact absurd this hn'.1
      | cons_cons _ h2' =>
        have : x ∈ xs := (List.Sublist.subset h1') (by simp)
        exact absurd this hn'.1

/-- a list sorted by a relation under which no `¬p` element precedes a `p` element splits as filter p ++ filter ¬p -/
theorem split_of_sorted {α} {R : α → α → Prop} {p : α → Bool} :
    ∀ {l : List α}, l.Pairwise R → (∀ a b, R a b → p b = true → p a = true) → l = l.filter p ++ l.filter (fun x => !p x)
  | [], _, _ => by simp
  | x :: xs, hs, hp => by
    have hs' := List.pairwise_cons.mp hs
    have ih := split_of_sorted hs'.2 hp
    by_cases hx : p x = true
    · simp only [List.filter_cons, hx, if_true, Bool.not_true, Bool.false_eq_true, if_false, List.cons_append]
      rw [← ih]
    · have hx' : p x = false := by simpa using hx
      have hall : ∀ y ∈ xs, p y = false := by
        intro y hy
        by_cases hy' : p y = true
        · exact absurd (hp x y (hs'.1 y hy) hy') hx
        · simpa using hy'
      have h1 : xs.filter p = [] := by
        rw [List.filter_eq_nil_iff]; intro y hy; simp [hall y hy]
      have h2 : xs.filter (fun x => !p x) = xs := by
        rw [List.filter_eq_self]; intro y hy; simp [hall y hy]
      simp [hx', h1, h2]

/-! ### the stable sort by the python key is the sort by the total key -/

theorem cornerFirst_perm (n : Nat) : cornerFirst n ~ ndindex n := List.mergeSort_perm _ _

theorem mem_cornerFirst {n : Nat} {x : P} : x ∈ cornerFirst n ↔ x.1 < n ∧ x.2 < n :=
  ((cornerFirst_perm n).mem_iff).trans mem_ndindex

theorem nodup_cornerFirst (n : Nat) : (cornerFirst n).Nodup :=
  (cornerFirst_perm n).nodup_iff.mpr (nodup_ndindex n)

theorem length_cornerFirst (n : Nat) : (cornerFirst n).length = n * n := by
  simp [cornerFirst, List.length_mergeSort, length_ndindex]

theorem pairwise_totLe_cornerFirst (n : Nat) : (cornerFirst n).Pairwise (fun a b => totLe a b = true) := by
  have hkey : (cornerFirst n).Pairwise (fun a b => keyLe a b = true) :=
    List.pairwise_mergeSort keyLe_trans keyLe_total _
  rw [List.pairwise_iff_forall_sublist]
  intro a b hab
  have hk : keyLeP a b := keyLe_iff.mp (List.pairwise_iff_forall_sublist.mp hkey hab)
  rw [totLe_iff]
  refine totLeP_of_key hk (fun hba hlt => ?_)
  -- b precedes a in the input and ties with it, so stability keeps b before a: contradiction with nodup
  have ha : a ∈ ndindex n := (cornerFirst_perm n).mem_iff.mp (hab.subset (by simp))
  have hb : b ∈ ndindex n := (cornerFirst_perm n).mem_iff.mp (hab.subset (by simp))
  have hsub : [b, a] <+ ndindex n :=
    pair_sublist_of_sorted (fun _ _ => lexLt_asymm) (pairwise_lexLt_ndindex n) hb ha hlt
  have hsub' : [b, a] <+ cornerFirst n :=
    List.pair_sublist_mergeSort keyLe_trans keyLe_total (keyLe_iff.mpr hba) hsub
  have : a = b := eq_of_pair_sublists (nodup_cornerFirst n) hab hsub'
  exact lexLt_irrefl a (this ▸ hlt)

/-- `corner_first_ndindex(n)` (stable sort, python key) = sort by the total key `(python key, x)` -/
theorem cornerFirst_eq_totalSort (n : Nat) : cornerFirst n = (ndindex n).mergeSort totLe :=
  List.Perm.eq_of_pairwise (le := fun a b => totLe a b = true)
    (fun _ _ _ _ h1 h2 => totLe_antisymm h1 h2)
    (pairwise_totLe_cornerFirst n)
    (List.pairwise_mergeSort totLe_trans totLe_total _)
    ((cornerFirst_perm n).trans (List.mergeSort_perm _ _).symm)

/-! ### prefix property -/

def small (n : Nat) (x : P) : Bool := decide (x.1 < n ∧ x.2 < n)

/-- the new shell sorts strictly after the smaller grid -/
theorem not_totLe_of_shell {n : Nat} {a b : P} (ha : small n a = true) (hb : small n b = false) : totLe b a = false := by
  simp only [small, decide_eq_true_eq, decide_eq_false_iff_not] at ha hb
  have : ¬ totLeP b a := by unfold totLeP k1; omega
  simpa [totLe] using this

theorem ndindex_filter_small (n : Nat) : (ndindex (n+1)).filter (small n) ~ ndindex n := by
  rw [List.perm_ext_iff_of_nodup ((nodup_ndindex _).filter _) (nodup_ndindex _)]
  intro x
  simp only [List.mem_filter, mem_ndindex, small, decide_eq_true_eq]
  omega

theorem cornerFirst_prefix_succ (n : Nat) : cornerFirst n <+: cornerFirst (n+1) := by
  have hsorted := pairwise_totLe_cornerFirst (n+1)
  have hsplit := split_of_sorted (p := small n) hsorted (by
    intro a b hab hb
    by_cases ha : small n a = true
    · exact ha
    · have := not_totLe_of_shell hb (by simpa using ha); simp [this] at hab)
  have hperm : (cornerFirst (n+1)).filter (small n) ~ cornerFirst n := by
    have h1 : (cornerFirst (n+1)).filter (small n) ~ (ndindex (n+1)).filter (small n) :=
      (cornerFirst_perm (n+1)).filter _
    exact (h1.trans (ndindex_filter_small n)).trans (cornerFirst_perm n).symm
  have heq : (cornerFirst (n+1)).filter (small n) = cornerFirst n :=
    List.Perm.eq_of_pairwise (le := fun a b => totLe a b = true)
      (fun _ _ _ _ h1 h2 => totLe_antisymm h1 h2)
      (hsorted.sublist List.filter_sublist)
      (pairwise_totLe_cornerFirst n) hperm
  rw [hsplit, heq]
  exact List.prefix_append _ _

theorem cornerFirst_prefix {n m : Nat} (h : n ≤ m) : cornerFirst n <+: cornerFirst m := by
  induction m with
  | zero => have : n = 0 := by omega
            subst this; exact List.prefix_refl _
  | succ k ih =>
    by_cases hk : n = k + 1
    · subst hk; exact List.prefix_refl _
    · exact (ih (by omega)).trans (cornerFirst_prefix_succ k)

/-- the shell added at size `n+1`: everything after the first `n*n` entries has maximum exactly `n` -/
theorem cornerFirst_drop_shell (n : Nat) : ∀ x ∈ (cornerFirst (n+1)).drop (n*n), max x.1 x.2 = n := by
  obtain ⟨t, ht⟩ := cornerFirst_prefix_succ n
  intro x hx
  have hlen : (cornerFirst n).length = n * n := length_cornerFirst n
  rw [← ht, ← hlen, List.drop_left] at hx
  have hx1 : x ∈ cornerFirst (n+1) := by rw [← ht]; exact List.mem_append_right _ hx
  have hx2 : x ∉ cornerFirst n := by
    intro hmem
    have hnd := nodup_cornerFirst (n+1)
    rw [← ht] at hnd
    exact (List.nodup_append.mp hnd).2.2 x hmem x hx rfl
  rw [mem_cornerFirst] at hx1 hx2
  omega

/-! ### the spec checker -/

theorem pairwise_of_sortedAdj : ∀ {l : List P}, sortedAdj l = true →
    l.Pairwise (fun a b => totLe a b = true ∧ totLe b a = false)
  | [], _ => List.Pairwise.nil
  | [a], _ => by simp
  | a :: b :: r, h => by
    simp only [sortedAdj, Bool.and_eq_true, Bool.not_eq_true'] at h
    have ih := pairwise_of_sortedAdj h.2
    refine List.pairwise_cons.mpr ⟨?_, ih⟩
    intro c hc
    rcases List.mem_cons.mp hc with rfl | hc'
    · exact h.1
    · have hbc := (List.pairwise_cons.mp ih).1 c hc'
      refine ⟨totLe_trans _ _ _ h.1.1 hbc.1, ?_⟩
      cases hca : totLe c a with
      | false => rfl
      | true =>
        have := totLe_trans _ _ _ hca h.1.1
        rw [hbc.2] at this; cases this

theorem sortedAdj_of_pairwise : ∀ {l : List P}, l.Pairwise (fun a b => totLe a b = true ∧ totLe b a = false) → sortedAdj l = true
  | [], _ => rfl
  | [a], _ => rfl
  | a :: b :: r, h => by
    have h' := List.pairwise_cons.mp h
    simp only [sortedAdj, Bool.and_eq_true, Bool.not_eq_true']
    exact ⟨h'.1 b List.mem_cons_self, sortedAdj_of_pairwise h'.2⟩

theorem cornerSpecOK_iff (n : Nat) (l : List P) : cornerSpecOK n l = true ↔ l = cornerFirst n := by
  constructor
  · intro h
    simp only [cornerSpecOK, Bool.and_eq_true, beq_iff_eq, List.all_eq_true, decide_eq_true_eq] at h
    obtain ⟨⟨hlen, hrange⟩, hs⟩ := h
    have hp := pairwise_of_sortedAdj hs
    have hnd : l.Nodup := hp.imp (fun {a b} h (e : a = b) => by
      subst e; rw [h.1] at h; exact absurd h.2 (by simp))
    have hsub : l ⊆ ndindex n := fun x hx => mem_ndindex.mpr (hrange x hx)
    have hperm : l ~ ndindex n :=
      (List.subperm_of_subset hnd hsub).perm_of_length_le (by rw [length_ndindex, hlen]; exact Nat.le_refl _)
    exact (List.Perm.eq_of_pairwise (le := fun a b => totLe a b = true) (fun _ _ _ _ h1 h2 => totLe_antisymm h1 h2)
      (pairwise_totLe_cornerFirst n) (hp.imp (fun h => h.1)) ((cornerFirst_perm n).trans hperm.symm)).symm
  · rintro rfl
    simp only [cornerSpecOK, Bool.and_eq_true, beq_iff_eq, List.all_eq_true, decide_eq_true_eq]
    refine ⟨⟨length_cornerFirst n, fun x hx => mem_cornerFirst.mp hx⟩, sortedAdj_of_pairwise ?_⟩
    have hnd := nodup_cornerFirst n
    have hs := pairwise_totLe_cornerFirst n
    rw [List.pairwise_iff_forall_sublist] at hs ⊢
    intro a b hab
    refine ⟨hs hab, ?_⟩
    cases hba : totLe b a with
    | false => rfl
    | true =>
      have : a = b := totLe_antisymm (hs hab) hba
      subst this
      have : [a, a].Nodup := hnd.sublist hab
      simp at this

end MZ.Vocab
