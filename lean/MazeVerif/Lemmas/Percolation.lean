import MazeVerif.Model.Gen
import MazeVerif.Lemmas.DfsFinal
/-! Percolation (generators.py:307-386): the thresholded, wall-filled random array. -/
namespace MZ

theorem mem_allSlots {rows cols : Nat} {e : Edge} :
    e ∈ allSlots rows cols ↔ (e.1 = 0 ∨ e.1 = 1) ∧ inGrid rows cols (e.2.1, e.2.2) := by
  obtain ⟨d, i, j⟩ := e
  simp only [allSlots, List.flatMap_cons, List.flatMap_nil, List.append_nil, List.mem_append, List.mem_map,
    Prod.mk.injEq]
  constructor
  · rintro (⟨c, hc, rfl, rfl, rfl⟩ | ⟨c, hc, rfl, rfl, rfl⟩)
    · exact ⟨Or.inl rfl, mem_cells.mp hc⟩
    · exact ⟨Or.inr rfl, mem_cells.mp hc⟩
  · rintro ⟨hd | hd, hg⟩
    · exact Or.inl ⟨(i, j), mem_cells.mpr hg, hd.symm, rfl, rfl⟩
    · exact Or.inr ⟨(i, j), mem_cells.mpr hg, hd.symm, rfl, rfl⟩

theorem allSlots_nodup (rows cols : Nat) : (allSlots rows cols).Nodup := by
  simp only [allSlots, List.flatMap_cons, List.flatMap_nil, List.append_nil]
  rw [List.nodup_append]
  refine ⟨?_, ?_, ?_⟩
  · exact (cells_nodup rows cols).map (fun a b h => by simpa [Prod.ext_iff] using h)
  · exact (cells_nodup rows cols).map (fun a b h => by simpa [Prod.ext_iff] using h)
  · intro a ha b hb
    simp only [List.mem_map] at ha hb
    obtain ⟨_, _, rfl⟩ := ha
    obtain ⟨_, _, rfl⟩ := hb
    simp

/-- a kept slot is a lattice edge between two grid cells -/
theorem keepSlot_wf {rows cols : Nat} {e : Edge} (hm : e ∈ allSlots rows cols) (hk : keepSlot rows cols e = true) :
    (e.1 = 0 ∨ e.1 = 1) ∧ inGrid rows cols (ends e).1 ∧ inGrid rows cols (ends e).2 := by
  obtain ⟨d, i, j⟩ := e
  obtain ⟨hd, hg⟩ := mem_allSlots.mp hm
  simp only [inGrid] at hg
  refine ⟨hd, ?_⟩
  rcases hd with hd | hd <;> simp only at hd <;> subst hd
  · simp [keepSlot] at hk; simp [ends, inGrid]; omega
  · simp [keepSlot] at hk; simp [ends, inGrid]; omega

theorem percolate_sub {rows cols p rands E} (h : percolate rows cols p rands = some E) :
    ∀ e ∈ E, e ∈ allSlots rows cols ∧ keepSlot rows cols e = true := by
  unfold percolate at h
  split at h
  · simp only [Option.some.injEq] at h; subst h
    intro e he
    simp only [List.mem_map, List.mem_filter, Bool.and_eq_true] at he
    obtain ⟨⟨e', r⟩, ⟨hz, _, hk⟩, rfl⟩ := he
    exact ⟨(List.of_mem_zip hz).1, hk⟩
  · simp at h

/-- every percolation outcome is well formed, whatever the random numbers -/
theorem percolate_wf {rows cols p rands E} (h : percolate rows cols p rands = some E) : WF rows cols E :=
  fun e he => keepSlot_wf (percolate_sub h e he).1 (percolate_sub h e he).2

theorem percolate_nodup {rows cols p rands E} (h : percolate rows cols p rands = some E) : E.Nodup := by
  unfold percolate at h
  split at h
  · next hl =>
    simp only [Option.some.injEq] at h; subst h
    have hz : (((allSlots rows cols).zip rands).map (·.1)).Nodup := by
      rw [List.map_fst_zip]; exact allSlots_nodup rows cols
      simp [allSlots, length_cells, hl, Nat.mul_assoc]; omega
    exact (List.Nodup.sublist (List.Sublist.map _ List.filter_sublist) hz)
  · simp at h

/-- `p = 0`: no connection at all -/
theorem percolate_p0 {rows cols : Nat} {pd : Nat} {rands E} (h : percolate rows cols (0, pd) rands = some E) : E = [] := by
  unfold percolate at h
  split at h
  · simp only [Option.some.injEq] at h; subst h
    simp [below]
  · simp at h

/-- `p = 1` and every random number in `[0,1)`: exactly the lattice edges of the grid -/
theorem percolate_p1 {rows cols : Nat} {pn : Nat} {rands E} (hp : 0 < pn)
    (hr : ∀ r ∈ rands, r.1 < r.2) (h : percolate rows cols (pn, pn) rands = some E) :
    E = (allSlots rows cols).filter (keepSlot rows cols) := by
  unfold percolate at h
  split at h
  · next hl =>
    simp only [Option.some.injEq] at h; subst h
    have hall : ∀ er ∈ (allSlots rows cols).zip rands, below er.2 (pn, pn) = true := by
      intro er her
      have := hr er.2 (List.of_mem_zip her).2
      simp only [below, decide_eq_true_eq]
      exact Nat.mul_lt_mul_of_lt_of_le' this (Nat.le_refl _) hp |> fun h => by
        rw [Nat.mul_comm pn er.2.2]; exact h
    have h1 : ((allSlots rows cols).zip rands).filter (fun er => below er.2 (pn, pn) && keepSlot rows cols er.1)
        = ((allSlots rows cols).zip rands).filter (fun er => keepSlot rows cols er.1) := by
      apply List.filter_congr
      intro er her; simp [hall er her]
    rw [h1]
    have h2 : ((allSlots rows cols).zip rands).filter (fun er => keepSlot rows cols er.1)
        = ((allSlots rows cols).zip rands).filter ((keepSlot rows cols) ∘ Prod.fst) := rfl
    rw [h2, ← List.filter_map, List.map_fst_zip]
    simp [allSlots, length_cells, hl, Nat.mul_assoc]; omega
  · simp at h

/-- the lattice edges of the grid, as a membership fact -/
theorem mem_latticeEdges {rows cols : Nat} {e : Edge} :
    e ∈ (allSlots rows cols).filter (keepSlot rows cols) ↔
      (e.1 = 0 ∧ inGrid rows cols (e.2.1, e.2.2) ∧ e.2.1 + 1 < rows) ∨
      (e.1 = 1 ∧ inGrid rows cols (e.2.1, e.2.2) ∧ e.2.2 + 1 < cols) := by
  obtain ⟨d, i, j⟩ := e
  simp only [List.mem_filter, mem_allSlots, keepSlot]
  constructor
  · rintro ⟨⟨hd | hd, hg⟩, hk⟩
    · subst hd; left; exact ⟨rfl, hg, by simpa using hk⟩
    · subst hd; right; exact ⟨rfl, hg, by simpa using hk⟩
  · rintro (⟨hd, hg, hk⟩ | ⟨hd, hg, hk⟩)
    · subst hd; exact ⟨⟨Or.inl rfl, hg⟩, by simpa using hk⟩
    · subst hd; exact ⟨⟨Or.inr rfl, hg⟩, by simpa using hk⟩

end MZ
