import MazeVerif.Model.Grid
import MazeVerif.Model.Component
import MazeVerif.Generated.Constants
/-! Executable models of the graph "views" of a maze (property C13). Core Lean only.

A maze is `rows`, `cols` and the list `E` of `True` entries `(dim,row,col)` of `connection_list`
(order and multiplicity of `E` are irrelevant: every function below only asks `e ∈ E`).

Python mirrored (maze_dataset/…):
* `lookup`              — numpy integer indexing `connection_list[d, i, j]` (negative indices wrap once, else IndexError)
* `nodesConnected`      — maze/lattice_maze.py `LatticeMaze.nodes_connected`        (178-189)
* `isValidPath`         — `LatticeMaze.is_valid_path`                               (191-209)
* `degreeAt/coordDegrees` — `LatticeMaze.coord_degrees`                            (211-225)
* `getCoordNeighbors`   — `LatticeMaze.get_coord_neighbors`                         (227-248)
* (`MZ.componentFrom` in Model/Component.lean — `LatticeMaze.gen_connected_component_from` (250-271); tied to `getCoordNeighbors` in Lemmas/Views.lean)
* `getNodes`            — `LatticeMaze.get_nodes`                                   (343-353)
* `asAdjList`           — token_utils.py `connection_list_to_adj_list`              (385-438) (= `LatticeMaze.as_adj_list`)
* `fromAdjList`         — `LatticeMaze.from_adj_list`                               (506-546)
* `isConnection`        — token_utils.py `is_connection`                            (441-451)
* `manhattan`           — utils.py `manhattan_distance`                             (95-112)
* `maxDegreeAt/latticeMaxDegrees` — utils.py `lattice_max_degrees`                  (115-122)
* `latticeConnectionArray` — utils.py `lattice_connection_array`                    (125-167)
* `forkIdxs/followingIdxs` — `SolvedMaze.get_solution_forking_points` / `get_solution_path_following_points` (1236-1271)
-/
namespace MZ.Views

inductive Err | indexError | valueError
  deriving DecidableEq, Repr

structure Maze where
  rows : Nat
  cols : Nat
  E : List Edge

/-- numpy integer indexing along an axis of length `n`: `0 ≤ i < n` as is, `-n ≤ i < 0` wraps, else IndexError -/
def npIndex (n : Nat) (i : Int) : Except Err Nat :=
  if 0 ≤ i ∧ i < (n : Int) then .ok i.toNat
  else if -(n : Int) ≤ i ∧ i < 0 then .ok (i + (n : Int)).toNat
  else .error .indexError

/-- `connection_list[d, i, j]` with numpy index semantics on the row/col axes (`d` is always 0 or 1 at the call sites) -/
def lookup (m : Maze) (d : Nat) (i j : Int) : Except Err Bool :=
  match npIndex m.rows i with
  | .error e => .error e
  | .ok i' =>
    match npIndex m.cols j with
    | .error e => .error e
    | .ok j' => .ok (decide ((d, (i' : Int), (j' : Int)) ∈ m.E))

/-- `nodes_connected(a, b)`: `delta = b - a`; not adjacent → False; `dim = argmax |delta|` (first maximum);
    node = `a` if `delta.sum() > 0` else `b`; answer = `connection_list[dim, node[0], node[1]]` -/
def nodesConnected (m : Maze) (a b : Cell) : Except Err Bool :=
  let d1 := b.1 - a.1
  let d2 := b.2 - a.2
  if d1.natAbs + d2.natAbs ≠ 1 then .ok false
  else
    let dim : Nat := if d1.natAbs ≥ d2.natAbs then 0 else 1
    let node := if d1 + d2 > 0 then a else b
    lookup m dim node.1 node.2

/-- sequential filter with an effectful predicate (a list comprehension whose condition may raise) -/
def filterE {α} (p : α → Except Err Bool) : List α → Except Err (List α)
  | [] => .ok []
  | x :: xs =>
    match p x with
    | .error e => .error e
    | .ok b =>
      match filterE p xs with
      | .error e => .error e
      | .ok r => .ok (if b then x :: r else r)

/-- sequential map with an effectful function -/
def mapE {α β} (f : α → Except Err β) : List α → Except Err (List β)
  | [] => .ok []
  | x :: xs =>
    match f x with
    | .error e => .error e
    | .ok y =>
      match mapE f xs with
      | .error e => .error e
      | .ok r => .ok (y :: r)

/-- `c + NEIGHBORS_MASK` in the order of the (regenerated) constant -/
def candidates (c : Cell) : List Cell := Gen.neighborsMask.map (fun d => (c.1 + d.1, c.2 + d.2))

/-- `get_coord_neighbors(c)`: candidates in mask order kept when in bounds `and` connected (short-circuit) -/
def getCoordNeighbors (m : Maze) (c : Cell) : Except Err (List Cell) :=
  filterE (fun n => if inGrid m.rows m.cols n then nodesConnected m c n else .ok false) (candidates c)

/-- `is_valid_path` loop over consecutive pairs -/
def allConnected (m : Maze) : List Cell → Except Err Bool
  | a :: b :: rest =>
    match nodesConnected m a b with
    | .error e => .error e
    | .ok false => .ok false
    | .ok true => allConnected m (b :: rest)
  | _ => .ok true

/-- `is_valid_path(path, empty_is_valid)` -/
def isValidPath (m : Maze) (path : List Cell) (emptyIsValid : Bool) : Except Err Bool :=
  if path.isEmpty then .ok emptyIsValid
  else if ¬ (path.all fun c => decide (inGrid m.rows m.cols c)) then .ok false
  else allConnected m path

/-- one entry of `connection_list.astype(int8)` -/
def bit (m : Maze) (d i j : Nat) : Nat := if (d, (i : Int), (j : Int)) ∈ m.E then 1 else 0

/-- `coord_degrees()[i, j]`: `sum(axis=0)`, then `degrees[:,1:] += int_conn[1,:,:-1]`, `degrees[1:,:] += int_conn[0,:-1,:]` -/
def degreeAt (m : Maze) (i j : Nat) : Nat :=
  bit m 0 i j + bit m 1 i j + (if 1 ≤ j then bit m 1 i (j - 1) else 0) + (if 1 ≤ i then bit m 0 (i - 1) j else 0)

def coordDegrees (m : Maze) : List (List Nat) :=
  (List.range m.rows).map fun i => (List.range m.cols).map fun j => degreeAt m i j

/-- fuel that always suffices for `MZ.componentFrom` (the model of `gen_connected_component_from`, in
    `Model/Component.lean`, shared with C12/C03); proved in `C13_component_total` -/
def componentFuel (rows cols : Nat) : Nat := 5 * (rows * cols) + 2

/-- `get_nodes()`: `meshgrid(range(rows), range(cols), indexing="ij")`, `vstack((rows.ravel(), cols.ravel())).T` -/
def getNodes (m : Maze) : List Cell :=
  let rowsRavel : List Int := (List.range m.rows).flatMap fun (i : Nat) => List.replicate m.cols (i : Int)
  let colsRavel : List Int := (List.range m.rows).flatMap fun (_ : Nat) => (List.range m.cols).map fun (j : Nat) => (j : Int)
  rowsRavel.zip colsRavel

/-- `np.ndindex(conn_list.shape)` for shape `(2, rows, cols)` -/
def ndindex (rows cols : Nat) : List Edge :=
  (List.range 2).flatMap fun (d : Nat) => (List.range rows).flatMap fun (i : Nat) =>
    (List.range cols).map fun (j : Nat) => (d, (i : Int), (j : Int))

/-- the `True` entries in `ndindex` order (the order `connection_list_to_adj_list` visits them) -/
def trueEntries (m : Maze) : List Edge := (ndindex m.rows m.cols).filter fun e => decide (e ∈ m.E)

/-- `c_start = (x, y)`, `c_end = (x + (1 if d == 0 else 0), y + (1 if d == 1 else 0))` -/
def pairOf (e : Edge) : Cell × Cell :=
  ((e.2.1, e.2.2), (e.2.1 + (if e.1 = 0 then 1 else 0), e.2.2 + (if e.1 = 1 then 1 else 0)))

/-- `flip_d1[i] > 0.5` swaps pair `i`; no flips at all when `shuffle_d1=False` -/
def applyFlips : List (Cell × Cell) → List Bool → List (Cell × Cell)
  | [], _ => []
  | p :: ps, [] => p :: ps
  | p :: ps, f :: fs => (if f then (p.2, p.1) else p) :: applyFlips ps fs

/-- `connection_list_to_adj_list` before the final `np.random.shuffle` (which is handled relationally: the
    implementation's output must be a permutation of this list) -/
def asAdjList (m : Maze) (flips : List Bool) : List (Cell × Cell) :=
  applyFlips ((trueEntries m).map pairOf) flips

/-- `adj_list.max()` -/
def maxL : List Int → Option Int
  | [] => none
  | x :: xs => some (xs.foldl max x)

def coordsOf (adj : List (Cell × Cell)) : List Int := adj.flatMap fun p => [p.1.1, p.1.2, p.2.1, p.2.2]

/-- body of the `from_adj_list` loop for one pair, on an `n × n` array -/
def entryOf (n : Nat) (p : Cell × Cell) : Except Err Edge :=
  let s := p.1
  let e := p.2
  let same : Nat := (if s.1 = e.1 then 1 else 0) + (if s.2 = e.2 then 1 else 0)
  if same ≠ 1 then .error .valueError
  else
    let d : Nat := if s.1 ≠ e.1 then 0 else 1        -- `(c_start != c_end).argmax()`
    let sd := if d = 0 then s.1 else s.2
    let ed := if d = 0 then e.1 else e.2
    let xy := if sd < ed then s else e
    match npIndex n xy.1 with
    | .error er => .error er
    | .ok x =>
      match npIndex n xy.2 with
      | .error er => .error er
      | .ok y => .ok (d, (x : Int), (y : Int))

/-- `LatticeMaze.from_adj_list`: `grid_n = adj_list.max() + 1` (ValueError on an empty list / negative size),
    then one write per pair -/
def fromAdjList (adj : List (Cell × Cell)) : Except Err Maze :=
  match maxL (coordsOf adj) with
  | none => .error .valueError
  | some mx =>
    if mx + 1 < 0 then .error .valueError
    else
      let n := (mx + 1).toNat
      match mapE (entryOf n) adj with
      | .error e => .error e
      | .ok es => .ok ⟨n, n, es⟩

/-- `is_connection` for one edge: `np.sort(edges, axis=1)` sorts the two rows and the two columns independently;
    direction 1 iff the row difference is 0; lookup at the column-wise minimum -/
def isConnection1 (m : Maze) (p : Cell × Cell) : Except Err Bool :=
  let lo : Cell := (min p.1.1 p.2.1, min p.1.2 p.2.2)
  let hi : Cell := (max p.1.1 p.2.1, max p.1.2 p.2.2)
  let dir : Nat := if hi.1 - lo.1 = 0 then 1 else 0
  lookup m dir lo.1 lo.2

def isConnection (m : Maze) (edges : List (Cell × Cell)) : Except Err (List Bool) := mapE (isConnection1 m) edges

/-- `manhattan_distance` of one pair -/
def manhattan (a b : Cell) : Nat := (a.1 - b.1).natAbs + (a.2 - b.2).natAbs

/-- `lattice_max_degrees(n)[i, j]`: `full((n,n),2)`, `out[1:-1,:] += 1`, `out[:,1:-1] += 1` -/
def maxDegreeAt (n i j : Nat) : Nat :=
  2 + (if 1 ≤ i ∧ i + 1 < n then 1 else 0) + (if 1 ≤ j ∧ j + 1 < n then 1 else 0)

def latticeMaxDegrees (n : Nat) : List (List Nat) :=
  (List.range n).map fun i => (List.range n).map fun j => maxDegreeAt n i j

/-- `lattice_connection_array(n)`: horizontal edges (row-major over `[:, :-1]`) then vertical edges (row-major over `[:-1, :]`) -/
def latticeConnectionArray (n : Nat) : List (Cell × Cell) :=
  ((List.range n).flatMap fun (i : Nat) => (List.range (n - 1)).map fun (j : Nat) =>
      ((((i : Int), (j : Int)), ((i : Int), (j : Int) + 1)) : Cell × Cell)) ++
  ((List.range (n - 1)).flatMap fun (i : Nat) => (List.range n).map fun (j : Nat) =>
      ((((i : Int), (j : Int)), ((i : Int) + 1, (j : Int))) : Cell × Cell))

/-- the test of `get_solution_forking_points` for index `idx` whose cell has `cnt` connected neighbours:
    `is_endpoint = idx == 0 or idx == len - 1`, `threshold = 1 if is_endpoint else 2`,
    `cnt > threshold or (is_endpoint and always_include_endpoints)` -/
def forkCond (len idx cnt : Nat) (always : Bool) : Bool :=
  let isEnd : Bool := decide (idx = 0) || decide (idx + 1 = len)
  decide (cnt > (if isEnd then 1 else 2)) || (isEnd && always)

/-- the loop of `get_solution_forking_points` from index `idx` on (`len = solution.shape[0]`) -/
def forkLoop (m : Maze) (len : Nat) (always : Bool) : Nat → List Cell → Except Err (List Nat)
  | _, [] => .ok []
  | idx, c :: rest =>
    match getCoordNeighbors m c with
    | .error e => .error e
    | .ok ns =>
      match forkLoop m len always (idx + 1) rest with
      | .error e => .error e
      | .ok r => .ok (if forkCond len idx ns.length always then idx :: r else r)

def forkIdxs (m : Maze) (sol : List Cell) (always : Bool) : Except Err (List Nat) :=
  forkLoop m sol.length always 0 sol

/-- `np.delete(arr, idxs, axis=0)` for in-range indices -/
def npDelete {α} (l : List α) (idxs : List Nat) : List α :=
  (l.zipIdx.filter fun p => decide (p.2 ∉ idxs)).map (·.1)

/-- index part of `get_solution_path_following_points` -/
def followingIdxs (m : Maze) (sol : List Cell) : Except Err (List Nat) :=
  match forkIdxs m sol false with
  | .error e => .error e
  | .ok f => .ok (npDelete (List.range sol.length) f)

end MZ.Views
